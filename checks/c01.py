"""C01 - streaming compression round-trips for every input, setting and call history.

Layers of one run:
  proof stage      coq/props/C01.v (WrapPosition, configuration, ring buffer, header writers, stream composition)
  spec on impl     every call succeeds, the stream finishes, brotli-decompressor AND Google libbrotlidec AND the
                   extracted RFC 7932 decoder D (coq/spec/Decoder.v) return exactly the input
  translation validation   D's parse of every emitted stream succeeds (it rejects every ill-formed meta-block)
  correspondence   model vs implementation: configuration after initialisation, WrapPosition, ring-buffer writes;
                   the ring-buffer statement evaluated on the real buffer after every script
  framework self-test   D against both reference decoders on malformed streams (bit flips, truncations, appended
                   bytes of valid streams): accept/reject and bytes must agree up to the documented classes
"""
import json, os, random, sys
import vlib

PROP = "C01"
LEVEL = "proof"

KINDS = ["text", "rand", "zero", "skew", "period", "mix", "runs", "fib", "utf8", "bin", "html", "far300", "far5000"]
INFO_KEYS = {1: "compressed_metablocks", 2: "uncompressed_metablocks", 3: "metadata_metablocks", 4: "empty_last_metablock",
             5: "last_metablock_with_data", 6: "commands", 7: "static_dictionary_refs", 8: "nbltypes_literal", 9: "nbltypes_command",
             10: "nbltypes_distance", 11: "ntrees_literal", 12: "ntrees_distance", 13: "npostfix_nonzero", 14: "ndirect_nonzero",
             15: "context_mode_lsb6", 16: "context_mode_msb6", 17: "context_mode_utf8", 18: "context_mode_signed",
             19: "simple_prefix_codes", 20: "complex_prefix_codes", 21: "implicit_distance_commands", 22: "short_code_distances",
             23: "overlapping_copies", 24: "large_window_form", 25: "wbits", 26: "block_switches", 27: "context_map_imtf",
             28: "context_map_rle", 29: "literals", 30: "max_distance_used", 31: "distance_equal_to_window", 32: "single_symbol_codes",
             33: "last_metablock_metadata"}

# Malformed-stream self-test: D must agree with Google's libbrotlidec (the reference implementation) on accept/reject
# and on the bytes; "bytes follow the last meta-block" (D error 16) corresponds to success with unconsumed input ('T').
# brotli-decompressor 4.0.3 is more lenient than RFC 7932 in three documented classes, where it accepts what D and
# libbrotlidec reject:
#    6  non-zero fill bits after the last meta-block (its BROTLI_DECODER_ERROR_FORMAT_PADDING_2 is overwritten by the
#       result of the final WriteRingBuffer)
#   10  an insert length that runs past MLEN          11  a copy / dictionary word that runs past MLEN
#       (it ends the meta-block when the remaining length is <= 0 without checking for < 0)
RUST_LENIENT = {6, 10, 11}


def build_harness(profile):
    """the harness is built against /repo; with VERIF_REPO set (mutation self-test on a copy of the tree) a
    private copy of the harness crate pointing at that tree is built into its own target directory"""
    import shutil
    repo = os.environ.get("VERIF_REPO")
    if not repo or os.path.abspath(repo) == "/repo":
        return vlib.harness_build("c01", profile)
    src = os.path.join(vlib.ROOT, "harness")
    dst = os.path.join(vlib.BUILD, "mut_c01", "harness")
    os.makedirs(os.path.join(dst, "src", "bin"), exist_ok=True)
    os.makedirs(os.path.join(dst, ".cargo"), exist_ok=True)
    tgt = os.path.join(vlib.BUILD, "mut_c01", "target")
    open(os.path.join(dst, "Cargo.toml"), "w").write(open(os.path.join(src, "Cargo.toml")).read().replace('path = "/repo"', 'path = "%s"' % repo))
    open(os.path.join(dst, ".cargo", "config.toml"), "w").write('[net]\noffline = true\n[build]\ntarget-dir = "%s"\n' % tgt)
    for f in ("lib.rs", "streamlib.rs"):
        shutil.copy(os.path.join(src, "src", f), os.path.join(dst, "src", f))
    shutil.copy(os.path.join(src, "src", "bin", "c01.rs"), os.path.join(dst, "src", "bin", "c01.rs"))
    if os.path.exists(os.path.join(src, "Cargo.lock")):
        shutil.copy(os.path.join(src, "Cargo.lock"), os.path.join(dst, "Cargo.lock"))
    with vlib.Lock("cargo-mut-c01"):
        rc, out = vlib.sh("timeout 1500 cargo build --offline %s --bin c01 2>&1" % ("" if profile == "dev" else "--release"),
                          cwd=dst, env={"RUSTFLAGS": "--cfg %s" % vlib.GUARD}, timeout=1600)
    return rc == 0, out, os.path.join(tgt, "debug" if profile == "dev" else "release", "c01")


def pstr(d):
    return ",".join("%d:%d" % (k, v) for k, v in d)


def sanitized(params):
    """python twin of the documented clamping, only used to pick interesting sizes"""
    d = dict(params)
    q = d.get(1, 11)
    q = min(11, max(0, q if q < (1 << 31) else q - (1 << 32)))
    w = d.get(2, 22)
    lw = d.get(6, 0) != 0
    w = 10 if w < 10 else (min(w, 30) if lw else min(w, 24)) if w > 24 else w
    b = d.get(3, 0)
    if q <= 1:
        lb = w
    elif q < 4:
        lb = 14
    elif b == 0:
        lb = min(18, w) if (q >= 9 and w > 16) else 16
    else:
        lb = min(24, max(16, b))
    return q, w, lb


def script(rng, n, style, lb):
    """logical call list + output capacities for an input of n bytes"""
    blk = 1 << lb
    if style == "one":
        return "eR", rng.choice(["65536", "1048576"]), 0
    if style == "tiny-out":
        return "eR", rng.choice(["1", "1,2,3", "2", "17", "1,65536"]), 0
    if style == "take":
        return "eR", "0", rng.choice([1, 7, 1000, 1 << 20])
    calls = []
    left = n
    k = rng.randrange(1, 9)
    for _ in range(k):
        c = rng.choice([0, 1, 2, 3, 17, 100, 1000, blk - 1, blk, blk + 1, 3 * blk + 5, left // 2 + 1])
        c = min(c, left)
        op = "f" if rng.random() < (0.5 if style == "flush" else 0.2) else "p"
        calls.append("%s%d" % (op, c))
        left -= c
    calls.append("eR")
    caps = rng.choice(["1", "1,2,3", "17", "65536", "5,1048576", "3,1,4,1,5,9,2,6"]) if style != "flush" or rng.random() < 0.5 else "65536"
    return ",".join(calls), caps, 0


def gen_cases(run, thorough):
    rng = run.rng
    cases = []

    def add(section, params, kind, n, seed, style, nohex=False):
        q, w, lb = sanitized(params)
        calls, caps, take = script(rng, n, style, lb)
        line = "E P=%s D=%s:%d:%d L=%s CAPS=%s" % (pstr(params), kind, n, seed, calls, caps if take == 0 else "1")
        if take:
            line += " T=%d" % take
        if nohex:
            line += " NOHEX=1"
        d = dict(params)
        cases.append((line, {"section": section, "quality": q, "quality_set": d.get(1, 11), "lgwin": w, "lgwin_set": d.get(2, 22),
                             "lgblock": lb, "lgblock_set": d.get(3, 0), "mode": d.get(0, 0), "large_window": int(d.get(6, 0) != 0),
                             "kind": kind, "n": n, "style": style, "params": dict(("p%d" % k, v) for k, v in params)}))

    heavy_n = lambda q: rng.choice([0, 1, 2, 3, 50, 700, 3000, 9000]) if q >= 10 else rng.choice([0, 1, 2, 3, 10, 100, 1000, 5000, 20000, 70000])
    sd = lambda: rng.randrange(1, 1 << 30)
    mult = 8 if thorough else 1
    # A. every quality (and out-of-range values) x every data kind
    for q in [-3, 0, 1, 2, 3, 4, 5, 6, 7, 8, 9, 10, 11, 12, 99]:
        for kind in KINDS:
            for _ in range(mult):
                add("quality-x-kind", [(1, q), (2, rng.choice([10, 12, 16, 18, 20, 22, 24]))], kind, heavy_n(min(11, q)), sd(),
                    rng.choice(["one", "one", "tiny-out", "chunks", "flush"]))
    # B. every value of every single parameter
    singles = []
    singles += [[(2, w)] for w in [0, 9, 10, 11, 12, 13, 14, 15, 16, 17, 18, 19, 20, 21, 22, 23, 24, 25, 31, 50]]
    singles += [[(6, 1), (2, w)] for w in [9, 10, 16, 24, 25, 26, 27, 28, 29, 30, 31, 50]]
    singles += [[(3, b)] for b in [0, 1, 15, 16, 17, 18, 19, 20, 21, 22, 23, 24, 25, 99]]
    singles += [[(0, m)] for m in range(0, 8)]
    singles += [[(150, 1)], [(150, 0)], [(5, 0)], [(5, 1)], [(5, 1000)], [(5, 1 << 20)], [(5, (1 << 22) + 1)], [(5, (1 << 32) - 1)],
                [(168, 1)], [(167, 1)], [(169, 1)], [(167, 1), (169, 1)], [(168, 1), (169, 1)], [(4, 0)], [(4, 1)], [(4, 2)],
                [(154, 0)], [(154, 1)], [(154, 100)], [(154, 340)], [(154, 540)], [(154, 1000)], [(154, (1 << 31) - 1)],
                [(152, 1)], [(152, 2)], [(153, 1)], [(153, 2)], [(155, 1)], [(155, 2)], [(156, 1)], [(166, 1)], [(171, 1)], [(151, 1)]]
    for s in singles:
        for q in ([0, 1, 2, 4, 5, 7, 9] + ([10, 11] if rng.random() < (0.6 if thorough else 0.25) else [])):
            if rng.random() > (1.0 if thorough else 0.55):
                continue
            base = [(1, q)] + ([(2, rng.choice([16, 18, 22]))] if not any(k == 2 for k, _ in s) else [])
            kind = rng.choice(KINDS)
            n = heavy_n(q) if q >= 10 else rng.choice([0, 3, 1000, 30000, 80000])
            add("single-parameter", base + s, kind, n, sd(), rng.choice(["one", "chunks", "tiny-out", "flush"]))
    # C. random combinations of everything
    for _ in range(800 * mult):
        q = rng.choice([0, 1, 2, 3, 4, 5, 6, 7, 8, 9, 9, 10, 11, 11, -1, 12])
        if q >= 10 and rng.random() < 0.5:
            q = rng.choice([2, 5, 9])
        p = [(1, q)]
        lw = rng.random() < 0.3
        if lw:
            p.append((6, 1))
        p.append((2, rng.choice([10, 11, 12, 14, 16, 17, 18, 20, 22, 24] + ([25, 26, 27, 28, 30] if lw else []))))
        for k, vals, pr in ((3, [0, 16, 17, 18, 20, 24], 0.3), (0, [0, 1, 2, 3, 4, 5, 6], 0.6), (150, [1], 0.15), (5, [1, 100, 1 << 20, 1 << 23], 0.2),
                            (168, [1], 0.15), (167, [1], 0.15), (169, [1], 0.15), (4, [1], 0.15), (154, [0, 340, 1000], 0.15),
                            (152, [1, 2], 0.05), (153, [1], 0.05), (155, [1], 0.05), (156, [1], 0.05), (166, [1], 0.1), (171, [1], 0.05)):
            if rng.random() < pr:
                p.append((k, rng.choice(vals)))
        qs, w, lb = sanitized(p)
        if qs >= 10:
            n = rng.choice([0, 1, 3, 100, 2000, 8000, 20000])
        else:
            n = rng.choice([0, 1, 2, 3, 64, 1000, (1 << lb) - 1, 1 << lb, (1 << lb) + 1, 5000, 40000, 150000, 300000])
            n = min(n, 400000)
        add("random-combination", p, rng.choice(KINDS), n, sd(), rng.choice(["one", "chunks", "chunks", "flush", "tiny-out", "take"]))
    # D. tiny inputs x small buffers x every quality class
    for q in range(0, 12):
        for n in (0, 1, 2, 3, 4):
            for style in ("tiny-out", "take", "flush"):
                p = [(1, q), (2, rng.choice([10, 16, 22]))] + ([(167, 1)] if rng.random() < 0.3 else [])
                add("tiny-input", p, rng.choice(["text", "rand", "zero"]), n, sd(), style)
    # E. inputs longer than the window and the ring buffer
    for _ in range(60 * mult):
        q = rng.choice([0, 1, 2, 3, 4, 5, 6, 7, 8, 9])
        w = rng.choice([10, 10, 11, 12, 13])
        p = [(1, q), (2, w)] + ([(167, 1)] if (q <= 1 or rng.random() < 0.2) else [])
        qs, ws, lb = sanitized(p)
        ring = 1 << (1 + max(ws, lb))
        n = min(ring * rng.choice([1, 2, 3]) + rng.randrange(0, 5000), 400000)
        kind = rng.choice(["text", "mix", "html", "far%d" % ((1 << ws) - 16), "far%d" % ((1 << ws) - 15), "far%d" % ((1 << ws) - 17),
                           "far%d" % (1 << ws), "rand", "period"])
        add("beyond-window-and-ring", p, kind, n, sd(), rng.choice(["one", "chunks", "flush"]))
    # F. the cell the property names: large window x FONT x quality >= 10 (and the neighbours)
    for q in (9, 10, 11):
        for mode in (0, 2):
            for w in (25, 26, 28, 30):
                for n in (0, 1, 100, 3000):
                    if q >= 10 and n == 3000 and rng.random() < 0.5 and not thorough:
                        continue
                    add("large-window-font", [(1, q), (0, mode), (6, 1), (2, w)], rng.choice(["bin", "text", "html", "rand"]), n, sd(),
                        rng.choice(["one", "flush", "tiny-out"]))
    # G. incompressible data around block boundaries (uncompressed fallback)
    for q in (0, 1, 2, 4, 5, 9):
        for lb_target in (14, 16, 18):
            # quality 0/1: the block is the window (lgblock = lgwin)
            p = ([(1, q), (2, max(16, lb_target))] if q <= 1 else
                 [(1, q), (2, rng.choice([16, 18, 22]))] + ([(3, lb_target)] if lb_target >= 16 else []))
            qs, ws, lb = sanitized(p)
            for d in (-1, 0, 1):
                add("incompressible-block-boundary", p, "rand", (1 << lb) + d, sd(), rng.choice(["one", "chunks"]))
    # I. encoder-side tracking of the decoder's state across meta-blocks that end up stored: segments of PRNG bytes
    #    with one embedded repeat at a fresh distance (the match finder advances the last-distance ring, the block is
    #    then re-emitted uncompressed: via should_compress == false when the repeat is < 1% of the block, via
    #    "bigger than the input" otherwise), each followed by a segment whose repeat uses the same distance, that
    #    distance +-1..3, or one of the decoder's initial ring values; delimited by FLUSH, or by the block size alone
    for q in range(2, 12):
        for _ in range((3 if q >= 10 else 5) * (3 if thorough else 1)):
            seg = rng.choice([200, 400, 700, 1000, 1500, 2500, 4000, 7000]) if q < 10 else rng.choice([200, 400, 700, 1000, 1500])
            nseg = rng.randrange(4, 10)
            p = [(1, q), (2, rng.choice([10, 12, 16, 18, 22, 24]))]
            r = rng.random()
            if r < 0.2:
                p.append((167, 1))
            elif r < 0.35:
                p.append((168, 1))
            if rng.random() < 0.15:
                p += [(6, 1), (2, rng.choice([25, 28]))]
            line = "E P=%s D=rs%d:%d:%d L=%s CAPS=%s" % (pstr(p), seg, seg * nseg, sd(), ",".join(["f%d" % seg] * (nseg - 1) + ["eR"]),
                                                      rng.choice(["65536", "65536", "1,2,3", "17"]))
            d = dict(p)
            qs, w, lb = sanitized(p)
            cases.append((line, {"section": "ring-tracking-flush", "quality": qs, "quality_set": q, "lgwin": w, "lgwin_set": d.get(2, 22), "lgblock": lb,
                                 "lgblock_set": 0, "mode": 0, "large_window": int(d.get(6, 0) != 0), "kind": "rs%d" % seg, "n": seg * nseg, "style": "flush-per-segment",
                                 "params": dict(("p%d" % k, v) for k, v in p)}))
    for q in (2, 3, 4, 5, 9):
        for _ in range(2 * (2 if thorough else 1)):
            p = [(1, q), (2, rng.choice([16, 18, 22]))] + ([(167, 1)] if rng.random() < 0.2 else [])
            qs, w, lb = sanitized(p)
            seg = 1 << lb
            nseg = rng.randrange(4, 7)
            if seg * nseg > 400000:
                nseg = 4
            line = "E P=%s D=rs%d:%d:%d L=%s CAPS=65536" % (pstr(p), seg, seg * nseg, sd(), rng.choice(["eR", "p%d,eR" % (seg * nseg), ",".join(["p%d" % seg] * (nseg - 1) + ["eR"])]))
            cases.append((line, {"section": "ring-tracking-block-boundary", "quality": qs, "quality_set": q, "lgwin": w, "lgwin_set": w, "lgblock": lb,
                                 "lgblock_set": 0, "mode": 0, "large_window": 0, "kind": "rs%d" % seg, "n": seg * nseg, "style": "no-flush",
                                 "params": dict(("p%d" % k, v) for k, v in p)}))
    # J. large literal_byte_score (parameter 154): the score of a static-dictionary match grows with it, so that
    #    degenerate dictionary matches win over everything else (finding C01-one-byte-dictionary-match-self-copy,
    #    fixed by 4c6c0ca: roughly 1 in 30 PRNG inputs of 30 KB at qualities 5-9)
    for score in (2400, 4000, 100000, (1 << 31) - 1):
        for q in (5, 6, 7, 9, 2, 3, 4):
            for i in range((7 if q >= 5 else 1) * (2 if thorough else 1)):
                add("large-literal-byte-score", [(1, q), (2, rng.choice([18, 22, 24])), (154, score)], "rand", rng.randrange(20000, 36001), sd(), "one")
            add("large-literal-byte-score", [(1, q), (2, 22), (154, score)], rng.choice(["text", "mix", "html"]), rng.randrange(20000, 40001), sd(), "one")
        for q in (5, 9):
            add("large-literal-byte-score", [(1, q), (2, 22), (154, score), (151, 1)], "rand", rng.randrange(20000, 40001), sd(), "one")
    # H. thorough only: inputs beyond 2^24 bytes (several maximal meta-blocks, lgblock 24 blocks, quality 0/1 fragments
    #    larger than MLEN can express); judged by the two reference decoders only (NOHEX: too large for the extracted D)
    if thorough:
        for p, kind, n in (([(1, 0), (2, 24)], "rand", (1 << 24) + 5000), ([(1, 1), (6, 1), (2, 30)], "rand", (1 << 24) + 70001),
                           ([(1, 0), (6, 1), (2, 28)], "mix", (1 << 25) + 3), ([(1, 2), (2, 24)], "rand", (1 << 24) + 1),
                           ([(1, 4), (2, 24), (3, 24)], "html", (1 << 25) + 12345), ([(1, 5), (2, 24), (3, 24)], "rand", (1 << 24) + 99),
                           ([(1, 9), (6, 1), (2, 26), (3, 24)], "text", (1 << 24) + 777), ([(1, 7), (2, 22), (167, 1)], "far4194288", 1 << 24)):
            add("beyond-2^24", p, kind, n, sd(), rng.choice(["one", "chunks"]), nohex=True)
    rng.shuffle(cases)
    return cases


_PR = {}


def parse_r(line):
    """`R key=value ...`; the value of st= may be a panic message with blanks in it"""
    if not line.startswith("R "):
        return None
    key = id(line)
    if key in _PR and _PR[key][0] is line:
        return _PR[key][1]
    d = _parse_r(line)
    _PR[key] = (line, d)
    return d


def _parse_r(line):
    import re
    m = re.match(r"R st=(.*?) fin=(\d) (.*)$", line)
    if not m:
        return None
    d = {"st": m.group(1), "fin": m.group(2)}
    for x in m.group(3).split():
        if "=" in x:
            k, v = x.split("=", 1)
            d[k] = v
    return d


def parse_stored(hexs):
    """(lgwin, large, [MLEN of each uncompressed meta-block]) when the stream consists of uncompressed meta-blocks
    followed by the empty last meta-block only, else None (python twin of nothing: only finds the chunk boundaries
    so that the model of the stored-stream writer can be asked for the same chunks)"""
    b = bytes.fromhex(hexs)
    nbits = 8 * len(b)
    pos = [0]

    def rd(n):
        if pos[0] + n > nbits:
            raise ValueError
        v = 0
        for i in range(n):
            v |= ((b[(pos[0] + i) >> 3] >> ((pos[0] + i) & 7)) & 1) << i
        pos[0] += n
        return v
    try:
        large = False
        if rd(1) == 0:
            w = 16
        else:
            n = rd(3)
            if n:
                w = 17 + n
            else:
                m = rd(3)
                if m == 0:
                    w = 17
                elif m == 1:
                    if rd(1):
                        return None
                    w, large = rd(6), True
                else:
                    w = 8 + m
        lens, data = [], bytearray()
        while True:
            if rd(1):           # ISLAST
                if rd(1) != 1:
                    return None
                break
            code = rd(2)
            if code == 3:
                return None     # metadata
            mlen = rd(4 * (4 + code)) + 1
            if rd(1) != 1:
                return None     # compressed
            pos[0] = (pos[0] + 7) & ~7
            if pos[0] + 8 * mlen > nbits:
                return None
            data += b[pos[0] >> 3:(pos[0] >> 3) + mlen]
            pos[0] += 8 * mlen
            lens.append(mlen)
        return w, large, lens, data.hex()
    except ValueError:
        return None


def mutants(rng, hexs, k):
    """k mutants of a valid stream: bit flips, truncations, appended bytes, byte substitutions"""
    b = bytearray.fromhex(hexs)
    out = []
    n = len(b)
    for _ in range(k):
        r = rng.random()
        m = bytearray(b)
        if r < 0.55 and n:
            # bit flips are biased towards the header region, where most of the structure is
            i = rng.randrange(0, min(n, 40)) if rng.random() < 0.6 else rng.randrange(0, n)
            m[i] ^= 1 << rng.randrange(8)
            what = "flip"
        elif r < 0.75 and n:
            m = m[:rng.randrange(0, n)]
            what = "truncate"
        elif r < 0.85:
            m += bytes([rng.choice([0, 1, 3, 0x3b, 255, rng.randrange(256)])])
            what = "append"
        elif n:
            m[rng.randrange(0, n)] = rng.randrange(256)
            what = "substitute"
        else:
            m = bytearray([rng.randrange(256)])
            what = "substitute"
        out.append((what, m.hex() or "-"))
    return out


def selftest_decoder(run, impl_exe, model, streams, thorough):
    """framework self-test: D vs both reference decoders on malformed streams"""
    rng = run.rng
    per = 60 if thorough else 24
    reqs = []
    for lw, hx in streams:
        for what, m in mutants(rng, hx, per):
            reqs.append((what, lw, m))
    xs = vlib.run_lines(impl_exe, ["X %d %s" % (lw, m) for _, lw, m in reqs], timeout=1200)
    ds = vlib.run_lines(model, ["D %d %s" % (lw, m) for _, lw, m in reqs], timeout=1200)
    stats = {"mutants": len(reqs), "agree_accept": 0, "agree_reject": 0, "documented_difference": 0, "disagree": 0, "by_kind": {},
             "d_error_codes": {}, "google_available": 0, "rust_lenient": {}}
    bad = []
    for (what, lw, m), x, d in zip(reqs, xs, ds):
        f = dict(t.split("=", 1) for t in x.split()) if x.startswith("rd=") else {}
        rd, gd = f.get("rd", "?"), f.get("gd", "?")
        stats["by_kind"][what] = stats["by_kind"].get(what, 0) + 1
        if gd != "na":
            stats["google_available"] += 1
        dd = d.split()
        if dd and dd[0] == "OK":
            want = "A:%s:%s" % (dd[1], dd[2])
            if rd == want and gd in (want, "na"):
                stats["agree_accept"] += 1
            else:
                stats["disagree"] += 1
                bad.append((what, lw, m, x, d))
        elif dd and dd[0] == "ERR":
            code = int(dd[1])
            stats["d_error_codes"][str(code)] = stats["d_error_codes"].get(str(code), 0) + 1
            g_want = "T" if code == 16 else "R"
            g_ok = gd == "na" or gd[:1] == g_want
            if g_ok and rd[:1] == g_want:
                stats["agree_reject"] += 1
            elif g_ok and code in RUST_LENIENT and rd[:1] in ("A", "T"):
                stats["documented_difference"] += 1
                stats["rust_lenient"][str(code)] = stats["rust_lenient"].get(str(code), 0) + 1
            else:
                stats["disagree"] += 1
                bad.append((what, lw, m, x, d))
        else:
            stats["disagree"] += 1
            bad.append((what, lw, m, x, d))
    for what, lw, m, x, d in bad[:5]:
        run.report("proof-obligation", {"stage": "decoder-spec-selftest", "mutation": what, "allow_large": lw, "stream_hex": m},
                   {"reference_decoders": x, "D": d},
                   broken="framework self-test: the RFC 7932 decoder spec D (coq/spec/Decoder.v) and the reference decoders disagree on a malformed stream - a bug in the spec, not a property violation",
                   found_input=False)
    return stats


def check(run):
    import time
    thorough = run.tier == "thorough"
    t0 = time.time()
    phases = {}

    def mark(name):
        phases[name] = round(time.time() - t0 - sum(phases.values()), 1)
    ok_proof, broken = vlib.proof_stage(run, "props/C01.v", ["Format"],
                                        extra_trusted=["static dictionary + transform list of RFC 7932 taken from brotli-decompressor-4.0.3 (tools/gen_c01_dict.py), parameters of the decoder spec",
                                                       "brotli-decompressor 4.0.3 and Google libbrotlidec 1.0.9 as reference decoders (they also validate the decoder spec D in both directions)"])
    import gen_c01_dict
    try:
        gen_c01_dict.generate(os.path.join(vlib.BUILD, "ocaml", "c01"))
    except Exception as e:
        run.note("dictionary generation failed: %r" % e)
    okx, logx = vlib.coq_extract("C01")
    okm, logm, model = vlib.ocaml_build("C01", "c01_driver.ml")
    okh, logh, impl_exe = build_harness("dev")
    if not okh:
        run.report("proof-obligation", {"stage": "harness build"}, {"log": logh[-3000:]}, broken="harness does not build against /repo (hook verif_wrap_position missing?)", found_input=False)
        return
    if not (okx and okm) and ok_proof:
        ok_proof = False
        broken.append("extraction/driver build failed: " + (logx if not okx else logm)[-500:])
    if not os.path.exists(model):
        run.report("proof-obligation", {"stage": "model build"}, {"log": (logx + logm)[-2000:]}, broken="executable model could not be built", found_input=False)
        return
    rng = run.rng
    mark("proof+builds")
    # ------------------------------------------------------------------ streams
    cases = gen_cases(run, thorough)
    lines = [c for c, _ in cases]
    impl = vlib.run_lines(impl_exe, lines, timeout=2400)
    dreq, didx = [], []
    for k, ((c, meta), o) in enumerate(zip(cases, impl)):
        f = parse_r(o)
        if f and f.get("fin") == "1" and not f.get("out", "-").startswith("-"):
            dreq.append("D 1 " + f["out"])
            didx.append(k)
    mark("streams: implementation + reference decoders")
    dres = dict(zip(didx, vlib.run_lines(model, dreq, timeout=2400)))
    mark("streams: extracted decoder D")
    # the decoder's state at every completed flush / finish, computed by D on the emitted prefix, against the state the
    # encoder keeps for it (dist_cache_, prev_byte_, prev_byte2_): asked for all snapshots of the ring-tracking family,
    # for two snapshots of every other stream of moderate size (quality >= 2)
    rreq, ridx = [], []
    for k, ((c, meta), o) in enumerate(zip(cases, impl)):
        f = parse_r(o)
        if not f or f.get("st") != "ok" or f.get("rg", "-") == "-" or f.get("out", "-").startswith("-") or meta["quality"] < 2:
            continue
        snaps = f["rg"].split(";")
        if not meta["section"].startswith("ring-tracking"):
            if len(f["out"]) > 60000:
                continue
            snaps = rng.sample(snaps, 1)
        for sn in snaps:
            n = int(sn.split(":")[0])
            rreq.append("DR 1 " + f["out"][:2 * n])
            ridx.append((k, sn))
    rres = vlib.run_lines(model, rreq, timeout=1200) if rreq else []
    mark("decoder state at flush points (D on prefixes)")
    # configuration correspondence on the same cases
    creq = []
    for (c, meta), o in zip(cases, impl):
        f = parse_r(o) or {}
        hint = f.get("cfg", "0,0,0,0,0,0,0,0,0,0,0,0,0,0").split(",")[-1]
        creq.append("C %s H=%s" % (c.split()[1], hint))
    cres = vlib.run_lines(model, creq, timeout=600)
    cres0 = vlib.run_lines(model, ["C %s H=0" % c.split()[1] for c, _ in cases], timeout=600)
    stats = {"ok": 0, "panic": 0, "call_failed": 0, "stall": 0, "unfinished": 0, "rust_decoder_bad": 0, "google_decoder_bad": 0, "google_na": 0,
             "D_bad": 0, "ringbuffer_bad": 0, "config_disagree": 0, "D_checked": 0}
    reached = {}
    hist = {"quality": {}, "mode": {}, "lgwin": {}, "lgblock": {}, "section": {}, "kind": {}, "style": {}, "param_ids": {}}
    selftest_pool = []
    nontriv = set()
    tot_calls = 0

    def reach(k, n=1):
        reached[k] = reached.get(k, 0) + n

    nrep = {}

    def report(kind, case, observed, **kw):
        """at most 4 replays per failure class and run (every failure is still counted in stream_stats)"""
        key = (kind, case.get("status"))
        nrep[key] = nrep.get(key, 0) + 1
        if nrep[key] <= 4:
            run.report(kind, case, observed, **kw)

    for k, ((c, meta), o, cm) in enumerate(zip(cases, impl, cres)):
        f = parse_r(o)
        case = dict(meta)
        case["script"] = c
        for hk, mk in (("quality", "quality"), ("mode", "mode"), ("lgwin", "lgwin"), ("lgblock", "lgblock"), ("section", "section"), ("kind", "kind"), ("style", "style")):
            v = str(meta[mk])
            hist[hk][v] = hist[hk].get(v, 0) + 1
        for pk in meta["params"]:
            hist["param_ids"][pk] = hist["param_ids"].get(pk, 0) + 1
        if f is None:
            stats["panic"] += 1
            case["status"] = "crash"
            report("spec-violation", case, {"impl": o[:400]}, what="the harness process died or panicked outside a stream call")
            continue
        st = f["st"]
        tot_calls += int(f.get("calls", 0))
        if st != "ok":
            kind = "panic" if st.startswith("PANIC") else ("call_failed" if st.startswith("false") else ("stall" if st.startswith("stall") else "unfinished"))
            stats[kind] += 1
            case["status"] = kind
            case["panic"] = st[:200]
            report("spec-violation", case, {"impl": o[:600], "spec": "every call succeeds without panicking and the stream finishes"},
                       what="compress_stream %s" % st[:120])
            continue
        good = True
        if f["rd"] != "ok":
            stats["rust_decoder_bad"] += 1
            good = False
        if f["gd"] == "na":
            stats["google_na"] += 1
        elif f["gd"] != "ok":
            stats["google_decoder_bad"] += 1
            good = False
        d = dres.get(k)
        dok = None
        if d is not None:
            stats["D_checked"] += 1
            dd = d.split()
            dok = (dd[0] == "OK" and dd[1] == f["n"] and dd[2] == f["ih"])
        if not good:
            case["status"] = "wrong-or-undecodable"
            report("spec-violation", case, {"impl": o[:300] + " ... ", "rust_decoder": f["rd"], "google_decoder": f["gd"], "D": (d or "-")[:200],
                                                "spec": "independent decoders return exactly the input"},
                       what="finished stream is not decoded to the input by the reference decoders (rd=%s gd=%s)" % (f["rd"], f["gd"]))
            continue
        if dok is False:
            stats["D_bad"] += 1
            case["status"] = "D-disagrees"
            report("proof-obligation", case, {"impl_stream": f["out"][:400], "D": d[:300], "reference_decoders": "both return the input"},
                       broken="the RFC 7932 decoder spec D does not parse / decode a stream that both reference decoders decode to the input (translation validation failed; spec or stream at fault)",
                       found_input=False)
            continue
        stats["ok"] += 1
        if f["rb"].startswith("bad"):
            stats["ringbuffer_bad"] += 1
            case["status"] = "ringbuffer"
            report("correspondence", case, {"impl": f["rb"], "model": "C01_ringbuffer: the last min(total, size) input bytes are at their masked positions"},
                       broken="ring-buffer statement (C01_ringbuffer) does not hold on the real buffer: %s" % f["rb"], found_input=False)
        # configuration: model vs implementation (hasher type only when a hasher was set up)
        ic = f["cfg"].split(",")
        mc = dict(t.split("=", 1) for t in cm.split()) if cm.startswith("cfg=") else {}
        mcfg = mc.get("cfg", "").split(",")
        same = ic[:11] == mcfg[:11]
        tr_total, tr_fast = [int(x) for x in f["tr"].split(",")]
        q = int(ic[0])
        if same and q >= 2 and tr_total > tr_fast and int(f["n"]) > 0:
            # the hasher is chosen with the size hint known at its first use (the reported one or none)
            alt = cres0[k] if mc.get("hasher") != ic[12] else cm
            if mc.get("hasher") != ic[12] and dict(t.split("=", 1) for t in alt.split()).get("hasher") != ic[12]:
                same = False
        if not same or mc.get("hq") != "1":
            stats["config_disagree"] += 1
            case["status"] = "config"
            report("correspondence", case, {"impl": f["cfg"], "model": cm}, broken="configuration: model/EncConfig.v vs ensure_initialized/ChooseHasher (or the hq.rs histogram bound is violated)", found_input=False)
        # reached classes
        n = int(f["n"])
        rbsize = int(ic[7])
        if tr_total > tr_fast and n > rbsize:
            reach("ring_buffer_wrapped")
        if n > (1 << int(ic[1])):
            reach("input_longer_than_window")
        if tr_fast:
            reach("one_pass_fragment_backend(q0/q1)")
        if tr_total > tr_fast:
            reach("ring_buffer_backend")
        if tr_total >= 2:
            reach("several_backend_invocations")
        if ",f" in c.split("L=")[1].split()[0] or c.split("L=")[1].startswith("f"):
            reach("flush_mid_stream")
        if "CAPS=1 " in c + " " or "CAPS=1,2,3" in c or "CAPS=2 " in c + " ":
            reach("output_buffer_1_to_3_bytes")
        if " T=" in c:
            reach("output_via_take_output")
        if n == 0:
            reach("empty_input")
        if 1 <= n <= 3:
            reach("input_1_to_3_bytes")
        if meta["quality_set"] not in range(0, 12):
            reach("quality_out_of_range_clamped")
        if meta["lgwin_set"] < 10 or meta["lgwin_set"] > (30 if meta["large_window"] else 24):
            reach("lgwin_out_of_range_clamped")
        reach("mode_%d" % meta["mode"])
        reach("quality_%d" % q)
        if meta["large_window"] and q >= 10 and meta["mode"] == 2:
            reach("large_window_x_FONT_x_q10_11")
        if d is not None and dok:
            info = {}
            for t in d.split():
                if t.startswith("I=") and t != "I=-":
                    for kv in t[2:].split(","):
                        a, b = kv.split(":")
                        info[int(a)] = int(b)
            for key, name in INFO_KEYS.items():
                v = info.get(key, 0)
                if key in (8, 9, 10, 11, 12):
                    if v >= 2:
                        reach(name + ">=2")
                elif key in (25, 30):
                    continue
                elif v:
                    reach(name)
            if info.get(1, 0) >= 1 and n > 0:
                nontriv.add(c)
            if len(selftest_pool) < (400 if thorough else 150) and len(f["out"]) <= 1400 and (n > 0 or rng.random() < 0.1):
                selftest_pool.append((rng.choice([1, 1, 1, 0]), f["out"]))
    # the stored-stream writer model (model/MetaBlockHeader.v + store_chunks, theorem C01_stream_roundtrip_stored)
    # against the real writers: every emitted stream that consists of uncompressed meta-blocks + the empty last one
    sreq, sidx = [], []
    for k, ((c, meta), o) in enumerate(zip(cases, impl)):
        f = parse_r(o)
        if not f or f.get("st") != "ok" or f.get("out", "-").startswith("-") or len(f["out"]) > 700000:
            continue
        ps = parse_stored(f["out"])
        if ps and ps[2]:
            w, large, lens, data = ps
            sreq.append("SC %d %d %s %s" % (w, int(large), ",".join(str(x) for x in lens), data))
            sidx.append(k)
    stored_stats = {"stored_streams": len(sreq), "writer_model_agrees": 0, "writer_model_differs": 0}
    for k, req, m in zip(sidx, sreq, vlib.run_lines(model, sreq, timeout=600) if sreq else []):
        f = parse_r(impl[k])
        if m == f["out"]:
            stored_stats["writer_model_agrees"] += 1
        else:
            stored_stats["writer_model_differs"] += 1
            case = dict(cases[k][1])
            case.update({"script": cases[k][0], "status": "stored-writer"})
            report("correspondence", case, {"impl": f["out"][:300], "model": m[:300]},
                   broken="stored-stream writer: model/MetaBlockHeader.v + store_chunks vs the bytes the encoder emitted for uncompressed meta-blocks", found_input=False)
    # ---- encoder-tracked decoder state vs D
    POISON = 0x7ffffff0
    track = {"snapshots_checked": 0, "ring_differs": 0, "context_bytes_differ": 0, "streams": 0}
    per_stream = {}
    for (k, sn), ans in zip(ridx, rres):
        per_stream.setdefault(k, []).append((sn, ans))
    for k, lst in per_stream.items():
        c, meta = cases[k]
        catable = meta["params"].get("p167", 0) != 0
        track["streams"] += 1
        prev_c = prev_u = 0
        segs = {}
        fk = parse_r(impl[k])
        for t in fk.get("sg", "-").split(","):
            m = t.split(":")
            if len(m) >= 3 and m[0][:-1].isdigit():
                segs[int(m[0][:-1])] = (m[0][-1], int(m[1]), int(m[2]), m[3] if len(m) > 3 else "")
        for j, (sn, ans) in enumerate(sorted(lst, key=lambda x: int(x[0].split(":")[0]))):
            a = dict(t.split("=", 1) for t in ans.split()) if ans.startswith("ring=") else None
            track["snapshots_checked"] += 1
            e_len, e_ring, e_p = sn.split(":")
            enc = [int(x) for x in e_ring.split(".")]
            bad = None
            if a is None:
                bad = "D cannot parse the emitted prefix: " + ans[:60]
            else:
                dec = [int(x) for x in a["ring"].split(".")]
                pushes = int(a["pushes"])
                for i in range(4):
                    if catable and i >= pushes:
                        ok_i = enc[i] == POISON
                    else:
                        ok_i = enc[i] == dec[i]
                    if not ok_i:
                        bad = "last-distance ring: encoder %s, decoder %s after %d pushes%s" % (enc, dec, pushes, " (catable: untouched slots must stay 0x7ffffff0)" if catable else "")
                        track["ring_differs"] += 1
                        break
                if bad is None and int(a["pos"]) >= 2 and e_p != a["p"]:
                    bad = "context bytes: encoder %s, decoder %s" % (e_p, a["p"])
                    track["context_bytes_differ"] += 1
                # what happened to the segment that ends here (flush-delimited family only)
                if meta["section"] == "ring-tracking-flush" and len(lst) == len(fk["rg"].split(";")):
                    cu, uu = int(a["c"]), int(a["u"])
                    sg = segs.get(j)
                    if sg and sg[0] == "A":
                        frac = sg[1] / float(int(sg[3]))
                        if uu > prev_u and cu == prev_c:
                            reach("stored_block_containing_a_repeat")
                            reach("stored_block_repeat>=1.2%_of_block(bigger-than-input_fallback)" if frac >= 0.012 else
                                  "stored_block_repeat<0.9%_of_block(should_compress==false_fallback)" if frac < 0.009 else "stored_block_repeat_about_1%")
                        else:
                            reach("block_with_one_repeat_emitted_compressed")
                    if sg and sg[0] == "B" and cu > prev_c:
                        reach("block_after_stored_block_reuses_distance:" + ("initial_ring_value" if sg[3] == "init" else "delta_%s" % sg[3].lstrip("-")))
                    prev_c, prev_u = cu, uu
            if bad:
                case = dict(meta)
                case.update({"script": c, "status": "decoder-state-tracking", "at_emitted_bytes": int(e_len)})
                report("correspondence", case, {"impl": sn, "model": ans, "spec": bad},
                       broken="the state the encoder keeps for the decoder (dist_cache_/prev_byte_) differs from the decoder spec's state after the emitted prefix: " + bad,
                       found_input=False)
                break
    run.note("streams: %d cases, %s; stored-stream writer model: %s; decoder-state tracking: %s" % (len(cases), stats, stored_stats, track))
    mark("streams: verdicts + stored-writer model")
    # ------------------------------------------------------------------ model correspondence: configuration sweep, WrapPosition, ring buffer
    cfg_lines = []
    for q in list(range(-3, 14)) + [99, (1 << 31) - 1, -(1 << 31)]:
        for w in [0, 8, 9, 10, 11, 15, 16, 17, 18, 19, 20, 23, 24, 25, 26, 29, 30, 31, 32, 50, -1]:
            for lw in (0, 1):
                cfg_lines.append("C P=%s" % pstr([(1, q), (2, w), (6, lw), (3, rng.choice([0, 0, 1, 15, 16, 17, 20, 24, 25, 99, -5])), (0, rng.randrange(0, 8))]))
    for q in range(-1, 13):
        for b in [0, 1, 10, 14, 15, 16, 17, 18, 19, 20, 21, 22, 23, 24, 25, 26, 100, -1]:
            cfg_lines.append("C P=%s" % pstr([(1, q), (3, b), (2, rng.choice([10, 16, 17, 22, 24, 30])), (6, rng.randrange(2))]))
        for m in range(0, 9):
            for lw in (0, 1):
                cfg_lines.append("C P=%s" % pstr([(1, q), (0, m), (6, lw), (2, rng.choice([16, 24, 26, 30]))]))
    ci = vlib.run_lines(impl_exe, cfg_lines, timeout=600)
    cmo = vlib.run_lines(model, cfg_lines, timeout=600)
    ncfg_bad = 0
    for l, a, b in zip(cfg_lines, ci, cmo):
        ia = a.split()[0].split("=")[1].split(",")[:11] if a.startswith("cfg=") else ["?"]
        mb = dict(t.split("=", 1) for t in b.split()) if b.startswith("cfg=") else {}
        if ia != mb.get("cfg", "").split(",") or mb.get("hq") != "1":
            ncfg_bad += 1
            if ncfg_bad <= 3:
                run.report("correspondence", {"request": l, "section": "config-sweep", "status": "config"}, {"impl": a, "model": b},
                           broken="configuration sweep: model/EncConfig.v vs SanitizeParams/ComputeLgBlock/ChooseDistanceParams/RingBufferSetup", found_input=False)
    wl = set()
    for k in range(0, 70):
        for d in (-2, -1, 0, 1, 2, 12345):
            v = (k << 30) + d
            if 0 <= v < (1 << 64):
                wl.add(v)
    for e in range(30, 64):
        for d in (-1, 0, 1):
            wl.add(((1 << e) + d) % (1 << 64))
    wl |= {rng.randrange(0, 1 << rng.randrange(1, 65)) for _ in range(3000 if thorough else 800)}
    wl |= {(1 << 64) - 1, 0}
    wlines = ["W %d" % v for v in sorted(wl)]
    wi = vlib.run_lines(impl_exe, wlines, timeout=600)
    wm = vlib.run_lines(model, wlines, timeout=600)
    nw_bad = 0
    for l, a, b in zip(wlines, wi, wm):
        p = int(l.split()[1])
        spec_ok = a.isdigit() and all(int(a) % (1 << kk) == p % (1 << kk) for kk in (1, 10, 24, 30)) and int(a) < (1 << 32) and (p < (3 << 30) and int(a) == p or p >= (3 << 30) and (1 << 30) <= int(a) < (3 << 30))
        if not spec_ok:
            nw_bad += 1
            if nw_bad <= 3:
                run.report("spec-violation", {"request": l, "section": "wrap-position", "status": "wrap"}, {"impl": a, "model": b, "spec": "WrapPosition(p) = p mod 2^30 (+ 2^30 or 2^31 beyond 3*2^30), < 2^32"},
                           what="WrapPosition does not preserve the low 30 bits / leaves its range")
        elif a != b:
            nw_bad += 1
            if nw_bad <= 3:
                run.report("correspondence", {"request": l, "section": "wrap-position", "status": "wrap"}, {"impl": a, "model": b}, broken="WrapPosition: model/EncConfig.v vs encode.rs", found_input=False)
    blines = []
    for _ in range(120 if thorough else 40):
        q = rng.choice([0, 1, 2, 3, 4, 5, 9])
        lgwin = rng.choice([10, 10, 11, 12, 13, 16])
        lgblock = rng.choice([0, 0, 16, 17])
        _, ws, lb = sanitized([(1, q), (2, lgwin), (3, lgblock)])
        tail = 1 << lb
        ring = 1 << (1 + max(ws, lb))
        total_target = min(ring * rng.choice([1, 2, 3]) // rng.choice([1, 2]) + rng.randrange(0, 3000), 300000)
        sizes, tot = [], 0
        while tot < total_target and len(sizes) < 4000:
            n = min(rng.choice([0, 1, 2, 7, 100, tail - 1, tail, tail // 2 + 3, rng.randrange(0, tail + 1)]), tail, total_target - tot if rng.random() < 0.9 else tail)
            sizes.append(n)
            tot += n
        data = bytes(rng.getrandbits(8) for _ in range(tot)).hex() or "-"
        blines.append("B %d %d %d %s %s" % (lgwin, lgblock, q, ",".join(str(x) for x in sizes), data))
    bi = vlib.run_lines(impl_exe, blines, timeout=1200)
    bm = vlib.run_lines(model, blines, timeout=1200)
    nb_bad = 0
    for l, a, b in zip(blines, bi, bm):
        if not a.startswith("rb=ok") and not a.startswith("rb=na"):
            nb_bad += 1
            if nb_bad <= 3:
                run.report("correspondence", {"request": l[:300], "section": "ring-buffer", "status": "ringbuffer"}, {"impl": a, "model": b},
                       broken="ring buffer: the real buffer violates the statement of C01_ringbuffer", found_input=False)
        elif a.replace("rb=na", "rb=ok") != b:
            nb_bad += 1
            if nb_bad <= 3:
                run.report("correspondence", {"request": l[:300], "section": "ring-buffer", "status": "ringbuffer"}, {"impl": a, "model": b},
                           broken="ring buffer: model/RingBuf.v vs RingBufferWrite (position, mask, allocated size or contents differ)", found_input=False)
    run.note("model correspondence: %d configurations (%d bad), %d WrapPosition points (%d bad), %d ring-buffer write sequences (%d bad)"
             % (len(cfg_lines), ncfg_bad, len(wlines), nw_bad, len(blines), nb_bad))
    mark("model correspondence")
    # ------------------------------------------------------------------ decoder spec self-test on malformed streams
    st = selftest_decoder(run, impl_exe, model, selftest_pool, thorough)
    mark("decoder-spec self-test")
    run.note("decoder-spec self-test: %s" % st)
    # ------------------------------------------------------------------ thorough: past 2^30 / 2^31 / 2^32 input positions
    giant = []
    if thorough:
        okr, logr, rel = build_harness("release")
        if okr:
            glines = ["G 2 22 1200000000 1000003 %d" % rng.randrange(1, 1000), "G 2 24 4400000000 1000003 %d" % rng.randrange(1, 1000),
                      "G 2 30 2300000000 1000003 %d" % rng.randrange(1, 1000), "G 5 30 2300000000 1000003 %d" % rng.randrange(1, 1000)]
            gres = vlib.run_lines(rel, glines, shards=2, timeout=3000)
            for l, r in zip(glines, gres):
                f = dict(t.split("=", 1) for t in r.split()) if r.startswith("ok=") else {}
                giant.append({"request": l, "result": r})
                t = l.split()
                if not f or f.get("ok") != "1" or f.get("rd") != "ok" or f.get("gd") not in ("ok", "na"):
                    run.report("spec-violation", {"script": l, "section": "giant", "quality": int(t[1]), "lgwin": int(t[2]), "n": int(t[3]), "mode": 0,
                                                  "large_window": int(int(t[2]) > 24), "status": "giant-run"},
                               {"impl": r, "spec": "the decoders return the input (compared by length and hash)"},
                               what="multi-gigabyte stream is not decoded to the input")
                else:
                    n = int(t[3])
                    for lim, name in ((1 << 30, "input_past_2^30"), (1 << 31, "input_past_2^31"), (1 << 32, "input_past_2^32")):
                        if n > lim:
                            reach(name)
                    if int(t[2]) == 30 and n > (1 << 31):
                        reach("lgwin30_ring_buffer_lap_past_2^31")
        else:
            run.note("release harness build failed: %s" % logr[-300:])
    mark("giant runs")
    run.cov["phase_seconds"] = phases
    # ------------------------------------------------------------------ evidence
    expected = (["ring_buffer_wrapped", "input_longer_than_window", "one_pass_fragment_backend(q0/q1)", "ring_buffer_backend", "several_backend_invocations",
                 "flush_mid_stream", "output_buffer_1_to_3_bytes", "output_via_take_output", "empty_input", "input_1_to_3_bytes",
                 "quality_out_of_range_clamped", "lgwin_out_of_range_clamped", "large_window_x_FONT_x_q10_11"]
                + ["mode_%d" % m for m in range(7)] + ["quality_%d" % q for q in range(12)]
                + [INFO_KEYS[k] for k in (1, 2, 3, 4, 5, 7, 13, 14, 15, 16, 17, 18, 19, 20, 21, 22, 23, 24, 26, 27, 28, 31, 32)]
                + [INFO_KEYS[k] + ">=2" for k in (8, 9, 10, 11, 12)]
                + ["stored_block_containing_a_repeat", "stored_block_repeat>=1.2%_of_block(bigger-than-input_fallback)",
                   "stored_block_repeat<0.9%_of_block(should_compress==false_fallback)", "block_after_stored_block_reuses_distance:delta_0",
                   "block_after_stored_block_reuses_distance:delta_1", "block_after_stored_block_reuses_distance:delta_2",
                   "block_after_stored_block_reuses_distance:delta_3", "block_after_stored_block_reuses_distance:initial_ring_value"]
                + (["input_past_2^30", "input_past_2^31", "input_past_2^32", "lgwin30_ring_buffer_lap_past_2^31"] if thorough else []))
    run.cov["evaluations"] = len(cases) + len(cfg_lines) + len(wlines) + len(blines) + st["mutants"] + len(giant)
    run.cov["distinct_nontrivial"] = len(nontriv)
    run.cov["rule"] = ("streams: logical scripts (parameter list, data recipe of 13 kinds incl. incompressible, runs, skewed/Fibonacci alphabets, UTF-8, "
                       "binary, HTML-like, exact-period copies around the window size; chunked PROCESS/FLUSH calls and FINISH with output buffers of 1,2,3,17,.. "
                       "bytes or take_output) over: every quality -3..12,99 x every data kind; every value of every single parameter of the interface "
                       "(lgwin 0..50 with/without large_window, lgblock 0..99, modes 0..7, q9_5, size_hint, appendable, catable, magic, "
                       "disable_literal_context_modeling, literal_byte_score, stride/entropy/cdf/prior detection, avoid_distance_prefix_search, favor_efficiency, "
                       "metablock callback) x 7-9 qualities; random combinations; 0..4-byte inputs x small buffers x all qualities; inputs 1-3x the ring buffer at lgwin 10..13; "
                       "large_window x FONT x q9..11 x {0,1,100,3000} bytes; incompressible data at block size +-1. distinct_nontrivial = distinct scripts with non-empty "
                       "input whose stream contains at least one compressed meta-block and was decoded to the input by both reference decoders and by D")
    run.cov["traces_validated_against_impl"] = stats["ok"]
    run.cov["stream_stats"] = stats
    run.cov["stored_stream_writer_model"] = stored_stats
    run.cov["decoder_state_tracking"] = track
    run.cov["stream_calls_total"] = tot_calls
    run.cov["histograms"] = hist
    run.cov["reached_classes"] = dict(sorted(reached.items()))
    run.cov["unreached_classes"] = [e for e in expected if not reached.get(e)]
    run.cov["model_correspondence"] = {"configurations": len(cfg_lines), "configurations_bad": ncfg_bad, "wrap_position_points": len(wlines),
                                       "wrap_position_bad": nw_bad, "ring_buffer_sequences": len(blines), "ring_buffer_bad": nb_bad}
    run.cov["decoder_spec_selftest"] = st
    run.cov["decoder_spec_selftest_documented_differences"] = [
        "D error 16 (bytes after the last meta-block) = the decoders' success with unconsumed input",
        "brotli-decompressor 4.0.3 accepts, while D, libbrotlidec 1.0.9 and RFC 7932 reject: non-zero fill bits after the last meta-block (D error 6), "
        "an insert (10) or a copy / dictionary word (11) running past MLEN"]
    if giant:
        run.cov["giant_runs"] = giant
    run.cov["samples"] = [lines[0], lines[len(lines) // 3], lines[len(lines) // 2], cfg_lines[5], wlines[len(wlines) // 2], blines[0][:160] + "..."]
    run.note("reached=%d classes, unreached=%s" % (len(reached), run.cov["unreached_classes"]))
    if not ok_proof and not run.violations:
        run.report("proof-obligation", {"stage": "proof"}, {"broken": broken}, broken="; ".join(b[:400] for b in broken), found_input=False)


def replay(path):
    d = json.load(open(path))
    case = d.get("case", {})
    _, _, impl_exe = build_harness("dev")
    import gen_c01_dict
    gen_c01_dict.generate(os.path.join(vlib.BUILD, "ocaml", "c01"))
    vlib.coq_regen(["Format"])
    vlib.coq_extract("C01")
    _, _, model = vlib.ocaml_build("C01", "c01_driver.ml")
    if case.get("script", "").startswith("G "):
        _, _, rel = build_harness("release")
        r = vlib.run_lines(rel, [case["script"]], timeout=3000)[0]
        print("script: %s\nimpl:  %s" % (case["script"], r))
        return 0 if ("ok=1" in r and "rd=ok" in r and "gd=fail" not in r) else 1
    if "script" in case:
        c = case["script"]
        o = vlib.run_lines(impl_exe, [c])[0]
        f = parse_r(o) or {}
        dline = "-"
        if f.get("fin") == "1" and not f.get("out", "-").startswith("-"):
            dline = vlib.run_lines(model, ["D 1 " + f["out"]])[0]
        cm = vlib.run_lines(model, ["C %s H=%s" % (c.split()[1], f.get("cfg", "0").split(",")[-1])])[0]
        print("script: %s\nimpl:  %s\nmodel (configuration): %s\nspec:  rust_decoder=%s google_decoder=%s D=%s (input n=%s hash=%s)"
              % (c, o[:700], cm, f.get("rd"), f.get("gd"), dline[:200], f.get("n"), f.get("ih")))
        dd = dline.split()
        ok = f.get("st") == "ok" and f.get("rd") == "ok" and f.get("gd") in ("ok", "na") and (dline == "-" or (dd[0] == "OK" and dd[1] == f.get("n") and dd[2] == f.get("ih"))) \
            and not f.get("rb", "ok").startswith("bad")
        return 0 if ok else 1
    if "stream_hex" in case:
        lw = case.get("allow_large", 1)
        x = vlib.run_lines(impl_exe, ["X %d %s" % (lw, case["stream_hex"])])[0]
        dl = vlib.run_lines(model, ["D %d %s" % (lw, case["stream_hex"])])[0]
        print("stream: %s\nreference decoders: %s\nD: %s" % (case["stream_hex"][:200], x, dl))
        return 1
    if "request" in case:
        r = case["request"]
        a = vlib.run_lines(impl_exe, [r])[0]
        b = vlib.run_lines(model, [r])[0]
        print("request: %s\nimpl:  %s\nmodel: %s" % (r[:300], a, b))
        return 0 if a.split()[0:1] == b.split()[0:1] else 1
    print("replay file has no runnable case (kind=%s): %s" % (d.get("kind"), d.get("broken")))
    return 1
