"""C02 - multi-threaded compression never returns success with wrong or truncated data
(DESIGN.md section 4, C02).

proof stage   : coq/props/C02.v over coq/model/Multi.v; the version flags and constants of the model
                are regenerated from /repo (tools/gen_multi.py -> gen/GenMulti.v) and pinned by
                C02_model_is_current
correspondence: every call is replayed on the extracted model (ocaml/multi_driver.ml) with the
                abstract parts (compressor answers, concatenator answers) taken from the trace of
                the hook `verif_multi`; compared: chunk ranges, per-job buffers, per-job flags before
                and after the prefix is installed, prefix truncation, index mode, ranges stored into
                the shared hasher, which chunks reach the concatenator, result, error kind, hand-back
search (spec) : on the real code only: no panic, no join that cannot return (a worker that died with
                its job; a call that has not returned when the harness's watchdog gives up - the request
                keeps that verdict together with the earlier calls on the same reused pool), success => the
                bytes decode (brotli-decompressor) to exactly the input, buffer >= advertised maximum and
                quality >= 2 => success, success or error => the input is handed back.  A harness process
                that dies leaves a failing request, never an agreement.
                Input families: lengths around the thread count / lookahead, prefixes longer than the
                window, incompressible data at quality 0/1, general, short buffers, failing spawners, the
                slice entry point, favor_cpu_efficiency without a size hint on inputs around every 2^k that
                ChooseHasher compares size_hint with, and inputs laid out along the job ranges (`lay.T.letters`): jobs whose
                first meta-block is stored uncompressed (noise of at least the maximal meta-block length)
                followed by copies at the distances 1..16, after text-like or long-period jobs.
"""
import json, os, time
import vlib
from checks import multi_common as mc
from checks.multi_common import Case

PROP = "C02"
LEVEL = "proof"
GEN = ["Bound", "Multi"]

# witnesses of the defects found on this tree (fixed; replayed on every run), Coq twins in props/C02.v, props/C06.v
CORPUS = [
    # compress_part accepted an unfinished chunk: silent corruption as found (fix 97cc265)
    "R sp=inl q=0 w=11 f=4 t=2 in=rand:22902:100 out=bound",
    "R sp=thr q=0 w=11 f=4 t=2 in=rand:22902:100 out=bound+100",
    "R sp=pool q=0 w=11 f=4 t=2 in=rand:22902:100 out=bound",
    "R sp=inl q=1 w=10 f=0 t=8 in=rand:70000:1 out=bound",
    # precomputed hasher over a prefix cut to the window (fix 84180b7)
    "R sp=inl q=9 w=13 f=8 t=7 in=text:12288:1 out=bound",
    "R sp=thr q=9 w=13 f=8 t=7 in=text:12288:1 out=bound",
    "R sp=inl q=5 w=10 f=8 t=2 in=text:2200:3 out=bound",
    # chunks no longer than the lookahead (fix 84180b7)
    "R sp=inl q=5 w=22 f=8 t=4 in=text:8:1 out=bound",
    "R sp=inl q=5 w=22 f=8 t=3 in=text:10:1 out=bound",
    "R sp=inl q=3 w=22 f=8 t=3 in=period:21:6 out=bound",
    "R sp=thr q=11 w=16 f=8 t=5 in=text:600:2 out=bound",
    # a failed join kept the input (fix 176a6ae)
    "R sp=fail:1 q=5 w=22 f=0 t=4 in=text:50000:1 out=bound",
    "R sp=fail:0 q=5 w=22 f=8 t=3 in=text:5000:1 out=bound",
    "R sp=failview:1 q=5 w=22 f=0 t=4 in=text:50000:1 out=bound",
    "R sp=failview:2 q=5 w=22 f=8 t=4 in=text:50000:1 out=bound",
    "R sp=failunwrap q=5 w=22 f=0 t=4 in=text:50000:1 out=bound",
    # small buffers
    "R sp=inl q=5 w=22 f=0 t=4 in=text:50000:1 out=100",
    "R sp=slice q=5 w=22 f=0 t=4 in=text:50000:1 out=100",
    "R sp=slice q=5 w=22 f=8 t=4 in=text:50000:1 out=bound",
]

KINDS = ["text", "rand", "zero", "period", "mix", "skew"]
OTHER_SPAWNERS = ["thr", "pool", "poolr:1", "poolr:2", "poolr:4", "poolr:15"]


def heavy(c):
    """memory/time weight: quality 10/11 builds a binary tree of 2^lgwin nodes per job"""
    if c.kind.startswith("lay.") and c.n <= 6000000:
        return c.q >= 10 and c.w >= 20
    return (c.q >= 10 and (c.w >= 20 or c.n > 30000)) or c.n > 400000


def lgblock_of(q, w, lb=0):
    """ComputeLgBlock of encode.rs (only used to size the inputs of family I)"""
    if q < 2:
        return w
    if q < 4:
        return 14
    if lb:
        return min(24, max(16, lb))
    return min(18, w) if (q >= 9 and w > 16) else 16


def max_metablock(q, w, lb=0):
    """MaxMetablockSize: input keeps being merged into one meta-block up to this length while it yields no commands"""
    return 1 << min(24, 1 + max(w, lgblock_of(q, w, lb)))


def gen_stored_head(rng, n_cases, thorough):
    """family I: inputs laid out along the job ranges.  Some job > 0 starts with noise that fills at
    least one maximal meta-block (stored uncompressed: the encoder falls back to the distance ring it
    saved before) and goes on with runs of period 1..16 (copies at the distances a fresh ring holds,
    4 11 15 16, and their neighbours); the job before is text, a long period, a mix or another such job"""
    out = []
    for k in range(n_cases):
        q = rng.choice([2, 3, 4, 5, 5, 6, 7, 8, 9, 9, 10, 11])
        big = rng.random() < (0.25 if thorough else 0.12)
        w = rng.choice([17, 17, 18, 18, 19, 20] if big else [10, 11, 12, 13, 14, 15, 16, 16, 16])
        if q >= 10:
            w = min(w, 18)
        lb = rng.choice([0, 0, 0, 16, 17]) if q >= 4 and not big else 0
        t = rng.choice([2, 2, 3, 3, 4, 5, 6, 8]) if not big else rng.choice([2, 2, 3])
        mm = max_metablock(q, w, lb)
        chunk = int(mm * rng.uniform(2.0, 3.2)) + rng.randrange(0, 97)
        if q >= 10 and chunk * t > 1500000:
            t = max(2, 1500000 // chunk)
        first = rng.choice("ttttPmsn")
        pat = first + "".join(rng.choice("nnnnnntPp") for _ in range(rng.randrange(1, 4)))
        if "n" not in pat[1:]:
            pat = pat[0] + "n" + pat[2:]
        lay_t = t if rng.random() < 0.9 else rng.choice([2, 3, 4])    # mostly aligned with the job ranges
        f = rng.choice([0, 0, 0, 8, 8, 1, 2, 4, 3, 12, 15])
        sp = rng.choice(["inl", "inl", "thr", "pool", "poolr:3", "poolr:15"])
        out.append(Case(sp, q, w, f, t, "lay.%d.%s" % (lay_t, pat), chunk * t, rng.randrange(1, 100000), "bound", 0, "dev", lb))
    return out


def rand_flags(rng):
    return rng.choice([0, 0, 1, 2, 4, 8, 8, 3, 5, 6, 7, 9, 12, 13, 15, 16, 24, 20, 31])


def gen_cases(run, thorough):
    rng = run.rng
    cases = [mc.case_from_line(l) for l in CORPUS]
    scale = 10 if thorough else 2

    def other(rng):
        return rng.choice(OTHER_SPAWNERS)

    def lgwin_for(q, rng, hi=24):
        return rng.choice([10, 11, 12, 13, 14, 15, 16, 17, 18, 20, 22, hi])

    # B: inputs shorter than / around the thread count and around the lookahead (4, 8, 128 bytes per chunk)
    for t in range(1, 17):
        ns = sorted(set([0, 1, 2, 3, 5, 8, max(0, t - 1), t, t + 1, 3 * t + 1, 4 * t, 4 * t + 1, 7 * t + 2, 8 * t, 8 * t + 1, 9 * t,
                         127 * t + 3, 128 * t + 1, 129 * t]))
        for n in ns:
            for fav in (0, 8):
                q = rng.choice([0, 1, 2, 3, 4, 5, 6, 7, 8, 9, 10, 11]) if fav == 0 else rng.choice([2, 3, 4, 5, 7, 9, 10, 11])
                w = lgwin_for(q, rng, 18 if q >= 10 else 24)
                f = (rand_flags(rng) & ~8) | fav
                if w <= 24:
                    f &= ~16
                kind = rng.choice(["text", "rand", "period", "zero"])
                seed = rng.randrange(1, 1000)
                cases.append(Case("inl", q, w, f, t, kind, n, seed))
                if rng.random() < 0.5 * scale or thorough:
                    cases.append(Case(other(rng), q, w, f, t, kind, n, seed))
    # C: a worker's prefix is longer than the window
    for _ in range(170 * scale):
        q = rng.choice([2, 3, 4, 5, 6, 7, 8, 9, 9, 10, 11])
        w = rng.choice([10, 10, 11, 12, 13])
        t = rng.randrange(2, 17)
        n = rng.randrange((1 << w) * 2, (1 << w) * 3 + t * 2000)
        if q >= 10:
            n = min(n, 24000)
        f = rand_flags(rng) & ~16
        if rng.random() < 0.6:
            f |= 8
        cases.append(Case(rng.choice(["inl", "inl", "thr", "pool", "poolr:2"]), q, w, f, t, rng.choice(["text", "mix", "rand", "skew"]), n, rng.randrange(1, 10000)))
    # D: quality 0/1 with small windows and incompressible data: a chunk can outgrow its buffer
    for _ in range(150 * scale):
        cases.append(Case(rng.choice(["inl", "thr", "pool"]), rng.choice([0, 1]), rng.choice([10, 11, 12, 13]), rand_flags(rng) & ~16, rng.choice([2, 3, 4, 8, 16]),
                          rng.choice(["rand", "rand", "mix"]), rng.randrange(15000, 150000), rng.randrange(1, 100000),
                          rng.choice(["bound", "bound", "bound+100"])))
    # E: general
    lens = [100, 1000, 4096, 5000, 12288, 16383, 16384, 16385, 20000, 65535, 65536, 65537, 70000, 131075, 200000, 300000]
    if thorough:
        lens += [1 << 20, (1 << 20) + 17, 3000000]
    for _ in range(700 * scale):
        q = rng.randrange(0, 12)
        w = lgwin_for(q, rng)
        f = rand_flags(rng)
        if f & 16:
            w = rng.choice([w, 25, 26, 28, 30]) if q < 10 else w
        t = rng.randrange(1, 17)
        n = rng.choice(lens) + rng.choice([0, 0, 1, rng.randrange(0, 50)])
        if q >= 10:
            n = min(n, 20000 if not thorough else 70000)
            w = min(w, 22)
        if w >= 25 and n > 70000:
            n = 70000
        hint = rng.choice([0, 0, 0, n, (1 << 20) + 1, (1 << 22) + 1])
        cases.append(Case(rng.choice(["inl", "thr", "pool", "poolr:3", "poolr:15"]), q, w, f, t, rng.choice(KINDS), n, rng.randrange(1, 100000), "bound", hint))
    # F: output buffers below the bound
    for _ in range(260 * scale):
        q = rng.randrange(0, 10)
        w = rng.choice([10, 13, 16, 18, 22])
        t = rng.randrange(1, 17)
        n = rng.choice([0, 3, 40, 1000, 5000, 20000, 70000])
        out = rng.choice(["0", "1", "2", "3", "5", "16", "17", "bound-1", "bound-8", "bound-30", "bound-%d" % (8 * t), str(n // 2), str(n // 10 + 7), str(n)])
        cases.append(Case(rng.choice(["inl", "thr", "pool", "slice"]), q, w, rand_flags(rng) & ~16, t, rng.choice(["text", "rand", "mix"]), n, rng.randrange(1, 10000), out))
    # G: spawners that fail a join, a view of the input, or the final unwrap
    for _ in range(140 * scale):
        t = rng.randrange(1, 17)
        sp = rng.choice(["fail:%d" % rng.randrange(0, t), "fail:%d" % rng.randrange(0, t), "failview:%d" % rng.randrange(1, t + 1), "failunwrap"])
        q = rng.randrange(0, 10)
        cases.append(Case(sp, q, rng.choice([10, 16, 22]), rand_flags(rng) & ~16, t, rng.choice(["text", "rand"]), rng.choice([0, 5, 100, 5000, 30000]), rng.randrange(1, 1000),
                          rng.choice(["bound", "bound", "100", "bound-9"])))
    # H: the slice entry point
    for _ in range(40 * scale):
        cases.append(Case("slice", rng.randrange(0, 10), rng.choice([10, 16, 22]), rand_flags(rng) & ~16, rng.randrange(1, 17), rng.choice(KINDS), rng.choice([0, 7, 3000, 40000]),
                          rng.randrange(1, 1000)))
    # J: no size hint and the shared index (favor_cpu_efficiency): inputs on both sides of every 2^k that ChooseHasher
    # compares size_hint with, in windows that hold job 1's prefix (only then is the shared index adopted)
    for k in mc.size_hint_cuts():
        if k > 22 or (k > 20 and not thorough):
            continue
        cut = 1 << k
        for q in [4, 5, 6, 7, 9] * (3 if thorough else 1):
            t = rng.choice([2, 2, 3, 4])
            n = rng.choice([cut - 1, cut, cut + 1, cut + 1, cut + rng.randrange(2, 70000), cut + rng.randrange(2, 70000)])
            wmin = max(10, (n // t + 16).bit_length())
            w = rng.choice(list(range(wmin, 25))) if wmin <= 24 else 24
            for sp in ("inl", other(rng)):
                cases.append(Case(sp, q, w, rng.choice([8, 8, 9, 12]), t, rng.choice(["text", "mix", "skew"]), n, rng.randrange(1, 100000)))
    # I: a job > 0 whose first meta-block is stored uncompressed, then copies at distances 1..16
    cases.extend(gen_stored_head(rng, 420 if thorough else 110, thorough))
    return cases


def nontrivial(c):
    return c.t >= 2 and c.n >= c.t


def reached_classes(c, a, reached):
    tr = mc.parse_events(a.ev)
    for i, h in tr["H"].items():
        if h["size"] > h["dict"]:
            reached["prefix_truncated"] += 1
            if tr["J"].get(i, {}).get("f", 0) & 8:
                reached["supplied_hasher_discarded_for_truncated_prefix"] += 1
        if h["cmp"]:
            reached["supplied_hasher_compared_dev"] += 1
        if h["opt"] and not h["local"]:
            reached["supplied_hasher_used_release"] += 1
    for i, j in tr["J"].items():
        if j["s"] == j["e"]:
            reached["empty_chunk"] += 1
        if (j["f"] & 8) and i not in tr["H"]:
            reached["supplied_hasher_kept_unseen"] += 1
    for p in tr["P"]:
        if not p["st"]:
            reached["shared_range_skipped_or_empty"] += 1
    for i, cl in tr["C"].items():
        if len(cl) > 1:
            reached["job_needed_several_calls"] += 1
        if cl and not cl[-1]["fin"]:
            reached["job_ran_out_of_room"] += 1
    for s in tr["S"]:
        if s["cat"] == 254:
            reached["chunk_skipped_after_failure"] += 1
        if s["cat"] == 2:
            reached["concatenator_needs_more_output"] += 1
        if s["ok"] == 2:
            reached["join_failed"] += 1
        if 124 <= s["cat"] <= 127:
            reached["concatenator_error"] += 1
    if tr["F"] is not None:
        reached["finish_failed"] += 1


def check(run):
    thorough = run.tier == "thorough"
    ok_proof, broken = vlib.proof_stage(run, "props/C02.v", GEN, extra_trusted=[
        "tools/gen_multi.py (structural anchors of threading.rs / encode.rs: which of the repaired code paths are present)",
        "hook verif_multi in /repo (add-only log of ranges, flags, job results, stitching results); the model's abstract parts are fed from it",
        "brotli-decompressor 4.0.3 as the decoder of the search",
        "harness multi.rs: fault-injecting spawner, worker-panic detection through the panic hook (no wall clock)"])
    okmod, logmod, model = mc.build_model()
    if not okmod:
        run.note("model rebuild failed (%s)" % logmod[-300:])
        if ok_proof:
            broken.append("extraction/driver build failed: " + logmod[-300:])
            ok_proof = False
    # get_range beyond the sizes a run can allocate, up to and across the overflow bound: the
    # extracted model against the formula of the property (Python integers)
    nrange = 0
    if os.path.exists(model):
        glines, want = [], []
        for _ in range(3000 if thorough else 600):
            t = run.rng.randrange(1, 17)
            i = run.rng.randrange(0, t)
            n = run.rng.choice([run.rng.randrange(0, 1 << 20), run.rng.randrange(0, 1 << 64), (1 << 64) // t + run.rng.randrange(-3, 4), (1 << 60) + run.rng.randrange(-2, 3)])
            n = max(0, min(n, (1 << 64) - 1))
            for pr in ("dev", "rel"):
                glines.append("G %s %d %d %d" % (pr, i, t, n))
                if (i + 1) * n >= (1 << 64):
                    want.append("PANIC" if pr == "dev" else "%d-%d" % (((i * n) % (1 << 64)) // t, (((i + 1) * n) % (1 << 64)) // t))
                else:
                    want.append("%d-%d" % (i * n // t, (i + 1) * n // t))
        got = vlib.run_lines(model, glines, shards=4)
        nrange = len(glines)
        badg = [(l, g, w) for l, g, w in zip(glines, got, want) if g != w]
        if badg:
            l, g, w = badg[0]
            run.report("correspondence", {"line": l, "stage": "get_range model vs formula"}, {"model": g, "spec": w},
                       broken="model get_range disagrees with floor(i*n/t)..floor((i+1)*n/t) / the overflow rule on `%s`: %s, expected %s" % (l, g, w), found_input=False)
    run.cov["get_range_model_points"] = nrange
    profiles = ["dev", "release"] if thorough else ["dev"]
    run.cov["rule"] = ("a case = one call of CompressMulti (spawner, quality, lgwin, flags incl. favor_cpu_efficiency, threads, input recipe, output buffer); "
                       "distinct_nontrivial counts distinct cases with at least 2 threads and at least one input byte per thread")
    hist = {"quality": {}, "lgwin": {}, "threads": {}, "spawner": {}, "result": {}, "flags": {}, "input_len": {"0": 0, "1-99": 0, "100-9999": 0, "10000-99999": 0, ">=100000": 0}}
    reached = {k: 0 for k in ("prefix_truncated", "supplied_hasher_discarded_for_truncated_prefix", "supplied_hasher_compared_dev", "supplied_hasher_used_release",
                              "supplied_hasher_kept_unseen", "empty_chunk", "shared_range_skipped_or_empty", "job_needed_several_calls", "job_ran_out_of_room",
                              "chunk_skipped_after_failure", "concatenator_needs_more_output", "join_failed", "concatenator_error", "finish_failed")}
    nontriv = set()
    total, ntraces, nviol, ndis = 0, 0, 0, 0
    samples = []
    spec_reports, corr_reports = [], []      # reported at the end, concrete failing inputs first
    budget = mc.HangBudget()
    notrun, max_ms = 0, 0
    fam_i = {"cases": 0, "quality": {}, "lgwin": {}, "decoded_ok": 0}
    for prof in profiles:
        okh, logh, impl = vlib.harness_build("multi", prof)
        if not okh:
            run.report("proof-obligation", {"stage": "harness build", "profile": prof}, {"log": logh[-3000:]},
                       broken="harness multi does not build against /repo (hook verif_multi or public API changed?)", found_input=False)
            return
        cases = [c.with_(profile=prof) for c in gen_cases(run, thorough)]
        light = [c for c in cases if not heavy(c)]
        hv = [c for c in cases if heavy(c)]
        t0 = time.time()
        # the light cases dealt round 16 processes, the heavy ones round 4 more, all at once
        bins = [[light[i] for i in range(k, len(light), vlib.NCPU)] for k in range(vlib.NCPU)] + [[hv[i] for i in range(k, len(hv), 4)] for k in range(4)]
        got = mc.run_bins(impl, bins, budget)
        answers = [got[id(c)] for c in light + hv]
        cases = light + hv
        t1 = time.time()
        run.note("profile %s: %d calls on the implementation in %.1fs (%d heavy)" % (prof, len(cases), t1 - t0, len(hv)))
        # ---- search: the property on the real code
        for c, a in zip(cases, answers):
            if a.notrun:
                notrun += 1      # never an agreement: reported below
                continue
            total += 1
            max_ms = max(max_ms, a.ms)
            if c.kind.startswith("lay."):
                fam_i["cases"] += 1
                fam_i["quality"][str(c.q)] = fam_i["quality"].get(str(c.q), 0) + 1
                fam_i["lgwin"][str(c.w)] = fam_i["lgwin"].get(str(c.w), 0) + 1
                fam_i["decoded_ok"] += 1 if a.dec == "ok" else 0
            bad = mc.c02_spec(c, a)
            if bad:
                nviol += 1
                # wrong bytes first, then calls that do not come back, then the rest
                rank = 0 if (a.kind == "OK" and a.dec != "ok") or a.kind == "OVERRUN" else 1 if a.failed_to_return() else 2
                cd = c.case()
                cd.update({"failed": bad, "result": a.result_str()})
                if a.history:
                    cd["history"] = a.history
                    cd["history_note"] = "requests that ran before on the same reused pool, in the same process, in this order"
                spec_reports.append((rank, len(spec_reports), cd, {"impl": a.head[:600], "model": "(see --replay)", "spec": "FAIL: " + "; ".join(bad)}, "; ".join(bad)[:400]))
            hist["quality"][str(c.q)] = hist["quality"].get(str(c.q), 0) + 1
            hist["lgwin"][str(c.w)] = hist["lgwin"].get(str(c.w), 0) + 1
            hist["threads"][str(c.t)] = hist["threads"].get(str(c.t), 0) + 1
            hist["spawner"][c.sp.split(":")[0]] = hist["spawner"].get(c.sp.split(":")[0], 0) + 1
            hist["flags"][str(c.f)] = hist["flags"].get(str(c.f), 0) + 1
            rk = a.kind if a.kind != "ERR" else "ERR:" + a.err
            hist["result"][rk] = hist["result"].get(rk, 0) + 1
            b = "0" if c.n == 0 else "1-99" if c.n < 100 else "100-9999" if c.n < 10000 else "10000-99999" if c.n < 100000 else ">=100000"
            hist["input_len"][b] += 1
            if nontrivial(c):
                nontriv.add((c.sp, c.q, c.w, c.f, c.t, c.kind, c.n, c.seed, c.out, c.hint))
            reached_classes(c, a, reached)
        # ---- correspondence: the same calls on the model
        if os.path.exists(model):
            sub = [(c, a) for c, a in zip(cases, answers) if not c.sp.startswith("slice") and a.kind not in ("TOOL", "NORETURN", "?") and c.n <= 400000]
            mlines, mans = mc.run_model(model, [x[0] for x in sub], [x[1] for x in sub], run.rng)
            run.note("profile %s: %d calls replayed on the model in %.1fs" % (prof, len(sub), time.time() - t1))
            for (c, a), ml, ma in zip(sub, mlines, mans):
                ntraces += 1
                diffs = mc.compare(c, a, ma)
                if diffs:
                    ndis += 1
                    if ndis <= 4:
                        cd = c.case()
                        cd.update({"model_line": ml[:3000], "diffs": diffs})
                        # does the implementation behave like the code as found?
                        old = vlib.run_lines(model, [ml.replace("ver=cur", "ver=asf")], shards=1)[0]
                        hint = " (the model of the code AS FOUND agrees: a fix looks reverted)" if not mc.compare(c, a, old) else ""
                        corr_reports.append((cd, {"impl": a.text[:1500], "model": ma[:1500], "spec": "; ".join(mc.c02_spec(c, a)) or "OK"},
                                             "correspondence Multi.v vs threading.rs/encode.rs: " + "; ".join(diffs)[:500] + hint))
        if not samples:
            samples = [cases[0].line(False), cases[len(cases) // 3].line(False), cases[len(cases) // 2].line(False), cases[-1].line(False)]
    # ---- verdicts: failures of the property on a concrete input first, then differences from the model only
    for rank, _, cd, obs, what in sorted(spec_reports, key=lambda r: (r[0], r[1]))[:8]:
        run.report("spec-violation", cd, obs, what=what)
    for cd, obs, brk in corr_reports:
        run.report("correspondence", cd, obs, broken=brk, found_input=False)
    if notrun:
        run.report("proof-obligation", {"stage": "search", "requests_not_run": notrun}, {"hung_or_dead_processes": budget.used},
                   broken="%d requests were not run because %d harness processes had hung or died (reported above, up to the report cap); they are not counted as checked" % (notrun, budget.used),
                   found_input=False)
    run.cov["requests_not_run"] = notrun
    run.cov["harness_processes_hung_or_dead"] = budget.used
    run.cov["max_call_ms"] = max_ms
    run.cov["watchdog"] = "a call that has not returned after 60 s + 1 s per 50 kB (more at quality 10/11) is answered NORETURN and reported"
    run.cov["family_I_stored_first_metablock_then_short_copies"] = fam_i
    run.cov["evaluations"] = total + ntraces + nrange
    run.cov["distinct_nontrivial"] = len(nontriv)
    run.cov["traces_validated_against_impl"] = ntraces
    run.cov["samples"] = samples
    run.cov["histograms"] = hist
    run.cov["reached"] = reached
    run.cov["unreached"] = [k for k, v in reached.items() if v == 0 and not (k == "supplied_hasher_used_release" and not thorough)]
    run.cov["spec_violations"] = nviol
    run.cov["model_disagreements"] = ndis
    run.note("%d calls, %d spec violations, %d model disagreements; reached: %s" % (total, nviol, ndis, ", ".join("%s=%d" % kv for kv in reached.items())))
    if not ok_proof and not run.violations:
        run.report("proof-obligation", {"stage": "proof"}, {"broken": broken}, broken="; ".join(b[:400] for b in broken), found_input=False)


def replay(path):
    d = json.load(open(path))
    case = d.get("case", {})
    line = case.get("line")
    if not line:
        print("replay file has no request line (kind=%s): %s" % (d.get("kind"), d.get("broken")))
        return 1
    prof = case.get("profile", "dev")
    vlib.coq_regen(GEN)
    _, _, impl = vlib.harness_build("multi", prof)
    _, _, model = mc.build_model()
    c = mc.case_from_line(line, prof)
    hist = case.get("history") or []
    if hist:
        print("%d earlier requests on the same pool, in the same process:" % len(hist))
        for h in hist:
            print("   " + h)
        a = mc.run_sequence(impl, hist + [c.line()])[-1]
        alone = mc.run_impl(impl, [c], shards=1)[0]
        print("the request alone, in a fresh process: %s" % alone.head[:300])
    else:
        a = mc.run_impl(impl, [c], shards=1)[0]
    print("request: %s   (profile %s)" % (c.line(), prof))
    print("impl:  %s" % a.text[:4000])
    import random
    ml = mc.model_line(c, a, random.Random(1))
    ma = vlib.run_lines(model, [ml], shards=1)[0]
    mo = vlib.run_lines(model, [ml.replace("ver=cur", "ver=asf")], shards=1)[0]
    print("model request: %s" % ml[:3000])
    print("model: %s" % ma[:3000])
    print("model (code as found): %s" % mo[:3000])
    diffs = mc.compare(c, a, ma)
    print("correspondence: %s" % ("OK" if not diffs else "DIFF " + "; ".join(diffs)))
    bad = mc.c02_spec(c, a)
    print("spec:  %s" % ("OK" if not bad else "FAIL (" + "; ".join(bad) + ")"))
    return 0 if not bad and not diffs else 1
