"""C03 - one appendable (or catable) stream followed by catable streams whose declared windows do
not grow: the concatenator reports success and its output decodes to the concatenation of the
contents, for empty and tiny members in any position, every bit alignment of the previous end
marker and every header form of the next member."""
import json
import vlib
from checks.concat_common import *

PROP = "C03"
LEVEL = "proof"


def end_offset(m):
    """bit position (0-7) of ISLAST inside its byte, 7 = the marker straddles the last two bytes"""
    if not m or m[-1] == 0:
        return None
    h = m[-1].bit_length() - 1
    return 7 if h == 0 else h - 1


def header_form(m):
    if len(m) < 5:
        return "short(<5B)"
    wb = read_wbits(m)
    if wb is None:
        return "badwbits"
    bits = int.from_bytes(m[:7], "little") >> wb[1]
    if bits & 1:
        return "w%d islast" % wb[1]
    mn = (bits >> 1) & 3
    if mn == 3:
        return "w%d meta%d" % (wb[1], (bits >> 4) & 3)
    return "w%d raw%d" % (wb[1], mn + 4)


def is_large_format(m):
    wb = read_wbits(m)
    return bool(wb and wb[1] == 14)


def mixed_large_window(init, ms):
    """do the members the concatenator processes (>= 5 bytes), together with a window override,
    mix the large-window stream format with the RFC 7932 one?"""
    kinds = set()
    if init != "new":
        kinds.add(int(init[1:]) > 24)
    for m in ms:
        if len(m["bytes"]) >= 5:
            kinds.add(is_large_format(m["bytes"]))
    return len(kinds) > 1


def header_bits(m):
    """number of bits of WBITS + first meta-block header of a member, None if not of the shiftable shape"""
    wb = read_wbits(m)
    if wb is None:
        return None
    bits = int.from_bytes(m[:7], "little") >> wb[1]
    if bits & 1:
        return None
    mn = (bits >> 1) & 3
    if mn == 3:
        return wb[1] + 6 + 8 * ((bits >> 4) & 3)
    return wb[1] + 3 + 4 * (mn + 4) + 1


def header_exceeds_lookahead(init, ms):
    """does a member that gets shifted (any processed member but the very first) have a first header
    that does not end inside the 5 look-ahead bytes?"""
    first = (init == "new")
    for m in ms:
        if len(m["bytes"]) < 5:
            continue
        if not first:
            hb = header_bits(m["bytes"])
            if hb is not None and (hb + 7) // 8 > 5:
                return True
        first = False
    return False


def dec_answer(ans):
    """decoded bytes of a DEC / DECG answer, None when the decoder refused (or the answer is not a
    well-formed one, e.g. the tool died: that is a refusal too, never a crash of the check)"""
    t = ans.split()
    if not t or t[0] != "OK":
        return None
    try:
        return unhx(t[1]) if len(t) > 1 else b""
    except ValueError:
        return None


def enc_pool(run, tools, thorough):
    rng = run.rng
    cs = contents(rng, thorough)
    cfgs = []
    for lg in (10, 12, 15, 16, 17, 18, 20, 22, 24):
        for q in ((0, 2, 5, 9, 11) if thorough else (1, 5, 10)):
            cfgs.append((q, lg, rng.choice(["", "m", "", "mh"])))
    for lg in (25, 28, 30):
        cfgs.append((rng.choice([3, 5, 9]), lg, "l" + rng.choice(["", "m"])))
    jobs = []
    for c in cs:
        big = len(c) > 6000
        for (q, lg, fl) in (rng.sample(cfgs, 5) if big else cfgs):
            if big and q >= 10 and not thorough:
                q = 6
            jobs.append((c, q, lg, fl + "c"))
            if rng.random() < 0.5:
                jobs.append((c, q, lg, fl + "a"))
    # many small members at the widest windows, so that every end-marker bit offset is available as
    # a predecessor for every header form
    text = cs[12] + cs[13] + cs[14] + b" The quick brown fox jumps over the lazy dog; pack my box with five dozen liquor jugs."
    for i in range(140 if thorough else 96):
        c = text[i % 7:(i % 7) + 1 + (i * 5) % 61]
        jobs.append((c, rng.choice([2, 5, 9]), 24, rng.choice(["a", "c", "mc"])))
        jobs.append((c, rng.choice([3, 5, 9]), 30, "l" + rng.choice(["a", "c", "mc"])))
    res = tools.impl([enc_line(q, lg, fl, c) for (c, q, lg, fl) in jobs])
    pool, bad = [], []
    for (c, q, lg, fl), r in zip(jobs, res):
        if r.startswith("OK"):
            b = unhx(r.split()[1])
            wb = read_wbits(b)
            pool.append({"bytes": b, "content": c, "kind": "enc q%d w%d %s" % (q, lg, fl), "catable": "c" in fl, "lgwin": wb[0] if wb else None})
        else:
            bad.append((q, lg, fl, len(c), r[:80]))
    return pool, bad


def hand_pool(rng, thorough):
    out = []
    for form, lg in WFORMS:
        cases = [("meta", 0, b""), ("meta", 1, b"M"), ("meta", 1, b"M" * 256), ("meta", 2, b"N" * 257), ("raw", 4, b"x"), ("raw", 4, b"hello world!"),
                 ("raw", 4, bytes(rng.randrange(256) for _ in range(300))), ("empty", 0, b"")]
        if form in (1, 4) or thorough:
            cases += [("meta", 3, b"K" * 65537), ("raw", 5, bytes((i * 7) & 255 for i in range(65537)))]
        if thorough and form in (1, 4):
            cases += [("raw", 6, bytes((i * 13) & 255 for i in range((1 << 20) + 1)))]
        for kind, arg, pl in cases:
            for tail in (b"", b"T", b"tail of the member"):
                b, c = handmade(form, lg, kind, arg, pl, tail)
                out.append({"bytes": b, "content": c, "kind": "hand w%d/%d %s%d" % (lg, form, kind, arg), "catable": True, "lgwin": lg})
    return out


def prng_bytes(n, seed):
    """incompressible bytes that do not depend on the run's seed"""
    x, out = (seed * 0x9E3779B97F4A7C15 + 1) & ((1 << 64) - 1), bytearray()
    for _ in range(n):
        x ^= (x >> 12)
        x ^= (x << 25) & ((1 << 64) - 1)
        x ^= (x >> 27)
        out.append(((x * 0x2545F4914F6CDD1D) >> 56) & 255)
    return bytes(out)


ALPHA = b"qwertzuiopasdfghjklyxcvbnm0123456789"


def carry_pool(run, tools, thorough):
    """members whose encoding could lean on decoder state that a concatenated member does not have:
    the ring of last distances (initial values 4, 11, 15, 16 and whatever an earlier meta-block left
    there), the static dictionary, the two bytes of literal context before the member.
    contents: incompressible head (so that the first meta-block is stored uncompressed) + short-period
    tail (periods 1..16), produced one-shot and with a flush after the head; members that start with
    repeats at the distances 4/11/15/16; members that start with static-dictionary words."""
    rng = run.rng
    jobs = []      # (content, line, kind)
    quals = [2, 3, 4, 5, 6, 7, 9, 10, 11]

    def one(content, q, lg, fl, kind):
        jobs.append((content, enc_line(q, lg, fl, content), kind + " one-shot q%d w%d %s" % (q, lg, fl)))

    def flushed(head, tail, q, lg, fl, kind):
        jobs.append((head + tail, "ENCS %d %d %s W%s L W%s" % (q, lg, fl, hx(head), hx(tail)), kind + " flush-after-head q%d w%d %s" % (q, lg, fl)))

    for period in range(1, 17):
        tail = bytes(ALPHA[i % period] for i in range(700 if period % 2 else 1500))
        for hs in ((40, 1000) if not thorough else (40, 300, 1000, 5000)):
            head = prng_bytes(hs, 100 + period + hs)
            for q in (rng.sample(quals, 2) if not thorough else rng.sample(quals, 4)):
                lg = rng.choice([16, 18, 22])
                fl = rng.choice(["c", "c", "cm", "a"])
                if hs:
                    flushed(head, tail, q, lg, fl, "head%d+period%d" % (hs, period))
                one(head + tail, q, lg, fl, "head%d+period%d" % (hs, period))
    # the first meta-block of a one-shot compression is cut inside the head only when the head is long
    for period in ((4, 11, 16) if not thorough else (1, 3, 4, 11, 15, 16)):
        head = prng_bytes(140000, 7 + period)
        tail = bytes(ALPHA[i % period] for i in range(6000))
        for q in ((2, 5) if not thorough else (2, 5, 9)):
            one(head + tail, q, 16, "c", "head140000+period%d" % period)
    # repeats at exactly the distances a fresh decoder has in its ring, from the member's first bytes on
    for d in (4, 11, 15, 16):
        for variant in range(2):
            start = prng_bytes(d, 50 + d + variant) if variant == 0 else bytes(ALPHA[(7 * i) % len(ALPHA)] for i in range(d))
            content = bytearray(start)
            while len(content) < 400:
                content.append(content[-d])
            for q in rng.sample(quals, 3 if not thorough else 6):
                one(bytes(content), q, rng.choice([16, 22]), "c", "repeat-at-distance-%d" % d)
                flushed(bytes(content[:d + 3]), bytes(content[d + 3:]), q, 22, "c", "repeat-at-distance-%d" % d)
    # static-dictionary words right at the start of a member
    for text in (b"The Government of the United States, which is the information about the development of the international",
                 b"                 and the                        of the                     ", b"<!DOCTYPE html><html><head><meta charset=\"utf-8\"><title>"):
        for q in rng.sample(quals, 3 if not thorough else 6):
            one(text, q, 22, "c", "dictionary-words-first")
            one(text * 6, q, 18, "a", "dictionary-words-first")
    res = tools.impl([j[1] for j in jobs])
    pool = []
    for (c, line, kind), r in zip(jobs, res):
        if r.startswith("OK"):
            b = unhx(r.split()[1])
            wb = read_wbits(b)
            fl = line.split()[3]
            pool.append({"bytes": b, "content": c, "kind": "carry " + kind, "catable": "c" in fl, "lgwin": wb[0] if wb else None, "carry": True})
        else:
            run.note("encoder failed on a state-carry member: %s -> %s" % (kind, r[:80]))
    return pool


def carry_lists(run, pool, prevs_src):
    """every state-carry member in non-first position behind members of several lengths (and, when it is
    only appendable, in first position in front of a catable one)"""
    rng = run.rng
    prevs = sorted([p for p in prevs_src if not is_large_format(p["bytes"]) and p["lgwin"] == 24 and 5 <= len(p["bytes"]) <= 20000 and not p.get("carry")],
                   key=lambda p: len(p["bytes"]))
    cats = [p for p in prevs_src if p["catable"] and len(p["bytes"]) >= 5 and (p["lgwin"] or 99) <= 16 and not is_large_format(p["bytes"])]
    lists = []
    if not prevs:
        return lists
    picks = [prevs[0], prevs[len(prevs) // 2], prevs[-1]]
    for k, m in enumerate(p for p in pool if p.get("carry")):
        if m["catable"]:
            big = len(m["bytes"]) > 50000
            for pv in ([picks[k % 3]] if big else picks):
                lists.append(("new", [pv, m]))
            if not big:
                lists.append(("new", [rng.choice(prevs), rng.choice([p for p in prevs if p["catable"]] or [m]), m, m]))
                lists.append(("w24", [m]))
        elif cats:
            lists.append(("new", [m, rng.choice(cats)]))
    return lists


# fixed witnesses of the two recorded (known) findings; they do not depend on the seed, the tier or the encoder
PINNED_MIXED = ("8b0080303168020040dc606c5ed288a362c2e574f61e6c", b"0123456789" * 8)     # catable, lgwin 22, RFC 7932 format


def pinned_lists():
    rfc = {"bytes": unhx(PINNED_MIXED[0]), "content": PINNED_MIXED[1], "kind": "pinned catable q5 w22 (simple distance code)", "catable": True, "lgwin": 22}
    lf_b, lf_c = handmade(14, 22, "raw", 4, b"hello")
    large_first = {"bytes": lf_b, "content": lf_c, "kind": "pinned hand w22/14 raw4", "catable": True, "lgwin": 22}
    lm_b, lm_c = handmade(14, 22, "meta", 3, b"K" * 65537, b"T")
    large_meta3 = {"bytes": lm_b, "content": lm_c, "kind": "pinned hand w22/14 meta3", "catable": True, "lgwin": 22}
    return [("w30", [rfc]),                              # C03-mixed-large-window-format
            ("new", [large_first, rfc]),                 # the same class without a window override
            ("new", [large_first, large_meta3])]         # C03-header-longer-than-lookahead


def systematic_lists(run, pool):
    """every end-marker bit offset (0-7) of the previous member x every header form of the next
    one, with and without a trailing empty member (which makes finish() re-append the marker)"""
    rng = run.rng
    lists = []
    forms = {}
    for p in pool:
        if p["catable"]:
            forms.setdefault((header_form(p["bytes"]), is_large_format(p["bytes"])), []).append(p)
    for large in (False, True):
        prevs = {}
        for p in pool:
            if len(p["bytes"]) >= 5 and len(p["bytes"]) < 3000 and is_large_format(p["bytes"]) == large and p["lgwin"] == (30 if large else 24):
                prevs.setdefault(end_offset(p["bytes"]), []).append(p)
        shorts = [p for p in pool if len(p["bytes"]) < 5 and p["catable"]]
        for o in sorted(k for k in prevs if k is not None):
            for (hf, lg), cands in sorted(forms.items()):
                if lg != large and not hf.startswith("short"):
                    continue
                prev, nxt = rng.choice(prevs[o]), rng.choice(cands)
                if len(nxt["bytes"]) >= 5 and nxt["lgwin"] > prev["lgwin"]:
                    continue
                # headers longer than the look-ahead are a known finding: one offset is enough
                if header_exceeds_lookahead("new", [prev, nxt]) and o != 3:
                    continue
                lists.append(("new", [prev, nxt]))
                lists.append(("new", [prev, nxt, rng.choice(shorts)]))
    return lists


def gen_lists(run, pool, thorough):
    rng = run.rng
    lists = systematic_lists(run, pool)
    small = [p for p in pool if len(p["bytes"]) <= 400]
    n = 900 if thorough else 260
    by_off = {}
    for p in pool:
        by_off.setdefault(end_offset(p["bytes"]), []).append(p)
    for i in range(n):
        k = rng.choice([1, 2, 2, 2, 3, 3, 4, 5, 8])
        src = pool if (i % 3 == 0) else small
        first = rng.choice(src)
        # steer towards every end-marker offset, the straddling one in particular
        if i % 2 == 0:
            off = rng.choice([o for o in by_off if o is not None])
            first = rng.choice(by_off[off])
        rest = []
        for _ in range(k - 1):
            cand = rng.choice(src)
            if rng.random() < 0.5:
                off = rng.choice([o for o in by_off if o is not None])
                cand = rng.choice(by_off[off])
            rest.append(cand)
        rest = [m for m in rest if m["catable"]]
        init = "new"
        if rng.random() < 0.25:
            init = "w%d" % rng.choice([10, 12, 15, 16, 17, 18, 20, 22, 24, 26, 30])
        # declared windows must not grow along the list (the override counts as the first one);
        # members shorter than the look-ahead are skipped by the concatenator and do not count
        ms, cur = [], (int(init[1:]) if init != "new" else None)
        if init != "new" and not first["catable"]:
            # behind a window override the first member is shifted like any later one: it must be catable
            cands = [m for m in src if m["catable"]]
            first = rng.choice(cands)
        for m in [first] + rest:
            if len(m["bytes"]) >= 5:
                if cur is not None and m["lgwin"] > cur:
                    continue
                cur = m["lgwin"]
            ms.append(m)
        if not ms:
            continue
        if sum(len(m["bytes"]) for m in ms) > (3000000 if thorough else 400000):
            continue
        # headers longer than the look-ahead are a known finding: keep them to one list in ten
        if header_exceeds_lookahead(init, ms) and i % 10 != 0:
            continue
        # lists mixing the two stream formats are a known finding: keep them to one list in ten
        if mixed_large_window(init, ms) and i % 10 != 0:
            lg = [m for m in ms if len(m["bytes"]) < 5 or is_large_format(m["bytes"]) == (int(init[1:]) > 24 if init != "new" else is_large_format(ms[0]["bytes"]))]
            ms = lg
            if not ms or mixed_large_window(init, ms):
                continue
        lists.append((init, ms))
    return lists


def check(run):
    thorough = run.tier == "thorough"
    ok_proof, broken = vlib.proof_stage(run, "props/C03.v", GEN_SECTIONS, TRUSTED)
    tools = Tools(run, ("dev",))
    if tools.problems:
        run.note("; ".join(tools.problems)[:600])
    if not tools.ok:
        run.report("proof-obligation", {"stage": "build"}, {"log": tools.problems}, broken="harness or executable model could not be built: " + "; ".join(tools.problems)[:400], found_input=False)
        return
    rng = run.rng
    pool, encbad = enc_pool(run, tools, thorough)
    if encbad:
        run.note("encoder refused/failed %d member requests, e.g. %s" % (len(encbad), encbad[:2]))
    pool = pool + hand_pool(rng, thorough) + carry_pool(run, tools, thorough)
    # the members themselves must decode to their contents (validates the generator, not the property)
    selfd = tools.impl(["DECG " + hx(p["bytes"]) for p in pool])
    keep = []
    for p, d in zip(pool, selfd):
        if dec_answer(d) == p["content"]:
            keep.append(p)
    if len(keep) != len(pool):
        run.note("dropped %d generated members that do not decode to their content on their own (generator problem)" % (len(pool) - len(keep)))
    pool = keep
    pinned = pinned_lists()
    pd = tools.impl(["DECG " + hx(m["bytes"]) for _, ms in pinned for m in ms])
    if not all(d.startswith("OK") for d in pd):
        run.note("a pinned witness member no longer decodes on its own (generator problem)")
    lists = pinned + carry_lists(run, pool, pool) + gen_lists(run, [p for p in pool if not p.get("carry")], thorough)
    jobs = []     # (list index, variant, line)
    for li, (init, ms) in enumerate(lists):
        bs = [m["bytes"] for m in ms]
        total = sum(len(b) for b in bs)
        jobs.append((li, "one-shot", mk_run(bs, init=init)))
        if total <= 1500:
            jobs.append((li, "1byte", mk_run(bs, [[1] * len(b) for b in bs], init=init)))
            jobs.append((li, "tiny-buffers", mk_run(bs, [[3, 1, 1, 2, 5] for b in bs], caps=[rng.choice([1, 2, 3])], init=init, percall=rng.random() < 0.5)))
            jobs.append((li, "C-ABI", mk_run(bs, [[7] * 4 for b in bs], caps=[9], api="F", init=init)))
        elif total <= 100000:
            jobs.append((li, "blocks", mk_run(bs, [[4096] * (len(b) // 4096 + 1) for b in bs], caps=[4096], init=init)))
    lines = [j[2] for j in jobs]
    ia = tools.impl(lines)
    ma = tools.model(lines)
    nbad, corr = 0, []
    for l, a, m in zip(lines, ia, ma):
        if canon(a) != m:
            nbad += 1
            if nbad <= 4:
                corr.append(dict(case=write_replay_case("script", l if len(l) < 20000 else l[:20000]), observed={"impl": a[:2000], "model": m[:2000], "spec": "n/a"},
                                 broken="correspondence model/Concat.v vs src/concat/mod.rs: " + first_diff(canon(a), m)))
    parsed = [parse_answer(a) for a in ia]
    dec = tools.impl(["DEC " + hx(p["out"]) for p in parsed])
    decg = tools.impl(["DECG " + hx(p["out"]) for p in parsed])
    # bit-level specification applied to the implementation's one-shot output
    sjobs = [(k, "CSPEC %s %s" % (lists[li][0], " ".join(hx(m["bytes"]) for m in lists[li][1])))
             for k, (li, var, l) in enumerate(jobs) if var == "one-shot" and sum(len(m["bytes"]) for m in lists[li][1]) <= 40000]
    sres = dict(zip([k for k, _ in sjobs], tools.model([s for _, s in sjobs])))
    cells, nviol, nspec_applied, nmarker_out = {}, 0, 0, 0
    pending = []    # violations found: (unknown?, script size, job index, case, line, members, why)
    sizes = {"empty": 0, "1-3B content": 0, "short(<5B) member": 0, ">=64KiB member": 0}
    for k, ((li, var, l), p, d, g) in enumerate(zip(jobs, parsed, dec, decg)):
        init, ms = lists[li]
        want = b"".join(m["content"] for m in ms)
        large = any((m["lgwin"] or 0) > 24 for m in ms if len(m["bytes"]) >= 5) or (init != "new" and int(init[1:]) > 24)
        why = None
        if p["final"] != "0":
            why = "final result %s instead of Success" % final_name(p["final"])
        else:
            gd, rd = dec_answer(g), dec_answer(d)
            if gd is None:
                why = "libbrotlidec rejects the concatenation"
            elif gd != want:
                why = "libbrotlidec decodes %d bytes, expected %d (first difference at %d)" % (len(gd), len(want), next((i for i, (x, y) in enumerate(zip(gd, want)) if x != y), min(len(gd), len(want))))
            elif rd is None and not large:
                why = "brotli-decompressor rejects the concatenation"
            elif rd is not None and rd != want:
                why = "brotli-decompressor decodes to different bytes"
            elif k in sres and sres[k].endswith("M=0"):
                # outside the domain of theorem C03_bits (a 5/6-byte string whose end marker lies inside the
                # look-ahead bytes is not a Brotli stream): the decoders above are the only judges
                nmarker_out += 1
            elif k in sres:
                nspec_applied += 1
                if sres[k].startswith("OK") and unhx(sres[k].split()[1]) != p["out"]:
                    why = "output differs from the bit-level concatenation specification (concat_spec)"
                elif not sres[k].startswith("OK"):
                    why = "the bit-level specification does not apply to this list (generator/spec problem): " + sres[k]
        if var == "one-shot":
            prev = None
            if init != "new":
                prev = {16: 1, 17: 7}.get(int(init[1:]), 4 if 18 <= int(init[1:]) <= 24 else (6 if int(init[1:]) > 24 else 7))
            for m in ms:
                hf = header_form(m["bytes"])
                if prev is not None:
                    cells[(prev, hf)] = cells.get((prev, hf), 0) + 1
                if len(m["bytes"]) >= 5:
                    prev = end_offset(m["bytes"])
                if len(m["content"]) == 0:
                    sizes["empty"] += 1
                elif len(m["content"]) <= 3:
                    sizes["1-3B content"] += 1
                if len(m["bytes"]) < 5:
                    sizes["short(<5B) member"] += 1
                if len(m["bytes"]) >= 65536:
                    sizes[">=64KiB member"] += 1
        if why:
            nviol += 1
            case = {"kind": "concat", "variant": var, "init": init, "mixed_large_window": mixed_large_window(init, ms),
                    "header_exceeds_lookahead": header_exceeds_lookahead(init, ms), "member_kinds": [m["kind"] for m in ms], "member_sizes": [len(m["bytes"]) for m in ms],
                    "content_sizes": [len(m["content"]) for m in ms], "end_offsets": [end_offset(m["bytes"]) for m in ms]}
            pending.append((vlib.match_known(PROP, case) is None, len(l), k, case, l, ms, why))
    # recorded known findings are always passed on (they print KNOWN-FINDING once each); of the others the
    # five smallest scripts are reported, so that the replay is a small concrete input
    nunknown = sum(1 for x in pending if x[0])
    shown = 0
    for unknown, _, k, case, l, ms, why in sorted(pending, key=lambda x: (x[0], x[1])):
        if unknown:
            shown += 1
            if shown > 5:
                break
        if len(l) < 800000:
            case["request"] = l
            case["members_hex"] = [hx(m["bytes"]) for m in ms]
            case["contents_hex"] = [hx(m["content"]) for m in ms]
        p = parsed[k]
        run.report("spec-violation", case, {"impl": {"final": final_name(p["final"]), "out": hx(p["out"])[:4000]}, "model": ma[k][:300], "spec": why},
                   what="concatenation of appendable/catable members: " + why)
    offs = sorted(set(c[0] for c in cells))
    forms = sorted(set(c[1] for c in cells))
    run.cov["reached_cells"] = {"rows = bit offset of the previous end marker (7 = straddling)": offs,
                                "table": {f: [cells.get((o, f), 0) for o in offs] for f in forms}}
    unre = [(o, f) for o in range(8) for f in forms if cells.get((o, f), 0) == 0]
    run.cov["unreached_cells"] = ["offset %d x %s" % c for c in unre][:60]
    run.cov["member_classes"] = sizes
    run.cov["evaluations"] = len(lines)
    run.cov["distinct_nontrivial"] = len(set(j[2] for j in jobs if len(lists[j[0]][1]) >= 2 or lists[j[0]][0] != "new"))
    run.cov["rule"] = ("lists of 1-8 members: encoder-made (first appendable or catable, rest catable; qualities 0-11, lgwin 10-30 incl. large window, magic number, size hint; "
                       "contents empty / 1-3 bytes / text / random / block-size multiples / long) and hand-built members with every WBITS form x metadata MSKIPBYTES 0-3 / "
                       "uncompressed MNIBBLES 4-5(-6 thorough); state-carry members in non-first position (incompressible head + period 1..16 tail, one-shot and with a "
                       "flush after the head, repeats at the initial ring distances 4/11/15/16, dictionary words first; qualities 2-11); pinned witnesses of the recorded "
                       "known findings; declared windows non-increasing; optional window override; run one-shot, byte-wise, with tiny buffers and through "
                       "the C ABI; output decoded by brotli-decompressor and libbrotlidec and compared with the concatenated contents, and compared with the Coq bit-level "
                       "specification concat_spec. distinct_nontrivial = distinct scripts that cross at least one member boundary (>= 2 members or a window override)")
    run.cov["traces_validated_against_impl"] = len(lines)
    run.cov["bit_level_spec_applied"] = nspec_applied
    run.cov["lists_outside_markers_ok"] = nmarker_out
    run.cov["member_lists"] = len(lists)
    run.cov["state_carry_members"] = sum(1 for p in pool if p.get("carry"))
    run.cov["state_carry_lists"] = sum(1 for (_, m0) in lists if any(m.get("carry") for m in m0))
    run.cov["pinned_known_finding_lists"] = len(pinned)
    run.cov["lists_mixing_large_window_format"] = sum(1 for (i0, m0) in lists if mixed_large_window(i0, m0))
    run.cov["lists_with_header_longer_than_lookahead"] = sum(1 for (i0, m0) in lists if header_exceeds_lookahead(i0, m0))
    run.cov["samples"] = [jobs[0][2][:300], jobs[len(jobs) // 2][2][:300], {"init": lists[-1][0], "members": [m["kind"] for m in lists[-1][1]]}]
    run.note("%d members in the pool, %d lists, %d runs, %d correspondence problems, %d violations (%d of a recorded known class, %d new), %d cells reached, %d unreached" %
             (len(pool), len(lists), len(lines), nbad, nviol, nviol - nunknown, nunknown, len(cells), len(unre)))
    # a broken correspondence is reported on its own only when the search found no failing input
    if corr and not any(v[2] for v in run.violations):
        for c in corr:
            run.report("correspondence", c["case"], c["observed"], broken=c["broken"], found_input=False)
    if not ok_proof and not run.violations:
        run.report("proof-obligation", {"stage": "proof"}, {"broken": broken}, broken="; ".join(b[:400] for b in broken), found_input=False)


def _spec(tools, case, prof):
    if "request" not in case or "contents_hex" not in case:
        return "OK"
    a = parse_answer(tools.impl([case["request"]], prof)[0])
    want = b"".join(unhx(c) for c in case["contents_hex"])
    if a["final"] != "0":
        return "FAIL final result %s" % final_name(a["final"])
    g = tools.impl(["DECG " + hx(a["out"])], prof)[0]
    d = tools.impl(["DEC " + hx(a["out"])], prof)[0]
    print("decoders: libbrotlidec %s | brotli-decompressor %s" % (g[:60], d[:60]))
    gd = dec_answer(g)
    if gd != want:
        return "FAIL the output does not decode to the concatenated contents"
    s = tools.model(["CSPEC %s %s" % (case["init"], " ".join(case["members_hex"]))])[0]
    if s.startswith("OK") and unhx(s.split()[1]) != a["out"]:
        return "FAIL output differs from concat_spec"
    return "OK"


def replay(path):
    return replay_common(path, _spec)
