"""C04 - a completed flush makes all prior input decodable; metadata is transparent."""
import json, os
import vlib
from checks import stream_common as sc
from checks import c20

PROP = "C04"
LEVEL = "proof"


def meta_hex(start, n):
    return "".join("%02x" % (((start + i) * 7 + 3) & 0xff) for i in range(n))


def gen_cases(run, thorough):
    rng = run.rng
    cases, meta = [], []
    cfgs = [c for c in c20.CONFIGS if c[0] not in c20.HEAVY or thorough]
    # 1. flush at every position of short inputs, with output buffers too small to hold the flush
    for label, params in cfgs:
        n = 40 if not thorough else 120
        kinds = ["text", "rand", "skew"] if label not in c20.HEAVY else ["text"]
        for kind in kinds:
            seed = rng.randrange(1, 1 << 30)
            step = 1 if thorough else 3
            for k in range(0, n + 1, step):
                cap = rng.choice([1, 2, 3, 17, 1 << 16])
                reps = (k + 40) // cap + 3 if cap < 100 else 2
                calls = ["p%d/%d" % (k, 1 << 16)] + ["f0/%d" % cap] * min(reps, 200)
                calls += ["p%d/%d" % (n - k, cap)] + ["f0/%d" % (1 << 16)] * 2 + c20.finish_suffix(3)
                cases.append("P=%s D=%s:%d:%d C=%s" % (params, kind, n, seed, ",".join(calls)))
                meta.append(("flush-every-pos", label))
    # 2. flush / metadata at PRNG positions of longer inputs, repeated flushes, flush with input in the same call
    nlong = 500 if thorough else 140
    for _ in range(nlong):
        label, params = rng.choice(cfgs)
        blk = c20.block_of(label)
        dlen = rng.choice([1, 2, 3, 1000, blk - 1, blk, blk + 1, 2 * blk + 77, 150000])
        dlen = min(dlen, 300000 if label not in c20.HEAVY else 5000)
        calls = []
        for _ in range(rng.randrange(1, 9)):
            cap = rng.choice([1, 5, 17, 300, 1 << 17])
            chunk = rng.choice([0, 1, 2, 77, blk - 1, blk, blk + 1, 40000])
            r = rng.random()
            if r < 0.5:
                calls += ["p%d/%d" % (chunk, 1 << 17)] + ["f0/%d" % cap] * (3 if cap > 100 else 12) + ["f0/%d" % (1 << 20)] * 2
            elif r < 0.7:
                calls += ["f%d/%d" % (chunk, cap)] + ["f999999999/%d" % (1 << 20)] * 3
            else:
                k = rng.choice([0, 1, 2, 3, 15, 16, 17, 255, 256, 257, 65535, 65536, 70001])
                calls += ["p%d/%d" % (chunk, 1 << 17), "m%d/%d" % (k, cap)] + ["mR/%d" % cap] * 4 + ["mR/%d" % (1 << 20)] * 2
        calls += c20.finish_suffix(4)
        cases.append("P=%s D=%s:%d:%d C=%s" % (params, rng.choice(["text", "rand", "mix", "zero", "skew", "period"]), dlen,
                                               rng.randrange(1, 1 << 30), ",".join(calls)))
        meta.append(("long", label))
    # 3. every metadata payload size class at the start, in the middle and at the end of a stream
    sizes = [0, 1, 2, 3, 15, 16, 17, 127, 128, 255, 256, 257, 65535, 65536, 65537] + ([1 << 20] if thorough else [])
    for label, params in cfgs:
        for k in sizes:
            for where in ("start", "mid", "end"):
                cap = rng.choice([0, 1, 16, 17, 1 << 21])
                m = ["m%d/%d" % (k, cap)] + ["mR/%d" % max(cap, 1)] * 3 + ["mR/%d" % (1 << 21)] * 2
                dlen = 3000 if label not in c20.HEAVY else 600
                if where == "start":
                    calls = m + ["p%d/%d" % (dlen, 1 << 20)]
                elif where == "mid":
                    calls = ["p%d/%d" % (dlen // 2, 1 << 20)] + m + ["p%d/%d" % (dlen, 1 << 20)]
                else:
                    calls = ["p%d/%d" % (dlen, 1 << 20)] + m
                calls += c20.finish_suffix(3)
                cases.append("P=%s D=text:%d:%d C=%s" % (params, dlen, rng.randrange(1, 1 << 30), ",".join(calls)))
                meta.append(("meta-%s" % where, label))
    return cases, meta


def metadata_verbatim(case, impl_line):
    """every completed metadata block's payload must appear verbatim in the emitted bytes"""
    calls = [t for t in case.split() if t.startswith("C=")][0][2:].split(",")
    per, _ = sc.split_obs(impl_line)
    emitted = ""
    mcur = 0
    blocks = []  # (start offset in metadata source, length)
    cur = None
    for c, o in zip(calls, per):
        if o.startswith("PANIC"):
            return None
        f = o.split(" | ")[0].split()
        if f[4] != "-":
            emitted += f[4]
        if c[0] == "m" and f[1] == "1":
            consumed = int(f[3])
            if cur is None and c[1] != "R":
                cur = [mcur, int(f[2])]
            mcur += consumed
            st = o.split(" | ")[1].split()
            if cur is not None and st[0] == "0":
                blocks.append(tuple(cur))
                cur = None
    bad = []
    for (start, n) in blocks:
        if n >= 3 and meta_hex(start, min(n, 4096)) not in emitted:
            bad.append((start, n))
    return bad, len(blocks)


def check(run):
    thorough = run.tier == "thorough"
    ok_proof, broken = vlib.proof_stage(run, "props/C04.v", [])
    okx, logx = vlib.coq_extract("STREAM")
    okm, logm, model = vlib.ocaml_build("STREAM", "stream_driver.ml")
    okh, logh, impl_exe = vlib.harness_build("stream", "dev")
    if not okh:
        run.report("proof-obligation", {"stage": "harness build"}, {"log": logh[-3000:]}, broken="harness does not build against /repo", found_input=False)
        return
    if not (okx and okm) and ok_proof:
        ok_proof = False
        broken.append("extraction/driver build failed: " + (logx if not okx else logm)[-500:])
    if not os.path.exists(model):
        run.report("proof-obligation", {"stage": "model build"}, {"log": (logx + logm)[-2000:]}, broken="executable model could not be built", found_input=False)
        return
    cases, meta = gen_cases(run, thorough)
    impl, mod, stats = c20.run_stream_checks(run, cases, meta, impl_exe, model, "C04")
    nfl = nflok = nblocks = 0
    lbb_hist = {}
    for k, (c, i) in enumerate(zip(cases, impl)):
        if "PANIC" in i:
            continue
        vd = sc.verdict_dict(i)
        a, b = vd.get("FL", "0/0").split("/")
        nflok += int(a)
        nfl += int(b)
        cfg = [t for t in c.split() if t.startswith("P=")][0]
        pd = dict(kv.split(":") for kv in cfg[2:].split(","))
        if a != b:
            run.report("spec-violation", {"script": c, "kind": meta[k][0], "config": meta[k][1], "quality": int(pd.get("1", 11)),
                                          "catable": int(pd.get("167", 0)), "failing_call": "flush #%s" % vd.get("PFX"), "op": "f"},
                       {"impl": "bytes emitted up to a completed flush do not decode (streaming decoder) to exactly the input supplied so far", "spec": vd},
                       what="completed flush does not make prior input decodable")
        mv = metadata_verbatim(c, i)
        if mv:
            bad, nb = mv
            nblocks += nb
            if bad:
                run.report("spec-violation", {"script": c, "kind": meta[k][0], "config": meta[k][1], "quality": int(pd.get("1", 11)),
                                              "catable": int(pd.get("167", 0)), "failing_call": "metadata", "op": "m", "blocks": bad},
                           {"impl": "metadata payload not found verbatim in the emitted bytes", "spec": "payload carried verbatim"},
                           what="metadata payload altered")
        # distribution of the sub-byte carry at flush time (reached classes)
        for o in sc.split_obs(i)[0]:
            for p in o.split(" | ")[2:]:
                f = p.split()
                if f and f[0] == "T" and f[3] == "1":
                    lbb_hist[f[9]] = lbb_hist.get(f[9], 0) + 1
    run.cov["evaluations"] = len(cases)
    run.cov["distinct_nontrivial"] = len({c for c, i in zip(cases, impl) if " T " in i})
    run.cov["rule"] = ("scripts: FLUSH at every position of 40(120)-byte inputs with output buffers of 1,2,3,17 bytes so that a flush spans many calls; "
                       "FLUSH / flush-with-input / EMIT_METADATA (payload 0,1,2,3,15..17,255..257,65535..70001) at PRNG positions of inputs up to 300 KB; every "
                       "payload size class at start/middle/end; 13-15 parameter classes. After every completed flush the emitted prefix is fed alone to the "
                       "streaming brotli-decompressor, which must output exactly the input so far and ask for more input. distinct_nontrivial = scripts in which a back end ran")
    run.cov["traces_validated_against_impl"] = stats["agree"]
    run.cov["stats"] = stats
    run.cov["completed_flushes_checked"] = nfl
    run.cov["completed_flushes_ok"] = nflok
    run.cov["metadata_blocks_checked_verbatim"] = nblocks
    run.cov["carry_bits_at_forced_flush_hist"] = lbb_hist
    run.cov["samples"] = [cases[0], cases[len(cases) // 2], cases[-1]]
    run.note("cases=%d flushes=%d/%d metadata blocks=%d stats=%s carry=%s" % (len(cases), nflok, nfl, nblocks, stats, lbb_hist))
    if not ok_proof and not run.violations:
        run.report("proof-obligation", {"stage": "proof"}, {"broken": broken}, broken="; ".join(b[:400] for b in broken), found_input=False)


def replay(path):
    return c20.replay(path)
