"""C05 - output bytes depend on input, settings and call points only, not on buffering."""
import json, os
import vlib
from checks import stream_common as sc
from checks import c20

PROP = "C05"
LEVEL = "proof"

CAPS = ["1048576", "1", "2", "17,0,300", "1,1048576", "3,3,5,70000", "take:1", "take:7", "take:100000"]
ALLOCS = ["std", "shift", "ffi", "fficustom"]


def fields(line):
    d = {}
    for t in line.split():
        if "=" in t:
            k, v = t.split("=", 1)
            d[k] = v
    return d


def gen_groups(run, thorough):
    """each group = list of request lines that must all yield the same emitted bytes"""
    rng = run.rng
    groups = []
    cfgs = [c for c in c20.CONFIGS if c[0] not in c20.HEAVY or thorough]
    # A: same (operation, chunk) calls; output slicing / push-vs-take / allocator / entry point (Rust vs C ABI) vary
    nA = 150 if thorough else 45
    for _ in range(nA):
        label, params = rng.choice(cfgs)
        blk = c20.block_of(label)
        heavy = label in c20.HEAVY
        dlen = rng.choice([0, 1, 2, 3, 500, blk - 1, blk + 1, 2 * blk + 99, 120000])
        dlen = min(dlen, 200000 if not heavy else 4000)
        calls, left = [], dlen
        for _ in range(rng.randrange(1, 7)):
            ch = min(left, rng.choice([0, 1, 2, 100, blk - 1, blk, blk + 1, 50000]))
            left -= ch
            calls.append("%s%d" % (rng.choice("pppf"), ch))
            if rng.random() < 0.15:
                calls.append("m%d" % rng.choice([0, 1, 2, 16, 17, 300]))
        calls.append("e%d" % left)
        base = "P=%s D=%s:%d:%d G=%s" % (params, rng.choice(["text", "rand", "mix", "zero", "skew", "period"]), dlen,
                                         rng.randrange(1, 1 << 30), ",".join(calls))
        small = dlen <= 5000
        variants = []
        for caps in (CAPS if small else [c for c in CAPS if c not in ("1", "2", "take:1")]):
            variants.append("L %s O=%s A=%s" % (base, caps, rng.choice(ALLOCS)))
        for a in ALLOCS:
            variants.append("L %s O=1048576 A=%s" % (base, a))
        variants.append(variants[0])  # repeated run
        groups.append(("out-slicing/alloc/abi", label, variants))
    # B: quality >= 2 (or catable) with an explicit size hint: input chunking and entry point vary
    nB = 80 if thorough else 30
    eligible = [c for c in cfgs if c[0] not in ("q0", "q1", "qneg")]
    for _ in range(nB):
        label, params = rng.choice(eligible)
        heavy = label in c20.HEAVY
        dlen = rng.choice([0, 1, 2, 3, 1000, 16384, 65537, 150000])
        dlen = min(dlen, 200000 if not heavy else 4000)
        pl = [kv for kv in params.split(",") if not kv.startswith("5:")]
        hint = rng.choice([dlen, dlen, 1, 1 << 20]) or 7
        pl.append("5:%d" % hint)
        params2 = ",".join(pl)
        kind = rng.choice(["text", "rand", "mix", "skew"])
        seed = rng.randrange(1, 1 << 30)
        variants = []
        for _ in range(4):
            calls, left = [], dlen
            while left > 0 and len(calls) < 12:
                ch = min(left, rng.choice([1, 2, 100, 4096, 16383, 16385, 65536, 100000]))
                calls.append("p%d" % ch)
                left -= ch
            calls.append("e%d" % left)
            variants.append("L P=%s D=%s:%d:%d G=%s O=%s A=%s" % (params2, kind, dlen, seed, ",".join(calls),
                                                                   rng.choice(["1048576", "17,0,300", "take:100000"]), rng.choice(ALLOCS)))
        plain = all(kv.split(":")[0] in ("1", "2", "5") for kv in pl)
        for e, b, k in (("writer", 1, 1), ("writer", 100, 7), ("writer", 4096, 100000), ("writer", 1 << 16, 333),
                        ("reader", 1, 1), ("reader", 4096, 5), ("reader", 1 << 17, 1 << 17), ("copy", 4096, 1), ("copy", 4096, 100000)):
            if dlen > 20000 and b == 1:
                continue
            variants.append("W P=%s D=%s:%d:%d E=%s B=%d K=%d" % (params2, kind, dlen, seed, e, b, k))
        groups.append(("chunking/entry-point", label, variants))
        # quality 10 is left out: there the one-shot function deliberately runs another configuration (quality 9 with the
        # q9_5 hasher, `is_9_5` in encoder_compress), so it is a different computation, not another call slicing
        if plain and hint == dlen and dlen > 0 and "1:10" not in pl:
            groups.append(("one-shot-vs-stream", label, [variants[0], "W P=%s D=%s:%d:%d E=oneshot" % (params2, kind, dlen, seed)]))
    # C: one/two-pass qualities: a single chunk larger than every internal block size, with output space
    #    above and below the in-place threshold and with take-output
    for q, lgwin in ((0, 18), (0, 22), (1, 18), (1, 22)):
        for kind in ("text", "rand"):
            dlen = 400000
            seed = rng.randrange(1, 1 << 30)
            for calls in ("p%d,e0" % dlen, "p200000,p200000,e0", "f%d,e0" % dlen):
                base = "P=1:%d,2:%d D=%s:%d:%d G=%s" % (q, lgwin, kind, dlen, seed, calls)
                groups.append(("fast-path-big-chunk", "q%d" % q,
                               ["L %s O=%s A=std" % (base, o) for o in ("1048576", "70000", "1000", "take:100000", "300000,5")]))
    # D: the one-shot entry point against the stream with the same settings (mode, window incl. large window)
    for q in (4, 5, 9) + ((11,) if thorough else ()):
        for mode in range(7):
            for lgwin in (22, 26):
                dlen = 60000 if q < 11 else 5000
                seed = rng.randrange(1, 1 << 30)
                pl = "1:%d,2:%d,0:%d,5:%d" % (q, lgwin, mode, dlen) + (",6:1" if lgwin > 24 else "")
                groups.append(("one-shot-vs-stream-modes", "q%d" % q,
                               ["L P=%s D=text:%d:%d G=p%d,e0 O=1048576 A=std" % (pl, dlen, seed, dlen),
                                "W P=%s D=text:%d:%d E=oneshot" % (pl, dlen, seed),
                                "W P=%s D=text:%d:%d E=writer B=4096 K=1000" % (pl, dlen, seed)]))
    # E: input chunking against the ring buffer: more input than the ring (32 KiB at quality 2-3 with lgwin <= 14,
    #    128 KiB from quality 4 with lgwin <= 16), repetitive data (matches that cross the end of the ring read its
    #    tail mirror), pieces smaller than, equal to and unaligned with the input block; explicit exact size hint
    def pieces(total, size):
        calls, left = [], total
        while left > size:
            calls.append("p%d" % size)
            left -= size
        calls.append("e%d" % left)
        return ",".join(calls)
    for q, lgwin in ((2, 10), (3, 14), (4, 16), (5, 10)) + (((9, 16), (6, 12)) if thorough else ()):
        for kind in ("period", "text"):
            dlen = 300000
            seed = rng.randrange(1, 1 << 30)
            pl = "1:%d,2:%d,5:%d" % (q, lgwin, dlen)
            groups.append(("ring-wrap-chunking", "q%d" % q,
                           ["L P=%s D=%s:%d:%d G=%s O=1048576 A=std" % (pl, kind, dlen, seed, g)
                            for g in ("e%d" % dlen, pieces(dlen, 1000), pieces(dlen, 4096), pieces(dlen, 7919), pieces(dlen, 65536))]))
    # F: an explicit size hint that underestimates the input: the encoder must keep it whatever each call shows
    #    (the hint selects the hasher and, from quality 5, the context-map decision); thresholds 2^20 / 2^22
    for q in (4, 5) + ((9,) if thorough else ()):
        for hint in (65536, (1 << 20) - 1):
            dlen = 1500000
            seed = rng.randrange(1, 1 << 30)
            pl = "1:%d,2:22,5:%d" % (q, hint)
            groups.append(("hint-below-input", "q%d" % q,
                           ["L P=%s D=text:%d:%d G=%s O=4194304 A=std" % (pl, dlen, seed, g)
                            for g in ("e%d" % dlen, pieces(dlen, 4096), "p1048576,e%d" % (dlen - 1048576), pieces(dlen, 100000))]))
    return groups


def check(run):
    thorough = run.tier == "thorough"
    ok_proof, broken = vlib.proof_stage(run, "props/C05.v", [])
    okh, logh, exe = vlib.harness_build("c05", "dev")
    okr, logr, exe_rel = vlib.harness_build("c05", "release")
    if not (okh and okr):
        run.report("proof-obligation", {"stage": "harness build"}, {"log": (logh + logr)[-3000:]}, broken="harness does not build against /repo", found_input=False)
        return
    groups = gen_groups(run, thorough)
    lines, owner = [], []
    for gi, (_, _, vs) in enumerate(groups):
        for v in vs:
            lines.append(v)
            owner.append(gi)
    out_dev = vlib.run_lines(exe, lines, timeout=2400)
    out_rel = vlib.run_lines(exe_rel, lines, timeout=2400)
    ndiff = 0
    per_kind = {}
    for gi, (kind, label, vs) in enumerate(groups):
        idx = [k for k, o in enumerate(owner) if o == gi]
        res = [(lines[k], "dev", out_dev[k]) for k in idx] + [(lines[k], "release", out_rel[k]) for k in idx]
        per_kind[kind] = per_kind.get(kind, 0) + 1
        ref = None
        for req, prof, o in res:
            f = fields(o)
            if "EM" not in f:
                ndiff += 1
                run.report("spec-violation", {"request": req, "profile": prof, "kind": kind, "config": label},
                           {"impl": o[:300], "spec": "every entry point returns normally"}, what="entry point panicked or failed")
                break
            if f.get("OK") != "1" or f.get("DEC") != "ok":
                ndiff += 1
                run.report("spec-violation", {"request": req, "profile": prof, "kind": kind, "config": label},
                           {"impl": o[:300], "spec": "call succeeds and the stream decodes to the input"}, what="stream call failed or stream does not decode")
                break
            if ref is None:
                ref = (req, prof, f)
            elif kind.startswith("out-slicing") and f.get("REQ") != ref[2].get("REQ"):
                ndiff += 1
                run.report("spec-violation", {"request": req, "reference": ref[0], "profile": prof, "ref_profile": ref[1], "kind": kind, "config": label},
                           {"impl": "back-end request sequences differ: %s vs %s" % (o, out_dev[idx[0]]), "spec": "identical request sequence"},
                           what="output slicing / allocator / ABI changed when or with what the back end runs")
                break
            elif f["EM"] != ref[2]["EM"] or f["LEN"] != ref[2]["LEN"]:
                ndiff += 1
                run.report("spec-violation", {"request": req, "reference": ref[0], "profile": prof, "ref_profile": ref[1], "kind": kind, "config": label},
                           {"impl": "emitted bytes differ: %s vs %s" % (o, out_dev[idx[0]]), "spec": "identical bytes"},
                           what="emitted bytes depend on buffering / allocator / entry point / profile")
                break
    # correspondence: the model reproduces the implementation on physical scripts with the same
    # logical calls and different output slicings (requests to the back ends must coincide)
    okx, logx = vlib.coq_extract("STREAM")
    okm, logm, model = vlib.ocaml_build("STREAM", "stream_driver.ml")
    oks, logs, stream_exe = vlib.harness_build("stream", "dev")
    ncorr = 0
    if oks and os.path.exists(model):
        rng = run.rng
        phys, meta = [], []
        cfgs = [c for c in c20.CONFIGS if c[0] not in c20.HEAVY]
        for _ in range(120 if thorough else 40):
            label, params = rng.choice(cfgs)
            dlen = rng.choice([3, 700, 20000, 70000])
            seed = rng.randrange(1, 1 << 30)
            a, b = rng.randrange(0, dlen + 1), rng.choice([0, 1, 17])
            for cap in (1 << 20, 1000, 37):
                reps = 4 if cap > 100000 else min(400, (dlen + 2000) // cap + 6)
                calls = ["p%d/%d" % (a, cap)] * 2 + ["f0/%d" % cap] * reps + ["m%d/%d" % (b, cap), "mR/%d" % cap, "mR/%d" % cap]
                calls += ["e999999999/%d" % cap] * (reps + 2)
                phys.append("P=%s D=text:%d:%d C=%s" % (params, dlen, seed, ",".join(calls)))
                meta.append(("phys", label))
        impl, mod, stats = c20.run_stream_checks(run, phys, meta, stream_exe, model, "C05")
        ncorr = stats["agree"]
    run.cov["evaluations"] = 2 * len(lines) + 3 * (ncorr // 1)
    run.cov["distinct_nontrivial"] = len({l for l in lines})
    run.cov["rule"] = ("groups of runs that must emit identical bytes: (A) the same (operation, chunk) calls with output capacities 1, 2, mixed incl. 0, ample, "
                       "take-output in steps of 1/7/all, four allocators/ABIs (std heap, address-shifting wrapper, C ABI default and custom callbacks), a repeated run, "
                       "dev and release profiles; (E) inputs larger than the ring buffer in pieces of 1000 / 4096 / 7919 / 65536 bytes and whole; (F) a size hint below the input length with >= 1 MiB shown in one call or never; (B) quality>=2 or catable with explicit size hint: four input chunkings and CompressorWriter / CompressorReader / "
                       "BrotliCompress with buffer sizes 1..128 KiB and caller chunk sizes 1..100000, one-shot BrotliEncoderCompress where only quality/lgwin/size-hint are set. "
                       "distinct_nontrivial = distinct request lines")
    run.cov["groups"] = per_kind
    run.cov["groups_total"] = len(groups)
    run.cov["groups_differing"] = ndiff
    run.cov["traces_validated_against_impl"] = ncorr
    run.cov["samples"] = [lines[0], lines[len(lines) // 2], lines[-1]]
    run.note("groups=%d requests=%d (x2 profiles) differing=%d model-correspondence scripts=%d" % (len(groups), len(lines), ndiff, ncorr))
    if not ok_proof and not run.violations:
        run.report("proof-obligation", {"stage": "proof"}, {"broken": broken}, broken="; ".join(b[:400] for b in broken), found_input=False)


def replay(path):
    d = json.load(open(path))
    c = d["case"]
    if "script" in c:
        return c20.replay(path)
    reqs = [r for r in (c.get("request"), c.get("reference")) if r]
    if not reqs:
        print("no request in replay: %s" % d.get("broken"))
        return 1
    outs = []
    for prof in ("dev", "release"):
        _, _, exe = vlib.harness_build("c05", prof)
        for r, o in zip(reqs, vlib.run_lines(exe, reqs)):
            print(prof, r, "->", o)
            outs.append(fields(o).get("EM"))
    return 0 if len(set(outs)) == 1 and None not in outs else 1
