"""C06 - multi-threaded output is a function of input, settings and thread count only
(DESIGN.md section 4, C06).

proof stage   : coq/props/C06.v over coq/model/Multi.v and, for the index hand-off, C19's split
                theorems (proofs/Hashers_proofs.v); version flags/constants regenerated from /repo
correspondence: as C02 (checks/multi_common.py): every call replayed on the extracted model; in
                particular the ranges stored into the shared hasher, the index mode of every job
                (built locally / compared / supplied / discarded because the prefix was cut) and
                the per-job parameters
search (spec) : groups of calls with the same input, settings and thread count, differing in
                spawner (thread per job, fresh pool, pools of 1/2/4/15 workers reused across calls
                and thread counts, inline), favor_cpu_efficiency on/off, build profile (dev/release)
                and repetition: every member must return the same result and byte-identical output
                (length + hash of the bytes), and the bytes must decode to the input
"""
import json, os, time
import vlib
from checks import multi_common as mc
from checks.multi_common import Case

PROP = "C06"
LEVEL = "proof"
GEN = ["Bound", "Multi", "Hashers"]

CORPUS = [
    # favor_cpu_efficiency with a prefix longer than the window: different bytes in release, assertion in dev (fix 84180b7)
    ("text", 12288, 1, 9, 13, 0, 7, 0),
    ("text", 2200, 3, 5, 10, 0, 2, 0),
    ("mix", 40000, 5, 7, 12, 1, 5, 0),
    # chunks no longer than the lookahead
    ("text", 8, 1, 5, 22, 0, 4, 0),
    ("text", 10, 1, 5, 22, 0, 3, 0),
    ("period", 21, 6, 3, 22, 0, 3, 0),
    ("period", 21, 6, 2, 22, 0, 3, 0),
    ("text", 600, 2, 11, 16, 0, 5, 0),
    # quality 3/4: the C19 fix removed this half of the finding
    ("text", 5000, 1, 3, 22, 0, 4, 0),
    ("text", 5000, 1, 4, 22, 0, 4, 0),
    ("text", 5000, 1, 4, 22, 0, 4, (1 << 20) + 1),
]

MEMBERS = ["inl", "thr", "pool", "poolr:%d", "poolr:%d"]


def heavy(q, w, n):
    return (q >= 10 and (w >= 20 or n > 30000)) or n > 400000


def gen_groups(run, thorough):
    rng = run.rng
    groups = [(k, n, s, q, w, f, t, h) for (k, n, s, q, w, f, t, h) in CORPUS]
    scale = 6 if thorough else 1
    # short inputs: around the thread count and around the lookahead
    for t in range(2, 17):
        for n in sorted(set([0, 1, t - 1, t, 3 * t + 1, 4 * t + 1, 7 * t + 2, 8 * t + 1, 9 * t, 128 * t + 1])):
            if rng.random() < (0.45 if not thorough else 1.0):
                q = rng.choice([2, 3, 4, 5, 6, 7, 9, 10, 11, 0, 1])
                w = rng.choice([10, 12, 16, 18, 22] if q < 10 else [10, 16, 18])
                groups.append((rng.choice(["text", "period", "rand", "zero"]), n, rng.randrange(1, 1000), q, w, rng.choice([0, 0, 1, 2, 4, 7]), t, 0))
    # truncated prefixes
    for _ in range(60 * scale):
        q = rng.choice([2, 3, 4, 5, 6, 7, 8, 9, 9, 10, 11])
        w = rng.choice([10, 11, 12, 13])
        t = rng.randrange(2, 17)
        n = rng.randrange((1 << w) * 2, (1 << w) * 3 + t * 1500)
        if q >= 10:
            n = min(n, 20000)
        groups.append((rng.choice(["text", "mix", "skew", "rand"]), n, rng.randrange(1, 10000), q, w, rng.choice([0, 0, 1, 2, 4, 7]), t, 0))
    # general
    lens = [100, 1000, 5000, 12288, 16385, 20000, 65537, 70000, 131075, 300000]
    if thorough:
        lens += [(1 << 20) + 17, 2500000]
    for _ in range(110 * scale):
        q = rng.randrange(0, 12)
        w = rng.choice([10, 13, 16, 17, 18, 20, 22, 24])
        f = rng.choice([0, 0, 1, 2, 4, 3, 5, 6, 7, 16, 20, 23])
        if f & 16 and q < 10:
            w = rng.choice([w, 25, 28, 30])
        t = rng.randrange(1, 17)
        n = rng.choice(lens) + rng.randrange(0, 3)
        if q >= 10:
            n = min(n, 20000 if not thorough else 70000)
            w = min(w, 22)
        if w >= 25:
            n = min(n, 70000)
        hint = rng.choice([0, 0, n, (1 << 20) + 1, (1 << 22) + 1])
        groups.append((rng.choice(["text", "rand", "zero", "period", "mix", "skew"]), n, rng.randrange(1, 100000), q, w, f, t, hint))
    return groups


def members(run, g, profile):
    kind, n, seed, q, w, f, t, hint = g
    rng = run.rng
    w1, w2 = rng.choice([1, 2, 4, 15]), rng.choice([1, 2, 4, 15])
    out = []
    for fav in (0, 8):
        for sp in ("inl", "thr", "pool", "poolr:%d" % w1, "poolr:%d" % w1, "poolr:%d" % w2):
            out.append(Case(sp, q, w, (f & ~8) | fav, t, kind, n, seed, "bound", hint, profile))
    out.append(Case("inl", q, w, f & ~8, t, kind, n, seed, "bound", hint, profile))   # repetition
    return out


def check(run):
    thorough = run.tier == "thorough"
    ok_proof, broken = vlib.proof_stage(run, "props/C06.v", GEN, extra_trusted=[
        "tools/gen_multi.py (structural anchors of threading.rs / encode.rs: which of the repaired code paths are present)",
        "hook verif_multi in /repo (add-only log); the model's abstract parts are fed from it",
        "C06_favor assumes that the compressor does not see where its index came from and that the index comparison succeeds; "
        "both are what C06_hasher_* show on the hasher models of C19 (over the same data buffer; the view of the prefix as a separate "
        "slice is not modelled) and what every dev-profile run of this check tests through the code's own debug_assert",
        "byte equality is decided on (length, 62-bit rolling hash) of the outputs; brotli-decompressor 4.0.3 decodes them"])
    okmod, logmod, model = mc.build_model()
    if not okmod:
        run.note("model rebuild failed (%s)" % logmod[-300:])
        if ok_proof:
            broken.append("extraction/driver build failed: " + logmod[-300:])
            ok_proof = False
    run.cov["rule"] = ("a group = (input recipe, quality, lgwin, catable/appendable/magic/large_window, size hint, thread count); its members are calls "
                       "differing in spawner, pool reuse, favor_cpu_efficiency, build profile and repetition; distinct_nontrivial counts distinct groups "
                       "with at least 2 threads and one input byte per thread whose members all returned")
    groups = gen_groups(run, thorough)
    exes = {}
    for prof in ("dev", "release"):
        okh, logh, impl = vlib.harness_build("multi", prof)
        if not okh:
            run.report("proof-obligation", {"stage": "harness build", "profile": prof}, {"log": logh[-3000:]},
                       broken="harness multi does not build against /repo (hook verif_multi or public API changed?)", found_input=False)
            return
        exes[prof] = impl
    results = {}   # group index -> list of (case, answer)
    corr_reports = []
    total, ntraces, ndis, nviol = 0, 0, 0, 0
    reached = {"prefix_truncated": 0, "supplied_hasher_discarded_for_truncated_prefix": 0, "supplied_hasher_compared_dev": 0, "supplied_hasher_used_release": 0,
               "supplied_hasher_kept_unseen": 0, "shared_range_skipped_or_empty": 0, "pool_reused": 0}
    hist = {"quality": {}, "threads": {}, "lgwin": {}, "group_result": {}}
    for prof in ("dev", "release"):
        cases, owner = [], []
        order = sorted(range(len(groups)), key=lambda gi: (heavy(groups[gi][3], groups[gi][4], groups[gi][1]), gi % vlib.NCPU))
        for gi in order:
            ms = members(run, groups[gi], prof)
            cases.extend(ms)
            owner.extend([gi] * len(ms))
        t0 = time.time()
        # contiguous chunks per process: consecutive poolr requests of a group meet the same (reused) pool
        answers = mc.run_contiguous(exes[prof], cases)
        run.note("profile %s: %d calls in %d groups in %.1fs" % (prof, len(cases), len(groups), time.time() - t0))
        for c, a, gi in zip(cases, answers, owner):
            total += 1
            results.setdefault(gi, []).append((c, a))
            tr = mc.parse_events(a.ev)
            for i, h in tr["H"].items():
                if h["size"] > h["dict"]:
                    reached["prefix_truncated"] += 1
                    if tr["J"].get(i, {}).get("f", 0) & 8:
                        reached["supplied_hasher_discarded_for_truncated_prefix"] += 1
                if h["cmp"]:
                    reached["supplied_hasher_compared_dev"] += 1
                if h["opt"] and not h["local"]:
                    reached["supplied_hasher_used_release"] += 1
            for i, j in tr["J"].items():
                if (j["f"] & 8) and i not in tr["H"]:
                    reached["supplied_hasher_kept_unseen"] += 1
            for p in tr["P"]:
                if not p["st"]:
                    reached["shared_range_skipped_or_empty"] += 1
            if c.sp.startswith("poolr"):
                reached["pool_reused"] += 1
        # correspondence on the model: all favor members and every fourth of the others
        if os.path.exists(model):
            sub = [(c, a) for k, (c, a) in enumerate(zip(cases, answers)) if a.kind != "TOOL" and c.n <= 400000 and ((c.f & 8) or k % 4 == 0)]
            t1 = time.time()
            mlines, mans = mc.run_model(model, [x[0] for x in sub], [x[1] for x in sub], run.rng)
            run.note("profile %s: %d calls replayed on the model in %.1fs" % (prof, len(sub), time.time() - t1))
            for (c, a), ml, ma in zip(sub, mlines, mans):
                ntraces += 1
                diffs = mc.compare(c, a, ma)
                if diffs:
                    ndis += 1
                    if ndis <= 4:
                        cd = c.case()
                        cd.update({"model_line": ml[:3000], "diffs": diffs})
                        old = vlib.run_lines(model, [ml.replace("ver=cur", "ver=asf")], shards=1)[0]
                        hint = " (the model of the code AS FOUND agrees: a fix looks reverted)" if not mc.compare(c, a, old) else ""
                        corr_reports.append((cd, {"impl": a.text[:1500], "model": ma[:1500], "spec": "(group comparison: see spec-violation reports)"},
                                             "correspondence Multi.v vs threading.rs/encode.rs: " + "; ".join(diffs)[:500] + hint))
    # ---- search: every member of a group returns the same bytes
    nontriv = 0
    samples = []
    for gi, ms in sorted(results.items()):
        kind, n, seed, q, w, f, t, hint = groups[gi]
        hist["quality"][str(q)] = hist["quality"].get(str(q), 0) + 1
        hist["threads"][str(t)] = hist["threads"].get(str(t), 0) + 1
        hist["lgwin"][str(w)] = hist["lgwin"].get(str(w), 0) + 1
        ref_c, ref_a = ms[0]
        bad = []
        for c, a in ms:
            if a.kind in ("PANIC", "HANG", "TOOL"):
                bad.append((c, a, "did not return: %s" % a.head[:160]))
            elif a.same_bytes_key() != ref_a.same_bytes_key():
                bad.append((c, a, "%s (hash %d) where `%s` gave %s (hash %d)" % (a.result_str(), a.h, ref_c.line(False)[2:60], ref_a.result_str(), ref_a.h)))
            elif a.kind == "OK" and a.dec != "ok":
                bad.append((c, a, "output does not decode to the input"))
        rk = ref_a.kind if ref_a.kind != "ERR" else "ERR:" + ref_a.err
        hist["group_result"][rk] = hist["group_result"].get(rk, 0) + 1
        if bad:
            nviol += 1
            if nviol <= 6:
                c, a, why = bad[0]
                cd = c.case()
                cd.update({"group": {"input": "%s:%d:%d" % (kind, n, seed), "quality": q, "lgwin": w, "flags": f, "threads": t, "size_hint": hint},
                           "reference_line": ref_c.line(), "reference_profile": ref_c.profile, "differs": why,
                           "differing_members": ["%s/%s/favor=%d: %s" % (x.sp, x.profile, 1 if x.f & 8 else 0, y.result_str()) for x, y, _ in bad[:12]]})
                run.report("spec-violation", cd, {"impl": a.head[:400], "reference": ref_a.head[:400], "spec": "FAIL: " + why},
                           what="same input, settings and thread count, different outcome: " + why[:300])
        elif t >= 2 and n >= t:
            nontriv += 1
        if len(samples) < 4 and gi % 97 == 0:
            samples.append(ref_c.line(False))
    for cd, obs, brk in corr_reports:
        run.report("correspondence", cd, obs, broken=brk, found_input=False)
    run.cov["evaluations"] = total + ntraces
    run.cov["distinct_nontrivial"] = nontriv
    run.cov["traces_validated_against_impl"] = ntraces
    run.cov["groups"] = len(groups)
    run.cov["members_per_group"] = 26
    run.cov["samples"] = samples or ["R sp=inl q=9 w=13 f=8 t=7 in=text:12288:1 out=bound"]
    run.cov["histograms"] = hist
    run.cov["reached"] = reached
    run.cov["unreached"] = [k for k, v in reached.items() if v == 0]
    run.cov["spec_violations"] = nviol
    run.cov["model_disagreements"] = ndis
    run.note("%d groups, %d calls, %d groups with differing members, %d model disagreements; reached: %s" % (
        len(groups), total, nviol, ndis, ", ".join("%s=%d" % kv for kv in reached.items())))
    if not ok_proof and not run.violations:
        run.report("proof-obligation", {"stage": "proof"}, {"broken": broken}, broken="; ".join(b[:400] for b in broken), found_input=False)


def replay(path):
    d = json.load(open(path))
    case = d.get("case", {})
    line = case.get("line")
    if not line:
        print("replay file has no request line (kind=%s): %s" % (d.get("kind"), d.get("broken")))
        return 1
    prof = case.get("profile", "dev")
    vlib.coq_regen(GEN)
    _, _, model = mc.build_model()
    import random
    rc = 0
    runs = [(line, prof)]
    if case.get("reference_line"):
        runs.append((case["reference_line"], case.get("reference_profile", "dev")))
    outs = []
    for ln, pf in runs:
        _, _, impl = vlib.harness_build("multi", pf)
        c = mc.case_from_line(ln, pf)
        a = mc.run_impl(impl, [c], shards=1)[0]
        ml = mc.model_line(c, a, random.Random(1))
        ma = vlib.run_lines(model, [ml], shards=1)[0]
        diffs = mc.compare(c, a, ma)
        print("request: %s   (profile %s)" % (c.line(), pf))
        print("impl:  %s" % a.text[:3000])
        print("model: %s" % ma[:2000])
        print("correspondence: %s" % ("OK" if not diffs else "DIFF " + "; ".join(diffs)))
        outs.append(a)
        if diffs or a.kind in ("PANIC", "HANG", "TOOL"):
            rc = 1
    if len(outs) == 2:
        same = outs[0].same_bytes_key() == outs[1].same_bytes_key()
        print("spec:  %s" % ("OK (same result and bytes)" if same and rc == 0 else "FAIL (%s vs %s)" % (outs[0].head[:120], outs[1].head[:120])))
        if not same:
            rc = 1
    else:
        print("spec:  %s" % ("OK (returned)" if rc == 0 else "FAIL"))
    return rc
