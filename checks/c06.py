"""C06 - multi-threaded output is a function of input, settings and thread count only
(DESIGN.md section 4, C06).

proof stage   : coq/props/C06.v over coq/model/Multi.v and, for the index hand-off, C19's split
                theorems (proofs/Hashers_proofs.v); version flags/constants regenerated from /repo
correspondence: as C02 (checks/multi_common.py): every call replayed on the extracted model; in
                particular the ranges stored into the shared hasher, the index mode of every job
                (built locally / compared / supplied / discarded because the prefix was cut) and
                the per-job parameters
search (spec) : groups of calls with the same input, settings and thread count, differing in
                spawner (thread per job, fresh pool, pools of 1/2/4/15 workers reused across calls
                and thread counts, inline), favor_cpu_efficiency on/off, build profile (dev/release)
                and repetition: every member must return the same result and byte-identical output
                (length + hash of the bytes), and the bytes must decode to the input.
                Group families: short inputs, prefixes longer than the window, general, input sizes on
                both sides of every 2^k that ChooseHasher compares size_hint with (read from encode.rs;
                no size hint given: whole input, one job's share), and scripted histories of one reused
                pool (warm-up to an arbitrary slot of the 16-slot result ring, then > 40 results from
                calls whose first job is slow and whose other jobs are fast: out-of-order completion
                while the ring wraps).  A call that has not returned when the harness's watchdog gives
                up is a member that differs (reported with the earlier calls on that pool and with the
                result of the same call on a fresh pool); a harness process that dies leaves a failing
                member, never an agreement.
"""
import json, os, re, time
import vlib
from checks import multi_common as mc
from checks.multi_common import Case

PROP = "C06"
LEVEL = "proof"
GEN = ["Bound", "Multi", "Hashers"]

CORPUS = [
    # favor_cpu_efficiency with a prefix longer than the window: different bytes in release, assertion in dev (fix 84180b7)
    ("text", 12288, 1, 9, 13, 0, 7, 0),
    ("text", 2200, 3, 5, 10, 0, 2, 0),
    ("mix", 40000, 5, 7, 12, 1, 5, 0),
    # chunks no longer than the lookahead
    ("text", 8, 1, 5, 22, 0, 4, 0),
    ("text", 10, 1, 5, 22, 0, 3, 0),
    ("period", 21, 6, 3, 22, 0, 3, 0),
    ("period", 21, 6, 2, 22, 0, 3, 0),
    ("text", 600, 2, 11, 16, 0, 5, 0),
    # quality 3/4: the C19 fix removed this half of the finding
    ("text", 5000, 1, 3, 22, 0, 4, 0),
    ("text", 5000, 1, 4, 22, 0, 4, 0),
    ("text", 5000, 1, 4, 22, 0, 4, (1 << 20) + 1),
]

def heavy(q, w, n):
    return (q >= 10 and (w >= 20 or n > 30000)) or n > 400000


size_hint_cuts = mc.size_hint_cuts


def hasher_choice(q, w, size_hint):
    """ChooseHasher: (type, bucket_bits) - used only to name the classes reached, never to judge"""
    if q >= 10:
        return (10, 0)
    if q == 9:
        return (9, 15)
    if q == 4 and size_hint >= (1 << 20):
        return (54, 0)
    if q < 5:
        return (q, 0)
    if w <= 16:
        return (40 if q < 7 else 41 if q < 9 else 42, 0)
    if size_hint > (1 << 22) and w >= 19:
        return (6, 15)
    return (5, 14 if (q < 7 and size_hint <= (1 << 20)) else 15)


def gen_groups(run, thorough):
    rng = run.rng
    groups = [(k, n, s, q, w, f, t, h) for (k, n, s, q, w, f, t, h) in CORPUS]
    scale = 6 if thorough else 1
    # short inputs: around the thread count and around the lookahead
    for t in range(2, 17):
        for n in sorted(set([0, 1, t - 1, t, 3 * t + 1, 4 * t + 1, 7 * t + 2, 8 * t + 1, 9 * t, 128 * t + 1])):
            if rng.random() < (0.45 if not thorough else 1.0):
                q = rng.choice([2, 3, 4, 5, 6, 7, 9, 10, 11, 0, 1])
                w = rng.choice([10, 12, 16, 18, 22] if q < 10 else [10, 16, 18])
                groups.append((rng.choice(["text", "period", "rand", "zero"]), n, rng.randrange(1, 1000), q, w, rng.choice([0, 0, 1, 2, 4, 7]), t, 0))
    # truncated prefixes
    for _ in range(60 * scale):
        q = rng.choice([2, 3, 4, 5, 6, 7, 8, 9, 9, 10, 11])
        w = rng.choice([10, 11, 12, 13])
        t = rng.randrange(2, 17)
        n = rng.randrange((1 << w) * 2, (1 << w) * 3 + t * 1500)
        if q >= 10:
            n = min(n, 20000)
        groups.append((rng.choice(["text", "mix", "skew", "rand"]), n, rng.randrange(1, 10000), q, w, rng.choice([0, 0, 1, 2, 4, 7]), t, 0))
    # general
    lens = [100, 1000, 5000, 12288, 16385, 20000, 65537, 70000, 131075, 300000]
    if thorough:
        lens += [(1 << 20) + 17, 2500000]
    for _ in range(110 * scale):
        q = rng.randrange(0, 12)
        w = rng.choice([10, 13, 16, 17, 18, 20, 22, 24])
        f = rng.choice([0, 0, 1, 2, 4, 3, 5, 6, 7, 16, 20, 23])
        if f & 16 and q < 10:
            w = rng.choice([w, 25, 28, 30])
        t = rng.randrange(1, 17)
        n = rng.choice(lens) + rng.randrange(0, 3)
        if q >= 10:
            n = min(n, 20000 if not thorough else 70000)
            w = min(w, 22)
        if w >= 25:
            n = min(n, 70000)
        hint = rng.choice([0, 0, n, (1 << 20) + 1, (1 << 22) + 1])
        groups.append((rng.choice(["text", "rand", "zero", "period", "mix", "skew"]), n, rng.randrange(1, 100000), q, w, f, t, hint))
    # sizes on both sides of every point where the choice of the match index depends on the (unknown, hint 0)
    # input size: the whole input, one job's share of it, and a job's prefix straddle 2^k for every k
    # that ChooseHasher compares size_hint with
    for k in size_hint_cuts():
        cut = 1 << k
        reps = (3 if k <= 20 else 1) if not thorough else (8 if k <= 20 else 3)
        if k > 22 and not thorough:
            continue
        for _ in range(reps):
            for q in ([4, 5, 6, 7, 9] if k <= 20 else [5, 6, 8, 9]):
                t = rng.choice([2, 2, 3, 4])
                total = rng.choice([cut - 1, cut, cut + 1, cut + 1, cut + rng.randrange(2, 70000), cut + rng.randrange(2, 70000), cut - rng.randrange(2, 70000)])
                what = rng.choice(["whole", "whole", "whole", "share"]) if k <= 20 else "whole"
                n = total if what == "whole" else total * t + rng.randrange(0, t)     # "share": one job's chunk straddles the cut
                # a job adopts the shared index only while its prefix fits the window: mostly windows that hold job 1's prefix
                wmin = max(10, (n // t + 16).bit_length())
                w = rng.choice(list(range(wmin, 25))) if (wmin <= 24 and rng.random() < 0.8) else rng.choice([16, 17, 18, 19, 20, 22, 24])
                f = rng.choice([0, 0, 0, 1, 2, 4])
                groups.append((rng.choice(["text", "text", "mix", "skew"]), n, rng.randrange(1, 100000), q, w, f, t, 0))
        # and with an explicit hint on each side (the hint, not the size, must decide for every job alike)
        for hint in (cut, cut + 1):
            q = rng.choice([4, 5, 6, 7])
            groups.append(("text", rng.choice([50000, cut + 5]) if k <= 20 else 50000, rng.randrange(1, 100000), q, rng.choice([18, 20, 22]), 0, rng.choice([2, 3]), hint))
    return groups


def members(run, g, profile):
    kind, n, seed, q, w, f, t, hint = g
    rng = run.rng
    w1, w2 = rng.choice([1, 2, 4, 15]), rng.choice([1, 2, 4, 15])
    out = []
    if n > 400000:
        # long inputs: fewer members, every spawner and both values of the option still present
        for sp, fav in (("inl", 0), ("inl", 8), ("thr", 8), ("pool", 8), ("poolr:%d" % w1, 0), ("poolr:%d" % w1, 8)):
            out.append(Case(sp, q, w, (f & ~8) | fav, t, kind, n, seed, "bound", hint, profile))
        return out
    for fav in (0, 8):
        for sp in ("inl", "thr", "pool", "poolr:%d" % w1, "poolr:%d" % w1, "poolr:%d" % w2):
            out.append(Case(sp, q, w, (f & ~8) | fav, t, kind, n, seed, "bound", hint, profile))
    out.append(Case("inl", q, w, f & ~8, t, kind, n, seed, "bound", hint, profile))   # repetition
    return out


def pool_histories(run, thorough, profile):
    """scripted histories of ONE reused pool (a unit = one process): a warm-up that leaves the pool's
    16-slot result ring at an arbitrary slot (in particular 15 results from one 16-thread call), then a series
    of calls with 3..6 threads on inputs whose first job is slow and whose other jobs are fast (text at a
    high quality followed by zeros, laid out along the job ranges), so that results arrive out of order while
    the ring passes every slot and wraps several times; every call is a member of the group of its
    (input, settings, thread count), whose reference is the inline spawner"""
    rng = run.rng
    units = []
    for k in range(32 if thorough else 16):
        workers = rng.choice([2, 3, 3, 4, 4, 6, 15])
        sp = "poolr:%d" % workers
        unit, refs = [], []
        warm = [16] if k % 2 == 0 else [rng.randrange(2, 17) for _ in range(rng.randrange(1, 4))]
        for tw in warm:
            c = Case(sp, rng.choice([2, 4, 5]), 22, 0, tw, "text", rng.choice([20000, 150000]), rng.randrange(1, 1000), "bound", 0, profile)
            unit.append(c)
            refs.append(c.with_(sp="inl"))
        shapes = []
        for _ in range(3):
            t = rng.choice([3, 3, 4, 4, 5, 6])
            pat = rng.choice(["tz", "tz", "tz", "tzz", "tzt", "ztz", "mz", "tr"])
            q = rng.choice([9, 9, 7, 5, 10])
            chunk = rng.choice([40000, 90000, 150000]) if q < 10 else 30000
            fav = rng.choice([0, 0, 8])
            shapes.append(Case(sp, q, rng.choice([16, 20, 22]), fav, t, "lay.%d.%s" % (t, pat), chunk * t + rng.randrange(0, t), rng.randrange(1, 100000), "bound", 0, profile))
        for c in shapes:
            refs.append(c.with_(sp="inl"))
            refs.append(c.with_(sp="pool"))
        results = sum(c.t - 1 for c in unit)
        while results < (70 if thorough else 44):       # every ring slot is passed more than twice
            c = rng.choice(shapes).with_()
            unit.append(c)
            results += c.t - 1
        units.append(unit + refs)
    return units


def check(run):
    thorough = run.tier == "thorough"
    ok_proof, broken = vlib.proof_stage(run, "props/C06.v", GEN, extra_trusted=[
        "tools/gen_multi.py (structural anchors of threading.rs / encode.rs: which of the repaired code paths are present)",
        "hook verif_multi in /repo (add-only log); the model's abstract parts are fed from it",
        "C06_favor assumes that the compressor does not see where its index came from and that the index comparison succeeds; "
        "both are what C06_hasher_* show on the hasher models of C19 (over the same data buffer; the view of the prefix as a separate "
        "slice is not modelled) and what every dev-profile run of this check tests through the code's own debug_assert",
        "byte equality is decided on (length, 62-bit rolling hash) of the outputs; brotli-decompressor 4.0.3 decodes them",
        "harness multi.rs: wall-clock watchdog (a call that has not returned after 60 s + 1 s per 50 kB is answered NORETURN and its process ended)"])
    okmod, logmod, model = mc.build_model()
    if not okmod:
        run.note("model rebuild failed (%s)" % logmod[-300:])
        if ok_proof:
            broken.append("extraction/driver build failed: " + logmod[-300:])
            ok_proof = False
    run.cov["rule"] = ("a group = (input recipe, quality, lgwin, catable/appendable/magic/large_window, size hint, thread count); its members are calls "
                       "differing in spawner, pool reuse (incl. scripted histories of one pool: more than 16 results, out-of-order completion), "
                       "favor_cpu_efficiency, build profile and repetition; distinct_nontrivial counts distinct groups "
                       "with at least 2 threads and one input byte per thread whose members all returned")
    groups = gen_groups(run, thorough)
    cuts = size_hint_cuts()
    exes = {}
    for prof in ("dev", "release"):
        okh, logh, impl = vlib.harness_build("multi", prof)
        if not okh:
            run.report("proof-obligation", {"stage": "harness build", "profile": prof}, {"log": logh[-3000:]},
                       broken="harness multi does not build against /repo (hook verif_multi or public API changed?)", found_input=False)
            return
        exes[prof] = impl
    results = {}   # group key -> list of (case, answer)
    corr_reports = []
    total, ntraces, ndis, nviol, notrun, max_ms = 0, 0, 0, 0, 0, 0
    budget = mc.HangBudget()
    reached = {"prefix_truncated": 0, "supplied_hasher_discarded_for_truncated_prefix": 0, "supplied_hasher_compared_dev": 0, "supplied_hasher_used_release": 0,
               "supplied_hasher_kept_unseen": 0, "shared_range_skipped_or_empty": 0, "pool_reused": 0,
               "pool_reused_after_more_than_16_results": 0, "pool_result_ring_wraps_during_call": 0, "pool_jobs_finished_out_of_order": 0,
               "pool_ring_wraps_and_jobs_out_of_order": 0}
    for k in cuts:
        for side in ("below_or_at", "above"):
            reached["favor_no_hint_whole_input_%s_2^%d" % (side, k)] = 0
        reached["favor_no_hint_index_choice_would_differ_by_input_size_2^%d" % k] = 0
        reached["favor_no_hint_whole_input_above_2^%d_and_shared_index_adopted_by_a_job" % k] = 0
    hist = {"quality": {}, "threads": {}, "lgwin": {}, "group_result": {}, "input_len": {"0": 0, "1-9999": 0, "10000-399999": 0, "400000-1048576": 0, "1048577-4194304": 0, ">4194304": 0}}
    scripted0 = pool_histories(run, thorough, "dev")
    nscripted = len(scripted0)
    for prof in ("dev", "release"):
        units = [members(run, g, prof) for g in groups]
        scripted = [[c.with_(profile=prof) for c in u] for u in scripted0]
        units += scripted
        cases = [c for u in units for c in u]
        t0 = time.time()
        # a unit stays in one process: consecutive poolr requests meet the same (reused) pool, and the pools live on for the next units
        answers = mc.run_units(exes[prof], units, budget)
        run.note("profile %s: %d calls in %d groups and %d scripted pool histories in %.1fs" % (prof, len(cases), len(groups), len(scripted), time.time() - t0))
        for c, a in zip(cases, answers):
            if a.notrun:
                notrun += 1      # never an agreement: reported below
                continue
            total += 1
            max_ms = max(max_ms, a.ms)
            results.setdefault(c.group_key(), []).append((c, a))
            tr = mc.parse_events(a.ev)
            for i, h in tr["H"].items():
                if h["size"] > h["dict"]:
                    reached["prefix_truncated"] += 1
                    if tr["J"].get(i, {}).get("f", 0) & 8:
                        reached["supplied_hasher_discarded_for_truncated_prefix"] += 1
                if h["cmp"]:
                    reached["supplied_hasher_compared_dev"] += 1
                if h["opt"] and not h["local"]:
                    reached["supplied_hasher_used_release"] += 1
            for i, j in tr["J"].items():
                if (j["f"] & 8) and i not in tr["H"]:
                    reached["supplied_hasher_kept_unseen"] += 1
            for p in tr["P"]:
                if not p["st"]:
                    reached["shared_range_skipped_or_empty"] += 1
            if c.sp.startswith("poolr") and a.served is not None:
                reached["pool_reused"] += 1 if a.served > 0 else 0
                wraps = (a.served % 16) + max(0, c.t - 1) > 16
                reached["pool_reused_after_more_than_16_results"] += 1 if a.served > 16 else 0
                reached["pool_result_ring_wraps_during_call"] += 1 if wraps else 0
                reached["pool_jobs_finished_out_of_order"] += a.ooo
                reached["pool_ring_wraps_and_jobs_out_of_order"] += 1 if (wraps and a.ooo) else 0
            if (c.f & 8) and c.t >= 2 and c.hint == 0:
                adopted = any(h["opt"] and (h["cmp"] or not h["local"]) for h in tr["H"].values())
                for k in cuts:
                    if adopted and c.n > (1 << k):
                        reached["favor_no_hint_whole_input_above_2^%d_and_shared_index_adopted_by_a_job" % k] += 1
                    reached["favor_no_hint_whole_input_%s_2^%d" % ("above" if c.n > (1 << k) else "below_or_at", k)] += 1
                    lo, hi = (1 << k) - 1, (1 << k) + 1
                    if c.n >= (1 << k) and hasher_choice(c.q, c.w, lo) != hasher_choice(c.q, c.w, hi) and hasher_choice(c.q, c.w, 0) != hasher_choice(c.q, c.w, c.n):
                        reached["favor_no_hint_index_choice_would_differ_by_input_size_2^%d" % k] += 1
        # correspondence on the model: all favor members and every fourth of the others
        if os.path.exists(model):
            sub = [(c, a) for k, (c, a) in enumerate(zip(cases, answers)) if a.kind not in ("TOOL", "NORETURN", "?") and c.n <= 400000 and ((c.f & 8) or k % 4 == 0)]
            t1 = time.time()
            mlines, mans = mc.run_model(model, [x[0] for x in sub], [x[1] for x in sub], run.rng)
            run.note("profile %s: %d calls replayed on the model in %.1fs" % (prof, len(sub), time.time() - t1))
            for (c, a), ml, ma in zip(sub, mlines, mans):
                ntraces += 1
                diffs = mc.compare(c, a, ma)
                if diffs:
                    ndis += 1
                    if ndis <= 4:
                        cd = c.case()
                        cd.update({"model_line": ml[:3000], "diffs": diffs})
                        old = vlib.run_lines(model, [ml.replace("ver=cur", "ver=asf")], shards=1)[0]
                        hint = " (the model of the code AS FOUND agrees: a fix looks reverted)" if not mc.compare(c, a, old) else ""
                        corr_reports.append((cd, {"impl": a.text[:1500], "model": ma[:1500], "spec": "(group comparison: see spec-violation reports)"},
                                             "correspondence Multi.v vs threading.rs/encode.rs: " + "; ".join(diffs)[:500] + hint))
    # ---- search: every member of a group returns the same bytes
    nontriv = 0
    samples = []
    spec_reports = []
    for gidx, gk in enumerate(sorted(results, key=lambda k: tuple(str(x) for x in k))):
        ms = results[gk]
        kind, n, seed, q, w, f, t, hint = gk[:8]
        hist["quality"][str(q)] = hist["quality"].get(str(q), 0) + 1
        hist["threads"][str(t)] = hist["threads"].get(str(t), 0) + 1
        hist["lgwin"][str(w)] = hist["lgwin"].get(str(w), 0) + 1
        b = "0" if n == 0 else "1-9999" if n < 10000 else "10000-399999" if n < 400000 else "400000-1048576" if n <= (1 << 20) else "1048577-4194304" if n <= (1 << 22) else ">4194304"
        hist["input_len"][b] += 1
        # the reference: a member that returned, the inline spawner without the option first
        order = sorted(range(len(ms)), key=lambda i: (ms[i][1].failed_to_return(), ms[i][0].sp != "inl", ms[i][0].f & 8, ms[i][0].profile != "dev", i))
        ref_c, ref_a = ms[order[0]]
        bad = []
        for c, a in ms:
            if a.failed_to_return():
                bad.append((0 if a.kind in ("NORETURN", "HANG") else 1, c, a, "did not return: %s" % a.head[:300]))
            elif a.same_bytes_key() != ref_a.same_bytes_key():
                bad.append((1, c, a, "%s (hash %d) where `%s` (%s) gave %s (hash %d)" % (a.result_str(), a.h, ref_c.line(False)[2:90], ref_c.profile, ref_a.result_str(), ref_a.h)))
            elif a.kind == "OK" and a.dec != "ok":
                bad.append((1, c, a, "output does not decode to the input"))
        rk = ref_a.kind if ref_a.kind != "ERR" else "ERR:" + ref_a.err
        hist["group_result"][rk] = hist["group_result"].get(rk, 0) + 1
        if bad:
            nviol += 1
            bad.sort(key=lambda x: x[0])
            rank, c, a, why = bad[0]
            cd = c.case()
            cd.update({"group": {"input": "%s:%d:%d" % (kind, n, seed), "quality": q, "lgwin": w, "flags": f, "threads": t, "size_hint": hint},
                       "reference_line": ref_c.line(), "reference_profile": ref_c.profile, "differs": why,
                       "differing_members": ["%s/%s/favor=%d: %s" % (x.sp, x.profile, 1 if x.f & 8 else 0, y.result_str()[:200]) for _, x, y, _ in bad[:12]]})
            if a.history and a.failed_to_return():
                cd["history"] = a.history
                cd["history_note"] = "requests that ran before on the same reused pool, in the same process, in this order"
            spec_reports.append((rank, len(spec_reports), c, a, cd, ref_a, why))
        elif t >= 2 and n >= t:
            nontriv += 1
        if len(samples) < 4 and gidx % 97 == 0:
            samples.append(ref_c.line(False))
    # verdicts: failures with a concrete input first (calls that do not come back, then differing bytes), then the
    # differences from the model only
    for rank, _, c, a, cd, ref_a, why in sorted(spec_reports, key=lambda r: (r[0], r[1]))[:6]:
        obs = {"impl": a.head[:600], "reference": ref_a.head[:400], "spec": "FAIL: " + why}
        what = "same input, settings and thread count, different outcome: " + why[:300]
        if a.kind == "NORETURN":
            # the same call on a fresh pool, now: the outcome depends on what the pool served before
            fresh = mc.run_impl(exes[c.profile], [c.with_()], shards=1)[0]
            obs["same_request_alone_in_a_fresh_process"] = fresh.head[:300]
            what = ("the call never returned on a pool that had served %d earlier calls of this process, while the same call returns %s on a fresh pool and `%s` returns %s: "
                    "the outcome depends on the pool's history and the schedule" % (len(a.history), fresh.result_str()[:80], ref_c_line(cd), ref_a.result_str()[:80]))
        run.report("spec-violation", cd, obs, what=what)
    for cd, obs, brk in corr_reports:
        run.report("correspondence", cd, obs, broken=brk, found_input=False)
    if notrun:
        run.report("proof-obligation", {"stage": "search", "requests_not_run": notrun}, {"hung_or_dead_processes": budget.used},
                   broken="%d requests were not run because %d harness processes had hung or died (reported above, up to the report cap); they are not counted as checked" % (notrun, budget.used),
                   found_input=False)
    run.cov["evaluations"] = total + ntraces
    run.cov["distinct_nontrivial"] = nontriv
    run.cov["traces_validated_against_impl"] = ntraces
    run.cov["groups"] = len(results)
    run.cov["generated_groups"] = len(groups)
    run.cov["scripted_pool_histories_per_profile"] = nscripted
    run.cov["members_per_group"] = "26 (13 per build profile; 12 for inputs above 400000 bytes); groups of the scripted pool histories: every call of the history + inline + fresh pool"
    run.cov["size_hint_cut_points_read_from_ChooseHasher"] = ["2^%d" % k for k in cuts]
    run.cov["samples"] = samples or ["R sp=inl q=9 w=13 f=8 t=7 in=text:12288:1 out=bound"]
    run.cov["histograms"] = hist
    run.cov["reached"] = reached
    run.cov["unreached"] = [k for k, v in reached.items() if v == 0]
    run.cov["spec_violations"] = nviol
    run.cov["model_disagreements"] = ndis
    run.cov["requests_not_run"] = notrun
    run.cov["harness_processes_hung_or_dead"] = budget.used
    run.cov["max_call_ms"] = max_ms
    run.note("%d groups, %d calls, %d groups with differing members, %d model disagreements, %d requests not run; reached: %s" % (
        len(results), total, nviol, ndis, notrun, ", ".join("%s=%d" % kv for kv in reached.items())))
    if not ok_proof and not run.violations:
        run.report("proof-obligation", {"stage": "proof"}, {"broken": broken}, broken="; ".join(b[:400] for b in broken), found_input=False)


def ref_c_line(cd):
    return cd.get("reference_line", "?")[2:90]


def replay(path):
    d = json.load(open(path))
    case = d.get("case", {})
    line = case.get("line")
    if not line:
        print("replay file has no request line (kind=%s): %s" % (d.get("kind"), d.get("broken")))
        return 1
    prof = case.get("profile", "dev")
    vlib.coq_regen(GEN)
    _, _, model = mc.build_model()
    import random
    runs = [(line, prof)]
    if case.get("reference_line"):
        runs.append((case["reference_line"], case.get("reference_profile", "dev")))
    outs = []
    rc = 0
    hist = case.get("history") or []
    for ri, (ln, pf) in enumerate(runs):
        _, _, impl = vlib.harness_build("multi", pf)
        c = mc.case_from_line(ln, pf)
        if ri == 0 and hist:
            # the outcome depended on what the pool had served before (and on the schedule): the same requests, in
            # one process, up to three times
            print("%d earlier requests on the same pool, in the same process:" % len(hist))
            for h in hist:
                print("   " + h)
            for attempt in range(3):
                seq = mc.run_sequence(impl, hist + [c.line()])
                early = [i for i, x in enumerate(seq[:-1]) if x.failed_to_return()]
                if early:
                    print("attempt %d: already request %d of the history did not return: %s" % (attempt + 1, early[0] + 1, seq[early[0]].head[:300]))
                    a = seq[early[0]]
                    break
                a = seq[-1]
                print("attempt %d, after the history: %s" % (attempt + 1, a.head[:400]))
                if a.failed_to_return():
                    break
            alone = mc.run_impl(impl, [c], shards=1)[0]
            print("the request alone, in a fresh process: %s" % alone.head[:300])
            if a.kind in ("NORETURN", "TOOL"):
                print("request: %s   (profile %s)" % (c.line(), pf))
                print("impl:  %s" % a.text[:3000])
                outs.append(a)
                rc = 1
                continue
        else:
            a = mc.run_impl(impl, [c], shards=1)[0]
        ml = mc.model_line(c, a, random.Random(1))
        ma = vlib.run_lines(model, [ml], shards=1)[0]
        diffs = mc.compare(c, a, ma)
        print("request: %s   (profile %s)" % (c.line(), pf))
        print("impl:  %s" % a.text[:3000])
        print("model: %s" % ma[:2000])
        print("correspondence: %s" % ("OK" if not diffs else "DIFF " + "; ".join(diffs)))
        outs.append(a)
        if diffs or a.kind in ("PANIC", "HANG", "TOOL"):
            rc = 1
    if len(outs) == 2:
        same = outs[0].same_bytes_key() == outs[1].same_bytes_key()
        print("spec:  %s" % ("OK (same result and bytes)" if same and rc == 0 else "FAIL (%s vs %s)" % (outs[0].head[:120], outs[1].head[:120])))
        if not same:
            rc = 1
    else:
        print("spec:  %s" % ("OK (returned)" if rc == 0 else "FAIL"))
    return rc
