"""C07 - worker pool: each job runs once, results are routed correctly, no deadlock; FixedQueue is a bounded queue.

Correspondence: the real WorkerPool runs under the cfg(brotli_verif) scheduler shim on a schedule
(list of thread ids + spurious wake-ups); the extracted Coq transition system (coq/model/Pool.v) is run on the
same schedule; the whole observation sequence is compared.  Search: the extracted spec (coq/spec/PoolSpec.v)
and a few observational invariants are applied to the implementation's runs alone."""
import json, os, itertools
import vlib

PROP = "C07"
LEVEL = "proof"
PANIC_BIT = 1 << 40
ENV = {"RUST_MIN_STACK": "262144"}
MASK62 = (1 << 62) - 1
SPEC_BUDGET = 5      # reported spec violations of scheduled pool runs (own budget: never crowded out)
SPEC_BUDGET_Q = 3    # ... of queue operation sequences
SPEC_BUDGET_X = 4    # ... of enumerated schedules
CORR_BUDGET = 3      # reported model-only disagreements per stage


def what_fails(end):
    if end.startswith("DEADLOCK"):
        return ("the real pool deadlocks on this schedule: every thread is blocked (lost wake-up), a join / drop is pending "
                "although every job body returned")
    if end.startswith("PANIC"):
        return "the real pool panics on this schedule: " + end
    return "pool run violates: each job once / join gets its own result / ownership returns / no deadlock / drop terminates"


def hmix(h, x):
    return (h * 1000003 + x) & MASK62


def job_value(p):
    return hmix(hmix(12345, 777), p)


# ----------------------------------------------------------------------------- FixedQueue cases

def queue_cases(rng, thorough):
    cases = []
    # exhaustive short sequences after prefixes that put the ring in interesting positions
    prefixes = [[], ["p%d" % (3 * i + 1) for i in range(14)], ["p%d" % (5 * i + 2) for i in range(16)],
                ["p%d" % (i + 1) for i in range(16)] + ["o"] * 13,
                ["p%d" % (7 * i) for i in range(10)] + ["o"] * 10 + ["p%d" % (i + 8) for i in range(9)]]
    alpha = ["p", "o", "r0", "r1", "r3", "s", "c"]
    depth = 5 if thorough else 4
    for pre in prefixes:
        for L in range(0, depth + 1):
            for seq in itertools.product(alpha, repeat=L):
                ops, k = list(pre), 0
                for a in seq:
                    if a == "p":
                        k += 1
                        ops.append("p%d" % ((k * 11 + L) % 64))
                    else:
                        ops.append(a)
                ops += ["s", "f", "o", "o"]
                cases.append("Q " + " ".join(ops))
    # random long sequences
    for _ in range(6000 if thorough else 1500):
        n = rng.choice([5, 20, 60, 200, 400])
        bias = rng.choice([0.3, 0.5, 0.7])
        ops = []
        for _ in range(n):
            x = rng.random()
            if x < bias:
                ops.append("p%d" % rng.randrange(0, 64))
            elif x < bias + 0.2:
                ops.append("o")
            elif x < bias + 0.45:
                ops.append("r%d" % rng.randrange(0, 8))
            else:
                ops.append(rng.choice(["s", "c", "f"]))
        cases.append("Q " + " ".join(ops))
    return cases


# ----------------------------------------------------------------------------- pool scripts

def gen_script(rng, kind):
    """kind: batch (inside the property's quantifier) | earlydrop | boundary | panicjob (outside it: correspondence only)"""
    ops, nspawn = [], 0
    nb = rng.choice([1, 1, 2, 2, 3, 4])
    for b in range(nb):
        ops.append("B")
        n = rng.choice([1, 1, 2, 2, 3, 3, 4, 5, 8, 12, 15])
        ids = list(range(nspawn, nspawn + n))
        pend = []
        for i in ids:
            ops.append("S%d" % (1000 * (b + 1) + 7 * i + 3))
            pend.append(i)
            # joins interleaved with the spawns of the same batch
            while pend and rng.random() < 0.15:
                ops.append("J%d" % pend.pop(rng.randrange(len(pend))))
        nspawn += n
        order = rng.choice(["fifo", "lifo", "rand"])
        if order == "lifo":
            pend.reverse()
        elif order == "rand":
            rng.shuffle(pend)
        if kind == "earlydrop" and b == nb - 1:
            pend = pend[:rng.randrange(0, len(pend) + 1)]
            ops += ["J%d" % i for i in pend]
            break
        ops += ["J%d" % i for i in pend]
        ops.append("U")
    ops.append("D")
    return ",".join(ops)


def boundary_script(rng, leftover):
    """results left un-joined, then a batch that brings the number of outstanding items to 17"""
    ops, n = ["B"], 0
    for i in range(leftover):
        ops.append("S%d" % (50 + i))
        n += 1
    ops.append("U")
    ops.append("B")
    for i in range(18 - leftover):
        ops.append("S%d" % (500 + i))
        n += 1
    ops += ["U", "D"]
    return ",".join(ops)


POLICIES = ["u", "n", "s", "k", "r"]


def pool_cases(rng, thorough):
    cases = []
    nrand = 12000 if thorough else 2600
    for _ in range(nrand):
        kind = rng.choice(["batch"] * 8 + ["earlydrop"])
        w = rng.choice([1, 1, 2, 2, 2, 3, 3, 4, 4, 7, 16])
        pol = rng.choice(POLICIES)
        spur = rng.choice([0, 0, 2, 8])
        cases.append({"kind": kind, "workers": w, "script": gen_script(rng, kind),
                      "sched": "%s %d %d" % (pol, rng.randrange(1, 1 << 30), spur)})
    # outside the quantifier: the model must agree with the code there too
    for k in range(6 if thorough else 3):
        w = rng.choice([1, 2, 3])
        cases.append({"kind": "boundary", "workers": w, "script": boundary_script(rng, rng.choice([2, 5, 9])),
                      "sched": "k %d 0" % rng.randrange(1, 1 << 30)})
    for k in range(4 if thorough else 2):
        cases.append({"kind": "panicjob", "workers": rng.choice([1, 2]),
                      "script": "B,S%d,S9,J1,J0,U,D" % (PANIC_BIT + 5), "sched": "u %d 0" % rng.randrange(1, 1 << 30)})
    return cases


def req(c):
    return "P %d %s | %s" % (c["workers"], c["script"], c["sched"])


def canon(line):
    """a panic has no model state: the implementation's record of the panicking step and the message are dropped"""
    if ";end=PANIC" not in line:
        return line
    head, _, tail = line.partition(";exec=")
    ex = tail.split(";end=")[0]
    recs = head.split(";")
    if "pool code panicked" in line or "called `" in line or "attempt to" in line or "assertion" in line:
        recs = recs[:-1]          # implementation side: has a record for the step that panicked
        if recs and recs[0].startswith("sched="):
            recs[0] = " ".join(recs[0].split()[:-1]) if len(recs[0].split()) > 1 else recs[0]
    else:
        recs[0] = " ".join(recs[0].split()[:-1]) if len(recs[0].split()) > 1 else recs[0]
    return ";".join(recs) + ";exec=" + ex + ";end=PANIC"


def parse_line(line):
    d = {}
    if not line.startswith("sched="):
        return None
    try:
        a, rest = line[6:].split(";steps=", 1)
        steps, rest = rest.split(";exec=", 1)
        ex, end = rest.split(";end=", 1)
        d["sched"] = a.split()
        d["steps"] = [r.split("|") for r in steps.split(";")]
        d["exec"] = [int(x) for x in ex.split(",") if x != ""]
        d["end"] = end.split(";")[0]
        return d
    except ValueError:
        return None


def observational(c, d):
    """invariants I1/I2/I3/I5 of DESIGN appendix D checked on the implementation's own records
    (scripts inside the quantifier: every batch is joined before its unwrap, so every queued or running job
    belongs to the newest spawner Arc)"""
    nsp = nj = 0
    held = 0
    for k, r in enumerate(d["steps"]):
        if len(r) != 7:
            return "malformed record %d" % k
        st = r[1].split(".")
        j, rs, nip, cur = [int(x) for x in r[3].split(",")]
        for ev in r[6].split("+"):
            if ev.startswith("S"):
                nsp += 1
            elif ev.startswith("J"):
                nj += 1
            elif ev == "B":
                held = 1
            elif ev.startswith("U="):
                held = 0
        running = sum(1 for x in st[1:] if x in ("U1", "U2"))
        at_lock = sum(1 for x in st[1:] if x == "A")
        if nip < running or nip > running + at_lock:
            return "I1: step %d: num_in_progress=%d but %d workers hold a job (%d more at a lock)" % (k, nip, running, at_lock)
        if cur != nsp:
            return "step %d: cur_work_id=%d after %d spawns" % (k, cur, nsp)
        if j + nip + rs != nsp - nj:
            return "I2: step %d: jobs+in_progress+results=%d but %d handles are outstanding" % (k, j + nip + rs, nsp - nj)
        if c.get("kind") != "earlydrop" and j + nip + rs > 15:
            return "I3: step %d: %d items outstanding" % (k, j + nip + rs)
        if r[4] != "-" and int(r[4]) != held + j + running:
            return "I5: step %d: Arc strong count %s, expected %d" % (k, r[4], held + j + running)
    return None


def stats_of(d, cov):
    steps = d["steps"]
    cov["maxjobs"] = max(cov.get("maxjobs", 0), max(int(r[3].split(",")[0]) for r in steps))
    cov["maxresults"] = max(cov.get("maxresults", 0), max(int(r[3].split(",")[1]) for r in steps))
    cov["maxinprogress"] = max(cov.get("maxinprogress", 0), max(int(r[3].split(",")[2]) for r in steps))
    sub_wait = any(r[1].split(".")[0] in ("w", "W") for r in steps)
    wk_wait = any(x in ("w", "W") for r in steps for x in r[1].split(".")[1:])
    spur = any(m.startswith("w") for m in d["sched"])
    for key, val in (("submitter_waited", sub_wait), ("worker_waited", wk_wait), ("spurious_wake", spur)):
        if val:
            cov["reached"][key] = cov["reached"].get(key, 0) + 1
    switches = sum(1 for a, b in zip(d["sched"], d["sched"][1:]) if a != b)
    return switches, (sub_wait or wk_wait)


# ----------------------------------------------------------------------------- exhaustive exploration

def explore_configs(thorough):
    """(workers, script, spurious budget, reduced?, prefix depth for sharding, cap per prefix (0 = none: exhaustive))"""
    cfg = [(1, "B,S5,J0,U,D", 0, 0, 0, 0), (1, "B,S5,J0,U,D", 1, 0, 0, 0), (1, "B,S5,S6,J0,J1,U,D", 0, 0, 3, 0),
           (2, "B,S5,J0,U,D", 0, 1, 3, 0), (2, "B,S5,S6,J1,J0,U,D", 0, 1, 6, 40)]
    if thorough:
        cfg += [(1, "B,S5,S6,J1,J0,U,D", 0, 0, 3, 0), (1, "B,S5,S6,S7,J0,J1,J2,U,D", 0, 0, 5, 0), (1, "B,S5,S6,S7,J2,J0,J1,U,D", 0, 0, 5, 0),
                (1, "B,S5,J0,U,B,S6,J1,U,D", 0, 0, 5, 0),
                (2, "B,S5,S6,S7,J2,J0,J1,U,D", 0, 1, 9, 60), (3, "B,S5,S6,J1,J0,U,D", 0, 1, 8, 60),
                (2, "B,S5,J0,U,D", 1, 1, 6, 0), (2, "B,S5,J0,U,D", 0, 0, 7, 0), (2, "B,S5,S6,J0,J1,U,D", 0, 1, 9, 0)]
    return cfg


def explore(run, impl_exe, model, thorough):
    """every schedule of small configurations: depth-first with re-execution of the real pool (sharded by schedule
    prefixes taken from the model), each schedule replayed on the model; the number of schedules must equal the
    model's own count.  Configurations with a cap are samples (first `cap` schedules below every prefix)."""
    total, bad, details = 0, 0, []
    all_complete = True
    budgets = {"spec": SPEC_BUDGET_X, "corr": CORR_BUDGET}
    import time
    t_explore = time.time()
    for (w, script, budget, red, depth, cap) in explore_configs(thorough):
        base = "%d %s |" % (w, script)
        nwant = -1
        if not cap:
            want = vlib.run_lines(model, ["C %s %d 2000000000 %d" % (base, budget, red)], shards=1)[0]
            nwant = int(want.split(";")[0][2:]) if want.startswith("n=") else -1
            # measured rate of this run so far decides whether a large space still fits into the tier's time budget
            spent = time.time() - t_explore
            rate = (total / spent) if spent > 5 and total > 20000 else 8000.0
            left = (1500 if thorough else 200) - (time.time() - run.t0)
            if nwant > 50000 and nwant / rate > left:
                cap = 40
                run.note("time budget: %dw %s (%d schedules, %.0f/s measured) is sampled instead of enumerated" % (w, script, nwant, rate))
        pref = [""]
        if depth:
            # deepen the prefixes until there are enough of them to keep 16 processes evenly busy
            d = depth
            while True:
                pref = vlib.run_lines(model, ["X %s %d %d %d" % (base, budget, red, d)], shards=1)[0].split(";")
                if cap or len(pref) >= 3000 or d >= depth + 8 or (0 <= nwant < 20000):
                    break
                d += 1
        run.rng.shuffle(pref)
        nsched, nbad, okc, ndup = 0, 0, True, 0
        reported_here = 0
        keep = (not cap) and 0 <= nwant <= 50000      # small space: keep the schedules to name one side's extra schedule
        impl_scheds = set()
        chunk = 1024

        def report_schedule(s, e):
            """one enumerated schedule on which implementation and model differ, or which ends badly: run it in full;
            a run of the real pool that violates the property is a spec violation with the schedule as failing input"""
            full = vlib.run_lines(impl_exe, ["P %s x %s" % (base, s)], shards=1, env=ENV)[0]
            dd = parse_line(full)
            actual = " ".join(dd["sched"]) if dd else s
            mfull = vlib.run_lines(model, ["P %s x %s" % (base, actual)], shards=1)[0]
            sp = vlib.run_lines(model, ["S P %s %s" % (base, full)], shards=1)[0]
            end = dd["end"] if dd else "?"
            case = {"kind": "exhaustive", "workers": w, "script": script, "sched": "x " + actual, "end": end}
            ob = observational(case, dd) if dd else None
            if sp != "OK" or ob is not None:
                if budgets["spec"] > 0:
                    budgets["spec"] -= 1
                    run.report("spec-violation", case, {"impl": full, "model": mfull, "spec": sp if sp != "OK" else ob},
                               what=what_fails(end) + " (enumerated schedule)")
                    return 1
            elif budgets["corr"] > 0:
                budgets["corr"] -= 1
                run.report("correspondence", case, {"impl": full, "model": mfull, "spec": sp},
                           broken="correspondence Pool.v vs worker_pool.rs on an enumerated schedule: the model %s"
                                  % ("does not have this schedule" if "NOTENABLED" in mfull else "observes something else"), found_input=False)
                return 1
            return 0

        for c0 in range(0, len(pref), chunk):
            reqs = ["E %s %d %d %d %s" % (base, budget, cap if cap else 2000000000, red, p) for p in pref[c0:c0 + chunk]]
            ans = vlib.run_lines(impl_exe, reqs, env=ENV, timeout=3000)
            traces = []
            for a in ans:
                if not a.startswith("n="):
                    okc = False
                    details.append("harness answered %s" % a[:200])
                    continue
                f = a.split(";")
                if (f[1] != "complete=1" and not cap) or f[2] != "bad=0":
                    okc = False
                traces += f[3:]
            scheds = [t.split("#")[0] for t in traces]
            ndup += len(scheds) - len(set(scheds))
            if keep:
                impl_scheds.update(scheds)
            mh = vlib.run_lines(model, ["PH %s x %s" % (base, s) for s in scheds])
            badl = []
            for t, m in zip(traces, mh):
                s, h, e = t.split("#")
                if m != "%s#%s" % (h, e) or e != "ok":
                    nbad += 1
                    badl.append((0 if e.startswith("DEADLOCK") else 1 if e.startswith("PANIC") else 2, len(s), s, e))
            # runs of the real pool that end in a deadlock / panic first, shortest first; then a few of the others
            badl.sort()
            looked = 0
            for (cls, _, s, e) in badl:
                if cls < 2 and budgets["spec"] <= 0:
                    continue
                if cls == 2 and (looked >= 3 or (budgets["corr"] <= 0 and looked >= 1)):
                    continue
                if cls == 2:
                    looked += 1
                reported_here += report_schedule(s, e)
            nsched += len(scheds)
            if nbad > 5000:
                okc = False
                break
        complete = okc and ndup == 0 and nbad == 0 and (cap or nsched == nwant)
        if not complete and keep and nsched != nwant:
            # name a schedule that only one side has
            ms = set(vlib.run_lines(model, ["X %s %d %d 100000" % (base, budget, red)], shards=1)[0].split(";"))
            only_model = sorted(ms - impl_scheds, key=len)
            only_impl = sorted(impl_scheds - ms, key=len)
            run.note("%dw %s: %d schedules only in the implementation (e.g. `%s`), %d only in the model (e.g. `%s`)" % (
                w, script, len(only_impl), only_impl[0] if only_impl else "", len(only_model), only_model[0] if only_model else ""))
            for s in only_impl[:1] + only_model[:1]:
                reported_here += report_schedule(s, "?")
        if not complete and reported_here == 0:
            run.report("correspondence", {"kind": "exhaustive", "workers": w, "script": script, "budget": budget, "reduced": red},
                       {"impl_traces": nsched, "duplicates": ndup, "bad": nbad, "model_traces": nwant, "details": details[-3:]},
                       broken="set of schedules of the implementation differs from the model's (enabledness differs)", found_input=False)
        total += nsched
        bad += nbad
        if cap or not complete:
            all_complete = all_complete and bool(cap)
        details.append("%dw %s spurious<=%d %s: %d schedules%s %s" % (
            w, script, budget, "reduced (local worker steps first)" if red else "full", nsched,
            (" (model %d)" % nwant) if not cap else " (first %d below each of %d prefixes)" % (cap, len(pref)),
            ("complete" if not cap else "sample") if complete else "INCOMPLETE"))
        run.note(details[-1])
    return total, bad, details


# ----------------------------------------------------------------------------- the check

def build(run):
    okx, logx = vlib.coq_extract("C07")
    okm, logm, model = vlib.ocaml_build("C07", "c07_driver.ml")
    okh, logh, impl_exe = vlib.harness_build("c07", "dev")
    return okx and okm, (logx + logm), model, okh, logh, impl_exe


def run_case(impl_exe, model, c):
    a = vlib.run_lines(impl_exe, [req(c)], shards=1, env=ENV)[0]
    d = parse_line(a)
    if d is None:
        return a, "?", "?", None
    m = vlib.run_lines(model, ["P %d %s | x %s" % (c["workers"], c["script"], " ".join(d["sched"]))], shards=1)[0]
    s = vlib.run_lines(model, ["S P %d %s | %s" % (c["workers"], c["script"], a)], shards=1)[0]
    return a, m, s, d


def check(run):
    thorough = run.tier == "thorough"
    ok_proof, broken = vlib.proof_stage(run, "props/C07.v", ["Pool"], extra_trusted=[
        "cfg(brotli_verif) scheduler shim src/enc/verif_sync.rs + the controller in harness/src/bin/c07.rs (real OS threads serialised by a token)",
        "sequential consistency under the pool's single mutex; real OS scheduling below the mutex is outside the model",
        "section hypotheses of the theorems: job bodies return (job_ok), schedules are maximal with finitely many spurious wake-ups"])
    okmod, logmod, model, okh, logh, impl_exe = build(run)
    if not okmod:
        run.note("model rebuild failed (%s); using last built executable model if present" % logmod[-300:])
        if ok_proof:
            broken.append("extraction/driver build failed")
            ok_proof = False
    if not os.path.exists(model):
        run.report("proof-obligation", {"stage": "model build"}, {"log": logmod[-2000:]}, broken="executable model could not be built", found_input=False)
        return
    if not okh:
        run.report("proof-obligation", {"stage": "harness build"}, {"log": logh[-3000:]},
                   broken="harness does not build against /repo (scheduler shim / hooked API changed?)", found_input=False)
        return
    cov = run.cov
    cov["reached"] = {}
    # ---- FixedQueue
    qc = queue_cases(run.rng, thorough)
    qi = vlib.run_lines(impl_exe, qc)
    qm = vlib.run_lines(model, qc)
    qs = vlib.run_lines(model, ["S %s = %s" % (c, a) for c, a in zip(qc, qi)])
    nq_bad = 0
    qdistinct = set()
    q_spec, q_corr = [], []
    for c, a, m, s in zip(qc, qi, qm, qs):
        if "r" in c and "o" in c:
            qdistinct.add(c)
        if s != "OK":
            nq_bad += 1
            q_spec.append((c, a, m, s))
        elif a != m:
            nq_bad += 1
            q_corr.append((c, a, m, s))
    # violations of the property itself first (shortest sequences first), with a budget of their own
    for c, a, m, s in sorted(q_spec, key=lambda x: len(x[0]))[:SPEC_BUDGET_Q]:
        run.report("spec-violation", {"kind": "queue", "request": c}, {"impl": a, "model": m, "spec": s},
                   what="FixedQueue is not a bounded FIFO with first-match remove on this operation sequence")
    for c, a, m, s in sorted(q_corr, key=lambda x: len(x[0]))[:CORR_BUDGET]:
        run.report("correspondence", {"kind": "queue", "request": c}, {"impl": a, "model": m, "spec": s},
                   broken="correspondence Pool.v (FixedQueue) vs fixed_queue.rs", found_input=False)
    run.note("FixedQueue: %d operation sequences, %d failures" % (len(qc), nq_bad))
    # ---- pool under PRNG / biased schedules
    pcs = pool_cases(run.rng, thorough)
    pi = vlib.run_lines(impl_exe, [req(c) for c in pcs], env=ENV, timeout=2400)
    parsed = [parse_line(a) for a in pi]
    mreq = ["P %d %s | x %s" % (c["workers"], c["script"], " ".join(d["sched"])) if d else "P 1 D | x" for c, d in zip(pcs, parsed)]
    pm = vlib.run_lines(model, mreq)
    ps = vlib.run_lines(model, ["S P %d %s | %s" % (c["workers"], c["script"], a) for c, a in zip(pcs, pi)])
    np_bad = 0
    nontriv = set()
    ends, kinds, pols, wk = {}, {}, {}, {}
    samples = []
    p_spec, p_corr = [], []
    for c, a, d, m, s in zip(pcs, pi, parsed, pm, ps):
        kinds[c["kind"]] = kinds.get(c["kind"], 0) + 1
        pols[c["sched"].split()[0]] = pols.get(c["sched"].split()[0], 0) + 1
        wk[str(c["workers"])] = wk.get(str(c["workers"]), 0) + 1
        if d is None:
            np_bad += 1
            run.report("proof-obligation", dict(c), {"impl": a[:500]}, broken="harness gave no parsable run (machinery)", found_input=False)
            continue
        ends[d["end"].split("(")[0]] = ends.get(d["end"].split("(")[0], 0) + 1
        inq = c["kind"] in ("batch", "earlydrop")
        obs = observational(c, d) if inq else None
        cc = dict(c)
        cc["sched"] = "x " + " ".join(d["sched"])
        cc["end"] = d["end"]
        if inq and (s != "OK" or obs is not None):
            # the real pool itself breaks the property on this schedule (deadlock = every thread blocked with a join /
            # drop pending although every job body returned; panic; wrong value; job run twice; ownership not returned)
            np_bad += 1
            p_spec.append((cc, a, m, s if s != "OK" else obs))
        elif canon(a) != canon(m):
            np_bad += 1
            p_corr.append((cc, a, m, s))
        sw, waited = stats_of(d, cov)
        if sw >= 3 and waited:
            nontriv.add((c["workers"], c["script"], " ".join(d["sched"])))
        if len(samples) < 3 and sw >= 5:
            samples.append({"workers": c["workers"], "script": c["script"], "schedule": " ".join(d["sched"][:60]), "end": d["end"]})
    # spec violations first (deadlocks and panics before the rest, shortest scenario first): the schedule is the failing input
    def sev(x):
        e = x[0]["end"]
        return (0 if e.startswith("DEADLOCK") else 1 if e.startswith("PANIC") else 2, len(x[0]["script"]) + len(x[0]["sched"]))
    for cc, a, m, s in sorted(p_spec, key=sev)[:SPEC_BUDGET]:
        run.report("spec-violation", cc, {"impl": a, "model": m, "spec": s}, what=what_fails(cc["end"]))
    def inq_first(x):
        return (0 if x[0]["kind"] in ("batch", "earlydrop") else 1,) + sev(x)
    for cc, a, m, s in sorted(p_corr, key=inq_first)[:CORR_BUDGET]:
        note = ("the run itself satisfies the property" if cc["kind"] in ("batch", "earlydrop") else
                "scenario outside the property's quantifier (%s): only the model's faithfulness is at stake" % cc["kind"])
        run.report("correspondence", cc, {"impl": a, "model": m, "spec": s},
                   broken="correspondence Pool.v vs worker_pool.rs: observation sequences differ on this schedule (%s)" % note,
                   found_input=False)
    run.note("pool: %d scheduled runs, %d failures (%d violate the property, %d differ from the model only); ends %s" % (len(pcs), np_bad, len(p_spec), len(p_corr), ends))
    # ---- release build (wrapping arithmetic, no debug assertions): same queue sequences and a sample of the pool runs
    nrel = 0
    if thorough:
        okr, logr, rel_exe = vlib.harness_build("c07", "release")
        if not okr:
            run.report("proof-obligation", {"stage": "harness build", "profile": "release"}, {"log": logr[-2000:]},
                       broken="release harness does not build", found_input=False)
        else:
            qr = vlib.run_lines(rel_exe, qc)
            sub = [k for k in range(len(pcs)) if parsed[k] is not None and pcs[k]["kind"] in ("batch", "earlydrop")][:3000]
            pr = vlib.run_lines(rel_exe, ["P %d %s | x %s" % (pcs[k]["workers"], pcs[k]["script"], " ".join(parsed[k]["sched"])) for k in sub],
                                env=ENV, timeout=2400)
            nrb = 0
            for c, a, b in zip(qc, qr, qm):
                if a != b:
                    nrb += 1
                    if nrb <= 2:
                        run.report("correspondence", {"kind": "queue", "request": c, "profile": "release"}, {"impl": a, "model": b},
                                   broken="correspondence Pool.v (FixedQueue) vs fixed_queue.rs in the release profile", found_input=False)
            for k, a in zip(sub, pr):
                if a != pi[k]:
                    nrb += 1
                    if nrb <= 4:
                        cc = dict(pcs[k])
                        cc["sched"] = "x " + " ".join(parsed[k]["sched"])
                        cc["profile"] = "release"
                        run.report("correspondence", cc, {"impl": a, "model": pm[k], "impl_dev": pi[k]},
                                   broken="release and dev builds of the pool differ on the same schedule", found_input=False)
            nrel = len(qr) + len(pr)
            np_bad += nrb
            run.note("release profile: %d queue sequences + %d pool runs re-executed, %d differences" % (len(qr), len(pr), nrb))
    # ---- exhaustive schedules
    nex, exbad, exdetails = explore(run, impl_exe, model, thorough)
    cov["evaluations"] = len(qc) + len(pcs) + nex + nrel
    cov["distinct_nontrivial"] = len(nontriv) + len(qdistinct)
    cov["traces_validated_against_impl"] = len(qc) + len(pcs) + nex + nrel - nq_bad - np_bad - exbad
    cov["rule"] = ("FixedQueue: all sequences up to length %d over {push, pop, remove k=0/1/3, size, can_push} after 5 ring-position prefixes + PRNG sequences "
                   "up to 400 ops (non-trivial = contains both remove and pop). Pool: PRNG scripts of 1..4 batches of 1..15 jobs (joins in fifo/lifo/random order, "
                   "partly interleaved with spawns, pool reused across batches, drop at the end) x 1..16 workers x 5 schedule policies (uniform, switch-after-notify_all, "
                   "submitter-first, workers-first = everybody inside wait when notify comes, sticky) x spurious wake-up rates; non-trivial = schedule has >= 3 thread "
                   "switches and some thread waited on the condvar, counted as distinct (workers, script, concrete schedule). Exhaustive: every schedule of the listed "
                   "small configurations (depth-first with re-execution of the real pool); the number of schedules must equal the model's") % (5 if thorough else 4)
    cov["samples"] = samples + [qc[len(qc) // 2][:200]]
    cov["histograms"] = {"script_kind": kinds, "policy": pols, "workers": wk, "end": ends}
    cov["exhaustive"] = False   # the spaces enumerated completely are listed in exhaustive_note; the property's space is infinite
    cov["exhaustive_note"] = "; ".join(x for x in exdetails if "schedules" in x)
    cov["exhaustive_schedules"] = nex
    for key in ("submitter_waited", "worker_waited", "spurious_wake"):
        if key not in cov["reached"]:
            cov.setdefault("unreached", []).append(key)
    if not ok_proof and not run.violations:
        run.report("proof-obligation", {"stage": "proof"}, {"broken": broken}, broken="; ".join(b[:400] for b in broken), found_input=False)


def replay(path):
    d = json.load(open(path))
    c = d["case"]
    vlib.coq_regen(["Pool"])
    vlib.coq_extract("C07")
    _, _, model = vlib.ocaml_build("C07", "c07_driver.ml")
    _, _, impl_exe = vlib.harness_build("c07", "dev")
    if c.get("kind") == "queue":
        a = vlib.run_lines(impl_exe, [c["request"]], shards=1)[0]
        m = vlib.run_lines(model, [c["request"]], shards=1)[0]
        s = vlib.run_lines(model, ["S %s = %s" % (c["request"], a)], shards=1)[0]
        print("request: %s\nimpl:  %s\nmodel: %s\nspec:  %s" % (c["request"], a, m, s))
        return 0 if (s == "OK" and a == m) else 1
    if "script" not in c:
        print("replay file has no runnable case (kind=%s): %s" % (d.get("kind"), d.get("broken")))
        return 1
    a, m, s, dd = run_case(impl_exe, model, c)
    obs = observational(c, dd) if (dd and c.get("kind") in ("batch", "earlydrop", "exhaustive")) else None
    print("case: workers=%s script=%s schedule=%s" % (c["workers"], c["script"], c["sched"]))
    print("impl:  %s\nmodel: %s\nspec:  %s%s" % (a, m, s, (" ; " + obs) if obs else ""))
    return 0 if (s == "OK" and obs is None and canon(a) == canon(m)) else 1
