"""C08 - the advertised maximum compressed size is honoured."""
import json, os
import vlib
from checks import multi_common as mc

PROP = "C08"
LEVEL = "proof"
U64 = (1 << 64) - 1


def bound_py(n, ms=21):
    """plain-Python copy of the formula, used only to *place* test points near its break points"""
    k = n >> 14
    tail = (n - ((k << 24) & U64)) & U64
    to = 4 if tail > (1 << 20) else 3
    return n + 2 + 4 * k + to + 1 + ms


def m_points(rng, thorough):
    pts = set(range(0, 41))
    for k in range(1, 64):
        for d in (-1, 0, 1):
            pts.add((1 << k) + d)
    for j in list(range(1, 24)) + [rng.randrange(24, 1 << 30) for _ in range(40)]:
        for d in (-1, 0, 1):
            pts.add(j * (1 << 14) + d)
    pts |= {U64, U64 - 1, (1 << 54) - 1, 1 << 54, (1 << 54) + (1 << 14), (1 << 62) - 1, 1 << 62}
    # where n + overhead + magic_size crosses 2^64 (checked addition) and where n + overhead wraps
    for target in ((1 << 64) - 21, (1 << 64) - 16, 1 << 64):
        lo, hi = 0, U64
        while lo < hi:
            mid = (lo + hi) // 2
            if bound_py(mid, 0) < target:
                lo = mid + 1
            else:
                hi = mid
        for d in range(-40, 41):
            if 0 <= lo + d <= U64:
                pts.add(lo + d)
    for _ in range(3000 if thorough else 500):
        pts.add(rng.randrange(0, 1 << rng.randrange(1, 65)))
    return sorted(pts)


def oneshot_lengths(thorough):
    ls = [0, 1, 2, 3, 17, 1000]
    for base in (1 << 14, 2 << 14, 1 << 16):
        ls += [base - 1, base, base + 1]
    return ls


def gen_cases(run, thorough):
    rng = run.rng
    cases = []
    # --- bound values
    ms = m_points(rng, thorough)
    cases += ["M %d" % n for n in ms]
    for n in rng.sample(ms, 150) + [0, 1, 16384, U64]:
        for t in (0, 1, 2, 16, 255, (1 << 32) - 1, 1 << 61, U64):
            cases.append("MM %d %d" % (n, t))
    # --- stored stream (hook)
    ul = [0, 1, 2, 3, 7, 100, 599, 65535, 65536, 65537, (1 << 20) - 1, 1 << 20, (1 << 20) + 1, (1 << 24) - 1, 1 << 24,
          (1 << 24) + 1]
    ul += [rng.randrange(1, 600) for _ in range(60)] + [rng.randrange(600, 1 << 21) for _ in range(10)]
    if thorough:
        ul += [(1 << 24) + (1 << 20) + 5, 2 << 24, (2 << 24) + 1, (3 << 24) + 70000]
    for l in ul:
        cases.append("U %s:%d:%d" % (rng.choice("pz"), l, rng.randrange(0, 256)))
    # --- one-shot, buffer = bound: every quality x window x mode x kind of input x length
    lgwins = [10, 16, 18, 22, 24, 26, 30]
    for api in ("R", "F"):
        for q in range(0, 12):
            for lg in lgwins:
                for mode in (0, 1, 2):
                    for kind in "rtz":
                        for l in oneshot_lengths(thorough):
                            if api == "F" and rng.randrange(3):     # the C ABI wraps the same function: a third of the grid
                                continue
                            cases.append("C %s %d %d %d %s:%d:%d B" % (api, q, lg, mode, kind, l, rng.randrange(1, 1000)))
    # around 2^20 (and 2^24 in the thorough tier): a sub-grid
    big = [(1 << 20) - 1, 1 << 20, (1 << 20) + 1] + ([(1 << 24) - 1, (1 << 24) + 1] if thorough else [])
    for q in range(0, 12):
        for lg in ((16, 22, 30) if thorough else (rng.choice([16, 18]), rng.choice([22, 24, 26, 30]))):
            for kind in "rt":
                for l in big:
                    if l > (1 << 20) + 1 and (q >= 10 and kind == "t"):
                        continue
                    cases.append("C %s %d %d %d %s:%d:%d B" % (rng.choice("RF"), q, lg, rng.choice([0, 1]), kind, l, rng.randrange(1, 1000)))
    # fragments longer than one meta-block (2^24) at quality 0/1 with a large window
    for q in (0, 1):
        for kind in "rt":
            cases.append("C %s %d 30 0 %s:%d:%d B" % (rng.choice("RF"), q, kind, (1 << 24) + 1 + rng.randrange(0, 5), rng.randrange(1, 1000)))
    # capacities around the size of the stored stream, for incompressible inputs whose length straddles
    # every threshold of MakeUncompressedStream (header nibbles at 2^16 and 2^20, chunking at 2^24):
    # below the stored size the call must fail or fit, from the bound upwards it must succeed
    def sweep(n, configs, bufs):
        for (q, lg) in configs:
            for b in bufs:
                cases.append("C %s %d %d 0 r:%d:%d %s" % (rng.choice("RF"), q, lg, n, rng.randrange(1, 1000), b))
    around_s = ["S-3", "S-2", "S-1", "S", "S+1", "S+2", "S+3", "B-2", "B-1", "B", "B+1", "B+2"]
    cfgs = [(0, 10), (2, 10), (5, 16), (5, 22), (9, 18)]
    for n in ((1 << 16) - 1, 1 << 16, (1 << 16) + 1):
        # every capacity from n+3 to bound+2 (bound = n + 4*(n>>14) + 28)
        sweep(n, cfgs if thorough else cfgs[:3], [str(b) for b in range(n + 3, n + 4 * (n >> 14) + 28 + 3)])
    for n in ((1 << 20) - 1, 1 << 20, (1 << 20) + 1, (1 << 20) + 70001):
        if thorough:
            sweep(n, cfgs[:3], [str(b) for b in range(n + 3, n + 4 * (n >> 14) + 28 + 3)])
        else:
            sweep(n, [(0, 10), (5, 16)], around_s)
    if thorough:
        for n in ((1 << 24) - 1, 1 << 24, (1 << 24) + 1, (1 << 24) + (1 << 16) + 1, (1 << 24) + (1 << 20) + 1, 2 << 24,
                  (2 << 24) + (1 << 20) + 5, (3 << 24) - 1):
            sweep(n, [(0, 10), (5, 16)], around_s)
    # short inputs: every buffer size from 0 to beyond the bound
    for l in (0, 1, 2, 3, 17):
        for q in (0, 1, 2, 5, 9, 10, 11):
            for lg in (16, 22, 26):
                for kind in "rt":
                    for buf in range(0, l + 27 + 3):
                        cases.append("C %s %d %d 0 %s:%d:7 %d" % ("F" if (buf + q) % 2 else "R", q, lg, kind, l, buf))
    # --- streaming encoder, never flushed
    hints = [0, 5, (1 << 32) - 1, 1 << 35, U64]
    flags = [(0, 0), (0, 1), (1, 1)]
    def tline(q, lg, cat, app, mg, h, lgblock, inp, feed):
        return "T %d %d %d %d %d %d %d %d %s %s" % (q, lg, 1 if lg > 24 else 0, cat, app, mg, h, lgblock, inp, feed)
    for q in range(2, 12):
        for lg in lgwins:
            for (cat, app) in flags:
                for mg in (0, 1):
                    for h in (hints if mg else [0]):
                        for l in (0, 1, 2, 3, 100):
                            cases.append(tline(q, lg, cat, app, mg, h, 0, "%s:%d:%d" % (rng.choice("rrt"), l, rng.randrange(1, 99)), "a"))
    lens = [(1 << 14) - 1, 1 << 14, (1 << 14) + 1, (1 << 14) + 2, (1 << 14) + 3, 2 << 14, (2 << 14) + 2, (1 << 16) - 1, 1 << 16, (1 << 16) + 1,
            (1 << 16) + 2, 70000, (1 << 17) + 2, 3 << 16, 200000]
    biglens = [(1 << 20) - 1, (1 << 20) + 2, (1 << 20) + (1 << 14) + 3]
    for _ in range(30000 if thorough else 3000):
        q, lg = rng.randrange(2, 12), rng.choice(lgwins)
        cat, app = rng.choice(flags)
        mg = rng.randrange(2)
        l = rng.choice(lens) if rng.randrange(12) else rng.choice(biglens)
        if l > (1 << 20) and q >= 10 and rng.randrange(4):
            l = rng.choice(lens)
        feed = rng.choice(["a", "a", "c1000", "c16384", "c65536", "c%d" % rng.randrange(1, 100000)])
        lgblock = rng.choice([0, 0, 0, 16, 18, 20]) if q >= 4 else 0
        cases.append(tline(q, lg, cat, app, mg, rng.choice(hints), lgblock, "%s:%d:%d" % (rng.choice("rrrtz"), l, rng.randrange(1, 99)), feed))
    if thorough:
        for q in (2, 5, 9):
            for (cat, app) in flags:
                cases.append(tline(q, 24, cat, app, 1, U64, 0, "r:%d:3" % ((1 << 24) + 5), "a"))
    rng.shuffle(cases)
    return cases


def fields(ans):
    return dict(t.split("=", 1) for t in ans.split() if "=" in t)


def input_len(spec):
    return int(spec.split(":")[1])


def model_request(c, a):
    """request for the model, given the implementation's answer (None: nothing to ask)"""
    t = c.split()
    if t[0] in ("M", "MM"):
        return c
    if t[0] == "U":
        return c
    if t[0] == "C":
        f = fields(a)
        inner = f.get("inner", "na")
        if "buf" not in f:
            return None
        if inner == "na":
            if input_len(t[5]) == 0 or f["buf"] == "0":
                return "C %d %s 0 0 0" % (input_len(t[5]), f["buf"])
            return None
        if inner.startswith("PANIC"):
            return None
        r, fi, tot = inner.split(",")
        return "C %d %s %s %s %s" % (input_len(t[5]), f["buf"], r, fi, tot)
    if t[0] == "T":
        if not a.startswith("total="):
            return None
        head, _, recs = a.partition("|")
        n = input_len(t[9])
        cat = t[4] == "1"
        cb = min(2, n) if cat else 0
        pos_bytes = 0
        blocks = []
        fe = 0
        first = True
        rl = recs.split()
        for k, r in enumerate(rl):
            b, o, c_, last = (int(x) for x in r.split(":"))
            pos_bytes += o
            pend = 8 * pos_bytes + c_
            real = b
            if first and b > 0:
                real = b - cb
                first = False
            elif first and cb == 0:
                first = False
            if real > 0:
                blocks.append("%d:%d" % (real, pend))
            elif last and k == len(rl) - 1:
                fe = 1
        return "T %s %s %s %s %s %s %s %d %d %s" % (t[1], t[2], t[3], t[4], t[5], t[6], t[7], n, fe, " ".join(blocks))
    return None


def canon_impl_value(x):
    return "PANIC" if x.startswith("PANIC") else x


def judge(c, a, m):
    """returns (spec_failure or None, correspondence_failure or None)"""
    t = c.split()
    if a.startswith("TOOL") or a == "BADREQ":
        return ("harness failure: " + a[:200], None)
    if t[0] in ("M", "MM"):
        f = fields(a)
        r = canon_impl_value(f.get("R", "?"))
        corr = None
        if m != "R=" + r:
            corr = "value differs from the model"
        elif f.get("F") not in ("skipped", r):
            corr = "C ABI value differs from the Rust function"
        return (None, corr)
    if t[0] == "U":
        if a.startswith("PANIC"):
            return ("MakeUncompressedStream panics: " + a[:200], None)
        if " dec=ok" not in a:
            return ("brotli-decompressor does not decode the stored stream to the input", None)
        return (None, None if a.replace(" dec=ok", "") == m else "stored stream differs from the model")
    if t[0] == "C":
        if a.startswith("PANIC") or a.startswith("DEC"):
            return ("one-shot call panics: " + a[:200], None)
        f = fields(a)
        if "ret" not in f:
            return ("unexpected answer of the harness: " + a[:200], None)
        ret, size, buf, bound = int(f["ret"]), int(f["size"]), int(f["buf"]), int(f["bound"])
        if f["guard"] != "ok":
            return ("bytes written beyond the output buffer", None)
        if ret and size > buf:
            return ("success reported with encoded_size %d > buffer %d" % (size, buf), None)
        if ret and f["dec"] != "ok":
            return ("success reported but the output does not decode to the input", None)
        if buf >= bound and bound != 0:
            if not ret:
                return ("buffer >= advertised maximum but the call failed" + (" (inner stream: %s)" % f["inner"][:120] if f["inner"].startswith("PANIC") else ""), None)
            if size > bound:
                return ("encoded_size %d exceeds the advertised maximum %d" % (size, bound), None)
        corr = None
        if m is not None:
            mf = fields(m)
            if m == "PANIC" or int(mf["ret"]) != ret or (ret and int(mf["size"]) != size):
                corr = "return value / encoded_size differ from the model of encoder_compress"
            elif ret and mf["src"] in ("stored", "empty") and f["fb"] != "1":
                corr = "model predicts the stored stream, implementation wrote something else"
        return (None, corr)
    if t[0] == "T":
        if not a.startswith("total="):
            return ("stream call failed: " + a[:200], None)
        f = fields(a.split("|")[0])
        total, bound = int(f["total"]), int(f["bound"])
        if f["dec"] != "ok":
            return ("stream does not decode to the input", None)
        if bound != 0 and total > bound:
            return ("never-flushed stream emitted %d bytes, advertised maximum %d" % (total, bound), None)
        corr = None
        mf = fields(m) if m else {}
        if not m or mf.get("bytes") != str(total):
            corr = "total size differs from the accounting model (%s)" % (m,)
        elif mf.get("cfg") != "1" or mf.get("sched") != "1":
            corr = "the recorded meta-block schedule violates the hypotheses of C08_stream (%s)" % (m,)
        elif "note" in mf:
            corr = "accounting: " + mf["note"]
        return (None, corr)
    return (None, None)


def case_dict(c):
    t = c.split()
    d = {"request": c, "kind": t[0]}
    if t[0] == "C":
        d.update(api=t[1], q=int(t[2]), lgwin=int(t[3]), mode=int(t[4]), n=input_len(t[5]))
    if t[0] == "T":
        d.update(q=int(t[1]), lgwin=int(t[2]), cat=int(t[4]), app=int(t[5]), magic=int(t[6]), hint=int(t[7]), n=input_len(t[9]))
    return d


def nontrivial(c):
    t = c.split()
    if t[0] == "M":
        return int(t[1]) >= (1 << 14)
    if t[0] == "MM":
        return int(t[2]) > 0
    if t[0] == "U":
        return input_len(t[1]) > 0
    if t[0] == "C":
        return input_len(t[5]) > 0
    return t[4] == "1" or t[5] == "1" or t[6] == "1" or input_len(t[9]) >= (1 << 14)


def build(run):
    ok_proof, broken = vlib.proof_stage(run, "props/C08.v", ["Header", "Bound"], extra_trusted=[
        "usize taken as 64 bits; dev-profile overflow checks (the checked additions of the bound are Panic outcomes of the model)",
        "C08_stream assumes of the encoder: meta-block schedule hypotheses (schedule_ok) and the expansion guard of "
        "WriteMetaBlockInternal; both are validated on every traced stream of this run through the cfg(brotli_verif) trace hook",
        "decoding oracle: brotli-decompressor 4.0.3; spec/Header.v readers hand-written from RFC 7932 section 9"])
    okx, logx = vlib.coq_extract("C08")
    okm, logm, model = vlib.ocaml_build("C08", "c08_driver.ml")
    if not (okx and okm):
        run.note("model rebuild failed (%s); using last built executable model if present" % (logx[-300:] if not okx else logm[-300:]))
        if ok_proof:
            broken.append("extraction/driver build failed")
            ok_proof = False
    return ok_proof, broken, model, (logx + logm)


def check(run):
    thorough = run.tier == "thorough"
    ok_proof, broken, model, mlog = build(run)
    if not os.path.exists(model):
        run.report("proof-obligation", {"stage": "model build"}, {"log": mlog[-2000:]},
                   broken="executable model could not be built", found_input=False)
        return
    okh, logh, impl_exe = vlib.harness_build("c08", "dev")
    if not okh:
        run.report("proof-obligation", {"stage": "harness build"}, {"log": logh[-3000:]},
                   broken="harness does not build against /repo (hook or API changed?)", found_input=False)
        return
    cases = gen_cases(run, thorough)
    run.cov["rule"] = (
        "bound values at 0..40, 2^k +-1, multiples of 2^14 +-1, the points where the checked additions overflow, PRNG u64; Multi with "
        "thread counts up to overflow; MakeUncompressedStream (hook) at lengths around 2^16, 2^20, 2^24 (2*2^24.. in thorough); one-shot "
        "BrotliEncoderCompress (Rust and C ABI) for quality 0-11 x lgwin {10,16,18,22,24,26,30} x mode {generic,text,font} x "
        "{PRNG, text, run} inputs x lengths {0,1,2,3,17,1000, 2^14, 2*2^14, 2^16 each +-1, 2^20 +-1 (2^24 +-1 thorough)} with buffer = "
        "advertised maximum, for lengths 0,1,2,3,17 every buffer size 0..bound+2, and for PRNG inputs of 2^16 +-1 every capacity n+3..bound+2, "
        "of 2^20 +-1 (and 2^24 +-1, k*2^24 + 2^16/2^20 + 1 in thorough) the capacities stored-size-3..+3 and bound-2..+2 (all of n+3..bound+2 in thorough); streaming encoder quality 2-11 never flushed x the same "
        "windows x catable/appendable/magic x size hints {0,5,2^32-1,2^35,2^64-1} exhaustively on lengths 0,1,2,3,100 and sampled on lengths "
        "around multiples of 2^14 / 2^16 / 2^20 with several feeding patterns, each traced per meta-block; distinct_nontrivial = distinct "
        "requests with a non-empty input (one-shot, stored stream), n >= 2^14 (bound), or a stream with an optional header or n >= 2^14")
    impl = vlib.run_lines(impl_exe, cases, timeout=3000)
    mreq = [model_request(c, a) for c, a in zip(cases, impl)]
    midx = [k for k, r in enumerate(mreq) if r is not None]
    mans = dict(zip(midx, vlib.run_lines(model, [mreq[k] for k in midx])))
    uidx = [k for k, c in enumerate(cases) if c.startswith("U ") and impl[k].startswith("len=")]
    uspec = dict(zip(uidx, vlib.run_lines(model, ["S " + cases[k] + " " + impl[k].replace(" dec=ok", "").replace(" dec=fail", "") for k in uidx])))
    nviol = ncorr = 0
    hist = {"kinds": {}, "oneshot_fallback_taken": 0, "oneshot_failed_small_buffer": 0, "stream_blocks_stored": 0,
            "stream_blocks_compressed": 0, "stream_final_empty": 0, "tightest_stream_margin": None, "tightest_oneshot_margin": None,
            "model_predictions_oneshot": 0}
    tight = None
    for k, (c, a) in enumerate(zip(cases, impl)):
        kind = c.split()[0]
        hist["kinds"][kind] = hist["kinds"].get(kind, 0) + 1
        m = mans.get(k)
        spec_fail, corr = judge(c, a, m)
        if kind == "U" and spec_fail is None and uspec.get(k, "OK") != "OK":
            spec_fail = uspec[k]
        if spec_fail is None and kind == "C":
            f = fields(a)
            if m is not None:
                hist["model_predictions_oneshot"] += 1
            if f["ret"] == "1" and f["fb"] == "1" and input_len(c.split()[5]) > 0:
                hist["oneshot_fallback_taken"] += 1
            if f["ret"] == "0":
                hist["oneshot_failed_small_buffer"] += 1
            if f["ret"] == "1" and int(f["buf"]) >= int(f["bound"]):
                mg = int(f["bound"]) - int(f["size"])
                if hist["tightest_oneshot_margin"] is None or mg < hist["tightest_oneshot_margin"]:
                    hist["tightest_oneshot_margin"] = mg
        if spec_fail is None and kind == "T" and m:
            f = fields(a.split("|")[0])
            mf = fields(m)
            hist["stream_blocks_stored"] += mf.get("blocks", "").count("S")
            hist["stream_blocks_compressed"] += mf.get("blocks", "").count("C")
            if mreq[k].split()[9] == "1":
                hist["stream_final_empty"] += 1
            mg = int(f["bound"]) - int(f["total"])
            if tight is None or mg < tight[0]:
                tight = (mg, c)
        if spec_fail is not None:
            nviol += 1
            if len(run.violations) < 6:      # known findings are filtered inside report(); keep looking for new ones
                run.report("spec-violation", case_dict(c), {"impl": a, "model": m, "spec": spec_fail}, what=spec_fail)
        elif corr is not None:
            ncorr += 1
            if ncorr <= 5:
                run.report("correspondence", case_dict(c), {"impl": a, "model": m, "spec": "OK"},
                           broken="correspondence model/Bound.v vs encode.rs: %s on `%s`" % (corr, c), found_input=False)
    if tight:
        hist["tightest_stream_margin"] = {"bytes_below_bound": tight[0], "request": tight[1]}
    run.note("%d cases, %d spec failures (%d reported as new violations, the rest match known findings), %d model disagreements" % (
        len(cases), nviol, sum(1 for v in run.violations if v[2]), ncorr))
    run.cov["evaluations"] = len(cases)
    run.cov["distinct_nontrivial"] = len(set(c for c in cases if nontrivial(c)))
    run.cov["traces_validated_against_impl"] = len(midx)
    run.cov["histograms"] = hist
    pick = [k for k in range(len(cases)) if cases[k].startswith("T ")][:2] + [k for k in range(len(cases)) if cases[k].startswith("C ")][:2] + \
           [k for k in range(len(cases)) if cases[k].startswith("U ")][:1] + [k for k in range(len(cases)) if cases[k].startswith("M ")][:1]
    run.cov["samples"] = [{"request": cases[k], "impl": impl[k][:160], "model_request": mreq[k][:160] if mreq[k] else None,
                           "model": mans.get(k)} for k in pick]
    worker_streams(run, thorough)
    catable_shape(run, thorough)
    if not ok_proof and not run.violations:
        run.report("proof-obligation", {"stage": "proof"}, {"broken": broken}, broken="; ".join(b[:400] for b in broken), found_input=False)


def worker_streams(run, thorough):
    """the hypotheses of C08_multi / C08_part on the streams the real CompressMulti workers write (trace hook
    verif_multi): every later part catable without magic header, every finished magic-free part within
    n + 4 floor(n / 2^14) + 11 bytes, and the call itself fits a buffer of exactly the Multi bound"""
    okh, logh, exe = vlib.harness_build("multi", "dev")
    if not okh:
        run.report("proof-obligation", {"stage": "harness build (multi)"}, {"log": logh[-2000:]},
                   broken="harness multi does not build against /repo (hook verif_multi or public API changed?)", found_input=False)
        return
    rng = run.rng
    cases = []
    sizes = [0, 1, 5, 100, 16383, 16384, 40000, 70001, 131072 + 3] + ([300000, 1 << 20] if thorough else [])
    for q in (2, 3, 4, 5, 7, 9) + ((10, 11) if thorough else ()):
        for t in (1, 2, 3, 5, 8, 16):
            for kind in ("rand", "text", "mix"):
                for f in (0, 16, 4, 1, 5, 20):
                    if rng.random() > (0.5 if thorough else 0.13):
                        continue
                    n = rng.choice(sizes) if rng.random() < 0.5 else rng.choice(sizes) * t + rng.randrange(0, 4)
                    n = min(n, 400000 if not thorough else 1 << 21)
                    if q >= 10:
                        n = min(n, 120000)      # the slow qualities: keep every call well inside the watchdog's budget
                    w = rng.choice([10, 16, 18, 22, 24] + ([26, 30] if f & 16 else []))
                    cases.append(mc.Case("thr", q, w, f, t, kind, n, rng.randrange(1, 1 << 30)))
    for q in (10, 11):
        for t in (2, 4):
            cases.append(mc.Case("thr", q, 18, 0, t, "rand", 20000 * t + 1, rng.randrange(1, 1 << 30)))
    answers = mc.run_impl(exe, cases, budget=mc.HangBudget())
    stats = {"calls": 0, "jobs_checked_against_C08_part": 0, "jobs_with_magic_header_skipped": 0, "later_parts_shape_checked": 0,
             "tightest_part_margin": None, "tightest_call_margin": None, "calls_not_run": 0,
             "calls_checked_against_C08_concat_saving": 0, "tightest_seam_margin_bits": None}
    nrep = 0
    for c, a in zip(cases, answers):
        if a.notrun or a.kind in ("TOOL", "NORETURN", "?"):
            stats["calls_not_run"] += 1
            continue
        stats["calls"] += 1
        cd = c.case()
        if a.kind != "OK" or a.dec != "ok" or (a.bound is not None and a.n is not None and a.n > a.bound):
            if nrep < 4:
                nrep += 1
                run.report("spec-violation", cd, {"impl": a.head[:400], "spec": "CompressMulti into a buffer of the advertised Multi maximum succeeds within it and decodes to the input"},
                           what="multi-threaded compression into a buffer of BrotliEncoderMaxCompressedSizeMulti: %s dec=%s" % (a.result_str(), a.dec))
            continue
        mg = a.bound - a.n
        if stats["tightest_call_margin"] is None or mg < stats["tightest_call_margin"]:
            stats["tightest_call_margin"] = mg
        tr = mc.parse_events(a.ev)
        # the conclusion of C08_concat_saving on the real concatenator's output: with T later parts of at least 6 bytes
        # and a window field of wl bits, 8 * stitched + 8 * ceil((wl + 20) / 8) * T <= 8 * (sum of the parts) + 25 * T + 7
        fin = {i: tr["C"][i][-1]["oo"] for i in tr["J"] if tr["C"].get(i) and tr["C"][i][-1]["fin"]}
        if len(fin) == len(tr["J"]) == c.t and all(v >= 6 for v in fin.values()) and all(i in tr["D"] for i in fin):
            lg = tr["D"][0]["w"]
            wl = 14 if (c.f & 16) else 1 if lg == 16 else 7 if (lg == 17 or lg < 16) else 4
            T = c.t - 1
            lhs, rhs = 8 * a.n + 8 * ((wl + 27) // 8) * T, 8 * sum(fin.values()) + 25 * T + 7
            stats["calls_checked_against_C08_concat_saving"] += 1
            if stats["tightest_seam_margin_bits"] is None or rhs - lhs < stats["tightest_seam_margin_bits"]:
                stats["tightest_seam_margin_bits"] = rhs - lhs
            if lhs > rhs and nrep < 4:
                nrep += 1
                run.report("correspondence", cd, {"impl": a.head[:300], "parts": fin, "stitched": a.n, "window_field_bits": wl},
                           broken="the conclusion of C08_concat_saving fails on the real concatenator: %d parts of %s bytes were stitched into %d bytes "
                                  "(concat_spec does not describe CompressMulti's stitching, or the parts are not of the assumed shape)" % (c.t, sorted(fin.items()), a.n),
                           found_input=False)
        for i, j in sorted(tr["J"].items()):
            d = tr["D"].get(i)
            calls = tr["C"].get(i, [])
            if d is None or not calls or not calls[-1]["fin"]:
                continue
            bad = None
            if i > 0:
                stats["later_parts_shape_checked"] += 1
                if not (d["f"] & 1) or (d["f"] & 4):
                    bad = "part %d is not (catable, no magic header): flags %d - hypothesis catable_part / s_magic = false of C08_multi" % (i, d["f"])
            if d["f"] & 4:
                stats["jobs_with_magic_header_skipped"] += 1
            elif bad is None:
                n = j["e"] - j["s"]
                allow = n + 4 * (n >> 14) + 11
                stats["jobs_checked_against_C08_part"] += 1
                m = allow - calls[-1]["oo"]
                if stats["tightest_part_margin"] is None or m < stats["tightest_part_margin"]:
                    stats["tightest_part_margin"] = m
                if m < 0:
                    bad = "part %d (%d input bytes) took %d bytes, more than n + 4 floor(n/2^14) + 11 = %d: the conclusion of C08_part fails on a real worker stream (schedule_ok or the expansion guard does not describe it)" % (i, n, calls[-1]["oo"], allow)
            if bad and nrep < 4:
                nrep += 1
                cd2 = dict(cd)
                cd2["part"] = i
                run.report("correspondence", cd2, {"impl": a.head[:300], "trace": ",".join(a.ev)[:1500]},
                           broken="C08_multi / C08_part hypotheses vs threading.rs compress_part: " + bad, found_input=False)
    if stats["calls_not_run"]:
        # a harness process that died or hung is never an agreement
        run.report("proof-obligation", {"stage": "worker streams", "requests_not_run": stats["calls_not_run"]},
                   {"first": next((a.head[:300] for a in answers if a.notrun or a.kind in ("TOOL", "NORETURN", "?")), "")},
                   broken="%d CompressMulti requests of the worker-stream group did not come back from the harness (process died, hung or "
                          "unreadable answer); the hypotheses of C08_multi are not validated on them" % stats["calls_not_run"], found_input=False)
    run.cov["worker_streams"] = stats
    run.note("worker streams: %s" % json.dumps(stats))


def catable_shape(run, thorough):
    """the shape hypothesis of C08_multi (catable_part) on real bytes: catable streams of the real encoder (harness c15,
    the configuration compress_part gives to later parts) and Concat_length.catable_partb evaluated inside Coq on their
    first bytes"""
    okh, logh, exe = vlib.harness_build("c15", "dev")
    if not okh:
        run.report("proof-obligation", {"stage": "harness build (c15)"}, {"log": logh[-2000:]},
                   broken="harness c15 does not build against /repo", found_input=False)
        return
    rng = run.rng
    reqs, wls = [], []
    for q in (2, 3, 5, 9) + ((10, 11) if thorough else ()):
        for lw in (0, 1):
            for lgwin in (10, 13, 15, 16, 17, 18, 20, 22, 24) + ((26, 30) if lw else ()):
                for inp in ("1:%d" % rng.randrange(1, 1 << 20),) + (("2:%d" % rng.randrange(1, 1 << 20),) if (thorough or rng.random() < 0.25) else ()):
                    reqs.append("E D %d %d %d 1 1 1 0 0 %s" % (q, lgwin, lw, inp))
                    wls.append(14 if lw else 1 if lgwin == 16 else 7 if lgwin == 17 or lgwin < 16 else 4)
    ans = vlib.run_lines(exe, reqs, timeout=1500)
    items, idx, notrun = [], [], 0
    for k, a in enumerate(ans):
        t = a.split()
        if len(t) < 3 or t[0] != "OK":
            notrun += 1
            continue
        bs = bytes.fromhex(t[1])
        items.append("(%d, [%s])" % (wls[k], "; ".join(str(b) for b in bs)))
        idx.append(k)
    d = os.path.join(vlib.BUILD, "c08_shape")
    os.makedirs(d, exist_ok=True)
    open(os.path.join(d, "cases.v"), "w").write(
        "From Coq Require Import NArith List. Import ListNotations.\nFrom V Require Import proofs.Concat_length.\nOpen Scope N_scope.\n"
        "Eval vm_compute in map (fun x => Concat_length.catable_partb (fst x) (snd x)) [%s].\n" % ";\n ".join(items))
    rc, out = vlib.sh("timeout 600 coqc -noglob -Q %s V cases.v 2>&1" % vlib.COQ, cwd=d, timeout=700)
    flat = " ".join(out.split())
    verdicts = []
    if "= [" in flat:
        verdicts = [x.strip() for x in flat.split("= [", 1)[1].split("]", 1)[0].split(";")]
    stats = {"streams": len(reqs), "evaluated_in_coq": len(verdicts), "catable_part_true": verdicts.count("true"), "harness_answers_missing": notrun}
    run.cov["catable_shape"] = stats
    run.note("catable shape: %s" % json.dumps(stats))
    if notrun or len(verdicts) != len(items):
        run.report("proof-obligation", {"stage": "catable shape"}, {"coqc": out[-1500:], "missing": notrun},
                   broken="the shape hypothesis of C08_multi could not be evaluated on %d of %d real catable streams (harness answers missing: %d; coqc: %s)"
                          % (len(reqs) - len(verdicts), len(reqs), notrun, out[-200:]), found_input=False)
        return
    nrep = 0
    for k, v in zip(idx, verdicts):
        if v != "true" and nrep < 3:
            nrep += 1
            run.report("correspondence", {"request": reqs[k], "expected_window_field_bits": wls[k]}, {"impl": ans[k][:200], "coq": "catable_partb = " + v},
                       broken="hypothesis catable_part of C08_multi / C08_concat_saving fails on a real catable stream: `%s` does not begin with a %d-bit window field "
                              "followed by the 20-bit header of a stored block" % (reqs[k], wls[k]), found_input=False)


def replay(path):
    d = json.load(open(path))
    req = d["case"].get("request")
    if not req:
        print("replay file has no request (kind=%s): %s" % (d.get("kind"), d.get("broken")))
        return 1
    vlib.coq_regen(["Header", "Bound"])
    _, _, impl_exe = vlib.harness_build("c08", "dev")
    vlib.coq_extract("C08")
    _, _, model = vlib.ocaml_build("C08", "c08_driver.ml")
    a = vlib.run_lines(impl_exe, [req])[0]
    mr = model_request(req, a)
    m = vlib.run_lines(model, [mr])[0] if mr else None
    spec_fail, corr = judge(req, a, m)
    if spec_fail is None and req.startswith("U ") and a.startswith("len="):
        s = vlib.run_lines(model, ["S " + req + " " + a.replace(" dec=ok", "").replace(" dec=fail", "")])[0]
        if s != "OK":
            spec_fail = s
    print("request: %s\nimpl:  %s\nmodel: %s  (request to the model: %s)%s\nspec:  %s" % (
        req, a[:400], m, mr, "" if corr is None else "  DISAGREES: " + corr, spec_fail or "OK"))
    return 0 if (spec_fail is None and corr is None) else 1
