"""C09 - every block obtained from a plugged-in allocator is returned to it exactly once.

Implementation (harness/src/bin/c09.rs: tracking allocator / counting C callbacks), extracted model
(coq/model/Alloc.v via ocaml/c09_driver.ml) and executable spec (coq/spec/Ledger.v `replay`,
`returnedb`) are run on the same generated scenarios:

* spec search: the allocator log of every scenario is replayed on the ledger spec; a block that is
  live at the end, was freed through another instance, freed twice, or dropped without free_cell
  is a violation with the scenario as the failing input;
* correspondence: for scenarios where the encoder state is reachable (raw instances, C ABI) the
  model is run on the history abstracted from the field snapshots and must agree with the
  implementation at every API boundary on the multiset of live blocks, the fault counts, the block
  lengths held by each field and the sanitised parameters (hasher shapes are predicted by the
  model); every live block must be held by a modelled field (this is how `temporaries_balanced`
  is tested).  For the wrappers the model must agree on the live multiset per call (writer,
  reader) or on the outcome of the path taken (copy adapter, one-shot, multi-threaded, C ABI multi).
"""
import json, os, shutil
import vlib

PROP = "C09"
LEVEL = "proof"
TWO17 = 1 << 17
ESIZE = {"U8": 1, "U16": 2, "I32": 4, "U32": 4, "U64": 8, "Cmd": 16, "F32": 4, "State": 1, "B": 1}
PARAM_CHAR = {"q": "q", "w": "w", "lgb": "b", "hint": "h", "q95": "5", "lw": "l", "cat": "c"}
PID_CHAR = {1: "q", 2: "w", 3: "b", 5: "h", 150: "5", 167: "c"}


GEN = {}


def load_gen():
    """booleans of coq/gen/GenAlloc.v that the abstraction needs (which calls take the fast path)"""
    import re
    try:
        txt = open(os.path.join(vlib.COQ, "gen", "GenAlloc.v")).read()
    except OSError:
        return
    for m in re.finditer(r"Definition (\w+) : bool := (true|false)\.", txt):
        GEN[m.group(1)] = (m.group(2) == "true")


# ----------------------------------------------------------------------------- parsing

def parse_req(line):
    t = line.split()
    d = {"cmd": t[0]}
    for x in t[1:]:
        k, v = x.split("=", 1)
        d[k] = v
    return d


def num(d, k, dflt=0):
    try:
        return int(d.get(k, dflt))
    except ValueError:
        return dflt


def parse_events(s):
    out = []
    if s in ("-", ""):
        return out
    for e in s.split(","):
        f = e[1:].split(".")
        if e[0] == "A":
            out.append(("A", int(f[0]), int(f[1]), f[2], int(f[3])))
        elif e[0] == "F":
            out.append(("F", int(f[0]), int(f[1])))
        else:
            out.append(("D", int(f[0])))
    return out


def parse_pair(s):
    a, b = s.split(":")
    return (a, int(b))


def parse_snap(s):
    if s == "-":
        return None
    d = dict(x.split("=", 1) for x in s.split("&"))
    sn = {}
    for k in ("st", "rb", "cm", "lt", "cb", "lb"):
        i, n = parse_pair(d[k])
        sn[k] = [(i, n)] if n else []
    h = d["h"].split("+")
    sn["hname"] = h[0]
    sn["h"] = [parse_pair(x) for x in h[1:]]
    for k in ("q", "w", "lgb", "hint", "q95", "cat", "ht", "init"):
        sn[k] = int(d[k])
    return sn


def parse_answer(ans):
    if not ans.startswith("OK "):
        return None
    out = []
    for b in ans[3:].split(";"):
        f = b.split("|")
        out.append({"name": f[0], "ret": f[1], "ev": parse_events(f[2]), "evs": f[2], "snap": parse_snap(f[3])})
    return out


def param_ops(cfg):
    """the set_parameter calls the harness makes, in its order (harness: param_list)"""
    ops = ["Pq:%d" % num(cfg, "q", 5), "Pw:%d" % num(cfg, "w", 18)]
    for k in ("lgb", "hint", "q95", "lw", "log", "magic", "favor", "cat", "app", "mode"):
        v = num(cfg, k, 0)
        if v:
            ops.append("P%s:%d" % (PARAM_CHAR.get(k, "o"), v))
    return ops


# ----------------------------------------------------------------------------- abstraction of a log

def ev_matches(e, ty, ln):
    """does alloc event e look like `ty` x `ln` (C-ABI logs only know bytes)"""
    if e[3] == "B":
        return e[4] == ln * ESIZE[ty]
    return e[3] == ty and e[4] == ln


class Traces:
    def __init__(self):
        self.tab = []

    def add(self, steps):
        self.tab.append(".".join(steps) if steps else "e")
        return len(self.tab) - 1

    def arg(self):
        return "/".join(self.tab) if self.tab else "-"


def temp_phases(evs, skip, traces, callee):
    """scoped temporaries of one call: every block allocated and released (or dropped) inside it,
    except the ids in `skip`; returns the phases `t<c>_<k>` and the ids that stay open"""
    alloc = {e[1]: e for e in evs if e[0] == "A"}
    gone = {e[1] for e in evs if e[0] == "F"}
    temps = {i for i in alloc if i in gone and i not in skip}
    dropped = {e[1] for e in evs if e[0] == "D" and e[1] in alloc and e[1] not in skip}
    phases, steps, openl = [], [], []
    for e in evs:
        if e[0] == "A" and (e[1] in temps or e[1] in dropped):
            steps.append("a%s_%d" % (e[3], e[4]))
            openl.insert(0, e[1])
        elif e[0] == "F" and e[1] in temps:
            k = openl.index(e[1])
            steps.append("f%d" % k)
            openl.pop(k)
            if not openl:
                phases.append("t%d_%d" % (callee, traces.add(steps)))
                steps = []
    if steps:
        phases.append("t%d_%d" % (callee, traces.add(steps)))
    return phases, set(openl)


def snap_ids(sn):
    ids = set()
    for k in ("st", "rb", "cm", "lt", "cb", "lb", "h"):
        for i, _ in sn[k]:
            if i not in ("?", "0"):
                ids.add(int(i))
    return ids


def abstract_state_run(cfg, bnds, ffi=False):
    """raw encoder instance / C ABI instance: history from the field snapshots.
    returns (ops, traces, cmp) with cmp = list of (boundary index, op index or 'final')"""
    ops = param_ops(cfg)
    traces = Traces()
    cmpl = [(0, len(ops) - 1)]
    prev = bnds[0]["snap"]
    notes = []
    orphans = 0
    for k in range(1, len(bnds)):
        b = bnds[k]
        nm = b["name"].split(":")
        cur = b["snap"]
        evs = b["ev"]
        if nm[0] in ("drop", "end"):
            cmpl.append((k, "final"))
            continue
        if nm[0] == "X" and cur is None:      # C ABI destroy: the state is gone afterwards
            cmpl.append((k, "final"))
            continue
        if nm[0] == "P":
            ops.append("P%s:%s" % (PID_CHAR.get(int(nm[1]), "o"), nm[2]))
        elif nm[0] == "T":
            ops.append("O")
        elif nm[0] == "X":
            ops.append("X")
        elif nm[0] == "H":
            # a precomputed hasher built through the state's own allocator (the first nm[2] events)
            nb = int(nm[2])
            built = [e for e in evs[:nb] if e[0] == "A"]
            shapes = "+".join("%s_%d" % (e[3], e[4]) for e in built) or "-"
            rings = [e[4] - 9 for e in evs[nb:] if e[0] == "A" and e[3] == "U8"]
            ops.append("D%s:0:%s:%s" % (nm[1], shapes, "+".join(str(r) for r in rings) if rings else "-"))
        elif nm[0] == "D":
            if evs:
                rings = [e[4] // ESIZE["U8"] - 9 for e in evs if e[0] == "A" and (e[3] == "U8" or (e[3] == "B" and False))]
                if ffi:
                    # bytes only: ring blocks are the allocations that end up in (or pass through) rb
                    rings = [cur["rb"][0][1] - 9] if cur["rb"] and cur["rb"] != prev["rb"] else []
            else:
                rings = [cur["rb"][0][1] - 9] if cur["rb"] and cur["rb"] != prev["rb"] else []
            ops.append("D%s:0:-:%s" % (nm[1], "+".join(str(r) for r in rings) if rings else "-"))
        elif nm[0] == "S":
            q, cat, w = cur["q"], cur["cat"], cur["w"]
            offered = int(nm[2])
            fast = q <= 1 and nm[1] != "M" and b["ret"] == "1" and not (cat and GEN.get("fast_path_excludes_catable", True)) \
                and not (num(cfg, "magic", 0) and GEN.get("fast_path_excludes_magic", False))
            ph = []
            if prev["hint"] == 0 and cur["hint"] != 0:
                ph.append("U%d" % cur["hint"])
            skip = set()
            if fast:
                bufsize = min(TWO17, offered, 1 << w)
                fph = []
                if cur["st"] != prev["st"] and cur["st"]:
                    fph.append("G%d" % cur["st"][0][1])
                if cur["lt"] != prev["lt"] and cur["lt"]:
                    fph.append("T%d" % cur["lt"][0][1])
                if q == 1:
                    al = [e for e in evs if e[0] == "A"]
                    for j in range(len(al) - 1):
                        if (ev_matches(al[j], "U32", bufsize) and ev_matches(al[j + 1], "U8", bufsize)) or \
                           (ev_matches(al[j], "U32", TWO17) and ev_matches(al[j + 1], "U8", TWO17)):
                            skip = {al[j][1], al[j + 1][1]}
                            break
                tph, _ = temp_phases(evs, skip | snap_ids(cur), traces, 0 if q == 0 else 1)
                # a size hint update cannot be expressed inside the fast path; it is a separate step
                if ph:
                    ops.append("S" + "+".join(ph))
                    cmpl.append((None, None))
                ops.append("F%d:%s" % (bufsize, "+".join(fph + tph)))
            else:
                if cur["rb"] != prev["rb"] and cur["rb"]:
                    ph.append("R%d" % (cur["rb"][0][1] - 9))
                if cur["st"] != prev["st"] and cur["st"]:
                    ph.append("G%d" % cur["st"][0][1])
                if cur["cb"] != prev["cb"] and cur["cb"]:
                    ph.append("Q")
                if cur["lt"] != prev["lt"] and cur["lt"]:
                    ph.append("T%d" % cur["lt"][0][1])
                if cur["cm"] != prev["cm"] and cur["cm"]:
                    ph.append("C%d_0" % cur["cm"][0][1])
                if prev["hname"] == "Uninit" and cur["hname"] != "Uninit":
                    ph.append("H")
                tph, _ = temp_phases(evs, snap_ids(cur), traces, 3 if q >= 2 else 1)
                ops.append("S" + "+".join(ph + tph))
        # every block that survives the call must sit in a modelled field
        if cur is not None and evs:
            gone = {e[1] for e in evs if e[0] in ("F", "D")}
            surv = {e[1] for e in evs if e[0] == "A" and e[1] not in gone}
            orph = surv - snap_ids(cur)
            if orph:
                orphans += len(orph)
                notes.append("boundary %d (%s): %d live block(s) not held by any modelled field" % (k, b["name"], len(orph)))
        cmpl.append((k, len(ops) - 1))
        if cur is not None:
            prev = cur
    return ops, traces, [c for c in cmpl if c[0] is not None], notes, orphans


def abstract_wrapper(cfg, bnds):
    """writer / reader: no access to the state; long-lived blocks are those that survive a call,
    assigned to fields by element type (and, among the u8 fields, by which block was released)."""
    q = max(0, min(11, num(cfg, "q", 5)))
    ops, traces, cmpl = [], Traces(), [(0, -1)]
    where = {}     # id -> field
    held = {}      # field -> id
    notes = []
    orphans = 0
    hint_at = None
    for k in range(1, len(bnds)):
        b = bnds[k]
        evs = b["ev"]
        if b["name"] == "drop":
            continue
        final = b["name"].split(":")[0] in ("Z", "I")
        gone = {e[1] for e in evs if e[0] in ("F", "D")}
        freed_fields = {where[i] for i in gone if i in where}
        surv = [e for e in evs if e[0] == "A" and e[1] not in gone]
        ph, u8s, assigned = [], [], {}
        for e in surv:
            ty, ln = e[3], e[4]
            if ty == "Cmd":
                assigned[e[1]] = "cm"
            elif ty == "I32":
                assigned[e[1]] = "lt"
            elif ty == "U16":
                assigned[e[1]] = "h"
            elif ty == "U32":
                assigned[e[1]] = "cb" if (q == 1 and ln == TWO17) else "h"
            elif ty == "U8":
                if q == 1 and ln == TWO17:
                    assigned[e[1]] = "lb"
                else:
                    u8s.append(e)
            else:
                orphans += 1
                notes.append("boundary %d (%s): surviving block of element type %s" % (k, b["name"], ty))
        need = []
        if q >= 2 and ("rb" in freed_fields or "rb" not in held):
            need.append("rb")
        if "st" in freed_fields or "st" not in held:
            need.append("st")
        for e in u8s:
            if need:
                assigned[e[1]] = need.pop(0)
            else:
                orphans += 1
                notes.append("boundary %d (%s): surviving u8 block of %d bytes fits no field" % (k, b["name"], e[4]))
        for i in gone:
            if i in where:
                f = where.pop(i)
                if held.get(f) == i:
                    del held[f]
        order = {"rb": 0, "st": 1, "cb": 2, "lt": 3, "cm": 4, "h": 5}
        seen_h = False
        for e in sorted((e for e in surv if e[1] in assigned and assigned[e[1]] != "lb"), key=lambda e: order[assigned[e[1]]]):
            f, ln = assigned[e[1]], e[4]
            if f == "rb":
                ph.append("R%d" % (ln - 9))
            elif f == "st":
                ph.append("G%d" % ln)
            elif f == "cb":
                ph.append("Q")
            elif f == "lt":
                ph.append("T%d" % ln)
            elif f == "cm":
                ph.append("C%d_0" % ln)
            elif f == "h" and not seen_h:
                seen_h = True
                if hint_at is None:
                    hint_at = (len(ops), len(ph))
                ph.append("H")
        for i, f in assigned.items():
            where[i] = f
            held[f] = i
        tph, _ = temp_phases(evs, set(assigned), traces, 3 if q >= 2 else 1)
        ops.append(ph + tph)
        cmpl.append((k, "final" if final else len(ops) - 1))
    return ops, traces, cmpl, notes, orphans, hint_at


# ----------------------------------------------------------------------------- scenario generation

INPUT_KINDS = ["text", "text", "rand", "per", "zero"]


def gen_stream_script(rng, total, finish=True, allow_meta=True):
    ops = []
    ncalls = rng.choice([0, 1, 1, 2, 3, 4, 6])
    for _ in range(ncalls):
        o = rng.choice(["P", "P", "P", "F", "F", "M"] if allow_meta else ["P", "P", "P", "F"])
        nin = rng.choice([0, 1, 2, 100, 1000, 4096, 65536, 131072, 131073, 200000, total])
        nout = rng.choice([0, 1, 16, 100, 4096, 1 << 20, 1 << 20])
        if o == "M":
            nin = rng.choice([0, 1, 5, 16, 100])
            nout = rng.choice([0, 3, 16, 1 << 12])
        ops.append("S:%s:%d:%d" % (o, nin, nout))
        if rng.random() < 0.15:
            ops.append("T:%d" % rng.choice([0, 1, 100]))
        if rng.random() < 0.05:
            ops.append("P:%d:%d" % (rng.choice([1, 2, 3, 5]), rng.randrange(0, 30)))
    if finish:
        for _ in range(3):
            ops.append("S:E:%d:%d" % (total, 4 << 20))
    return ops


def gen_cfg(rng, qualities=None, big=False):
    q = rng.choice(qualities or [0, 0, 1, 1, 1, 2, 3, 4, 5, 5, 6, 7, 8, 9, 9, 10, 11, 11])
    w = rng.choice([10, 12, 16, 17, 18, 18, 20, 22, 22, 24])
    cfg = {"q": q, "w": w}
    if rng.random() < 0.15:
        cfg["lgb"] = rng.choice([16, 17, 18, 20, 24])
    if rng.random() < 0.2:
        cfg["hint"] = rng.choice([1000, 1 << 20, (1 << 20) + 1, (1 << 22) + 1, 1 << 25])
    if q in (10, 11) and rng.random() < 0.3:
        cfg["q95"] = 1
    if rng.random() < 0.15:
        cfg["cat"] = 1
    elif rng.random() < 0.1:
        cfg["app"] = 1
    if rng.random() < 0.1:
        cfg["magic"] = 1
    if rng.random() < 0.1 and q >= 2:
        cfg["mode"] = 1
    return cfg


def cfg_str(cfg):
    return " ".join("%s=%s" % (k, v) for k, v in cfg.items())


BIG = [False]


def gen_input(rng, maxlen):
    ln = rng.choice([0, 1, 35, 1000, 5000, 30000, 70000, 140000, 300000])
    if BIG[0] and maxlen >= 300000 and rng.random() < 0.08:
        ln = rng.choice([1 << 20, (1 << 21) + 12345, 5000000])
        maxlen = ln
    ln = min(ln, maxlen)
    return "%s:%d:%d" % (rng.choice(INPUT_KINDS), ln, rng.randrange(1, 1000)), ln


def gen_scenarios(run, thorough):
    rng = run.rng
    mult = 16 if thorough else 1
    BIG[0] = bool(thorough)
    sc = []
    # fixed scenarios first: the repaired defects, one per entry point, and the extremes
    sc += [
        "raw q=5 w=18 in=text:3000:1 dict=text:200:2 ops=D:100,D:100,S:E:5000:10000,X",
        "raw q=5 w=18 in=text:3000:1 ops=S:P:1000:100,S:E:5000:10000,X",
        "raw q=5 w=18 in=text:3000:1 ops=S:P:1000:100,S:E:5000:10000",
        "raw q=1 w=18 in=text:300000:1 ops=S:P:200000:100,S:P:50000:100000,S:E:500000:1000000,X",
        "raw q=1 w=18 cat=1 in=text:300000:1 ops=S:P:200000:100,S:F:50000:100000,S:E:500000:1000000,X",
        "raw q=0 w=22 in=rand:300000:3 ops=S:P:300000:0,T:0,S:F:0:100,S:E:0:1000000,X",
        "raw q=11 w=22 in=text:70000:1 ops=S:P:70000:0,S:E:0:1000000,X",
        "raw q=10 w=24 lw=1 in=text:5000:1 ops=S:E:5000:1000000,X",
        "raw q=9 w=18 log=1 in=text:30000:1 ops=S:E:30000:1000000,X",
        "raw q=5 w=18 in=text:3000:1 ops=X",
        "raw q=5 w=18 in=text:3000:1 ops=S:P:1000:100,X,X",
        "ffi custom=1 q=5 w=18 in=text:35:1 ops=S:E:35:1000,X",
        "ffi custom=0 q=5 w=18 in=text:35:1 ops=S:E:35:1000,X",
        "ffi custom=1 q=11 w=22 in=text:35:1 ops=S:E:35:1000,X",
        "ffi custom=1 q=5 w=18 in=text:3000:1 dict=text:500:3 ops=D:500,S:P:1000:0,X",
        "ffimulti custom=1 n=1 q=5 w=18 in=text:3000:1",
        "ffimulti custom=0 n=1 q=5 w=18 in=text:3000:1",
        "ffimulti custom=1 n=16 q=5 w=18 in=text:100000:1",
        "ffimulti custom=1 n=3 q=5 w=18 pool=1 in=text:30000:1",
        "ffimulti custom=0 n=3 q=5 w=18 pool=1 in=text:30000:1",
        "oneshot q=10 w=18 in=text:3000:1",
        "oneshot q=9 w=18 in=text:3000:1",
        "oneshot q=5 w=18 in=text:0:1",
        "oneshot q=5 w=18 in=text:3000:1 out=0",
        "oneshot q=5 w=18 in=rand:3000:1 out=100",
        "ffioneshot q=10 w=18 in=text:3000:1",
        "ffioneshot q=11 w=22 in=text:3000:1",
        "writer q=5 w=18 in=text:30000:1 obuf=64 wio=64,64,e ops=W:10000,W:20000,L,Z",
        "writer q=5 w=18 in=text:30000:1 obuf=64 ops=W:10000,L,W:20000,I",
        "reader q=5 w=18 in=text:30000:1 ibuf=100 rio=100,50,e ops=R:10,R:1000,Z",
        "reader q=9 w=18 in=text:30000:1 ibuf=100 ops=A:1000,I",
        "copy q=5 w=18 in=text:30000:1 dict=text:300:4 ibuf=1000 obuf=100 wio=100,100,e",
        "copy q=5 w=18 in=text:30000:1 ibuf=1000 obuf=100 rio=1000,1000,e",
        "copy q=11 w=18 log=1 in=text:30000:1 ibuf=1000 obuf=100",
        "multi n=4 q=5 w=18 favor=1 in=text:100000:1",
        "multi n=4 q=5 w=18 in=text:100000:1 kind=slice",
        "multi n=4 q=9 w=18 in=text:100000:1 kind=pool",
        "multi n=3 q=5 w=18 in=text:100000:1 out=100",
        "multi n=16 q=11 w=18 in=text:200000:1",
        "multi n=1 q=5 w=18 in=text:1000:1 kind=slice",
    ]
    sc += [
        "raw q=5 w=18 in=text:3000:1 dict=text:5000:2 ops=H:3000,S:E:5000:10000,X",
        "raw q=1 w=18 in=text:3000:1 dict=text:5000:2 ops=H:3000,S:E:5000:10000,X",
        "raw q=0 w=18 in=text:3000:1 dict=text:5000:2 ops=H:3000,X",
        "raw q=5 w=10 in=text:3000:1 dict=text:5000:2 ops=H:3000,S:E:5000:10000,X",
        "raw q=5 w=18 in=text:3000:1 dict=text:5000:2 ops=H:0,S:E:5000:10000,X",
        "raw q=9 w=18 in=text:3000:1 dict=text:5000:2 ops=H:1,S:E:5000:10000,X",
        "raw q=5 w=18 in=text:3000:1 dict=text:5000:2 ops=D:100,H:3000,S:E:5000:10000,X",
        "raw q=11 w=18 in=text:3000:1 dict=text:5000:2 ops=H:3000,D:100,H:0,X",
    ]
    # shared (precomputed) hashers: every quality class x inputs that are tiny relative to the number of jobs
    grid_n = (2, 3, 5) if thorough else (2, 3)
    for n in grid_n:
        for q in (0, 1, 5, 9, 11):
            for ln in sorted({0, 1, 2, 3, 4, n, 2 * n + 1, 1000}):
                if not thorough and ln in (2, 2 * n + 1) and q not in (0, 5):
                    continue
                sc.append("multi n=%d q=%d w=18 favor=1 in=text:%d:%d out=4194304 kind=%s" %
                          (n, q, ln, rng.randrange(1, 99), rng.choice(["owned", "slice", "pool"])))
    for (n, q, ln) in ((16, 5, 4), (16, 1, 17), (16, 5, 1000), (8, 0, 3)):
        sc.append("multi n=%d q=%d w=18 favor=1 in=text:%d:3 out=4194304 kind=owned" % (n, q, ln))
    for (n, q, ln, cu) in ((2, 0, 3000, 1), (3, 1, 4, 1), (3, 5, 4, 1), (2, 1, 1000, 0), (5, 5, 3, 1), (2, 5, 30000, 1)):
        sc.append("ffimulti custom=%d n=%d q=%d w=18 favor=1 pool=%d in=text:%d:5 out=4194304" % (cu, n, q, rng.choice([0, 1]), ln))
    # copy adapter: a fault on the source side at read i and a fault on the sink side at write j, all i x j
    for q in ((1, 5, 11) if thorough else (1, 5)):
        for i in range(0, 4):
            for j in range(0, 4):
                for sink in ("e", "z"):
                    if sink == "z" and (i + j) % 2 and not thorough:
                        continue
                    sc.append("copy q=%d w=18 in=text:30000:%d ibuf=4096 obuf=64 rio=%s wio=%s" %
                              (q, rng.randrange(1, 99), ",".join(["4096"] * i + ["e"]), ",".join(["64"] * j + [sink])))
    for j in range(0, 6):
        sc.append("copy q=5 w=18 in=text:30000:4 dict=text:300:4 ibuf=1 obuf=1 rio=- wio=%s" % ",".join(["1"] * (j * 7) + ["e"]))
        sc.append("copy q=9 w=18 in=text:30000:4 ibuf=512 obuf=16 rio=%s wio=-" % ",".join(["512"] * (j * 5) + ["e"]))
    # writer / reader: the wrapped stream fails at its k-th call
    for q in (1, 5):
        for k in range(0, 6):
            sc.append("writer q=%d w=18 in=text:70000:%d obuf=64 wio=%s ops=W:20000,L,W:30000,Z" % (q, k + 1, ",".join(["64"] * k + ["e"])))
            sc.append("writer q=%d w=18 in=text:70000:%d obuf=4096 wio=%s ops=W:70000,I" % (q, k + 1, ",".join(["4096"] * k + ["e"])))
            sc.append("reader q=%d w=18 in=text:70000:%d ibuf=4096 rio=%s ops=R:1000,A:4096,Z" % (q, k + 1, ",".join(["4096"] * k + ["e"])))
            sc.append("reader q=%d w=18 in=text:70000:%d ibuf=256 rio=%s ops=A:100,I" % (q, k + 1, ",".join(["256"] * (3 * k) + ["e", "256", "e"])))
    # raw encoder instances
    for _ in range(110 * mult):
        cfg = gen_cfg(rng)
        heavy = cfg["q"] >= 10
        inp, ln = gen_input(rng, 70000 if heavy else 300000)
        ops = []
        extra = ""
        if rng.random() < 0.3 and not cfg.get("log"):
            dl = rng.choice([0, 1, 2, 100, 5000, 70000])
            extra = " dict=text:%d:%d" % (dl, rng.randrange(1, 99))
            ops.append("%s:%d" % ("H" if rng.random() < 0.35 else "D", dl))
            if rng.random() < 0.15:
                ops.append("%s:%d" % ("H" if rng.random() < 0.35 else "D", max(0, dl // 2)))
        if rng.random() < 0.1 and cfg["q"] >= 2 and "mode" not in cfg and not extra:
            cfg["log"] = 1
        fin = rng.random() < 0.7
        body = gen_stream_script(rng, ln, finish=fin)
        if rng.random() < 0.05 and body and not cfg.get("log"):
            body.insert(rng.randrange(len(body)), "D:50")
            if not extra:
                extra = " dict=text:50:7"
        ops += body
        if rng.random() < 0.985:
            ops.append("X")
        sc.append("raw %s in=%s%s ops=%s" % (cfg_str(cfg), inp, extra, ",".join(ops) if ops else "-"))
    # C ABI instances
    for _ in range(36 * mult):
        cfg = gen_cfg(rng)
        inp, ln = gen_input(rng, 70000 if cfg["q"] >= 10 else 140000)
        ops, extra = [], ""
        if rng.random() < 0.25:
            dl = rng.choice([0, 1, 100, 5000])
            extra = " dict=text:%d:%d" % (dl, rng.randrange(1, 99))
            ops.append("D:%d" % dl)
        ops += gen_stream_script(rng, ln, finish=rng.random() < 0.6, allow_meta=False)
        ops.append("X")
        sc.append("ffi custom=%d %s in=%s%s ops=%s" % (rng.choice([1, 1, 0]), cfg_str(cfg), inp, extra, ",".join(ops)))
    # writer / reader
    for _ in range(30 * mult):
        q = rng.choice([0, 1, 1, 2, 4, 5, 6, 9, 10, 11])
        w = rng.choice([10, 16, 18, 22])
        inp, ln = gen_input(rng, 70000 if q >= 10 else 300000)
        ops = []
        for _ in range(rng.randrange(0, 5)):
            ops.append("W:%d" % rng.choice([0, 1, 100, 5000, 70000, 140000, 300000]))
            if rng.random() < 0.3:
                ops.append("L")
        ops.append(rng.choice(["Z", "I", "Z"]))
        wio = []
        if rng.random() < 0.5:
            for _ in range(rng.randrange(1, 12)):
                wio.append(rng.choice(["1", "7", "64", "4096", "e"]))
        sc.append("writer q=%d w=%d in=%s obuf=%d wio=%s ops=%s" % (q, w, inp, rng.choice([1, 16, 64, 4096]),
                                                                    ",".join(wio) if wio else "-", ",".join(ops)))
    for _ in range(24 * mult):
        q = rng.choice([0, 1, 1, 2, 4, 5, 6, 9, 10, 11])
        w = rng.choice([10, 16, 18, 22])
        inp, ln = gen_input(rng, 70000 if q >= 10 else 300000)
        ops = []
        for _ in range(rng.randrange(0, 5)):
            ops.append("R:%d" % rng.choice([1, 10, 1000, 70000]))
        if rng.random() < 0.5:
            ops.append("A:%d" % rng.choice([100, 4096]))
        ops.append(rng.choice(["Z", "I", "Z"]))
        rio = []
        if rng.random() < 0.5:
            for _ in range(rng.randrange(1, 12)):
                rio.append(rng.choice(["1", "7", "64", "4096", "e"]))
        sc.append("reader q=%d w=%d in=%s ibuf=%d rio=%s ops=%s" % (q, w, inp, rng.choice([1, 16, 300, 4096]),
                                                                    ",".join(rio) if rio else "-", ",".join(ops)))
    # copy adapter
    for _ in range(36 * mult):
        cfg = gen_cfg(rng)
        inp, ln = gen_input(rng, 70000 if cfg["q"] >= 10 else 300000)
        extra = ""
        if rng.random() < 0.3:
            extra = " dict=text:%d:%d" % (rng.choice([1, 100, 5000]), rng.randrange(1, 99))
        elif rng.random() < 0.2 and cfg["q"] >= 2 and "mode" not in cfg:
            cfg["log"] = 1
        wio, rio = [], []
        r = rng.random()
        if r < 0.3:
            wio = [rng.choice(["1", "7", "100"]) for _ in range(rng.randrange(0, 6))] + ["e"]
        elif r < 0.5:
            rio = [rng.choice(["1", "100", "4096"]) for _ in range(rng.randrange(0, 6))] + ["e"]
        elif r < 0.65:
            wio = [rng.choice(["1", "7", "100"]) for _ in range(rng.randrange(1, 20))]
        elif r < 0.85:
            rio = [rng.choice(["1", "100", "4096"]) for _ in range(rng.randrange(0, 6))] + ["e"]
            wio = [rng.choice(["1", "7", "100"]) for _ in range(rng.randrange(0, 6))] + [rng.choice(["e", "e", "z"])]
        sc.append("copy %s in=%s%s ibuf=%d obuf=%d wio=%s rio=%s" % (cfg_str(cfg), inp, extra, rng.choice([1, 64, 4096, 65536]),
                  rng.choice([1, 64, 4096]), ",".join(wio) if wio else "-", ",".join(rio) if rio else "-"))
    # one-shot
    for q in range(0, 12):
        for _ in range(2 * mult):
            inp, ln = gen_input(rng, 70000)
            out = rng.choice([0, 1, 100, 1 << 20, 1 << 20])
            sc.append("oneshot q=%d w=%d in=%s out=%d" % (q, rng.choice([10, 18, 22, 24, 26]), inp, out))
    # multi-threaded, 1..16 per-thread allocators
    for n in range(1, 17):
        for rep in range(2 * mult):
            q = rng.choice([0, 1, 2, 5, 5, 6, 7, 9, 10, 11]) if rep else rng.choice([5, 9])
            w = rng.choice([18, 20, 22])
            ln = rng.choice([0, 5, 1000, 30000, 100000, 200000])
            favor = 1 if rng.random() < 0.45 else 0
            if q >= 10:
                ln = min(ln, 100000)
            out = rng.choice([0, 100, 1 << 22, 1 << 22, 1 << 22])
            kind = rng.choice(["owned", "owned", "slice", "pool"])
            sc.append("multi n=%d q=%d w=%d favor=%d in=%s:%d:%d out=%d kind=%s" %
                      (n, q, w, favor, rng.choice(["text", "text", "rand"]), ln, rng.randrange(1, 99), out, kind))
    for _ in range(14 * mult):
        n = rng.choice([1, 1, 2, 3, 5, 8, 16, 20])
        q = rng.choice([0, 1, 2, 5, 6, 9, 11])
        ln = rng.choice([0, 35, 3000, 100000])
        sc.append("ffimulti custom=%d n=%d q=%d w=%d favor=%d pool=%d in=text:%d:%d out=%d" %
                  (rng.choice([1, 1, 0]), n, q, rng.choice([18, 22]), rng.choice([0, 0, 1]), rng.choice([0, 0, 1]), ln,
                   rng.randrange(1, 99), rng.choice([10, 1 << 22, 1 << 22])))
    return sc


# ----------------------------------------------------------------------------- model requests

def generic_stream(q, w, n):
    """an allocation history of the right shape for an input of n bytes (sizes are indicative;
    only the outcome of the path is compared for the single-call entry points)"""
    if n == 0:
        return "S"
    if q <= 1:
        return "F%d:G%d+T%d" % (min(TWO17, n, 1 << w), 2 * min(n, 1 << w) + 503, 2048)
    return "SU%d+R%d+G%d+C%d_0+H" % (n, n, 2 * n + 527, n // 2 + 17)


def model_request(req, bnds, ver):
    """-> (request line or None, compare list, notes, orphans, candidates for the size hint)"""
    cmd = req["cmd"]
    q, w = num(req, "q", 5), num(req, "w", 18)
    sq = max(0, min(11, q))
    inlen = int(req.get("in", "text:0:1").split(":")[1])
    if cmd in ("raw", "ffi"):
        ops, traces, cmpl, notes, orphans = abstract_state_run(req, bnds, ffi=(cmd == "ffi"))
        if cmd == "raw":
            line = "M ver=%s kind=raw clean=0 H=%s T=%s" % (ver, ";".join(ops), traces.arg())
        else:
            ssize = 0
            for e in bnds[0]["ev"]:
                if e[0] == "A":
                    ssize = e[4]
            line = "M ver=%s kind=ffi custom=%s ssize=%d H=%s T=%s" % (ver, req.get("custom", "1"), ssize, ";".join(ops), traces.arg())
        return [line], cmpl, notes, orphans
    if cmd in ("writer", "reader"):
        ops, traces, cmpl, notes, orphans, hint_at = abstract_wrapper(req, bnds)
        lines = []
        for hint in ([None] if hint_at is None else [1000, 1 << 20, (1 << 20) + 1, (1 << 22) + 1]):
            o2 = [list(x) for x in ops]
            if hint is not None:
                o2[hint_at[0]].insert(hint_at[1], "U%d" % hint)
            lines.append("M ver=%s kind=%s q=%d w=%d H=%s T=%s" % (ver, cmd, q, w, ";".join("S" + "+".join(x) for x in o2) or "-", traces.arg()))
        return lines, cmpl, notes, orphans
    pops = ";".join(param_ops(req))
    if cmd == "copy":
        res = bnds[0]["ret"].split(":")[0]
        wio, rio = req.get("wio", "-"), req.get("rio", "-")
        flags = bnds[0]["ret"]
        re_, we_, wz_ = ":re1" in flags, ":we1" in flags, ":wz1" in flags
        ex = "f"
        if we_:
            ex = "wp" if re_ else "w"
        elif wz_:
            ex = "zp" if re_ else "z"
        dl = int(req.get("dict", "text:0:1").split(":")[1])
        d = ";D%d:0:-:%s" % (dl, str(dl) if (dl >= 2 and sq >= 2) else "-") if dl else ""
        return ["M ver=%s kind=copy exit=%s H=%s%s;%s" % (ver, ex, pops, d, generic_stream(sq, w, inlen))], [(0, "final")], [], 0
    if cmd in ("oneshot", "ffioneshot"):
        triv = 1 if (inlen == 0 or num(req, "out", 1 << 20) == 0) else 0
        return ["M ver=%s kind=oneshot q=%d w=%d triv=%d H=%s" % (ver, q, w, triv, generic_stream(9 if sq == 10 else sq, w, inlen))], [(0, "final")], [], 0
    if cmd in ("multi", "ffimulti"):
        n = max(1, num(req, "n", 1))
        if cmd == "ffimulti":
            if n == 1:
                return ["M ver=%s kind=single H=%s;%s" % (ver, pops, generic_stream(sq, w, inlen))], [(0, "final")], [], 0
            n = min(n, 16)
        else:
            n = min(n, 16)
        ok = bnds[0]["ret"].startswith("ok") or bnds[0]["ret"].startswith("1")
        ts = []
        for i in range(n):
            a, b = i * inlen // n, (i + 1) * inlen // n
            rings = str(a) if (i > 0 and a >= 2 and sq >= 2) else "-"
            ts.append("%d~%s~%d~%s~%s~%d" % (b - a + 1000, pops, a, rings, generic_stream(sq, w, b - a), 1 if ok else 0))
        sh = "-"
        if num(req, "favor", 0) and n > 1:
            sh = "auto"
        extra = " slice=%d" % inlen if req.get("kind") == "slice" else ""
        return ["M ver=%s kind=multi sh=%s q=%d w=%d hint=%d%s TS=%s" % (ver, sh, q, w, num(req, "hint", 0), extra, "#".join(ts))], [(0, "final")], [], 0
    return [], [], [], 0


# ----------------------------------------------------------------------------- comparison

def to_bytes(live):
    """`inst.ty.len,...` -> sorted list of (inst, bytes)"""
    out = []
    if live:
        for x in live.split(","):
            i, ty, ln = x.split(".")
            out.append((int(i), int(ln) * ESIZE.get(ty, 1)))
    return sorted(out)


def compare_state(kind, custom, impl, model, snap):
    """impl = 'live|faults' (from the spec replay of the log); model = 'live|faults|slots|params'"""
    ip = impl.split("|")
    mp = model.split("|")
    diffs = []
    if kind == "ffi" and not custom:
        pass        # the default allocator is not observable call by call; fields are compared below
    elif kind == "ffi":
        if to_bytes(ip[0]) != to_bytes(mp[0]):
            diffs.append("live bytes: impl %s model %s" % (to_bytes(ip[0])[:12], to_bytes(mp[0])[:12]))
        if ip[1] != mp[1]:
            diffs.append("faults impl %s model %s" % (ip[1], mp[1]))
    else:
        if ip[0] != mp[0]:
            diffs.append("live: impl [%s] model [%s]" % (ip[0][:300], mp[0][:300]))
        if ip[1] != mp[1]:
            diffs.append("faults impl %s model %s" % (ip[1], mp[1]))
    if snap is not None and len(mp) >= 4:
        ms = mp[2].split(",")
        want = []
        for k in ("st", "cm", "rb", "h", "lt", "cb", "lb"):
            want.append("+".join(str(n) for _, n in snap[k]) if snap[k] else "0")
        if ms != want:
            diffs.append("fields st,cm,rb,h,lt,cb,lb: impl %s model %s" % (",".join(want), mp[2]))
        wp = "%d,%d,%d,%d,%d,%d" % (snap["q"], snap["w"], snap["lgb"], snap["hint"], snap["ht"], snap["init"])
        if snap["init"] and mp[3] != wp:
            diffs.append("params q,w,lgblock,hint,hasher,init: impl %s model %s" % (wp, mp[3]))
    return diffs


def verdict_counts(v):
    d = {"live": 0, "foreign": 0, "stray": 0, "dropped": 0, "dup": 0}
    if v.startswith("FAIL"):
        for t in v.split()[1:]:
            k, x = t.split("=")
            if k in d:
                d[k] = int(x)
    return d


# ----------------------------------------------------------------------------- harness build

def build_harness(profile):
    """the harness is built against /repo; with VERIF_REPO set (mutation self-test) a private copy of
    the harness crate pointing at that tree is built into its own target directory"""
    repo = os.environ.get("VERIF_REPO")
    if not repo or os.path.abspath(repo) == "/repo":
        return vlib.harness_build("c09", profile)
    src = os.path.join(vlib.ROOT, "harness")
    dst = os.path.join(vlib.BUILD, "mut", "harness")
    os.makedirs(os.path.join(dst, "src", "bin"), exist_ok=True)
    os.makedirs(os.path.join(dst, ".cargo"), exist_ok=True)
    tgt = os.path.join(vlib.BUILD, "mut", "target")
    open(os.path.join(dst, "Cargo.toml"), "w").write(open(os.path.join(src, "Cargo.toml")).read().replace('path = "/repo"', 'path = "%s"' % repo))
    open(os.path.join(dst, ".cargo", "config.toml"), "w").write('[net]\noffline = true\n[build]\ntarget-dir = "%s"\n' % tgt)
    shutil.copy(os.path.join(src, "src", "lib.rs"), os.path.join(dst, "src", "lib.rs"))
    shutil.copy(os.path.join(src, "src", "bin", "c09.rs"), os.path.join(dst, "src", "bin", "c09.rs"))
    for extra in os.listdir(os.path.join(src, "src")):
        p = os.path.join(src, "src", extra)
        if os.path.isfile(p) and extra != "lib.rs":
            shutil.copy(p, os.path.join(dst, "src", extra))
    if os.path.exists(os.path.join(src, "Cargo.lock")):
        shutil.copy(os.path.join(src, "Cargo.lock"), os.path.join(dst, "Cargo.lock"))
    with vlib.Lock("cargo-mut"):
        rc, out = vlib.sh("timeout 1500 cargo build --offline %s --bin c09 2>&1" % ("" if profile == "dev" else "--release"),
                          cwd=dst, env={"RUSTFLAGS": "--cfg %s" % vlib.GUARD}, timeout=1600)
    return rc == 0, out, os.path.join(tgt, "debug" if profile == "dev" else "release", "c09")


def run_impl(impl_exe, scen):
    """all scenarios through the harness; a process that dies (a panic while unwinding aborts) takes
    the rest of its shard with it, so those scenarios are run again one per process"""
    env = {"VERIF_TMP": os.path.join(vlib.BUILD, "tmp")}
    answers = vlib.run_lines(impl_exe, scen, env=env)
    bad = [k for k, a in enumerate(answers) if a.startswith("TOOL")]
    for lo in range(0, len(bad), vlib.NCPU):
        grp = bad[lo:lo + vlib.NCPU]
        again = vlib.run_lines(impl_exe, [scen[k] for k in grp], shards=len(grp), env=env)
        for k, a in zip(grp, again):
            answers[k] = a
    return answers


# ----------------------------------------------------------------------------- one scenario

def evaluate(line, ans, model_exe, ver, cache=None):
    """-> dict(status, spec, diffs, case, stats)"""
    req = parse_req(line)
    res = {"line": line, "status": "ok", "spec": "OK", "diffs": [], "notes": [], "stats": {}}
    if ans.startswith("PANIC") or ans.startswith("TOOL") or ans == "BADREQ":
        res["status"] = "panic" if ans.startswith("PANIC") else "tool"
        res["answer"] = ans[:300]
        return res
    bnds = parse_answer(ans)
    cmd = req["cmd"]
    if any("PANIC(" in b["ret"] for b in bnds):
        # a panic inside the library call (caught by the harness so that the log survives): the
        # unwinding drops whatever was live; it is the panic that is the defect, and it belongs to
        # the properties about panics (C01/C02/C06), not to the release protocol
        res["status"] = "panic"
        res["answer"] = next(b["ret"] for b in bnds if "PANIC(" in b["ret"])[:300]
        return res
    custom = req.get("custom", "1") != "0"
    allev = ",".join(b["evs"] for b in bnds if b["evs"] != "-")
    leak = 0
    for b in bnds:
        for part in (b["ret"], b["name"]):
            if "leakmsgs" in part:
                leak += int(part.split("leakmsgs")[1].split(":")[0])
    segs = ";".join(b["evs"] for b in bnds)
    mlines, cmpl, notes, orphans = model_request(req, bnds, ver)
    out = vlib.run_lines(model_exe, ["S " + (allev or "-"), "B " + segs] + mlines, shards=1)
    spec = out[0]
    if leak and spec == "OK":
        spec = "FAIL live=%d foreign=0 stray=0 dropped=%d dup=0 first=default-allocator-block" % (leak, leak)
    res["spec"] = spec
    impl_states = out[1].split(";")
    res["notes"] = notes
    res["stats"] = {"boundaries": len(bnds), "events": sum(len(b["ev"]) for b in bnds), "orphans": orphans,
                    "allocs": sum(1 for b in bnds for e in b["ev"] if e[0] == "A"), "leakmsgs": leak,
                    "compared": 0, "traces": 0}
    best = None
    for mans in out[2:]:
        diffs = []
        if mans.startswith("DRIVER-ERROR") or mans in ("BADREQ", "BADKIND") or mans.startswith("TOOL"):
            diffs.append("model driver: " + mans[:200])
            best = diffs
            continue
        body, fin = mans.split("#")
        mstates = body.split(";") if body else []
        ncmp = 0
        for (k, idx) in cmpl:
            if idx == "final":
                m = fin
                snap = None
            else:
                j = idx + 1 if cmd in ("writer", "reader") else idx
                if j < 0 or j >= len(mstates):
                    diffs.append("boundary %d: model has no state %s" % (k, idx))
                    continue
                m = mstates[j]
                snap = bnds[k]["snap"]
            if cmd in ("copy", "oneshot", "ffioneshot", "multi", "ffimulti"):
                # outcome of the path: returned or not, and which kind of fault
                iv = impl_states[-1].split("|")
                mv = m.split("|")
                i_ret = (iv[0] == "" and iv[1] == "0,0,0,0" and leak == 0)
                m_ret = (mv[0] == "" and mv[1] == "0,0,0,0")
                if i_ret != m_ret:
                    diffs.append("outcome: impl %s (live [%s] faults %s leakmsgs %d) model %s (live [%s] faults %s)" %
                                 ("returned" if i_ret else "NOT returned", iv[0][:200], iv[1], leak,
                                  "returned" if m_ret else "NOT returned", mv[0][:200], mv[1]))
            else:
                if cmd == "ffi" and not custom and idx == "final":
                    i_ret = leak == 0
                    mv = m.split("|")
                    m_ret = (mv[0] == "" and mv[1] == "0,0,0,0")
                    if i_ret != m_ret:
                        diffs.append("outcome (default allocator): impl leak messages %d, model %s" % (leak, m))
                else:
                    for d in compare_state(cmd, custom, impl_states[k], m, snap):
                        diffs.append("boundary %d (%s): %s" % (k, bnds[k]["name"], d))
            ncmp += 1
        if best is None or len(diffs) < len(best):
            best = diffs
            res["stats"]["compared"] = ncmp
            res["model_line"] = mlines[out[2:].index(mans)] if mans in out[2:] else ""
        if not diffs:
            break
    res["diffs"] = best or []
    if orphans:
        res["diffs"] = res["diffs"] + ["%d live block(s) held by no modelled field (temporaries_balanced / model coverage)" % orphans]
    res["stats"]["traces"] = mlines[0].count("/") + 1 if mlines and " T=" in mlines[0] and not mlines[0].endswith("T=-") else 0
    vc = verdict_counts(spec)
    destroyed = True
    if cmd == "raw":
        destroyed = "X" in req.get("ops", "").split(",")
    res["case"] = {"request": line, "kind": cmd, "destroyed": destroyed, "quality": num(req, "q", 5), "lgwin": num(req, "w", 18),
                   "threads": num(req, "n", 1), "custom": 1 if custom else 0,
                   "live": vc["live"], "foreign": vc["foreign"], "stray": vc["stray"], "dropped": vc["dropped"],
                   "orphans": orphans, "model_agrees": not res["diffs"]}
    return res


def classify(line, bnds):
    """which interesting paths a scenario reached (for the coverage histogram)"""
    tags = set()
    if bnds is None:
        return {"panic"}
    req = parse_req(line)
    tags.add("kind:" + req["cmd"])
    tags.add("q:%s" % req.get("q", "5"))
    prev = None
    for b in bnds:
        nm = b["name"].split(":")
        sn = b["snap"]
        if nm[0] == "S" and nm[1] == "M":
            tags.add("metadata-op")
        if nm[0] == "S" and b["ret"] == "0":
            tags.add("stream-call-refused")
        if nm[0] == "D":
            tags.add("custom-dictionary")
            if prev is not None and prev["hname"] != "Uninit":
                tags.add("dictionary-replaces-live-hasher")
        if sn is not None and prev is not None:
            if prev["rb"] and sn["rb"] and prev["rb"] != sn["rb"]:
                tags.add("ring-buffer-regrown")
            if prev["st"] and sn["st"] and prev["st"] != sn["st"]:
                tags.add("storage-regrown")
            if prev["cm"] and sn["cm"] and prev["cm"] != sn["cm"]:
                tags.add("commands-regrown")
            if prev["lt"] and sn["lt"] and prev["lt"] != sn["lt"]:
                tags.add("large-table-regrown")
            if sn["lt"]:
                tags.add("large-table")
            if sn["cb"]:
                tags.add("q1-buffers-retained")
            if sn["hname"] != "Uninit":
                tags.add("hasher:" + sn["hname"])
        if sn is not None:
            prev = sn
        for e in b["ev"]:
            if e[0] == "A" and e[3] == "ZN":
                tags.add("zopfli-nodes")
            if e[0] == "A" and e[3] in ("SC", "PDF", "S16", "V8"):
                tags.add("ir-or-prior-buffers:" + e[3])
    if req["cmd"] == "raw":
        opsl = req.get("ops", "").split(",")
        if "X" not in opsl:
            tags.add("dropped-without-destroy")
        if not any(o.startswith("S:E") for o in opsl):
            tags.add("destroyed-before-finish")
    if req["cmd"] == "copy":
        fl = bnds[0]["ret"]
        if ":re1" in fl and ":we1" in fl:
            tags.add("copy:sink-error-while-source-error-pending")
        elif ":re1" in fl and ":wz1" in fl:
            tags.add("copy:sink-zero-while-source-error-pending")
        elif ":we1" in fl:
            tags.add("copy:sink-error")
        elif ":wz1" in fl:
            tags.add("copy:sink-accepts-nothing")
        elif ":re1" in fl:
            tags.add("copy:source-error")
    if req["cmd"] == "raw":
        for b in bnds:
            nm = b["name"].split(":")
            if nm[0] == "H":
                sn = b["snap"]
                tags.add("precomputed-hasher-op")
                if sn["cat"] and not num(req, "cat", 0) and not sn["rb"]:
                    tags.add("precomputed-hasher:dictionary-ignored")
                elif any(e[0] == "F" for e in b["ev"][:int(nm[2]) + 3]):
                    tags.add("precomputed-hasher:discarded-for-cut-dictionary")
    if req["cmd"] in ("multi", "ffimulti") and num(req, "favor", 0) and num(req, "n", 1) >= 2:
        inl = int(req.get("in", "text:0:1").split(":")[1])
        if num(req, "q", 5) <= 1:
            tags.add("shared-hasher:quality-0-1")
        if inl // max(1, min(16, num(req, "n", 1))) <= 1:
            tags.add("shared-hasher:job-with-empty-or-one-byte-prefix")
    if req["cmd"] in ("writer", "reader", "copy"):
        if "e" in req.get("wio", "-").split(",") or "e" in req.get("rio", "-").split(","):
            tags.add("io-error-scripted")
        for b in bnds:
            if b["ret"] in ("err",) or b["ret"].startswith("Other") or b["ret"].startswith("err"):
                tags.add("io-error-returned")
    if req["cmd"] in ("multi", "ffimulti"):
        tags.add("threads:%s" % req.get("n", "1"))
        if req.get("favor") == "1":
            tags.add("precomputed-hashers")
        if bnds[0]["ret"].startswith("err") or bnds[0]["ret"].startswith("0"):
            tags.add("multi-error-return")
    if req["cmd"] in ("oneshot",) and bnds[0]["ret"].startswith("0"):
        tags.add("oneshot-failed")
    return tags


# ----------------------------------------------------------------------------- the check

def check(run):
    thorough = run.tier == "thorough"
    ok_proof, broken = vlib.proof_stage(run, "props/C09.v", ["Alloc"], extra_trusted=[
        "tools/gen_alloc.py (release sites of cleanup / Drop / destroy / exits and hasher table sizes read off /repo/src by anchored regular expressions)",
        "the harness's tracking allocator (ids, per-instance alloc / free_cell / drop-without-free) and counting C callbacks; stdout capture for the default allocator's leak message",
        "abstraction of allocator logs + field snapshots into model histories (checks/c09.py)",
        "worker threads are modelled one after the other (their ledger events touch disjoint blocks)"])
    okx, logx = vlib.coq_extract("C09")
    okm, logm, model = vlib.ocaml_build("C09", "c09_driver.ml")
    if not (okx and okm):
        run.note("model rebuild failed (%s); using last built executable model if present" % (logx[-300:] if not okx else logm[-300:]))
        if ok_proof:
            broken.append("extraction/driver build failed")
            ok_proof = False
    run.cov["rule"] = ("one case = one scenario line for the harness: an entry point (raw encoder instance, C-ABI instance, writer, reader, "
                       "copy adapter, one-shot, CompressMulti / CompressMultiSlice / worker pool with 1..16 per-thread allocators, C-ABI "
                       "multi / work pool / one-shot), a configuration (quality 0..11, lgwin, lgblock, size hint, q9.5, catable, appendable, "
                       "magic, text mode, IR logging, custom dictionary, precomputed hashers), an input recipe and a call history incl. "
                       "too-small output buffers, scripted I/O errors, early destruction and drop without destroy; all random choices from "
                       "run.rng.  distinct_nontrivial counts distinct scenarios in which the encoder obtained at least one block from the "
                       "allocator and at least one API boundary (or path outcome) was compared between implementation, model and spec.")
    if not os.path.exists(model):
        run.report("proof-obligation", {"stage": "model build"}, {"log": (logx + logm)[-2000:]},
                   broken="executable model could not be built", found_input=False)
        return
    okh, logh, impl_exe = build_harness("dev")
    if not okh:
        run.report("proof-obligation", {"stage": "harness build"}, {"log": logh[-3000:]},
                   broken="harness does not build against /repo", found_input=False)
        return
    load_gen()
    scen = gen_scenarios(run, thorough)
    os.makedirs(os.path.join(vlib.BUILD, "cases"), exist_ok=True)
    open(os.path.join(vlib.BUILD, "cases", "C09-%d.txt" % run.seed), "w").write("\n".join(scen) + "\n")
    os.makedirs(os.path.join(vlib.BUILD, "tmp"), exist_ok=True)
    answers = run_impl(impl_exe, scen)
    ver = "curd"
    import concurrent.futures as cf
    with cf.ThreadPoolExecutor(max_workers=vlib.NCPU) as ex:
        results = list(ex.map(lambda la: evaluate(la[0], la[1], model, ver), zip(scen, answers)))
    hist, kinds = {}, {}
    nontriv, seen = 0, set()
    nspec, ncorr, npanic, nknown = 0, 0, 0, 0
    compared = traces = events = 0
    for line, ans, r in zip(scen, answers, results):
        k = line.split()[0]
        kinds[k] = kinds.get(k, 0) + 1
        if r["status"] != "ok":
            npanic += 1
            hist["outcome:" + r["status"]] = hist.get("outcome:" + r["status"], 0) + 1
            if r["status"] == "tool" and "non-unwinding panic" not in r.get("answer", "") and "panic in a function that cannot unwind" not in r.get("answer", ""):
                run.report("correspondence", {"request": line}, {"impl": r.get("answer")},
                           broken="harness crashed on `%s`" % line[:200], found_input=False)
            else:
                run.note("scenario panicked inside the library (not a C09 outcome): %s -> %s" % (line[:160], r.get("answer", "")[:120]))
            continue
        for t in classify(line, parse_answer(ans)):
            hist[t] = hist.get(t, 0) + 1
        st = r["stats"]
        compared += st["compared"]
        traces += st["traces"]
        events += st["events"]
        if st["allocs"] + st["leakmsgs"] > 0 or (k in ("ffi", "ffimulti", "ffioneshot")):
            if st["compared"] > 0 and line not in seen:
                seen.add(line)
                nontriv += 1
        if r["spec"] != "OK":
            nspec += 1
            before = len(run.known)
            run.report("spec-violation", r["case"], {"impl": ans[:4000], "model": r.get("model_line", "")[:2000], "spec": r["spec"], "diffs": r["diffs"][:10]},
                       what="a block obtained from the allocator was not returned exactly once through the instance that produced it: " + r["spec"])
            if len(run.known) > before:
                nknown += 1
        elif r["diffs"]:
            ncorr += 1
            if ncorr <= 8:
                run.report("correspondence", r["case"], {"impl": ans[:4000], "model": r.get("model_line", "")[:2000], "spec": r["spec"], "diffs": r["diffs"][:10]},
                           broken="correspondence Alloc.v vs implementation on `%s`: %s" % (line[:160], r["diffs"][0][:300]), found_input=False)
    run.note("%d scenarios: %d spec failures (%d matching a known finding class), %d correspondence disagreements, %d panics/tool failures" %
             (len(scen), nspec, nknown, ncorr, npanic))
    run.cov["evaluations"] = len(scen)
    run.cov["distinct_nontrivial"] = nontriv
    run.cov["traces_validated_against_impl"] = len(scen) - npanic
    run.cov["boundaries_compared"] = compared
    run.cov["temporary_traces_checked"] = traces
    run.cov["allocator_events_replayed"] = events
    run.cov["kinds"] = kinds
    run.cov["reached"] = dict(sorted(hist.items()))
    wanted = ["ring-buffer-regrown", "storage-regrown", "commands-regrown", "large-table", "q1-buffers-retained", "zopfli-nodes",
              "custom-dictionary", "dictionary-replaces-live-hasher", "precomputed-hashers", "metadata-op", "io-error-returned",
              "destroyed-before-finish", "dropped-without-destroy", "multi-error-return", "oneshot-failed", "hasher:H10", "hasher:H9",
              "copy:sink-error-while-source-error-pending", "copy:sink-zero-while-source-error-pending", "copy:sink-error",
              "copy:sink-accepts-nothing", "copy:source-error", "precomputed-hasher:dictionary-ignored",
              "precomputed-hasher:discarded-for-cut-dictionary", "shared-hasher:quality-0-1",
              "shared-hasher:job-with-empty-or-one-byte-prefix",
              "hasher:H54", "hasher:H2", "hasher:H6", "threads:16", "threads:1"]
    run.cov["unreached"] = [t for t in wanted if t not in hist]
    run.cov["samples"] = [scen[0], scen[len(scen) // 3], scen[len(scen) // 2], scen[-1]]
    run.cov["exhaustive"] = False
    if not ok_proof and not run.violations:
        run.report("proof-obligation", {"stage": "proof"}, {"broken": broken}, broken="; ".join(b[:400] for b in broken), found_input=False)


def replay(path):
    d = json.load(open(path))
    req = d["case"].get("request")
    if not req:
        print("replay file has no request (kind=%s): %s" % (d.get("kind"), d.get("broken")))
        return 1
    vlib.coq_regen(["Alloc"])
    _, _, impl_exe = build_harness("dev")
    vlib.coq_extract("C09")
    _, _, model = vlib.ocaml_build("C09", "c09_driver.ml")
    os.makedirs(os.path.join(vlib.BUILD, "tmp"), exist_ok=True)
    load_gen()
    ans = run_impl(impl_exe, [req])[0]
    r = evaluate(req, ans, model, "curd")
    print("request: %s" % req)
    print("impl:  %s" % (ans[:3000] + (" ..." if len(ans) > 3000 else "")))
    print("model: %s" % (r.get("model_line", "")[:1500]))
    print("model-vs-impl: %s" % ("agree" if not r["diffs"] else "; ".join(r["diffs"][:6])))
    print("spec:  %s" % r["spec"])
    return 0 if (r["spec"] == "OK" and not r["diffs"] and r["status"] == "ok") else 1
