"""C10 - custom (prefix) dictionary compression round-trips with the same dictionary."""
import json, os
import vlib

PROP = "C10"
LEVEL = "proof"
AMPLE = 1 << 22


def build_harness(profile="dev"):
    """against /repo, or (seeded-change / mutation runs, VERIF_REPO=<copy>) the private copy vlib keeps"""
    return vlib.harness_build("c10", profile)


def build_model():
    okx, logx = vlib.coq_extract("C10")
    okm, logm, model = vlib.ocaml_build("C10", "c10_driver.ml")
    return okx and okm, (logx if not okx else logm), model


def window(lgwin):
    return (1 << lgwin) - 16


def mk(params, data, calls=None, dict_=None, api=None):
    t = ["P=" + ",".join("%d:%d" % kv for kv in params), "D=%s:%d:%d" % data]
    if dict_:
        t.append("X=%s:%d:%d" % dict_)
    if api:
        t.append("A=" + api)
    t.append("C=" + ",".join(calls or ["e999999999/%d" % AMPLE]))
    return " ".join(t)


def histories(rng, n):
    fin = "e999999999/%d" % AMPLE
    hs = [[fin], [fin]]
    hs.append(["p%d/%d" % (rng.choice([1, 2, 3, 777, 4097]), AMPLE), "f0/%d" % AMPLE, fin])
    hs.append(["p%d/%d" % (rng.randrange(1, max(2, n)), rng.choice([100, 5000, AMPLE])), fin])
    chunks = ["%s%d/%d" % (rng.choice("ppf"), rng.randrange(0, max(1, n // 2)), rng.choice([17, 1000, AMPLE])) for _ in range(rng.randrange(2, 6))]
    hs.append(chunks + [fin])
    hs.append(["p%d/1" % rng.randrange(1, max(2, n)), "f0/16", "e999999999/%d" % rng.choice([1, 16, 1000])])
    return hs


def dict_lengths(lgwin):
    w = window(lgwin)
    return [("0", 0), ("1", 1), ("2", 2), ("3", 3), ("small", 30), ("mid", 300), ("w-17", w - 17), ("w-16", w - 16), ("w-15", w - 15), (">w", w + 1000)]


def gen_cases(run, thorough):
    rng = run.rng
    cases, meta = [], []

    def add(kind, q, lgwin, dlen, dclass, flags=(), api=None, n=None, lgwin_raw=None, dkind=None):
        heavy = q >= 10
        if n is None:
            n = rng.choice([0, 1, 300, 3000, 12000]) if heavy else rng.choice([0, 1, 300, 3000, 20000, 70000])
        params = [(1, q), (2, lgwin if lgwin_raw is None else lgwin_raw)] + list(flags)
        dk = dkind or rng.choice(["text", "words", "mix", "rand"] if dlen < 200000 else ["text", "words", "mix"])
        data_kind = rng.choice(["dmix", "dmix", "dmix", "wmix", "words"]) if dlen else rng.choice(["wmix", "words", "text"])
        req = mk(params, (data_kind, n, rng.randrange(1, 1 << 30)), rng.choice(histories(rng, n)),
                 dict_=(dk, dlen, rng.randrange(1, 1 << 30)) if (dlen or api == "setdict0") else None, api=api)
        cases.append(req)
        meta.append({"kind": kind, "quality": q, "lgwin": lgwin, "lgwin_raw": lgwin if lgwin_raw is None else lgwin_raw, "dict_len": dlen,
                     "dict_class": dclass, "flags": str(list(flags)), "api": api or "stream", "magic": int((169, 1) in flags)})

    # 0. the inputs on which the two repaired defects were found (known_findings.json), every run
    for q in (2, 5, 9, 11):
        cases.append("P=1:%d,2:18 D=words:3000:7 X=text:1:5 C=e999999999/1000000" % q)
        meta.append({"kind": "regression", "quality": q, "lgwin": 18, "lgwin_raw": 18, "dict_len": 1, "dict_class": "1", "flags": "[]", "api": "stream", "magic": 0})
    for lwr, q in ((5, 5), (4, 9), (9, 2), (64, 0), (64, 5)):
        cases.append("P=1:%d,2:%d D=dmix:3000:7 X=words:1500:5 C=e999999999/1000000" % (q, lwr))
        meta.append({"kind": "regression", "quality": q, "lgwin": 10 if lwr < 10 else 24, "lgwin_raw": lwr, "dict_len": 1500, "dict_class": "raw", "flags": "[]",
                     "api": "stream", "magic": 0})
    quals = list(range(0, 12))
    lgwins = list(range(10, 25))
    # 1. every (quality, dictionary class) and every (lgwin, dictionary class) pair, magic on half of them
    for q in quals:
        for lw in lgwins:
            classes = dict_lengths(lw)
            picks = classes if thorough else rng.sample(classes, 3)
            for dclass, dl in picks:
                if dl > (1 << 21) and q >= 10 and not (thorough and rng.random() < 0.15):
                    # H10 over a multi-megabyte dictionary: keep a few for the thorough tier only
                    lw2 = rng.choice([10, 12, 14, 16])
                    dl = dict(dict_lengths(lw2))[dclass]
                    lw_use = lw2
                else:
                    lw_use = lw
                flags = [(169, 1)] if rng.random() < 0.5 else []
                api = rng.choice([None, None, "customio:%d:%d" % (rng.choice([1, 100, 4096, 70000]), rng.choice([1, 300, 65536]))])
                if dl == 0 and api is None and rng.random() < 0.5:
                    api = "setdict0"
                add("grid", q, lw_use, dl, dclass, flags, api)
    # make sure every (quality, class) pair exists in the quick tier as well
    if not thorough:
        for q in quals:
            for dclass, _ in dict_lengths(10):
                lw = rng.choice([10, 11, 12, 13, 14, 16, 18])
                dl = dict(dict_lengths(lw))[dclass]
                add("pair", q, lw, dl, dclass, [(169, 1)] if rng.random() < 0.5 else [],
                    rng.choice([None, "customio:4096:4096"]) if dl else rng.choice(["setdict0", "customio:4096:4096"]))
    # 2. other flags together with a dictionary: catable / appendable / no static dictionary / FONT / large window
    for q in quals:
        for fl in ([(167, 1)], [(168, 1)], [(170, 1)], [(0, 2)], [(167, 1), (169, 1)], [(4, 1)], [(5, 4000)]):
            if not thorough and rng.random() > 0.5:
                continue
            lw = rng.choice([10, 12, 16, 18, 22])
            dclass, dl = rng.choice(dict_lengths(lw)[1:])
            if dl > (1 << 21) and q >= 10:
                lw = 12
                dl = dict(dict_lengths(lw))[dclass]
            add("flags", q, lw, dl, dclass, fl, rng.choice([None, "customio:4096:4096"]))
    for q in ([2, 5, 9] if not thorough else [2, 4, 5, 7, 9, 10]):
        add("largewin", q, 26, rng.choice([1, 3, 5000]), "lw", [(6, 1)])
    # 3. requested lgwin outside 10..24 (SanitizeParams clamps it afterwards)
    for lwr in [0, 3, 4, 5, 8, 9, 25, 28, 30, 31, 40, 63, 64, 100]:
        for q in ([1, 2, 5, 9, 11] if thorough else [rng.choice([0, 1]), rng.choice([2, 3, 4]), rng.choice([5, 6, 9, 10, 11])]):
            sane = 10 if lwr < 10 else 24
            dl = rng.choice([1, 2, 17, 500, 1500, 5000])
            add("lgwin-raw", q, sane, dl, "raw", [], None, n=rng.choice([300, 3000, 9000]), lgwin_raw=lwr)
    # 4. one-byte dictionaries against inputs full of static-dictionary words, every quality
    for q in quals:
        for lw in ([10, 18, 24] if thorough else [rng.choice([10, 18, 24])]):
            add("one-byte", q, lw, 1, "1", [(169, 1)] if rng.random() < 0.5 else [], None, n=3000)
    return cases, meta


def fields(seg):
    f = {}
    for t in seg.split():
        if "=" in t:
            k, x = t.split("=", 1)
            f[k] = x
    return f


def parse(line):
    body, _, verdict = line.partition(" ## ")
    segs = body.split(" ; ")
    segs += ["", "", "", ""]
    return segs[0], fields(segs[1]), fields(segs[2]), fields(segs[3]), fields(verdict)


def model_request(par, dict_len, version="fixed"):
    return "M %s %d %s %s %s %s %s %s" % (version, dict_len, par.get("q0", "0"), par.get("lg0", "22"), par.get("lw", "0"),
                                          par.get("ud0", "1"), par.get("dl1", "0"), par.get("dl2", "0"))


def sanitize_q(q0):
    return min(11, max(0, int(q0)))


def evaluate(run, req, m, impl, mod, stats):
    status, par, enc, dec, v = parse(impl)
    case = dict(m)
    case["request"] = req
    case["rt"] = v.get("RT", "na").split(":")[0]
    if status != "OK":
        stats["panic"] = stats.get("panic", 0) + 1
        case["panic"] = status[:200]
        run.report("spec-violation", case, {"impl": status[:300], "model": mod[:200], "spec": "the encoder panicked / failed"},
                   what="compression with a custom dictionary panics or fails")
        return False
    if v.get("RT") != "ok":
        stats["roundtrip_fail"] = stats.get("roundtrip_fail", 0) + 1
        run.report("spec-violation", case, {"impl": "RT=%s RT0=%s enc=%s dec=%s" % (v.get("RT"), v.get("RT0"), enc, dec), "model": mod[:200],
                                            "spec": "decoding with the same dictionary must give back the input"},
                   what="a stream produced with a custom dictionary does not decode, with the same dictionary, to the input")
        return False
    if mod.startswith("PANIC") or " ; " not in mod:
        run.report("correspondence", case, {"impl": "%s %s" % (enc, dec), "model": mod[:200], "spec": "RT=ok"},
                   broken="model/Dict.v predicts a panic (or failed) where set_custom_dictionary succeeded", found_input=False)
        return False
    me, md = [fields(x) for x in mod.split(" ; ")]
    q = sanitize_q(par.get("q0", 0))
    # positions as observed on both implementations (the property's own statement)
    if "ip" in enc and "cds" in dec:
        stats["positions_checked"] = stats.get("positions_checked", 0) + 1
        case["enc_kept"], case["dec_kept"] = int(enc["ip"]), int(dec["cds"])
    if me["ip"] == "0" and m["dict_len"] > 0:
        stats["dictionary_ignored"] = stats.get("dictionary_ignored", 0) + 1
        if v.get("RT0") != "ok":
            run.report("spec-violation", case, {"impl": "RT0=%s" % v.get("RT0"), "model": mod[:200],
                                                "spec": "a stream produced while ignoring the dictionary must decode without it"},
                       what="the encoder ignored the dictionary but the stream is not self-contained")
            return False
    # correspondence: set-up state of both sides
    diffs = []
    if "ip" in enc:
        exp = {"ip": me["ip"], "lf": me["ip"], "lp": me["ip"], "nbe": me["nbe"], "ud": me["ud"], "lgwin": me["lgwin"], "q": me["q"],
               "pb": me["pb"], "pb2": me["pb2"], "rbtail": "1",
               "cat": str(int(me["sc"] == "1" or par["cat0"] == "1")),
               "app": str(int(me["sc"] == "1" or par["app0"] == "1" or par["cat0"] == "1"))}
        diffs += ["%s: impl %s model %s" % (k, enc.get(k), x) for k, x in exp.items() if enc.get(k) != x]
    if "cds" in dec and int(v.get("IN", 0)) > 0:      # the decoder cuts the dictionary when it allocates its ring buffer (first data)
        diffs += ["%s: impl %s model %s" % (k, dec.get(k), md.get(k)) for k in ("wbits", "cds", "mbd") if dec.get(k) != md.get(k)]
    if diffs:
        stats["disagree"] = stats.get("disagree", 0) + 1
        run.report("correspondence", case, {"impl": "%s | %s" % (enc, dec), "model": mod[:300], "spec": "RT=ok"},
                   broken="correspondence model/Dict.v vs set_custom_dictionary / decoder set-up: " + "; ".join(diffs)[:300], found_input=False)
        return False
    stats["agree"] = stats.get("agree", 0) + 1
    if me["ip"] != "0" and v.get("RT0") == "differs":
        stats["streams_that_need_the_dictionary"] = stats.get("streams_that_need_the_dictionary", 0) + 1
        if m["dict_class"] in (">w", "w-15", "w-16", "w-17"):
            stats["streams_that_need_a_window_sized_dictionary"] = stats.get("streams_that_need_a_window_sized_dictionary", 0) + 1
    return True


def check(run):
    thorough = run.tier == "thorough"
    ok_proof, broken = vlib.proof_stage(run, "props/C10.v", ["Arith"],
                                        extra_trusted=["brotli-decompressor 4.0.3 as the decoder whose set-up model/Dict.v's dec_dict_setup mirrors (compared on every case)",
                                                       "unmodelled: the fragment compressors of quality 0/1 emit no static-dictionary reference and only distances into the "
                                                       "current stream (each such stream is decoded with and without the dictionary)"])
    okb, logb, model = build_model()
    if not okb and ok_proof:
        ok_proof = False
        broken.append("extraction/driver build failed: " + logb[-500:])
    okh, logh, impl_exe = build_harness("dev")
    if not okh:
        run.report("proof-obligation", {"stage": "harness build"}, {"log": logh[-3000:]}, broken="harness does not build against /repo", found_input=False)
        return
    if not os.path.exists(model):
        run.report("proof-obligation", {"stage": "model build"}, {"log": logb[-2000:]}, broken="executable model could not be built", found_input=False)
        return
    cases, meta = gen_cases(run, thorough)
    # big dictionaries are memory hungry: fewer shards for them
    impl = vlib.run_lines(impl_exe, cases, timeout=3000, shards=12)
    reqs = [model_request(parse(i)[1], m["dict_len"]) for i, m in zip(impl, meta)]
    mod = vlib.run_lines(model, reqs)
    # the spec's own verdict on the observed positions
    sreq, sidx = [], []
    for k, i in enumerate(impl):
        st, par, enc, dec, v = parse(i)
        if "ip" in enc and "cds" in dec and int(v.get("IN", 0)) > 0:
            sreq.append("S %d %s %s" % (sanitize_q(par.get("q0", 0)), enc["ip"], dec["cds"]))
            sidx.append(k)
    sres = dict(zip(sidx, vlib.run_lines(model, sreq)))
    stats = {}
    nontrivial = set()
    # two passes, so that a changed set-up (model disagreement on many cases) never hides a concrete failing
    # input behind the report cap: pass 1 reports property failures only (panic, round trip, positions), pass 2
    # the disagreements with model/Dict.v
    real_report = run.report
    for phase in ("spec", "correspondence"):
        def filtered(kind, *a, **kw):
            if (kind == "correspondence") == (phase == "correspondence"):
                real_report(kind, *a, **kw)
        run.report = filtered
        cap = 12 if phase == "spec" else len(run.violations) + 6
        st = stats if phase == "spec" else {}
        for k, (req, m, i, a) in enumerate(zip(cases, meta, impl, mod)):
            if i.startswith("TOOL"):
                run.report("spec-violation", dict(m, request=req), {"impl": i[:300]}, what="harness process died on this case")
                continue
            if len(run.violations) >= cap:
                run.note("%d violations recorded; the remaining cases of this run are not evaluated for %s" % (len(run.violations), phase))
                break
            ok = evaluate(run, req, m, i, a, st)
            if ok and sres.get(k, "OK") != "OK":
                run.report("spec-violation", dict(m, request=req), {"impl": i.split(" ## ")[0][:400], "model": a[:200], "spec": sres[k]},
                           what="encoder and decoder keep different numbers of dictionary bytes although the round trip happened to succeed")
            v = parse(i)[4]
            if m["dict_len"] > 0 and int(v.get("IN", 0)) > 0:
                nontrivial.add(req)
    run.report = real_report
    run.cov["evaluations"] = len(cases)
    run.cov["distinct_nontrivial"] = len(nontrivial)
    run.cov["rule"] = ("cases = (quality 0-11, lgwin 10-24, dictionary length class in {0,1,2,3,30,300,window-17,window-16,window-15,window+1000}, magic number, "
                       "input built from dictionary slices (its tail, its head, tail followed by head, middles) and fresh data, entry point "
                       "BrotliCompressCustomIoCustomDict or set_custom_dictionary + compress_stream with a call history); every (quality, class) and (lgwin, class) "
                       "pair; plus catable/appendable/no-static-dictionary/FONT/large-window flags, requested lgwin outside 10..24, one-byte dictionaries at every "
                       "quality.  distinct_nontrivial = distinct requests with a non-empty dictionary and non-empty input")
    run.cov["traces_validated_against_impl"] = stats.get("agree", 0)
    run.cov["stats"] = stats
    for key in ("kind", "dict_class", "quality", "lgwin", "api"):
        h = {}
        for m in meta:
            kk = str(m[key]).split(":")[0]
            h[kk] = h.get(kk, 0) + 1
        run.cov["hist_" + key] = h
    run.cov["reached"] = {k: stats.get(k, 0) for k in ("streams_that_need_the_dictionary", "streams_that_need_a_window_sized_dictionary",
                                                      "dictionary_ignored", "positions_checked")}
    run.cov["unreached"] = [k for k, x in run.cov["reached"].items() if not x]
    run.cov["samples"] = [cases[0], cases[len(cases) // 3], cases[2 * len(cases) // 3], cases[-1]]
    run.note("cases=%d stats=%s" % (len(cases), stats))
    if not ok_proof and not run.violations:
        run.report("proof-obligation", {"stage": "proof"}, {"broken": broken}, broken="; ".join(b[:400] for b in broken), found_input=False)


def replay(path):
    d = json.load(open(path))
    req = d["case"].get("request")
    if not req:
        print("replay file has no request (kind=%s): %s" % (d.get("kind"), d.get("broken")))
        return 1
    vlib.coq_regen(["Arith"])
    _, _, impl_exe = build_harness("dev")
    _, _, model = build_model()
    i = vlib.run_lines(impl_exe, [req])[0]
    st, par, enc, dec, v = parse(i)
    a = vlib.run_lines(model, [model_request(par, d["case"].get("dict_len", 0))])[0]
    u = vlib.run_lines(model, [model_request(par, d["case"].get("dict_len", 0), "unfixed")])[0]
    s = "n/a"
    if "ip" in enc and "cds" in dec:
        s = vlib.run_lines(model, ["S %d %s %s" % (sanitize_q(par.get("q0", 0)), enc["ip"], dec["cds"])])[0]
    print("request: %s" % req)
    print("impl:  %s" % i[:700])
    print("model: %s" % a)
    print("       (model of the code as found: %s)" % u)
    print("spec:  round trip %s ; without dictionary %s ; positions %s" % (v.get("RT"), v.get("RT0"), s))
    return 0 if (st == "OK" and v.get("RT") == "ok" and s in ("OK", "n/a")) else 1
