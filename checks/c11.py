"""C11 - reader / writer / copy adapters terminate and are transparent to short I/O and I/O errors."""
import itertools, json, os
import vlib

PROP = "C11"
LEVEL = "proof"

ALPHA = ["F", "S1", "S2", "Z", "I", "E7"]
HELLO = b"hello world, hello brotli! "


def hx(b):
    return b.hex() if b else "-"


def inputs(rng, thorough):
    words = [b"the ", b"quick ", b"brown ", b"fox ", b"jumps ", b"over ", b"lazy ", b"dog ", b"brotli ", b"stream ", b"\n"]
    def text(n):
        out = bytearray()
        while len(out) < n:
            out += rng.choice(words)
        return bytes(out[:n])
    pool = {
        "empty": b"", "b1": b"a", "b3": b"abc", "hello": HELLO, "hello40": HELLO * 40,
        "rnd300": bytes(rng.randrange(256) for _ in range(300)),
        "zeros5000": bytes(5000), "text3000": text(3000),
    }
    big = {"text70000": text(70000)}
    if thorough:
        big["rnd140000"] = bytes(rng.randrange(256) for _ in range(70000)) + text(70000)
    return pool, big


def short_scripts(maxlen):
    out = []
    for n in range(1, maxlen + 1):
        for t in itertools.product(ALPHA, repeat=n):
            out.append(",".join(t))
    return out


def rand_script(rng, maxlen=60, zero_w=0.3):
    n = rng.randrange(0, maxlen)
    l = []
    for _ in range(n):
        x = rng.random() * (4 + 4 + 2 + zero_w + 0.5)
        if x < 4:
            l.append("F")
        elif x < 8:
            l.append("S%d" % rng.choice([1, 1, 2, 3, 5, 7, 8, 9, 64, 255, 256, 257, 300]))
        elif x < 10:
            l.append("I")
        elif x < 10 + zero_w:
            l.append("Z")
        else:
            l.append("E%d" % rng.randrange(1, 100))
    return ",".join(l) + "/" + rng.choice(["F", "F", "S1", "S7", "S4096"])


def chop(rng, data, allow_empty=True):
    """split data into write operations (some empty), flushes sprinkled in"""
    ops, i = [], 0
    while i < len(data):
        k = rng.choice([0, 1, 1, 2, 3, 7, 64, 300, 4096, len(data)]) if allow_empty else rng.choice([1, 2, 3, 7, 64, 300, 4096, len(data)])
        ops.append("w" + hx(data[i:i + k]))
        i += k
        if rng.random() < 0.25:
            ops.append("f")
    if not ops:
        ops.append("w-")
    return ops


def gen_cases(run, thorough):
    rng = run.rng
    pool, big = inputs(rng, thorough)
    names = list(pool)
    cases = []
    # ---- write_all alone: every script up to length 3 x stored errors x buffers (no encoder involved)
    for sc in [""] + short_scripts(3):
        for tail in ("F", "Z"):
            for ez, ei in ((1, 1), (0, 1), (1, 0), (0, 0)):
                for buf in (b"", b"a", b"abc", b"abcdefgh"):
                    cases.append("A %s/%s %d %d %s" % (sc, tail, ez, ei, hx(buf)))
    # ---- every behaviour at every early call index (single fault), several buffer / caller sizes
    for q in (0, 1, 2, 5, 9):
        for i in range(0, 10 if not thorough else 40):
            for b in ("S1", "S3", "Z", "I", "E5"):
                sc = ",".join(["F"] * i + [b]) + "/F"
                for staging, sizes in ((1, "17/17/4000"), (64, "0,1,0,2/4096/200"), (257, "3/70000/50"), (4096, "1/1/4000")):
                    cases.append("R %d 22 %d %s %s %s" % (q, staging, hx(pool["hello40"]), sc, sizes))
                for obuf in (1, 8, 4096):
                    ops = ["w" + hx(HELLO * 10), "f", "w" + hx(HELLO * 30), "f", "w-", "c"]
                    cases.append("W %d 22 %d %s %s" % (q, obuf, sc, ",".join(ops)))
                for ibuf, obuf in ((1, 8), (64, 1), (4096, 4096), (7, 7)):
                    cases.append("C %d 22 %d %d %s %s /F" % (q, ibuf, obuf, hx(pool["hello40"]), sc))
                    cases.append("C %d 22 %d %d %s /F %s" % (q, ibuf, obuf, hx(pool["hello40"]), sc))
    # ---- all scripts up to length 3 (length 2 in the quick tier for the encoder-backed adapters)
    ss = short_scripts(3 if thorough else 2)
    for sc in ss:
        for q in (0, 5):
            for tail in ("F", "S1"):
                cases.append("R %d 22 7 %s %s/%s 1,0,5/5/400" % (q, hx(HELLO), sc, tail))
                cases.append("W %d 22 8 %s/%s w%s,f,w%s,f,f,w-,c" % (q, sc, tail, hx(HELLO * 3), hx(HELLO)))
                cases.append("W %d 22 1 %s/%s w%s,f,f,f,w%s,d" % (q, sc, tail, hx(HELLO), hx(b"aa")))
    s2 = short_scripts(2)
    for a in s2[::(1 if thorough else 3)]:
        for b in s2[::(1 if thorough else 3)]:
            cases.append("C 5 22 7 8 %s %s/F %s/F" % (hx(HELLO * 2), a, b))
    # ---- a sink / source that misbehaves for ever
    for q in (1, 5):
        cases.append("C %d 22 64 64 %s /F /Z" % (q, hx(pool["hello40"])))
        cases.append("C %d 22 64 64 %s F,F/Z /F" % (q, hx(pool["hello40"])))
        cases.append("W %d 22 8 /Z w%s,f,f,f,f,c" % (q, hx(HELLO * 4)))
        cases.append("R %d 22 64 %s /S1 0,0,1,0/1/4000" % (q, hx(HELLO * 4)))
    # ---- PRNG: long scripts, all qualities, buffer sizes incl. 1 and the 0 -> 4096 default, caller sizes incl. 0
    nrand = 40000 if thorough else 900
    for _ in range(nrand):
        name = rng.choice(names)
        data = pool[name]
        q = rng.choice([0, 1, 2, 3, 4, 5, 6, 7, 9, 10, 11])
        if q >= 10 and len(data) > 1100:
            q = 9
        lgwin = rng.choice([10, 16, 18, 22, 24])
        kind = rng.choice("RWC")
        if kind == "R":
            staging = rng.choice([0, 1, 2, 3, 7, 100, 255, 256, 257, 300, 4096, 5000])
            sizes = [rng.choice([0, 0, 1, 2, 3, 16, 17, 100, 4096, 70000]) for _ in range(rng.randrange(0, 8))]
            drain = rng.choice([1, 2, 7, 64, 4096, 70000])
            if (staging in (1, 2, 3) or drain <= 2) and len(data) > 3100:
                data = data[:3000]
            cases.append("R %d %d %d %s %s %s/%d/%d" % (q, lgwin, staging, hx(data), rand_script(rng), ",".join(map(str, sizes)), drain, 20000))
        elif kind == "W":
            obuf = rng.choice([0, 1, 2, 3, 8, 64, 255, 4096])
            if obuf <= 3 and len(data) > 3100:
                data = data[:3000]
            ops = chop(rng, data) + [rng.choice(["c", "c", "d", "f,c"])]
            cases.append("W %d %d %d %s %s" % (q, lgwin, obuf, rand_script(rng, zero_w=rng.choice([0, 0.3, 2])), ",".join(ops)))
        else:
            ibuf = rng.choice([1, 2, 3, 7, 64, 256, 4096])
            obuf = rng.choice([1, 2, 3, 8, 64, 4096])
            if (ibuf <= 3 or obuf <= 3) and len(data) > 3100:
                data = data[:3000]
            cases.append("C %d %d %d %d %s %s %s" % (q, lgwin, ibuf, obuf, hx(data), rand_script(rng), rand_script(rng)))
    # ---- inputs longer than one input block (several encoder blocks, staging buffer wraps many times)
    for name, data in big.items():
        for q in ((1, 2, 5) if not thorough else (0, 1, 2, 4, 5, 9)):
            cases.append("R %d 18 4096 %s %s 0,4096/70000/400" % (q, hx(data), rand_script(rng)))
            cases.append("R %d 16 300 %s /S257 100/8192/400" % (q, hx(data)))
            cases.append("W %d 18 4096 %s %s" % (q, rand_script(rng, zero_w=0), ",".join(chop(rng, data, False) + ["c"])))
            cases.append("C %d 18 4096 4096 %s %s %s" % (q, hx(data), rand_script(rng), rand_script(rng, zero_w=0)))
            cases.append("C %d 16 300 100 %s /S299 /S99" % (q, hx(data)))
    rng.shuffle(cases)   # balance the shards
    return cases


# ----------------------------------------------------------------------------- helpers

def split_answer(a):
    if " # " in a:
        x, y = a.split(" # ", 1)
    else:
        x, y = a, ""
    return x.strip(), y.strip()


def kv(s, key):
    for t in s.split():
        if t.startswith(key + "="):
            return t[len(key) + 1:]
    return "-"


def unrle(s):
    out = []
    if s == "-":
        return out
    for t in s.split("..h")[0].split(","):
        if "*" in t and not t.startswith("PANIC") and t.rsplit("*", 1)[1].isdigit():
            a, k = t.rsplit("*", 1)
            out += [a] * int(k)
        else:
            out.append(t)
    return out


def close_index(case):
    t = case.split()
    if t[0] != "W":
        return -1
    ops = [o for o in t[5].split(",") if o]
    for i, o in enumerate(ops):
        if o[0] in "cd":
            return i
    return -1


def spec_request(case, impl):
    """the line handed to the extracted spec (coq/spec/IOSpec.v) for an answer of the implementation"""
    obs, facts = split_answer(impl)
    t = case.split()
    res = kv(obs, "res")
    if t[0] == "C":
        rf, wf = kv(facts, "rfaults"), kv(facts, "wfaults")
        faults = rf.split(",")[0] if rf != "-" else (wf.split(",")[0] if wf != "-" else "-")
        return "S copy -1 res=%s faults=%s allok=%s dec=%s ref=%s eofseen=%s" % (
            res, faults, kv(facts, "allok"), kv(facts, "dec"), kv(facts, "ref"), kv(facts, "eofseen"))
    if t[0] == "A":
        complete = kv(facts, "complete") == "1" and kv(facts, "prefix") == "1"
        return "S write_all -1 res=%s faults=%s allok=%s dec=%s ref=-" % (
            res, kv(facts, "faults"), "1" if res == "k" else "0", "ok" if complete else "bad")
    name = "reader" if t[0] == "R" else "writer"
    return "S %s %d res=%s faults=%s allok=%s dec=%s ref=%s eofseen=%s" % (
        name, close_index(case), res, kv(facts, "faults"), kv(facts, "allok"), kv(facts, "dec"), kv(facts, "ref"),
        kv(facts, "eofseen") if name == "reader" else "1")


def case_dict(case, impl, verdict, prof):
    """what run.report gets (and what known_findings.json matchers see)"""
    t = case.split()
    obs, facts = split_answer(impl)
    adapter = {"R": "reader", "W": "writer", "C": "copy", "A": "write_all"}[t[0]]
    v = verdict.split()
    kind = v[1] if len(v) > 1 else "?"
    call = int(v[2]) if len(v) > 2 else -1
    results = unrle(kv(obs, "res"))
    before = results[:call] if call >= 0 else results
    op = "?"
    if adapter == "writer" and 0 <= call:
        ops = [o for o in t[5].split(",") if o]
        op = ops[call][0] if call < len(ops) else "?"
    elif adapter == "reader":
        op = "read"
    elif adapter == "copy":
        op = "copy"
    fault = "-"
    fl = kv(facts, "faults")
    if adapter == "copy":
        rf, wf = kv(facts, "rfaults"), kv(facts, "wfaults")
        fl = rf if rf != "-" else wf
    for f in fl.split(","):
        if "@" in f and int(f.split("@")[1]) == call:
            fault = "Z" if f.startswith("Z") else "E"
            break
    panic = "-"
    if 0 <= call < len(results) and results[call].startswith("PANIC"):
        panic = results[call][6:-1]
    d = {"request": case if len(case) < 4000 else case[:4000] + "...", "adapter": adapter, "profile": prof,
         "fault": fault, "panic": panic,
         "stored_errors_before": (t[2] + t[3]) if adapter == "write_all" else "-",
         "quality": int(t[1]) if adapter != "write_all" else -1,
         "kind": kind, "call": call, "op": op,
         "n_write_zero_errors_before": before.count("eWZ"), "n_invalid_data_errors_before": before.count("eINV"),
         "decodes": kv(facts, "dec") == "ok", "input_exhausted": kv(facts, "eofseen") != "0",
         "stored_errors_left": kv(obs, "left") if adapter == "write_all" else "-"}
    return d


def reached_nontrivial(case, impl):
    """did the wrapped stream really answer short / Interrupted / error / zero, or was a buffer of
    size 1 / a caller size of 0 used (counted on the first 600 characters of the logs)"""
    obs, facts = split_answer(impl)
    hit = set()
    for key in ("rlog", "wlog"):
        for ev in unrle(kv(obs, key).split("..h")[0]):
            if ">" not in ev:
                continue
            a, b = ev.split(">", 1)
            if b == "I":
                hit.add("interrupted")
            elif b.startswith("E"):
                hit.add("error")
            elif a.isdigit() and b.isdigit():
                if int(b) == 0 and key == "wlog" and int(a) > 0:
                    hit.add("zero-write")
                elif 0 < int(b) < int(a):
                    hit.add("short")
    t = case.split()
    if t[0] == "R":
        if t[3] == "1":
            hit.add("buffer-1")
        if "0" in t[6].split("/")[0].split(","):
            hit.add("caller-0")
    elif t[0] == "W":
        if t[3] == "1":
            hit.add("buffer-1")
        if "w-" in t[5].split(","):
            hit.add("caller-0")
    elif t[0] == "C":
        if t[3] == "1" or t[4] == "1":
            hit.add("buffer-1")
    return hit


def builds(run):
    # an extracted model.ml that is older than the Coq sources it comes from is stale (this happens
    # in a private build area that was seeded from an earlier build): force the extraction to re-run
    ml = os.path.join(vlib.BUILD, "ocaml", "c11", "model.ml")
    srcs = [os.path.join(vlib.COQ, f) for f in ("spec/IOSpec.v", "model/IO.v", "gen/GenIO.v", "extract/ExtractC11.v")]
    if os.path.exists(ml) and any(os.path.exists(f) and os.path.getmtime(f) > os.path.getmtime(ml) for f in srcs):
        os.remove(ml)
    okx, logx = vlib.coq_extract("C11")
    okm, logm, model = vlib.ocaml_build("C11", "c11_driver.ml")
    return okx and okm, (logx if not okx else logm), model


def check(run):
    thorough = run.tier == "thorough"
    ok_proof, broken = vlib.proof_stage(run, "props/C11.v", ["IO"], extra_trusted=[
        "the abstract encoder contract (Section hypotheses of coq/proofs/IO_proofs.v: consumed <= avail_in, produced <= avail_out, "
        "progress, finished absorbing, bounded pending output) - every clause except the potential bound is checked on every real "
        "compress_stream call the model makes (ocaml/c11_driver.ml)",
        "scripted wrapped streams cover every finite behaviour sequence plus an eventually-constant tail; not re-entrancy",
        "watchdog (wall clock, 60 s) only for spins that make no wrapped-stream call; everything else by call counters"])
    okb, logb, model = builds(run)
    if not okb:
        run.note("model rebuild failed (%s); using last built executable model if present" % logb[-300:])
        if ok_proof:
            broken.append("extraction/driver build failed")
            ok_proof = False
    run.cov["rule"] = ("cases = write_all alone under every script up to length 3 x stored-error states; every behaviour "
                       "(short, zero, Interrupted, error) at every early wrapped-call index for reader / writer / copy; all scripts up to "
                       "length 2 (thorough: 3) over {F,S1,S2,Z,I,E}; pairs of read/write scripts for the copy adapter; PRNG scripts up to 60 calls "
                       "with qualities 0-11, lgwin 10-24, adapter buffers incl. 1 and the 0->4096 default, caller sizes incl. 0; inputs beyond "
                       "one encoder block. distinct_nontrivial = distinct cases in which the wrapped stream really answered short / Interrupted / "
                       "error / zero-length, or a buffer of size 1 or a caller size of 0 was used (measured from the implementation's call log)")
    if not os.path.exists(model):
        run.report("proof-obligation", {"stage": "model build"}, {"log": logb[-2000:]}, broken="executable model could not be built", found_input=False)
        return
    cases = gen_cases(run, thorough)
    profiles = ["dev", "release"] if thorough else ["dev"]
    total_eval, nontriv, reached, kinds, verdicts, seen = 0, set(), {}, {}, {}, {}
    skipped = 0
    contract_calls, contract_viol, first_cv = 0, 0, None
    nbad = 0
    for prof in profiles:
        okh, logh, impl_exe = vlib.harness_build("c11", prof)
        if not okh:
            run.report("proof-obligation", {"stage": "harness build", "profile": prof}, {"log": logh[-3000:]},
                       broken="harness does not build against /repo", found_input=False)
            return
        impl = vlib.run_lines(impl_exe, cases)
        mod = vlib.run_lines(model, cases, env={"C11_ENCSERVER": impl_exe})
        sl = [spec_request(c, a) for c, a in zip(cases, impl)]
        sp = vlib.run_lines(model, sl)
        total_eval += len(cases)
        for c, a, b, s in zip(cases, impl, mod, sp):
            if a.startswith("res=SKIPPED"):
                skipped += 1
                continue
            if b.startswith("res=SKIPPED"):
                skipped += 1    # the implementation's answer is still judged by the spec below
            kinds[c[0]] = kinds.get(c[0], 0) + 1
            ia, _ = split_answer(a)
            mb, mfacts = split_answer(b)
            if a.startswith("TOOL") or "TOOL-" in a:
                s = "FAIL toolcrash -1"
            for h in reached_nontrivial(c, a):
                reached[h] = reached.get(h, 0) + 1
                nontriv.add(c)
            ct = kv(mfacts, "contract")
            if ct != "-":
                p = ct.split(":")
                contract_calls += int(p[0])
                if int(p[1]) and first_cv is None:
                    first_cv = (c, ct)
                contract_viol += int(p[1])
            vk = s.split()[1] if s.startswith("FAIL") else "ok"
            verdicts[vk] = verdicts.get(vk, 0) + 1
            if s != "OK":
                nbad += 1
                cd = case_dict(c, a, s, prof)
                key = (cd["adapter"], cd["kind"], cd["op"], cd["quality"] <= 1)
                seen[key] = seen.get(key, 0) + 1
                if vlib.match_known(PROP, cd) is not None or seen[key] <= 3:
                    run.report("spec-violation", cd, {"impl": a[:3000], "model": b[:3000], "spec": s},
                               what="adapter session violates the C11 specification (coq/spec/IOSpec.v): " + s)
            elif b.startswith("res=SKIPPED"):
                pass
            elif ia != mb:
                nbad += 1
                if sum(1 for v in run.violations if v[0] == "correspondence") < 5:
                    run.report("correspondence", {"request": c[:4000], "profile": prof}, {"impl": a[:3000], "model": b[:3000], "spec": "OK"},
                               broken="correspondence model/IO.v vs reader.rs / writer.rs / enc/mod.rs", found_input=False)
        run.note("profile %s: %d cases, %d spec failures/disagreements (incl. known findings)" % (prof, len(cases), nbad))
    if contract_viol:
        run.report("correspondence", {"request": first_cv[0][:4000], "stage": "encoder contract"}, {"contract": first_cv[1]},
                   broken="the real encoder broke a contract clause assumed by the C11 theorems: %s" % first_cv[1], found_input=False)
    run.cov["evaluations"] = total_eval
    run.cov["distinct_nontrivial"] = len(nontriv)
    run.cov["traces_validated_against_impl"] = total_eval
    run.cov["encoder_calls_checked_against_contract"] = contract_calls
    run.cov["adapters"] = kinds
    run.cov["reached"] = reached
    run.cov["spec_verdicts"] = verdicts
    run.cov["exhaustive"] = False
    run.cov["skipped_after_repeated_hangs"] = skipped
    samp = [cases[0], cases[len(cases) // 3], cases[len(cases) // 2], cases[(3 * len(cases)) // 4]]
    run.cov["samples"] = [s if len(s) < 300 else s[:300] + "..." for s in samp]
    if not ok_proof and not [v for v in run.violations if v[2]]:
        run.report("proof-obligation", {"stage": "proof"}, {"broken": broken}, broken="; ".join(b[:400] for b in broken), found_input=False)


def replay(path):
    d = json.load(open(path))
    req = d["case"].get("request")
    if not req or req.endswith("..."):
        print("replay file has no (complete) request (kind=%s): %s" % (d.get("kind"), d.get("broken")))
        return 1
    prof = d["case"].get("profile", "dev")
    vlib.coq_regen(["IO"])
    _, _, impl_exe = vlib.harness_build("c11", prof)
    vlib.coq_extract("C11")
    _, _, model = vlib.ocaml_build("C11", "c11_driver.ml")
    a = vlib.run_lines(impl_exe, [req])[0]
    b = vlib.run_lines(model, [req], env={"C11_ENCSERVER": impl_exe})[0]
    s = vlib.run_lines(model, [spec_request(req, a)])[0]
    print("request: %s\nimpl:  %s\nmodel: %s\nspec:  %s" % (req[:2000], a[:2000], b[:2000], s))
    return 0 if (s == "OK" and split_answer(a)[0] == split_answer(b)[0]) else 1
