"""C12 - the bytes the concatenator emits and its final result do not depend on how the members
are sliced into input buffers, on how much output space each call is offered (including none),
nor on saving/restoring the state between calls (which is what the C ABI does on every call)."""
import itertools, json
import vlib
from checks.concat_common import *

PROP = "C12"
LEVEL = "proof"


def member_pool(run, tools, thorough):
    rng = run.rng
    cs = contents(rng, False)[:22]
    cfg = [(5, 22, "a"), (5, 22, "c"), (9, 20, "c"), (2, 18, "cm"), (0, 22, "c"), (11, 16, "c"), (6, 24, "a"), (5, 12, "c"), (7, 28, "cl"),
           (3, 10, "c"), (5, 17, "c"), (4, 22, "-"), (9, 18, "-")]
    enc = [(c, cf) for c in cs for cf in cfg]
    res = tools.impl([enc_line(q, lg, fl, c) for c, (q, lg, fl) in enc])
    pool = []
    for (c, cf), r in zip(enc, res):
        if r.startswith("OK"):
            b = unhx(r.split()[1])
            if len(b) < (2000 if thorough else 700):
                pool.append({"bytes": b, "kind": "enc q%d w%d %s" % cf, "catable": "c" in cf[2], "appendable": ("a" in cf[2] or "c" in cf[2])})
    for form, lg in WFORMS:
        for kind, arg, pl in [("meta", 0, b""), ("meta", 1, b"M" * 3), ("meta", 1, b"M" * 200), ("meta", 2, b"N" * 300), ("raw", 4, b"x"),
                              ("raw", 4, b"hello world!"), ("empty", 0, b"")]:
            for tail in (b"", b"T", b"tail-bytes"):
                b, c = handmade(form, lg, kind, arg, pl, tail)
                pool.append({"bytes": b, "kind": "hand w%d/%d %s%d" % (lg, form, kind, arg), "catable": True, "appendable": True})
    return pool


def variants(rng, ms, ncalls_ref, thorough):
    v = []
    one = [[1] * len(m) for m in ms]
    v.append(("1byte", dict(slicings=one)))
    for c in (1, 2, 3):
        v.append(("cap%d" % c, dict(caps=[c])))
        v.append(("percall-cap%d" % c, dict(caps=[c], percall=True)))
    v.append(("cap1+1byte", dict(caps=[1], slicings=one)))
    v.append(("percall 1,0 +1byte", dict(caps=[1, 0], percall=True, slicings=one)))
    v.append(("percall 0,2 +slices", dict(caps=[0, 2], percall=True, slicings=[[2, 1, 3, 1] for m in ms])))
    sl6 = [[3, 1, 1, 1, 1, 2] for m in ms]
    for k in range(0, ncalls_ref + 1):
        v.append(("zero-space@call%d" % k, dict(caps=[BIG] * k + [0] + [BIG] * 60, percall=True)))
    for k in range(0, min(24, 7 * len(ms) + 1)):
        v.append(("zero-space@call%d+slices" % k, dict(caps=[BIG] * k + [0] + [BIG] * 60, percall=True, slicings=sl6)))
    v.append(("restore-all", dict(restore="all", slicings=[[2, 3] for m in ms], caps=[5])))
    v.append(("C-ABI", dict(api="F", slicings=[[2, 3] for m in ms], caps=[5])))
    v.append(("C-ABI one-shot", dict(api="F")))
    for n in (2, 3, 4, 5, 6):
        v.append(("%d+rest" % n, dict(slicings=[[n] for m in ms])))
    for _ in range(4 if thorough else 2):
        v.append(("random", dict(slicings=[[rng.randrange(1, 9) for _ in range(60)] for m in ms], caps=[rng.randrange(0, 6) for _ in range(5)] + [rng.randrange(1, 9)],
                                 percall=rng.random() < 0.5, restore=rng.choice(["-", "all", "1,2,4,7,8"]), api=rng.choice("NNF"))))
    # every split point of every short member
    for i, m in enumerate(ms):
        if len(m) <= 64:
            for p in range(1, len(m)):
                v.append(("split member%d@%d" % (i, p), dict(slicings=[[p] if j == i else [len(x) + 1] for j, x in enumerate(ms)])))
    # save/restore at every subset of the call boundaries of the one-shot run
    if ncalls_ref <= 8:
        for r in range(1, ncalls_ref + 1):
            for sub in itertools.combinations(range(ncalls_ref), r):
                v.append(("restore@%s" % ",".join(map(str, sub)), dict(restore=",".join(map(str, sub)))))
    return v


def check(run):
    thorough = run.tier == "thorough"
    ok_proof, broken = vlib.proof_stage(run, "props/C12.v", GEN_SECTIONS, TRUSTED)
    tools = Tools(run, ("dev",))
    if tools.problems:
        run.note("; ".join(tools.problems)[:600])
    if not tools.ok:
        run.report("proof-obligation", {"stage": "build"}, {"log": tools.problems}, broken="harness or executable model could not be built: " + "; ".join(tools.problems)[:400], found_input=False)
        return
    rng = run.rng
    pool = member_pool(run, tools, thorough)
    app = [p for p in pool if p["appendable"]]
    cat = [p for p in pool if p["catable"]]
    lists = []
    nlists = 900 if thorough else 320
    for _ in range(nlists):
        mode = rng.choice(["valid", "valid", "valid", "any", "mut"])
        k = rng.choice([1, 2, 2, 3, 3, 4])
        if mode == "valid":
            ms = [rng.choice(app)] + [rng.choice(cat) for _ in range(k - 1)]
            ms = [ms[0]] + sorted(ms[1:], key=lambda m: -(read_wbits(m["bytes"]) or (0, 0))[0])
            w0 = (read_wbits(ms[0]["bytes"]) or (0, 0))[0]
            ms = [ms[0]] + [m for m in ms[1:] if (read_wbits(m["bytes"]) or (99, 0))[0] <= w0]
        elif mode == "any":
            ms = [rng.choice(pool) for _ in range(k)]
        else:
            ms = []
            for _ in range(k):
                b = bytearray(rng.choice(pool)["bytes"])
                if b and rng.random() < 0.7:
                    b[rng.randrange(len(b))] ^= 1 << rng.randrange(8)
                if rng.random() < 0.3:
                    b = b[:rng.randrange(0, min(len(b), 9) + 1)]
                ms.append({"bytes": bytes(b), "kind": "mutated"})
        init = rng.choice(["new", "new", "new", "w24", "w22", "w15", "w30", "w16"])
        lists.append((mode, init, ms))
    # reference runs first (they give the number of calls)
    refs = [mk_run([m["bytes"] for m in ms], init=init) for (_, init, ms) in lists]
    ra = tools.impl(refs)
    jobs = []   # (list index, variant name, line)
    for li, ((mode, init, ms), a) in enumerate(zip(lists, ra)):
        pa = parse_answer(a)
        for name, kw in variants(rng, [m["bytes"] for m in ms], pa["ncalls"], thorough):
            jobs.append((li, name, mk_run([m["bytes"] for m in ms], init=init, **kw)))
    lines = refs + [j[2] for j in jobs]
    ia = tools.impl(lines)
    ma = tools.model(lines)
    nbad, corr = 0, []
    for l, a, m in zip(lines, ia, ma):
        if canon(a) != m:
            nbad += 1
            if nbad <= 4:
                corr.append(dict(case=write_replay_case("script", l), observed={"impl": a[:3000], "model": m[:3000], "spec": "n/a"},
                                 broken="correspondence model/Concat.v vs src/concat/mod.rs: " + first_diff(canon(a), m)))
    # the property itself on the implementation's answers: every variant agrees with the one-shot run
    parsed_ref = [parse_answer(a) for a in ia[:len(refs)]]
    slines = []
    for (li, name, l), a in zip(jobs, ia[len(refs):]):
        pr, pv = parsed_ref[li], parse_answer(a)
        slines.append("S12 %s %s %s %s" % (pr["final"], hx(pr["out"]), pv["final"], hx(pv["out"])))
    sv = tools.model(slines)
    classes, nviol = {}, 0
    for (li, name, l), a, s in zip(jobs, ia[len(refs):], sv):
        cls = name.split("@")[0].split(" member")[0]
        classes[cls] = classes.get(cls, 0) + 1
        if s != "OK":
            nviol += 1
            if nviol <= 5:
                mode, init, ms = lists[li]
                pr, pv = parsed_ref[li], parse_answer(a)
                run.report("spec-violation",
                           {"kind": "two-runs", "variant": name, "init": init, "members_hex": [hx(m["bytes"]) for m in ms], "member_kinds": [m["kind"] for m in ms],
                            "requests": [refs[li], l], "script": describe_script(l)},
                           {"impl": {"reference": {"final": final_name(pr["final"]), "out": hx(pr["out"])}, "variant": {"final": final_name(pv["final"]), "out": hx(pv["out"])}},
                            "model": "see --replay", "spec": s},
                           what="same members, different slicing / output space / save-restore: emitted bytes or final result differ (%s)" % name)
    run.cov["evaluations"] = len(lines)
    run.cov["distinct_nontrivial"] = len(set(j[2] for j in jobs if " F " in j[2][j[2].find(" F ") + 2:]))  # scripts with at least two members (a member boundary is crossed)
    run.cov["rule"] = ("member lists of 1-4 members (encoder-made appendable/catable at several qualities/windows incl. large window and magic number, hand-built header forms, "
                       "foreign non-catable streams, mutated/truncated ones; optional window override); for each list the one-shot run is the reference and every variant must "
                       "emit the same bytes and final result: 1-byte feeding, tiny buffers, a fresh buffer per call, zero free output space at every call index, every split point "
                       "of every member <= 64 bytes, n+rest splits, save/restore at every subset of call boundaries (<= 8 calls) and at all boundaries, the Broccoli* C ABI, random "
                       "mixes. distinct_nontrivial = distinct variant scripts with at least two members")
    run.cov["traces_validated_against_impl"] = len(lines)
    run.cov["variant_classes"] = classes
    run.cov["member_lists"] = len(lists)
    run.cov["list_modes"] = {k: sum(1 for x in lists if x[0] == k) for k in ("valid", "any", "mut")}
    run.cov["reference_results"] = {}
    for p in parsed_ref:
        k = final_name(p["final"])
        run.cov["reference_results"][k] = run.cov["reference_results"].get(k, 0) + 1
    run.cov["samples"] = [refs[0][:300], jobs[0][2][:300], jobs[len(jobs) // 2][2][:300], jobs[-1][2][:300]]
    run.note("%d member lists, %d runs, %d correspondence problems, %d spec violations" % (len(lists), len(lines), nbad, nviol))
    # a broken correspondence is reported on its own only when the search found no failing input
    if corr and not any(v[2] for v in run.violations):
        for c in corr:
            run.report("correspondence", c["case"], c["observed"], broken=c["broken"], found_input=False)
    if not ok_proof and not run.violations:
        run.report("proof-obligation", {"stage": "proof"}, {"broken": broken}, broken="; ".join(b[:400] for b in broken), found_input=False)


def _spec(tools, case, prof):
    reqs = case.get("requests") or [case["request"]]
    if len(reqs) < 2:
        return "OK"
    a = [parse_answer(x) for x in tools.impl(reqs[:2], prof)]
    return tools.model(["S12 %s %s %s %s" % (a[0]["final"], hx(a[0]["out"]), a[1]["final"], hx(a[1]["out"]))])[0]


def replay(path):
    return replay_common(path, _spec)
