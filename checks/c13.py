"""C13 - C ABI behaves as the Rust API: same bytes, exact cursor accounting, no unwinding."""
import json, os
import vlib
from checks import stream_common as sc
from checks import c20

PROP = "C13"
LEVEL = "proof"


def fields(line):
    d = {}
    for t in line.split():
        if "=" in t:
            k, v = t.split("=", 1)
            d[k] = v
    return d


def gen_multi(run, thorough):
    rng = run.rng
    out = []
    n = 160 if thorough else 60
    for _ in range(n):
        q = rng.choice([0, 1, 2, 3, 5, 5, 9, 10 if thorough else 5])
        lgwin = rng.choice([10, 16, 18, 22])
        params = ["1:%d" % q, "2:%d" % lgwin]
        if rng.random() < 0.3:
            params.append(rng.choice(["167:1", "168:1", "169:1", "5:1000", "171:1", "6:0"]))
        if rng.random() < 0.08:
            params.append(rng.choice(["7:1", "4:7", "170:1"]))   # parameters the setter refuses
        dlen = rng.choice([0, 1, 2, 15, 16, 17, 1000, 70000, 200000])
        if q >= 10:
            dlen = min(dlen, 3000)
        t = rng.choice([0, 1, 1, 2, 3, 4, 7, 8, 15, 16, 17, 32])
        b = rng.choice(["bound", "bound", "bound", "0", "1", "10", str(max(1, dlen // 3))])
        out.append("M P=%s D=%s:%d:%d T=%d B=%s E=%s X=%d" % (",".join(params), rng.choice(["text", "rand", "mix"]), dlen, rng.randrange(1, 1 << 30), t, b,
                                                             rng.choice(["multi", "multi", "pool"]), rng.randrange(0, 2)))
    # systematic family: an explicit size hint on the other side of the encoder's thresholds from the real
    # input length, for one thread (plain stream inside the C function) and several
    for q in (2, 4, 5, 9):
        for lgwin in (19, 22):
            for hint in (None, 1, 1 << 20, 1 << 26):
                for t in (1, 2):
                    params = ["1:%d" % q, "2:%d" % lgwin] + (["5:%d" % hint] if hint is not None else [])
                    out.append("M P=%s D=text:150000:%d T=%d B=bound E=multi X=0" % (",".join(params), 7 + q, t))
    return out


def gen_dict_cases(run, thorough):
    """histories with BrotliEncoderSetCustomDictionary / set_custom_dictionary before the first stream call:
    NULL pointer, zero length, 1, 2, a few hundred and more-than-a-block bytes; a late set-parameter (refused once
    the dictionary has initialised the encoder); tiny and ample output; take-output"""
    rng = run.rng
    out = []
    quals = [0, 1, 2, 5, 9] + ([11] if thorough else [])
    for q in quals:
        for lgwin in ([10, 16, 22] if thorough else [rng.choice([10, 16]), 22]):
            for d in ("dN", "d0:1", "d1:7", "d2:7", "d300:5", "d70000:9"):
                n = rng.choice([0, 1, 3000, 20000])
                if q >= 9:
                    n = min(n, 3000)
                pre = rng.choice([[], ["s1:%d" % ((q + 1) % 10)], ["s169:1"]])          # before the dictionary: accepted
                late = rng.choice([[], ["s1:3"], ["s2:12"], ["s168:1"]])                  # after it: refused
                body = rng.choice([["eR/1000000"], ["p%d/65536" % max(1, n // 2), "f0/65536", "eR/1000000"],
                                   ["p%d/0" % max(1, n // 3), "t7", "t100000", "f0/0", "t100000", "eR/1000000"],
                                   [d, "eR/1000000"]])                                     # the dictionary set twice
                out.append("P=1:%d,2:%d D=%s:%d:%d C=%s" % (q, lgwin, rng.choice(["text", "mix"]), n, rng.randrange(1, 1 << 30),
                                                            ",".join(pre + [d] + late + body)))
    return out


def gen_contract(run):
    """a lone alloc or free callback (contract violation) and the consistent pairs as controls, per entry point"""
    out = []
    for e in ("create", "pool", "multi", "wpool"):
        for a, f in ((0, 0), (1, 1), (1, 0), (0, 1)):
            for t in ((1, 2) if e != "create" else (1,)):
                out.append("K E=%s A=%d F=%d T=%d" % (e, a, f, t))
    return out


def check(run):
    thorough = run.tier == "thorough"
    ok_proof, broken = vlib.proof_stage(run, "props/C13.v", [])
    okh, logh, exe = vlib.harness_build("c13", "dev")
    oks, logs, stream_exe = vlib.harness_build("stream", "dev")
    okx, logx = vlib.coq_extract("STREAM")
    okm, logm, model = vlib.ocaml_build("STREAM", "stream_driver.ml")
    if not (okh and oks):
        run.report("proof-obligation", {"stage": "harness build"}, {"log": (logh + logs)[-3000:]}, broken="harness does not build against /repo", found_input=False)
        return
    if not (okx and okm) and ok_proof:
        ok_proof = False
        broken.append("extraction/driver build failed")
    cases, meta = c20.gen_cases(run, thorough)
    # a third of C20's histories (every kind and configuration still present) is enough here
    keep = [k for k in range(len(cases)) if k % 3 == 0]
    cases = [cases[k] for k in keep]
    meta = [meta[k] for k in keep]
    outs = vlib.run_lines(exe, ["P " + c for c in cases], timeout=2400)
    impl = vlib.run_lines(stream_exe, cases, timeout=2400)
    reqs = [sc.model_request(c, i) + " ABI=c" for c, i in zip(cases, impl)]
    mod = vlib.run_lines(model, reqs, timeout=2400) if os.path.exists(model) else [""] * len(cases)
    # dictionary histories: three-way comparison only (the stream model has no dictionary)
    dcases = gen_dict_cases(run, thorough)
    douts = vlib.run_lines(exe, ["P " + c for c in dcases], timeout=2400)
    cases, outs, mod = cases + dcases, outs + douts, mod + [""] * len(dcases)
    meta = meta + [("custom-dictionary", [t for t in c.split() if t.startswith("P=")][0]) for c in dcases]
    stats = {"same": 0, "diff": 0, "crash": 0, "total_checked": 0, "model_totals_agree": 0, "model_totals_differ": 0, "takes": 0, "null_buffers": 0}
    for k, (c, o, m) in enumerate(zip(cases, outs, mod)):
        cfg = [t for t in c.split() if t.startswith("P=")][0]
        case = {"script": c, "kind": meta[k][0], "config": meta[k][1]}
        if o.startswith("TOOL") or o.startswith("PANIC") or " ## " not in o:
            stats["crash"] += 1
            run.report("spec-violation", dict(case, failing="crash"), {"impl": o[:400], "spec": "no call unwinds or aborts; contract violations are reported by return value"},
                       what="a C-ABI call crashed / unwound into the caller")
            continue
        parts = o.split(" ## ")
        rust, cdef, ccus, tail = parts[0].split(" ; "), parts[1].split(" ; "), parts[2].split(" ; "), fields(parts[3])
        bad = None
        for name, recs in (("default allocator", cdef), ("custom allocator", ccus)):
            delivered = 0
            for j, (a, b) in enumerate(zip(rust, recs)):
                fa, fb = a.split(), b.split()
                if b.startswith("PANIC") and not a.startswith("PANIC"):
                    bad = (j, "C ABI (%s): %s" % (name, b[:200]), a)
                    break
                if a.startswith("PANIC"):
                    break
                # same return value, consumed, produced bytes, finished, has-more as the Rust API
                if fa[:7] != fb[:7]:
                    bad = (j, "C ABI (%s) record differs: %s" % (name, b[:200]), a[:200])
                    break
                if fb[4] != "-":
                    delivered += len(fb[4]) // 2
                if fb[0] == "t":
                    stats["takes"] += 1
                if fb[0] == "c":
                    stats["total_checked"] += 1
                    if int(fb[7]) != delivered:
                        bad = (j, "C ABI (%s): *total_out = %s after the call but %d bytes were delivered so far" % (name, fb[7], delivered), a[:200])
                        break
            if bad:
                break
            if len(recs) != len(rust):
                bad = (min(len(recs), len(rust)), "C ABI (%s) stopped after %d calls, Rust API after %d" % (name, len(recs), len(rust)), "")
                break
        if not bad and (tail.get("ALLOC") != tail.get("FREE") or tail.get("BADFREE") != "0" or tail.get("LIVE") != "0"):
            bad = (-1, "custom allocator callbacks: %s" % tail, "")
        if bad:
            stats["diff"] += 1
            calls = [t for t in c.split() if t.startswith("C=")][0][2:].split(",")
            case.update({"failing_index": bad[0], "failing_call": calls[bad[0]] if 0 <= bad[0] < len(calls) else "?"})
            run.report("spec-violation", case, {"impl": bad[1], "rust": bad[2], "spec": "C ABI = Rust API: same bytes, cursors, total_out = bytes delivered so far"},
                       what="C ABI deviates from the Rust API / total_out accounting")
            continue
        stats["same"] += 1
        # correspondence: the model's C-ABI total_out (seeded with the running total) per call
        mc = sc.split_obs(m)[0] if m else []
        okm_ = True
        for a, b in zip(cdef, mc):
            fa, fb = a.split(), b.split(" | ")[0].split()
            if fa[0] == "c" and len(fb) >= 8 and fa[7] != fb[7]:
                okm_ = False
                stats["model_totals_differ"] += 1
                run.report("correspondence", dict(case, failing="model total"), {"impl": a[:200], "model": b[:200], "spec": "OK"},
                           broken="correspondence c_reported_total (model/Stream.v) vs BrotliEncoderCompressStream", found_input=False)
                break
        if okm_:
            stats["model_totals_agree"] += 1
    # contract violations at the boundary: every request in a process of its own, so that an abort is visible
    kreqs = gen_contract(run)
    kouts = vlib.run_lines(exe, kreqs, shards=len(kreqs), timeout=600)
    kstats = {"ok": 0, "refused": 0, "bad": 0}
    for r, o in zip(kreqs, kouts):
        f, t = fields(o), fields(r)
        case = {"request": r, "entry": t["E"], "alloc_callback": t["A"], "free_callback": t["F"]}
        pair = t["A"] == t["F"]
        why = None
        if "V" not in f:
            why = "the process did not survive the call (abort / crash): " + o[:200]
        elif f["V"] in ("inst:bad", "ret:bad"):
            why = "reported success but the result is wrong"
        elif pair and f["V"] in ("null", "ret:0"):
            why = "a consistent callback pair was refused"
        elif pair and (f["ALLOC"] != f["FREE"] or f["BADFREE"] != "0" or f["LIVE"] != "0"):
            why = "callbacks unbalanced: " + o[:200]
        elif f["BADFREE"] != "0":
            why = "free callback called with a block it did not produce"
        if why:
            kstats["bad"] += 1
            run.report("spec-violation", case, {"impl": o[:300], "spec": why}, what="callback contract at the C boundary: " + why[:60])
        elif f["V"] in ("null", "ret:0"):
            kstats["refused"] += 1
        else:
            kstats["ok"] += 1
    run.cov["contract_requests"] = kstats
    # one-shot / multi-thread / work-pool entry points
    mreqs = gen_multi(run, thorough)
    mouts = vlib.run_lines(exe, mreqs, shards=4, timeout=2400)
    mstats = {"ok": 0, "refused": 0, "bad": 0}
    for r, o in zip(mreqs, mouts):
        f = fields(o)
        t = fields(r)
        case = {"request": r, "threads": int(t["T"]), "buffer": t["B"], "entry": t["E"]}
        why = None
        if "RET" not in f:
            why = "call crashed: " + o[:300]
        elif int(t["T"]) == 0 and f["RET"] != "0":
            why = "0 desired threads must be refused"
        elif f["RET"] == "1" and (f["DEC"] != "ok"):
            why = "reported success but the bytes do not decode to the input (%s)" % f["DEC"]
        elif f["RET"] == "-7":
            why = "second batch on the same work pool gave a different result"
        elif f["PARAMSOK"] == "0" and int(t["T"]) == 1 and t["E"] == "pool":
            # with a real work pool the entry point validates the whole parameter list first and refuses the call
            # (the one-thread shortcut of BrotliEncoderCompressMulti, which skips a refused parameter, is taken
            # only for a NULL pool)
            if f["RET"] != "0":
                why = "work-pool entry point accepted a parameter list that set_parameter refuses"
        elif f["RET"] != f["RRET"] and (f["PARAMSOK"] == "1" or int(t["T"]) == 1):
            why = "C ABI returned %s, the equivalent Rust call %s" % (f["RET"], f["RRET"])
        elif f["RET"] == "1" and f["RRET"] == "1" and f["SAME"] != "1":
            why = "C ABI bytes differ from the equivalent Rust call"
        elif f["ALLOC"] != f["FREE"] or f["BADFREE"] != "0":
            why = "custom allocator callbacks unbalanced: %s" % o
        if why:
            mstats["bad"] += 1
            run.report("spec-violation", case, {"impl": o[:300], "spec": why}, what="multi-thread / work-pool C entry point: " + why[:60])
        elif f["RET"] == "1":
            mstats["ok"] += 1
        else:
            mstats["refused"] += 1
    run.cov["evaluations"] = 3 * len(cases) + len(mreqs)
    run.cov["distinct_nontrivial"] = len({c for c, o in zip(cases, outs) if o.count(" ; ") >= 9})
    run.cov["rule"] = ("every third C20 call history (exhaustive short prefixes, single-call alphabet, random histories with violations, 15 parameter classes) driven "
                       "through the Rust API, the C ABI with default allocation and the C ABI with custom alloc/free callbacks (zero-length buffers passed as NULL); "
                       "per call: return value, pointer/counter cursor accounting (asserted inside the harness), bytes, is-finished, has-more, *total_out; plus "
                       "multi-thread and work-pool calls with 0..32 desired threads, buffers 0/1/small/bound, refused parameters, pool reuse. "
                       "distinct_nontrivial = scripts with >= 4 calls executed by all three drivers")
    run.cov["traces_validated_against_impl"] = stats["model_totals_agree"]
    run.cov["stats"] = stats
    run.cov["multi_stats"] = mstats
    run.cov["samples"] = [cases[0], cases[-1], mreqs[0]]
    run.note("scripts=%d stats=%s multi=%s" % (len(cases), stats, mstats))
    if not ok_proof and not run.violations:
        run.report("proof-obligation", {"stage": "proof"}, {"broken": broken}, broken="; ".join(b[:400] for b in broken), found_input=False)


def replay(path):
    d = json.load(open(path))
    c = d["case"]
    _, _, exe = vlib.harness_build("c13", "dev")
    req = ("P " + c["script"]) if "script" in c else c.get("request")
    if not req:
        print("no request in replay: %s" % d.get("broken"))
        return 1
    o = vlib.run_lines(exe, [req])[0]
    print(req)
    for part in o.split(" ## "):
        print("  ", part[:1500])
    return 0
