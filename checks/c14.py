"""C14 - the meta-block callback's IR replays to exactly the input."""
import json, os
import vlib

PROP = "C14"
LEVEL = "proof"
RFC_NDBITS = [0, 0, 0, 0, 10, 10, 11, 11, 10, 10, 10, 10, 10, 9, 9, 8, 7, 7, 8, 7, 7, 6, 6, 5, 5]
AMPLE = 1 << 22
DICT_TXT = os.path.join(vlib.BUILD, "ocaml", "c14", "dict.txt")


# ----------------------------------------------------------------------------- builds

def build_harness(profile="dev"):
    """against /repo, or (seeded-change / mutation runs, VERIF_REPO=<copy>) the private copy vlib keeps"""
    return vlib.harness_build("c14", profile)


def build_model(run=None):
    import gen_c14_dict
    info = gen_c14_dict.generate(DICT_TXT)
    okx, logx = vlib.coq_extract("C14")
    okm, logm, model = vlib.ocaml_build("C14", "c14_driver.ml")
    return okx and okm, (logx if not okx else logm), model, info


# ----------------------------------------------------------------------------- cases

def window(lgwin):
    return (1 << lgwin) - 16


def ring_size(q, lgwin, lgblock=0):
    lb = 14 if q < 4 else (lgblock or 16)
    if q >= 9 and not lgblock:
        lb = min(18, max(16, lgwin))
    return 1 << (1 + max(lgwin, lb))


def mk(params, data, calls=None, dict_=None, api=None):
    t = ["P=" + ",".join("%d:%d" % kv for kv in params), "D=%s:%d:%d" % data]
    if dict_:
        t.append("X=%s:%d:%d" % dict_)
    if api:
        t.append("A=" + api)
    t.append("C=" + ",".join(calls or ["e999999999/%d" % AMPLE]))
    return " ".join(t)


def histories(rng, n, wrap_at=None):
    """call lists; wrap_at = ring size: make the blocks start at an odd offset so that a later
    meta-block straddles the end of the ring buffer"""
    hs = []
    fin = "e999999999/%d" % AMPLE
    hs.append([fin])
    k = rng.choice([1, 2, 3, 777, 4097, 10000])
    hs.append(["p%d/%d" % (k, AMPLE), "f0/%d" % AMPLE, fin])
    hs.append(["p%d/%d" % (rng.randrange(1, max(2, n)), rng.choice([100, 5000, AMPLE])), fin])
    chunks = []
    for _ in range(rng.randrange(2, 7)):
        chunks.append("%s%d/%d" % (rng.choice("ppf"), rng.randrange(0, max(1, n // 2)), rng.choice([17, 1000, AMPLE])))
    hs.append(chunks + [fin])
    hs.append(["p%d/1" % rng.randrange(1, max(2, n)), "f0/16", "e999999999/%d" % rng.choice([1, 16, 1000])])
    return hs


def gen_cases(run, thorough):
    rng = run.rng
    cases, meta = [], []

    def add(kind, req, **kw):
        cases.append(req)
        d = {"kind": kind}
        d.update(kw)
        for kv in req.split()[0][2:].split(","):
            if kv.startswith("152:"):
                d["stride"] = int(kv[4:])
        meta.append(d)

    # 0. the inputs on which the two repaired defects were found (known_findings.json), every run
    for q in (2, 5, 9, 11):
        add("regression", "P=1:%d,2:18,151:1 D=dmix:3000:7 X=text:300:5 C=e999999999/1000000" % q, quality=q, lgwin=18, dict_len=300)
    add("regression", "P=1:6,2:22,151:1,152:4 D=wmix:30000:390678516 C=e999999999/4194304", quality=6, lgwin=22)
    add("regression", "P=1:5,2:11,151:1,152:4,153:0,155:2,156:1,0:2 D=wmix:20000:155445952 C=p15028/100,e999999999/4194304", quality=5, lgwin=11)
    side_levels = {152: [0, 1, 2, 3, 4], 153: [0, 1, 2], 155: [0, 1, 2, 3], 156: [0, 1]}
    quals = list(range(2, 12))
    lgwins = [10, 11, 12, 14, 16, 18, 20, 22, 24]
    kinds = ["words", "wmix", "text", "rand", "zero", "period", "skew", "mix"]

    def size_for(q, big=False):
        if q >= 10:
            return rng.choice([0, 1, 2, 37, 1000, 9000, 30000 if thorough else 20000])
        if big:
            return rng.choice([70000, 140000, 300000])
        return rng.choice([0, 1, 2, 3, 100, 3000, 20000, 66000])

    # 1. every quality x every lgwin, plain
    for q in quals:
        for lw in lgwins:
            if not thorough and rng.random() > 0.5:
                continue
            n = size_for(q)
            add("grid", mk([(1, q), (2, lw), (151, 1)], (rng.choice(kinds), n, rng.randrange(1, 1 << 30)),
                           rng.choice(histories(rng, n))), quality=q, lgwin=lw)
    # 2. flags: catable / appendable / magic / FONT mode / disable context modelling, every subset somewhere
    flagsets = [[(167, 1)], [(168, 1)], [(169, 1)], [(167, 1), (169, 1)], [(168, 1), (169, 1)], [(0, 2)], [(0, 1)], [(4, 1)],
                [(0, 2), (168, 1)], [(170, 1)], [(5, 5000)], [(3, 17)]]
    for q in quals:
        for fl in flagsets:
            if not thorough and rng.random() > 0.6:
                continue
            lw = rng.choice(lgwins)
            n = size_for(q)
            add("flags", mk([(1, q), (2, lw), (151, 1)] + fl, (rng.choice(kinds), n, rng.randrange(1, 1 << 30)),
                            rng.choice(histories(rng, n))), quality=q, lgwin=lw, flags=fl)
    # 3. side channels: every level of every detector alone, then pairs / all of them
    for q in quals:
        for pid, levels in side_levels.items():
            for lv in levels[1:]:
                if not thorough and rng.random() > 0.55:
                    continue
                lw = rng.choice([10, 16, 22])
                n = min(size_for(q), 30000)
                add("side", mk([(1, q), (2, lw), (151, 1), (pid, lv)], (rng.choice(kinds), n, rng.randrange(1, 1 << 30)),
                               rng.choice(histories(rng, n))), quality=q, lgwin=lw, side={pid: lv})
    for _ in range(160 if thorough else 45):
        q = rng.choice(quals)
        lw = rng.choice(lgwins)
        side = [(pid, rng.choice(lv)) for pid, lv in side_levels.items()]
        fl = rng.choice([[], [(167, 1)], [(168, 1)], [(169, 1)], [(0, 2)]])
        n = min(size_for(q), 40000)
        add("side-all", mk([(1, q), (2, lw), (151, 1)] + side + fl, (rng.choice(kinds), n, rng.randrange(1, 1 << 30)),
                           rng.choice(histories(rng, n))), quality=q, lgwin=lw, side=dict(side))
    # 3b. stride evaluation (152 > 2) on inputs whose meta-blocks have several literal block types
    for _ in range(150 if thorough else 40):
        q = rng.choice([4, 5, 6, 7, 8, 9, 10, 11])
        n = rng.choice([8000, 15000, 30000, 60000]) if q < 10 else rng.choice([8000, 15000])
        add("stride", mk([(1, q), (2, rng.choice([16, 18, 22])), (151, 1), (152, rng.choice([3, 4]))],
                         (rng.choice(["wmix", "mix", "words"]), n, rng.randrange(1, 1 << 30))), quality=q)
    # 4. custom dictionary: lengths around the boundaries, inputs built from the dictionary
    for q in quals:
        for lw in ([10, 12, 16, 22] if thorough else [rng.choice([10, 12]), rng.choice([16, 22])]):
            w = window(lw)
            dls = [1, 2, 3, 30, 300, w - 17, w - 16, w - 15, w + 1000]
            if q >= 10 or lw > 16:
                dls = [1, 2, 3, 30, 300, 5000] + ([w - 16, w + 100] if lw <= 16 else [])
            for dl in dls:
                if not thorough and rng.random() > 0.45:
                    continue
                n = rng.choice([300, 3000, 12000]) if q >= 10 else rng.choice([300, 3000, 20000, 70000])
                fl = rng.choice([[], [], [(169, 1)], [(168, 1)], [(167, 1)], [(156, 1)], [(152, 3), (155, 1)]])
                api = rng.choice([None, None, "customio:%d:%d" % (rng.choice([1, 100, 4096, 70000]), rng.choice([1, 300, 65536]))])
                add("dict", mk([(1, q), (2, lw), (151, 1)] + fl, (rng.choice(["dmix", "dmix", "dmix", "wmix"]), n, rng.randrange(1, 1 << 30)),
                               rng.choice(histories(rng, n)), dict_=(rng.choice(["text", "words", "rand", "mix"]), dl, rng.randrange(1, 1 << 30)), api=api),
                    quality=q, lgwin=lw, dict_len=dl, flags=fl, api=api or "stream")
    # 5. inputs longer than the ring buffer, block starts shifted so that meta-blocks wrap
    for q in [2, 3, 4, 5, 6, 7, 8, 9] + ([10, 11] if thorough else []):
        for lw in [10, 12, 14] + ([16] if thorough else []):
            if not thorough and rng.random() > 0.7:
                continue
            rs = ring_size(q, lw)
            n = rs * 2 + rng.randrange(0, rs) if q < 10 else rs + 5000
            n = min(n, 600000)
            k = rng.choice([1, 7, 777, 4097, 12345])
            calls = ["p%d/%d" % (k, AMPLE), "f0/%d" % AMPLE, "e999999999/%d" % AMPLE]
            dict_ = None
            if rng.random() < 0.3:
                dict_ = ("text", rng.choice([3, 100, 777]), rng.randrange(1, 1 << 30))
            fl = rng.choice([[], [], [(167, 1)], [(168, 1)], [(153, 1)]])
            add("wrap", mk([(1, q), (2, lw), (151, 1)] + fl, (rng.choice(["wmix", "text", "mix", "words"]), n, rng.randrange(1, 1 << 30)),
                           calls, dict_=dict_), quality=q, lgwin=lw, flags=fl, dict_len=dict_[1] if dict_ else 0)
    # 6. large window (without FONT: the FONT + large window cell at quality 11 is C01's finding)
    for q in ([5, 9] if not thorough else [2, 5, 9, 10]):
        n = 20000
        add("largewin", mk([(1, q), (6, 1), (2, 26), (151, 1)], ("wmix", n, rng.randrange(1, 1 << 30))), quality=q, lgwin=26)
    # 7. BrotliCompressCustomIo entry (no dictionary) with small buffers
    for q in quals:
        if not thorough and rng.random() > 0.5:
            continue
        n = size_for(q)
        add("customio", mk([(1, q), (2, rng.choice(lgwins)), (151, 1)], (rng.choice(kinds), n, rng.randrange(1, 1 << 30)),
                           api="customio:%d:%d" % (rng.choice([1, 17, 4096, 100000]), rng.choice([1, 16, 4096, 100000]))), quality=q)
    return cases, meta


def expansion_requests(run, thorough):
    rng = run.rng
    reqs = []
    for ws in range(4, 25):
        ids = {0, 1, (1 << RFC_NDBITS[ws]) - 1, 1 << RFC_NDBITS[ws]} | {rng.randrange(0, 1 << RFC_NDBITS[ws]) for _ in range(12 if thorough else 3)}
        for i in sorted(ids):
            for tr in list(range(0, 122)):
                reqs.append("X %d %d %d" % (ws, i, tr))
    reqs += ["X 3 0 0", "X 25 0 0", "X 4 5 121", "X 4 5 255"]
    return reqs


# ----------------------------------------------------------------------------- evaluation

def parse_line(line):
    body, _, verdict = line.partition(" ## ")
    segs = body.split(" ; ")
    v = {}
    for t in verdict.split():
        if "=" in t:
            k, x = t.split("=", 1)
            v[k] = x
    recs = []
    for seg in segs[2:]:
        f = {}
        for t in seg.split():
            if "=" in t:
                k, x = t.split("=", 1)
                if k not in ("mb", "ir", "cmds"):
                    f[k] = x
        recs.append(f)
    return segs[0], recs, v


def used_dict_len(case_meta, q, lgwin):
    # model/Dict.v enc_dict_setup (C10): quality 0/1 and the empty dictionary take the early return
    dl = case_meta.get("dict_len", 0)
    if dl == 0 or q <= 1:
        return 0
    return min(dl, window(lgwin))


def evaluate(run, req, m, impl, ans, stats):
    """returns True when everything agrees"""
    status, recs, v = parse_line(impl)
    case = {"request": req, "kind": m["kind"], "quality": m.get("quality", -1), "lgwin": m.get("lgwin", -1),
            "dict_len": m.get("dict_len", 0), "flags": str(m.get("flags", "")), "api": m.get("api", "stream"), "stride": m.get("stride", 0)}
    parts = ans.split(" | ")
    if len(parts) != 3:
        run.report("correspondence", case, {"impl": status, "model": ans[:300]}, broken="model driver failed on this case: %s" % ans[:200], found_input=False)
        return False
    mod, spec, hyp = parts
    for k in ("NMB", "NDICT", "NCOPY", "NLIT", "NSW", "WRAP", "DCOPY"):
        stats[k] = stats.get(k, 0) + int(v.get(k, 0))
    if v.get("DEC") == "fail":
        stats["decode_fail_not_c14"] = stats.get("decode_fail_not_c14", 0) + 1
    if status != "OK":
        stats["panic"] = stats.get("panic", 0) + 1
        case["panic"] = status[:200]
        run.report("spec-violation", case, {"impl": status[:300], "model": mod[-200:], "spec": "the encoder panicked / failed with the meta-block callback installed"},
                   what="compress_stream panics or fails with meta-block logging on")
        return False
    if v.get("REPLAY") != "ok" or v.get("TILE") != "ok" or spec != "OK":
        stats["spec_fail"] = stats.get("spec_fail", 0) + 1
        run.report("spec-violation", case, {"impl": "REPLAY=%s TILE=%s" % (v.get("REPLAY"), v.get("TILE")), "model": mod[:200], "spec": spec},
                   what="the IR handed to the callback does not replay to the input (harness replay and extracted ir_run)")
        return False
    # recoder_inv at the first meta-block: the state counts the dictionary bytes in front of the input
    if recs and "nbe" in recs[0]:
        want = used_dict_len(m, m.get("quality", 5), m.get("lgwin", 22))
        if int(recs[0]["nbe"]) != want:
            run.report("correspondence", case, {"impl": "num_bytes_encoded=%s at the first meta-block" % recs[0]["nbe"], "model": "recoder_init = %d" % want, "spec": spec},
                       broken="recoder_inv does not hold at the first meta-block (model/Recoder.v recoder_init)", found_input=False)
            return False
    # model vs implementation: IR hash and state after every meta-block
    mparts = mod.split(",") if mod else []
    ok = len(mparts) == len(recs)
    where = -1
    if ok:
        for k, (f, a) in enumerate(zip(recs, mparts)):
            nxt = recs[k + 1].get("nbe") if k + 1 < len(recs) else None
            if ":" not in a:
                ok, where = False, k
                break
            h, nbe, nsw, sok = a.split(":")
            if m.get("stride", 0) > 2:
                stats["stride_runs"] = stats.get("stride_runs", 0) + 1
                if int(nsw) in (3, 7, 15, 31):
                    stats["stride_runs_at_2^k-1_types"] = stats.get("stride_runs_at_2^k-1_types", 0) + 1
                if sok != "1":
                    ok, where = False, k        # the model predicts a panic the implementation did not have
                    break
            if h != f.get("irh") or (nxt is not None and nxt != nbe) or int(nbe) != int(f["nbe"]) + int(f["l0"]) + int(f["l1"]):
                ok, where = False, k
                break
    if not ok:
        stats["disagree"] = stats.get("disagree", 0) + 1
        case["meta_block"] = where
        run.report("correspondence", case, {"impl": "irh=%s" % (recs[where].get("irh") if 0 <= where < len(recs) else "?"), "model": mod[:300], "spec": spec},
                   broken="correspondence model/Recoder.v vs process_command_queue at meta-block %d" % where, found_input=False)
        return False
    if not hyp.startswith("OK"):
        stats["hypothesis_fail"] = stats.get("hypothesis_fail", 0) + 1
        run.report("correspondence", case, {"impl": "IR replays", "model": hyp, "spec": spec},
                   broken="hypothesis cmds_ok of C14_recode does not hold of the implementation's command list (%s)" % hyp, found_input=False)
        return False
    stats["agree"] = stats.get("agree", 0) + 1
    stats["hypothesis_validated_mb"] = stats.get("hypothesis_validated_mb", 0) + int(hyp.split()[1])
    return True


def check(run):
    thorough = run.tier == "thorough"
    ok_proof, broken = vlib.proof_stage(run, "props/C14.v", ["Arith"],
                                        extra_trusted=["tools/gen_c14_dict.py (static dictionary and transform tables copied from brotli-decompressor-4.0.3 for the extracted replay; "
                                                       "cross-checked against the real TransformDictionaryWord on every run)",
                                                       "model/Arith.v distance_index_and_offset / copy_len_code (C18's correspondence)"])
    okb, logb, model, info = build_model(run)
    if not okb and ok_proof:
        ok_proof = False
        broken.append("extraction/driver build failed: " + logb[-500:])
    okh, logh, impl_exe = build_harness("dev")
    if not okh:
        run.report("proof-obligation", {"stage": "harness build"}, {"log": logh[-3000:]}, broken="harness does not build against /repo (hook verif_ir changed?)", found_input=False)
        return
    if not os.path.exists(model):
        run.report("proof-obligation", {"stage": "model build"}, {"log": logb[-2000:]}, broken="executable model could not be built", found_input=False)
        return
    margs = [DICT_TXT]
    # premises of C14_recode about the tables, and the tables / dict_expand against the real code
    if info["ndbits"] != RFC_NDBITS:
        run.report("proof-obligation", {"stage": "tables"}, {"ndbits": info["ndbits"]}, broken="NDBITS of the linked dictionary differ from RFC 7932", found_input=False)
    t = vlib.run_lines(model, ["T x"], shards=1, args=margs)[0]
    run.note("tables: " + t)
    tv = dict(x.split("=") for x in t.split() if "=" in x)
    if not (int(tv.get("transforms", 999)) <= 256 and int(tv.get("longest", 999)) < 256):
        run.report("proof-obligation", {"stage": "tables"}, {"tables": t}, broken="premises of C14_recode (<= 256 transforms, expansions < 256 bytes) do not hold of the real tables", found_input=False)
    xr = expansion_requests(run, thorough)
    xi = vlib.run_lines(impl_exe, xr)
    xm = vlib.run_lines(model, xr, args=margs)
    nx = 0
    for r, a, b in zip(xr, xi, xm):
        if a != b:
            nx += 1
            if nx <= 3:
                run.report("correspondence", {"request": r, "kind": "expand"}, {"impl": a, "model": b},
                           broken="spec dict_expand differs from TransformDictionaryWord on `%s`" % r, found_input=False)
    cases, meta = gen_cases(run, thorough)
    impl = vlib.run_lines(impl_exe, cases, timeout=2400)
    ans = vlib.run_lines(model, ["A %d %s" % (used_dict_len(m, m.get("quality", 5), m.get("lgwin", 22)), i) for m, i in zip(meta, impl)],
                         timeout=2400, args=margs)
    stats = {}
    nontrivial = set()
    # two passes: property failures with a concrete input first, disagreements with the model afterwards,
    # so that the report cap never hides a failing input behind correspondence-only reports
    real_report = run.report
    for phase in ("spec", "correspondence"):
        def filtered(kind, *aa, **kw):
            if (kind == "correspondence") == (phase == "correspondence"):
                real_report(kind, *aa, **kw)
        run.report = filtered
        cap = 12 if phase == "spec" else len(run.violations) + 6
        st = stats if phase == "spec" else {}
        for req, m, i, a in zip(cases, meta, impl, ans):
            if i.startswith("TOOL"):
                run.report("spec-violation", {"request": req, "kind": m["kind"], "quality": m.get("quality", -1), "lgwin": m.get("lgwin", -1), "dict_len": m.get("dict_len", 0)},
                           {"impl": i[:300]}, what="harness process died on this case")
                continue
            if len(run.violations) >= cap:
                run.note("%d violations recorded; the remaining cases of this run are not evaluated for %s" % (len(run.violations), phase))
                break
            evaluate(run, req, m, i, a, st)
            _, _, v = parse_line(i)
            if int(v.get("NMB", 0)) >= 1 and int(v.get("NCOPY", 0)) + int(v.get("NDICT", 0)) >= 1:
                nontrivial.add(req)
    run.report = real_report
    run.cov["evaluations"] = len(cases) + len(xr)
    run.cov["distinct_nontrivial"] = len(nontrivial)
    run.cov["rule"] = ("cases = (parameters, input recipe, optional custom dictionary, call history / entry point); grid quality 2-11 x lgwin 10-24; "
                       "catable/appendable/magic/FONT/TEXT/no-context-modelling/no-dictionary/size-hint/lgblock flag sets; every level of stride (152), "
                       "high-entropy (153), cdf (155), prior-bitmask (156) detection alone and combined; custom dictionaries of 1,2,3,30,300, window-17..window-15, "
                       "> window bytes with inputs built from dictionary slices; inputs 2-3x the ring buffer with shifted block starts (meta-blocks wrapping "
                       "the ring buffer); large window; BrotliCompressCustomIo[CustomDict] with 1-byte..100 kB buffers.  distinct_nontrivial = distinct requests "
                       "whose IR contains at least one Copy or Dict command; evaluations also count the dict_expand-vs-TransformDictionaryWord requests")
    run.cov["traces_validated_against_impl"] = stats.get("agree", 0)
    run.cov["stats"] = stats
    run.cov["expansions_compared"] = len(xr)
    run.cov["tables"] = t
    kinds = {}
    for m in meta:
        kinds[m["kind"]] = kinds.get(m["kind"], 0) + 1
    run.cov["case_kinds"] = kinds
    run.cov["quality_hist"] = {str(q): sum(1 for m in meta if m.get("quality") == q) for q in range(2, 12)}
    run.cov["reached"] = {"ring_buffer_wrap_meta_blocks": stats.get("WRAP", 0), "copies_into_custom_dictionary": stats.get("DCOPY", 0),
                          "dictionary_commands": stats.get("NDICT", 0), "block_switches": stats.get("NSW", 0), "meta_blocks": stats.get("NMB", 0)}
    run.cov["unreached"] = [k for k, x in run.cov["reached"].items() if not x]
    run.cov["samples"] = [cases[0], cases[len(cases) // 3], cases[2 * len(cases) // 3], cases[-1]]
    run.note("cases=%d stats=%s" % (len(cases), stats))
    if not ok_proof and not run.violations:
        run.report("proof-obligation", {"stage": "proof"}, {"broken": broken}, broken="; ".join(b[:400] for b in broken), found_input=False)


def replay(path):
    d = json.load(open(path))
    req = d["case"].get("request")
    if not req:
        print("replay file has no request (kind=%s): %s" % (d.get("kind"), d.get("broken")))
        return 1
    vlib.coq_regen(["Arith"])
    _, _, impl_exe = build_harness("dev")
    _, _, model, _ = build_model()
    i = vlib.run_lines(impl_exe, [req])[0]
    if req.startswith("X "):
        b = vlib.run_lines(model, [req], args=[DICT_TXT])[0]
        print("request: %s\nimpl:  %s\nmodel: %s" % (req, i, b))
        return 0 if i == b else 1
    c = d["case"]
    a = vlib.run_lines(model, ["A %d %s" % (used_dict_len(c, c.get("quality", 5), c.get("lgwin", 22)), i)], args=[DICT_TXT])[0]
    status, recs, v = parse_line(i)
    parts = (a.split(" | ") + ["?", "?", "?"])[:3]
    print("request: %s" % req)
    print("impl:  %s ; %d meta-blocks ; %s" % (status[:300], len(recs), " ".join("%s=%s" % kv for kv in v.items())))
    print("       ir hashes " + ",".join("%s:%s" % (f.get("irh", "-"), f.get("nbe", "?")) for f in recs)[:600])
    print("model: %s" % parts[0][:600])
    print("spec:  %s (extracted ir_run on the implementation's IR) ; hypothesis cmds_ok: %s" % (parts[1], parts[2]))
    good = status == "OK" and v.get("REPLAY") == "ok" and v.get("TILE") == "ok" and parts[1] == "OK"
    return 0 if good else 1
