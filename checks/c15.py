"""C15 - the header declares the requested window; the magic header states mode and size hint."""
import json, os
import vlib

PROP = "C15"
LEVEL = "proof"
I32MIN, I32MAX = -(1 << 31), (1 << 31) - 1
QUALITIES = list(range(0, 12)) + [I32MIN, -5, -1, 12, 100, I32MAX]      # out-of-range ones are clamped
LGWINS = list(range(-5, 41))
LGWIN_EXTREMES = [I32MIN, I32MAX]
HINTS = [0, 1, 127, 128, 1 << 14, 1 << 21, (1 << 32) - 1]
FLAGS = [(lw, cat, app, dic, mg) for lw in (0, 1) for cat in (0, 1) for app in (0, 1) for dic in (0, 1) for mg in (0, 1)]


def input_len(spec):
    """length of the input the harness generates for an input spec (harness/src/bin/c15.rs make_input)."""
    t = spec.split(":")
    if t[0] == "0":
        return 0
    seed = int(t[1])
    if t[0] == "1":
        return 20 + seed % 30
    return 2 * (35000 + seed % 500)


def line(via, q, lgwin, lw, cat, app, dic, mg, hint, inp):
    return "E %s %d %d %d %d %d %d %d %d %s" % (via, q, lgwin, lw, cat, app, dic, mg, hint, inp)


def gen_cases(run, thorough):
    rng = run.rng
    cases = []
    seed1 = rng.randrange(1, 1 << 20)
    seed2 = rng.randrange(1, 1 << 20)
    small_inputs = ["0", "1:%d" % seed1]
    # 1. the exhaustive grid of the property's quantifier on the empty and the short input
    for q in QUALITIES:
        for lg in LGWINS:
            for (lw, cat, app, dic, mg) in FLAGS:
                for h in HINTS:
                    for inp in small_inputs:
                        cases.append(line("D", q, lg, lw, cat, app, dic, mg, h, inp))
    # extremes of i32 for lgwin
    for q in QUALITIES:
        for lg in LGWIN_EXTREMES:
            for (lw, cat, app, dic, mg) in FLAGS:
                cases.append(line("D", q, lg, lw, cat, app, dic, mg, rng.choice(HINTS), small_inputs[1]))
    # 2. the 70 KB input (second half repeats the first: distances beyond small windows)
    big = "2:%d" % seed2
    if thorough:
        for q in QUALITIES:
            for lg in LGWINS:
                for (lw, cat, app, dic, mg) in FLAGS:
                    for h in HINTS:
                        cases.append(line("D", q, lg, lw, cat, app, dic, mg, h, big))
    else:
        # every (quality, lgwin, large_window) with six random settings of the other parameters,
        # and every flag combination x size hint on a few windows
        for q in QUALITIES:
            for lg in LGWINS:
                for lw in (0, 1):
                    for _ in range(6):
                        cat, app, dic, mg = (rng.randrange(2) for _ in range(4))
                        cases.append(line("D", q, lg, lw, cat, app, dic, mg, rng.choice(HINTS), big))
        for q in (0, 1, 2, 5, 9, 11):
            for lg in (10, 16, 17, 18, 24, 30):
                for (lw, cat, app, dic, mg) in FLAGS:
                    cases.append(line("D", q, lg, lw, cat, app, dic, mg, rng.choice(HINTS), big))
    # 3. the same settings through set_parameter with the `as u32` casts (Rust level and C ABI)
    s_hints = [0, 77, (1 << 32) - 1] if thorough else [77]
    for via in ("S", "F"):
        for q in QUALITIES:
            for lg in LGWINS + LGWIN_EXTREMES:
                for lw in (0, 1):
                    for cat in (0, 1):
                        for app in (0, 1):
                            for mg in (0, 1):
                                for h in s_hints:
                                    cases.append(line(via, q, lg, lw, cat, app, 1 - cat, mg, h, small_inputs[1]))
        for _ in range(400 if thorough else 60):
            q, lg = rng.choice(QUALITIES), rng.choice(LGWINS)
            lw, cat, app, mg = (rng.randrange(2) for _ in range(4))
            cases.append(line(via, q, lg, lw, cat, app, 1 - cat, mg, rng.choice(HINTS), big))
    # 5. call HISTORIES before (and between) the first data bytes: the header clause must hold whatever
    #    the client does first - flush, empty process, metadata, take_output, tiny output buffers,
    #    CompressorWriter::flush() right after construction
    scripts = ["f", "p", "p,f", "f,f", "m5", "m0", "m1", "m64,f", "t", "t,f,t", "f,m3,f", "p,m1,p", "W", "d1,f", "d1,m2",
               "d0,f", "d2,f,d1,f", "f,d3,m7", "m5,m5", "t,p,t,m2,t"]
    h_lgwins = [-5, 10, 16, 17, 18, 22, 24, 26, 30, 40]
    h_hints = [0, 127, (1 << 32) - 1]
    for q in list(range(0, 12)) + [-1, 100]:
        for lg in h_lgwins:
            for lw in (0, 1):
                for (cat, app, dic) in ((0, 0, 1), (0, 1, 1), (1, 1, 0), (1, 0, 1)):
                    for mg in (0, 1):
                        for sc in scripts:
                            if not thorough and rng.randrange(3):      # quick: a third of the product, all of it in thorough
                                continue
                            cases.append(line("D", q, lg, lw, cat, app, dic, mg, rng.choice(h_hints), small_inputs[1]).replace("E ", "H ", 1)
                                         + " %s %d" % (sc, rng.choice([0, 0, 1, 3, 17])))
    for _ in range(6000 if thorough else 800):
        q, lg = rng.choice(QUALITIES), rng.choice(h_lgwins)
        lw, mg = rng.randrange(2), rng.randrange(2)
        cat, app, dic = rng.choice(((0, 0, 1), (0, 1, 1), (1, 1, 0)))
        sc = rng.choice([x for x in scripts if "d" not in x])
        cases.append(line("D", q, lg, lw, cat, app, dic, mg, rng.choice(h_hints), big).replace("E ", "H ", 1)
                     + " %s %d" % (sc, rng.choice([0, 0, 1, 17, 4096])))
    # 4. base-128 numbers (observed through the magic block: the function is private)
    nums = set([0, 1, (1 << 64) - 1, 1 << 63, (1 << 32) - 1, 1 << 32])
    for k in range(1, 10):
        for d in (-1, 0, 1):
            nums.add((1 << (7 * k)) + d)
    for k in range(0, 64):
        nums.add(1 << k)
    for _ in range(2000 if thorough else 300):
        nums.add(rng.randrange(0, 1 << rng.randrange(1, 65)))
    cases += ["B %d" % n for n in sorted(nums)]
    # spread the expensive (70 KB) cases evenly over the parallel shards
    rng.shuffle(cases)
    return cases


def known_input(t):
    """input bytes the encoder knows when it writes the header (the size-hint estimate): everything for a
    single FINISH call; for a call history, what was given before the first operation that makes the
    encoder emit (flush, metadata, or the final FINISH)"""
    total = input_len(t[10])
    if t[0] != "H":
        return total
    given = 0
    for it in t[11].split(","):
        if it == "W" or it[0] in "fm":
            return given
        if it[0] == "d":
            given = min(total, given + int(it[1:]))
    return total


def model_request(c):
    """the request sent to the model: the input spec is replaced by the number of known input bytes"""
    t = c.split()
    if t[0] in ("E", "H"):
        return " ".join(["E"] + t[1:10] + [str(known_input(t))])
    return c


def spec_request(c, impl):
    t = c.split()
    if t[0] in ("E", "H"):
        a = impl.split()
        return "S " + " ".join(["E"] + t[1:10] + [str(known_input(t)), a[1]])
    return "S " + c + " " + impl


def header_agrees(impl_hex, model_ans):
    """model answer `<nbits> <hex>`: the first nbits bits of the real stream must equal the model's"""
    nb, mh = model_ans.split()
    nb = int(nb)
    if impl_hex == "-":
        return nb == 0
    ib, mb = bytes.fromhex(impl_hex), bytes.fromhex(mh)
    full, part = nb // 8, nb % 8
    if len(ib) < (nb + 7) // 8 or ib[:full] != mb[:full]:
        return False
    if part:
        m = (1 << part) - 1
        return (ib[full] & m) == (mb[full] & m)
    return True


def decoders_verdict(c, a):
    """spec on the implementation alone, part 2: who must be able to decode the stream.
    returns None when fine, else a description"""
    t = c.split()
    lw = t[4] == "1"
    f = dict(x.split("=") for x in a.split()[3:])
    if f.get("rt") != "1":
        return "brotli-decompressor does not return the input"
    if f.get("glw") != "1":
        return "libbrotlidec (large window allowed) does not return the input"
    want = "0" if lw else "1"
    if f.get("g") != want:
        return "libbrotlidec without the large-window option %s the stream (large window %srequested)" % (
            "accepts" if f.get("g") == "1" else "rejects", "" if lw else "not ")
    if f.get("strict") != want:
        return "brotli-decompressor new_strict %s the stream (large window %srequested)" % (
            "accepts" if f.get("strict") == "1" else "rejects", "" if lw else "not ")
    return None


def nontrivial(c):
    t = c.split()
    if t[0] == "B":
        return int(t[1]) >= 128
    q, lg = int(t[2]), int(t[3])
    lw, mg = t[4] == "1", t[8] == "1"
    return lw or mg or q <= 1 or q > 11 or lg < 10 or lg > 24 or lg in (16, 17)


def build(run):
    ok_proof, broken = vlib.proof_stage(run, "props/C15.v", ["Header"], extra_trusted=[
        "check_large_window_ok() taken as true (cargo feature disallow_large_window_size off, as in the harness build)",
        "decoding oracles: brotli-decompressor 4.0.3 (new / new_strict) and Google libbrotlidec 1.0.9 loaded with dlopen",
        "spec/Header.v readers hand-written from RFC 7932 section 9 and the large-window extension of the reference decoder"])
    okx, logx = vlib.coq_extract("C15")
    okm, logm, model = vlib.ocaml_build("C15", "c15_driver.ml")
    if not (okx and okm):
        run.note("model rebuild failed (%s); using last built executable model if present" % (logx[-300:] if not okx else logm[-300:]))
        if ok_proof:
            broken.append("extraction/driver build failed")
            ok_proof = False
    return ok_proof, broken, model, (logx + logm)


def check(run):
    thorough = run.tier == "thorough"
    ok_proof, broken, model, mlog = build(run)
    if not os.path.exists(model):
        run.report("proof-obligation", {"stage": "model build"}, {"log": mlog[-2000:]},
                   broken="executable model could not be built", found_input=False)
        return
    okh, logh, impl_exe = vlib.harness_build("c15", "dev")
    if not okh:
        run.report("proof-obligation", {"stage": "harness build"}, {"log": logh[-3000:]},
                   broken="harness does not build against /repo (API changed?)", found_input=False)
        return
    cases = gen_cases(run, thorough)
    run.cov["rule"] = (
        "exhaustive grid of the quantifier: quality 0-11 + clamped out-of-range values {i32::MIN,-5,-1,12,100,i32::MAX} x lgwin -5..40 x "
        "large_window x catable x appendable x use_dictionary x magic_number x size_hint {0,1,127,128,2^14,2^21,2^32-1} on the empty and a "
        "short text input (parameters written into the public params fields), lgwin i32 extremes, the same through set_parameter with "
        "`as u32` casts (Rust level and C ABI), a 70 KB input whose second half repeats the first (full grid in the thorough tier, a "
        "covering sample in quick), 20 call histories before/between the first data bytes (flush, empty process, EMIT_METADATA, take_output, "
        "split data, CompressorWriter::flush() first) x output chunk sizes {64K,1,3,17} over quality x window x flags x magic (a third of the "
        "product in quick, all in thorough), base-128 numbers at every 7-bit boundary +-1, powers of two and PRNG values; one stream per case "
        "through the real streaming encoder; distinct_nontrivial = distinct request lines in which something other than the default "
        "header is exercised (large window, magic block, quality <= 1 or clamped, lgwin clamped or 16/17, numbers >= 128)")
    impl = vlib.run_lines(impl_exe, cases, timeout=3000)
    mod = vlib.run_lines(model, [model_request(c) for c in cases])
    sidx = [k for k, a in enumerate(impl) if a.startswith("OK ") or (cases[k].startswith("B ") and not a.startswith(("PANIC", "ERR", "TOOL", "BAD", "DEC")))]
    sreq = [spec_request(cases[k], impl[k]) for k in sidx]
    sp = dict(zip(sidx, vlib.run_lines(model, sreq)))
    nviol = ncorr = 0
    hist = {"via": {}, "wbits_form": {}, "magic_block": 0, "clamped_lgwin": 0, "clamped_quality": 0, "input": {}}
    for k, (c, a, m) in enumerate(zip(cases, impl, mod)):
        t = c.split()
        why = None
        if t[0] in ("E", "H"):
            if t[0] == "H":
                hist.setdefault("histories", {})
                hist["histories"][t[11]] = hist["histories"].get(t[11], 0) + 1
            hist["via"][t[1]] = hist["via"].get(t[1], 0) + 1
            hist["input"][t[10][0]] = hist["input"].get(t[10][0], 0) + 1
            if not a.startswith("OK "):
                why = "no stream produced: " + a[:200]
            elif sp.get(k) != "OK":
                why = "header: " + str(sp.get(k))
            else:
                why = decoders_verdict(c, a)
                first = bytes.fromhex(a.split()[1])[0] if a.split()[1] != "-" else 0
                form = "14-bit" if (first & 0x7f) == 0x11 else ("1-bit" if first & 1 == 0 else ("4-bit" if first & 0xe else "7-bit"))
                hist["wbits_form"][form] = hist["wbits_form"].get(form, 0) + 1
                if t[8] == "1":
                    hist["magic_block"] += 1
                if not 10 <= int(t[3]) <= (30 if t[4] == "1" else 24):
                    hist["clamped_lgwin"] += 1
                if not 0 <= int(t[2]) <= 11:
                    hist["clamped_quality"] += 1
        else:
            if a.startswith(("PANIC", "ERR", "TOOL", "BAD")):
                why = "no stream produced: " + a[:200]
            elif sp.get(k) != "OK":
                why = "base-128: " + str(sp.get(k))
        if why is not None:
            nviol += 1
            if len(run.violations) < 5:
                run.report("spec-violation", {"request": c}, {"impl": a, "model": m, "spec": why}, what=why)
            continue
        agrees = header_agrees(a.split()[1], m) if t[0] in ("E", "H") else (a == m)
        if not agrees:
            ncorr += 1
            if ncorr <= 5:
                run.report("correspondence", {"request": c}, {"impl": a, "model": m, "spec": "OK"},
                           broken="correspondence model/Header.v vs encode.rs / brotli_bit_stream.rs on `%s`" % c, found_input=False)
    run.note("%d cases, %d spec failures, %d model disagreements" % (len(cases), nviol, ncorr))
    run.cov["evaluations"] = len(cases)
    run.cov["distinct_nontrivial"] = len(set(c for c in cases if nontrivial(c)))
    run.cov["traces_validated_against_impl"] = len(cases)
    run.cov["exhaustive"] = True
    run.cov["exhaustive_note"] = ("the configuration grid of the property's quantifier is enumerated completely on the empty and the short "
                                  "input in both tiers, and on the 70 KB input in the thorough tier; inputs themselves are sampled")
    run.cov["histograms"] = hist
    run.cov["samples"] = [{"request": cases[k], "impl": impl[k][:120], "model": mod[k]} for k in
                          (0, len(cases) // 5, len(cases) // 2, (4 * len(cases)) // 5, len(cases) - 1)]
    if not ok_proof and not run.violations:
        run.report("proof-obligation", {"stage": "proof"}, {"broken": broken}, broken="; ".join(b[:400] for b in broken), found_input=False)


def replay(path):
    d = json.load(open(path))
    req = d["case"].get("request")
    if not req:
        print("replay file has no request (kind=%s): %s" % (d.get("kind"), d.get("broken")))
        return 1
    vlib.coq_regen(["Header"])
    _, _, impl_exe = vlib.harness_build("c15", "dev")
    vlib.coq_extract("C15")
    _, _, model = vlib.ocaml_build("C15", "c15_driver.ml")
    a = vlib.run_lines(impl_exe, [req])[0]
    m = vlib.run_lines(model, [model_request(req)])[0]
    if req.startswith(("E", "H")):
        if a.startswith("OK "):
            s = vlib.run_lines(model, [spec_request(req, a)])[0]
            if s == "OK":
                s = decoders_verdict(req, a) or "OK"
            agree = header_agrees(a.split()[1], m)
        else:
            s, agree = "no stream produced", False
    else:
        bad = a.startswith(("PANIC", "ERR", "TOOL", "BAD"))
        s = "no stream produced" if bad else vlib.run_lines(model, [spec_request(req, a)])[0]
        agree = a == m
    print("request: %s\nimpl:  %s\nmodel: %s (%s)\nspec:  %s" % (req, a, m, "agrees" if agree else "DISAGREES", s))
    return 0 if (s == "OK" and agree) else 1
