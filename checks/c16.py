"""C16 - the concatenator is total on arbitrary bytes: stream/finish return a result code without
panicking, keep their cursors inside the buffers, report NeedsMoreInput / NeedsMoreOutput only
when the input is consumed / the output is full, and make progress under the protocol."""
import json
import vlib
from checks.concat_common import *

PROP = "C16"
LEVEL = "proof"


def continuations(rng, thorough):
    """representative continuations after a 2-byte prefix: every MNIBBLES / reserved / MSKIPBYTES /
    ISUNCOMPRESSED pattern lands in the next 3 bytes for some WBITS form"""
    base = [b"", b"\x00", b"\x00\x00", b"\x00\x00\x00", b"\xff\xff\xff", b"\x03\x00\x00\x00\x00", b"\xff\xff\xff\xff\xff\xff",
            b"\x00\x00\x00\x80\x03", b"\x00\x10\x61\x03", b"\x00\x00\x00\x00\x01\x03", b"\x01\x00\x00\x40\x00\x03",
            b"\x80\x00\x00\x00\x00\x00\x00\x03"]
    more = [bytes(rng.randrange(256) for _ in range(rng.choice([1, 2, 3, 4, 6, 9]))) for _ in range(12)]
    allc = base + more
    return allc if thorough else base[:3] + [base[5], base[7], base[9]] + more[:2]


def sweep_lines(contl):
    conts = ",".join(hx(c) for c in contl)
    thorough = len(contl) > 10
    first = "F+C" + hx(handmade(4, 24, "raw", 4, b"first")[0])
    big = "F+C" + hx(handmade(14, 30, "raw", 4, b"first member")[0])
    contexts = [("N", "new", "-", "64", "-", "-"),              # as the very first member, one buffer
                ("N", "new", "-", "64", "-", first),            # as a second member
                ("N", "new", "-", "p:1,0,3", "1,1,1,1,1,2", big),  # byte-wise, tiny / zero output space
                ("N", "w15", "all", "3", "4", "-"),             # straddling initial marker, 4+rest, save/restore
                ("F", "w30", "-", "p:2", "5", first)]           # C ABI
    if thorough:
        contexts += [("N", "w22", "-", "1", "2,3", first), ("F", "new", "-", "p:0,1", "3,2", big),
                     ("N", "new", "3,5,6", "7", "1,4", first + "+" + big)]
    lines = []
    for ctx in contexts:
        for b0 in range(256):
            lines.append("SWEEP %s %s %s %s %d %s %s %s" % (ctx[0], ctx[1], ctx[2], ctx[3], b0, ctx[4], conts, ctx[5]))
    return lines


def tail_sweep_lines(thorough):
    """member-boundary sweeps over the retained tail: the swept member is head t0 t1, so that every 2-byte
    value (and, with the 3-byte head that makes a 5-byte member, every 1-byte value) is what
    flush_previous_stream finds when the next member starts - zero, single bits, no end marker included"""
    heads = "0b0080,0b008061,0b0080616263646566"        # 5-byte member (1-byte tail), 6-byte member, longer
    first = "F+C" + hx(handmade(4, 24, "raw", 4, b"first")[0])
    nxt_ok = "F+C0b00806103"                                # a valid catable member
    nxt_two = "F+C0b0080+C6103+F+C3b"                       # the same cut in two, then a short member
    nxt_short = "F+C3b"                                     # shorter than the look-ahead
    nxt_bad = "F+Cffffffffffff"                             # rejected header
    nxt_meta = "F+C" + hx(handmade(7, 15, "meta", 1, b"M", b"T")[0])
    contexts = [("N", "new", "-", "64", "-", nxt_ok, "-"),
                ("N", "new", "-", "p:1,0,2", "1,1,1,1,1,2", nxt_two, first),
                ("N", "w24", "all", "3", "4", nxt_short, "-"),
                ("F", "new", "-", "p:2", "5", nxt_bad, first)]
    if thorough:
        contexts += [("N", "w30", "-", "1", "2,3", nxt_meta, "-"), ("F", "w15", "-", "p:0,1", "3,2", nxt_ok, first),
                     ("N", "new", "1,2,4", "p:5,0", "-", nxt_meta, first), ("N", "w22", "-", "2", "-", nxt_short, first)]
    lines = []
    for ctx in contexts:
        for t0 in range(256):
            lines.append("TSWEEP %s %s %s %s %d %s %s %s %s" % (ctx[0], ctx[1], ctx[2], ctx[3], t0, ctx[4], heads, ctx[5], ctx[6]))
    return lines


def expand_sweep(line, only=None):
    """the individual RUN lines of one SWEEP / TSWEEP line (all of them, or the sub-case indices in `only`)"""
    t = line.split()
    caps = t[4]
    ncaps = len((caps[2:] if caps.startswith("p:") else caps).split(","))
    sizes = [] if t[6] == "-" else [int(x) for x in t[6].split(",")]
    var = [unhx(c) for c in t[7].split(",")]
    if t[0] == "SWEEP":
        pre, post = ([] if t[8] == "-" else t[8].split("+")), []
    else:
        post, pre = ([] if t[8] == "-" else t[8].split("+")), ([] if t[9] == "-" else t[9].split("+"))
    extra = sum((len(x) - 1) // 2 for x in pre + post if x.startswith("C") and x != "C-")
    out, n = [], 0
    for b1 in range(256):
        for v in var:
            if only is None or n in only:
                m = (bytes([int(t[5]), b1]) + v) if t[0] == "SWEEP" else (v + bytes([int(t[5]), b1]))
                tasks = pre + ["F"] + ["C" + hx(x) for x in (chunks(m, sizes) if sizes else [m])] + post + ["X"]
                out.append("RUN %s %s %s %s %d %s" % (t[1], t[2], t[3], caps, fuel_for(len(tasks), extra + len(m), ncaps), " ".join(tasks)))
            n += 1
    return out


def boundary_scripts(rng, thorough):
    """member boundaries under every small amount of free output space: 0, 1 or 2 free bytes at every call
    index (a fresh buffer per call) and every small persistent buffer size, with the next member's
    look-ahead arriving whole (>= 5 input bytes in that call) as well as cut"""
    preds = [("new", [handmade(4, 24, "raw", 4, b"first")[0]]), ("new", [unhx("8b0280482e15cae75003")]), ("w30", []), ("w15", []), ("w22", []),
             ("new", [unhx("0b00806103")])]
    nexts = [unhx("0b00806103"), handmade(4, 22, "meta", 1, b"M", b"T")[0], handmade(7, 15, "raw", 4, b"hello world")[0],
             handmade(1, 16, "meta", 0, b"", b"xy")[0], handmade(14, 20, "raw", 4, b"abc")[0], b"\xff" * 6, b"\x00" * 7,
             bytes(rng.randrange(256) for _ in range(9))]
    if thorough:
        nexts += [bytes(rng.randrange(256) for _ in range(rng.randrange(5, 14))) for _ in range(8)]
    out = []
    for init, pre in preds:
        for nx in nexts:
            ms = pre + [nx, unhx("3b")]
            for sl in (None, [5], [8], [4, 1], [3, 2], [1] * 16):
                sls = [sl] * len(ms) if sl is not None else None
                for k in range(0, 8 if sl is None or len(sl) < 4 else 14):
                    for free in (0, 1, 2):
                        out.append(("boundary", mk_run(ms, sls, [BIG] * k + [free] + [BIG] * 40, "N", init, "-", percall=True)))
            base = sum(len(m) for m in pre)
            for cap in range(1, 12):
                for sl in (None, [5], [8]):
                    out.append(("boundary", mk_run(ms, [sl] * len(ms) if sl is not None else None, [max(1, base - 3 + cap)], rng.choice("NNF"), init, "-")))
                    out.append(("boundary", mk_run(ms, [sl] * len(ms) if sl is not None else None, [cap], "N", init, "-")))
    return out


def header_forms(rng):
    """every header form built structurally: WBITS form x first block kind, valid and broken"""
    out = []
    for form, lg in WFORMS:
        for islast in (0, 1):
            for kind in ("meta0", "meta1", "meta2", "meta3", "raw4", "raw5", "raw6", "cmp4", "cmp6", "res", "empty"):
                w = put_wbits(BitW(), form, lg)
                if kind == "empty":
                    w.put(1, 1).put(1, 1)
                else:
                    w.put(islast, 1)
                    if islast:
                        w.put(0, 1)
                    if kind.startswith("meta") or kind == "res":
                        k = int(kind[4]) if kind != "res" else 1
                        w.put(3, 2).put(1 if kind == "res" else 0, 1).put(k, 2)
                        if k:
                            w.put((1 << (8 * (k - 1))) + 2 if k > 1 else 2, 8 * k)
                        w.align()
                    else:
                        nib = int(kind[3])
                        w.put(nib - 4, 2).put((1 << (4 * (nib - 1))) + 1 if nib > 4 else 2, 4 * nib)
                        w.put(1 if kind.startswith("raw") else 0, 1).align()
                hdr = w.bytes()
                for body in (b"", b"abc\x03", b"abcdefgh" * 3 + b"\x03", b"\x00" * 7):
                    out.append((("form%d" % form, lg, islast, kind), hdr + body))
    return out


def gen_scripts(run, tools, thorough):
    rng = run.rng
    scripts = boundary_scripts(rng, thorough)   # (tag, line)
    forms = header_forms(rng)
    firsts = [("new", []), ("new", [handmade(4, 24, "raw", 4, b"hello")[0]]), ("w30", []), ("w15", []),
              ("new", [unhx("8b0280482e15cae75003")]), ("w24", [handmade(14, 24, "meta", 1, b"xy", b"t")[0]])]
    slic = [None, [1] * 64, [4], [5], [2, 3], [3, 1, 1, 1, 1, 2]]
    capsl = [([BIG], False), ([1], False), ([1], True), ([0, 2], True), ([3], False), ([1, 0], True)]
    for tag, m in forms:
        for (init, pre) in (firsts if thorough else firsts[:4]):
            for k in range(3 if thorough else 2):
                sl = rng.choice(slic)
                caps, pc = rng.choice(capsl)
                ms = pre + [m]
                scripts.append((tag, mk_run(ms, [sl] * len(ms) if sl is not None else None, caps, rng.choice("NNF"), init,
                                            rng.choice(["-", "-", "all", "1,2,5"]), percall=pc)))
    # mutated real streams, 1..6 members
    cs = contents(rng, False)[:20]
    enc = [enc_line(q, lg, fl, c) for c in cs for (q, lg, fl) in [(5, 22, "a"), (5, 22, "c"), (2, 18, "cm"), (9, 16, "c"), (7, 28, "cl"), (4, 20, "-")]]
    res = tools.impl(enc)
    mem = [unhx(r.split()[1]) for r in res if r.startswith("OK")]
    mem = [m for m in mem if len(m) < 400]
    nmut = 6000 if thorough else 1500
    for _ in range(nmut):
        k = rng.randrange(1, 7)
        ms = []
        for _ in range(k):
            m = bytearray(rng.choice(mem))
            mode = rng.randrange(5)
            if mode == 0 and m:
                for _ in range(rng.randrange(1, 4)):
                    m[rng.randrange(len(m))] ^= 1 << rng.randrange(8)
            elif mode == 1:
                m = m[:rng.randrange(0, len(m) + 1)]
            elif mode == 2:
                m = bytearray(rng.randrange(256) for _ in range(rng.randrange(0, 12)))
            elif mode == 3 and len(m) > 2:
                m[rng.randrange(min(5, len(m)))] = rng.randrange(256)
            ms.append(bytes(m))
        sls = [rng.choice(slic) for _ in ms]
        sls = [(s if s is not None else [len(m) + 1]) for s, m in zip(sls, ms)]
        caps, pc = rng.choice(capsl)
        scripts.append(("mut", mk_run(ms, sls, caps, rng.choice("NNF"), rng.choice(["new", "new", "w22", "w10", "w17", "w30"]),
                                      rng.choice(["-", "all", "0,3,4,9"]), percall=pc)))
    return scripts


def spec_verdict(tools, answers):
    return tools.model(["S16 " + a for a in answers])


def check(run):
    thorough = run.tier == "thorough"
    ok_proof, broken = vlib.proof_stage(run, "props/C16.v", GEN_SECTIONS, TRUSTED)
    profiles = ("dev", "release") if thorough else ("dev",)
    tools = Tools(run, profiles)
    if tools.problems:
        run.note("; ".join(tools.problems)[:600])
    if not tools.ok:
        run.report("proof-obligation", {"stage": "build"}, {"log": tools.problems}, broken="harness or executable model could not be built: " + "; ".join(tools.problems)[:400], found_input=False)
        return
    contl = continuations(run.rng, thorough)
    sweeps = sweep_lines(contl)
    tsweeps = tail_sweep_lines(thorough)
    nprefix = len(sweeps)
    sweeps = sweeps + tsweeps
    scripts = gen_scripts(run, tools, thorough)
    lines = [l for _, l in scripts]
    run.cov["rule"] = ("sweeps: every 2-byte prefix (65 536) x %d continuations x %d contexts (first/second member, window override, byte-wise feeding, "
                       "zero/tiny output space, save/restore, C ABI), and every retained 2-byte tail value (65 536) x 1-/2-byte tail length x next-member "
                       "kinds (valid, cut, short, rejected) x contexts at a member boundary, enumerated inside both drivers and compared by hash; scripts: "
                       "member boundaries with 0/1/2 free output bytes at every call index and every small persistent buffer size x whole/cut look-ahead; every WBITS form x "
                       "ISLAST x first-block kind (metadata MSKIPBYTES 0-3, uncompressed MNIBBLES 4-6, compressed, reserved bit, empty) x bodies x contexts, "
                       "and 1-6 mutated/truncated/random members with random slicing, output sizes, save/restore and API. distinct_nontrivial = distinct "
                       "script lines whose run reaches shift_and_check_new_stream_header or an error/panic outcome (some call shows num_bytes_written set, "
                       "or the final code is not Success), plus sweep sub-cases counted by the drivers"
                       % (len(contl), nprefix // 256))
    evals, nbad, nspec, corr = 0, 0, 0, []
    finals, reached = {}, set()
    for prof in profiles:
        # ---- sweeps
        si = tools.impl(sweeps, prof, timeout=2700)
        sm = tools.model(sweeps, timeout=2700) if prof == "dev" else sm
        # sweep lines on which implementation and model disagree, or the spec fails, are expanded into
        # individual scripts: first the sub-cases that panicked / looped / failed the spec (concrete
        # failing inputs), then - for lines that only disagree - a few whole lines
        flagged, differing = [], []
        for l, a, m in zip(sweeps, si, sm):
            ma = m.split(" spec=")[0]
            try:
                evals += int(a.split()[0][2:])
            except Exception:
                pass
            if a == ma and "spec=- inv=-" in m:
                continue
            idx = set()
            for src, key in ((a, "bad="), (m, "bad="), (m, "spec="), (m, "inv=")):
                for tok in src.split():
                    if tok.startswith(key) and tok != key + "-":
                        idx |= set(int(x) for x in tok[len(key):].split(","))
            (flagged if idx else differing).append((l, idx))
        extra = []
        for l, idx in flagged[:40]:
            extra += expand_sweep(l, set(sorted(idx)[:6]))
        for l, _ in differing[:(2 if flagged else 4)]:
            extra += expand_sweep(l)[:(600 if flagged else 4000)]
        have = set(lines)
        extra = [x for x in dict.fromkeys(extra) if x not in have]
        lines = extra + lines
        if flagged or differing:
            run.note("profile %s: %d sweep lines contain panicking/looping/spec-failing sub-cases, %d more only disagree with the model; expanded into %d scripts"
                     % (prof, len(flagged), len(differing), len(extra)))
        # ---- scripts
        ia = tools.impl(lines, prof)
        ma = tools.model(lines)
        sv = spec_verdict(tools, [canon(a) for a in ia])
        evals += len(lines)
        for l, a, m, s in zip(lines, ia, ma, sv):
            pa = parse_answer(a)
            finals[final_name(pa["final"])] = finals.get(final_name(pa["final"]), 0) + 1
            if pa["final"] != "0" or any(state_fields(r["state"])["pending"] and state_fields(r["state"])["pending"]["written"] is not None for r in pa["trace"][:40]):
                reached.add(l)
            if s.startswith("FAIL") or a.startswith("TOOL"):
                nbad += 1
                nspec += 1
                if nspec <= 5:
                    run.report("spec-violation", write_replay_case("script", l, {"profile": prof, "panic": panic_text(a)}),
                               {"impl": a[:3000], "model": m[:3000], "spec": s},
                               what="stream/finish panicked, left its buffers, broke the result-code contract or made no progress: " + s)
            elif canon(a) != m:
                nbad += 1
                if len(corr) < 4:
                    corr.append(dict(kind="correspondence", case=write_replay_case("script", l, {"profile": prof}), observed={"impl": a[:3000], "model": m[:3000], "spec": s},
                                     broken="correspondence model/Concat.v vs src/concat/mod.rs: " + first_diff(canon(a), m)))
            elif s.startswith("INV"):
                nbad += 1
                if len(corr) < 4:
                    corr.append(dict(kind="proof-obligation", case=write_replay_case("script", l, {"profile": prof}), observed={"impl": a[:3000], "model": m[:3000], "spec": s},
                                     broken="state invariant Inv (hypothesis of C16_total) violated by a reachable state: " + s))
        run.note("profile %s: %d prefix sweep lines (%d cases), %d tail sweep lines (%d cases), %d scripts, %d problems (%d with a concrete failing input)"
                 % (prof, nprefix, nprefix * 256 * len(contl), len(tsweeps), len(tsweeps) * 256 * 3, len(lines), nbad, nspec))
    run.cov["evaluations"] = evals
    run.cov["distinct_nontrivial"] = len(reached)
    run.cov["traces_validated_against_impl"] = evals
    run.cov["final_results"] = finals
    run.cov["exhaustive"] = True
    run.cov["exhaustive_note"] = "all 65 536 two-byte prefixes x the continuation set x contexts, and all 65 536 retained two-byte tails (plus all 256 one-byte tails) x next-member kinds x contexts, enumerated completely (implementation and model, compared by hash; spec applied by the model driver to identical answers)"
    run.cov["tail_sweep_lines"] = len(tsweeps)
    run.cov["samples"] = [sweeps[17], tsweeps[0], lines[0][:400], lines[len(lines) // 2][:400], lines[-1][:400]]
    # a broken correspondence / invariant is reported on its own only when the search found no failing input
    if corr and not any(v[2] for v in run.violations):
        for c in corr:
            run.report(c["kind"], c["case"], c["observed"], broken=c["broken"], found_input=False)
    if not ok_proof and not run.violations:
        run.report("proof-obligation", {"stage": "proof"}, {"broken": broken}, broken="; ".join(b[:400] for b in broken), found_input=False)


def _spec(tools, case, prof):
    line = case["request"]
    a = tools.impl([line], prof)[0]
    return tools.model(["S16 " + canon(a)])[0]


def replay(path):
    return replay_common(path, _spec)
