"""C17 - prefix codes are complete, length-limited, canonical and serialise faithfully."""
import json, os
import vlib

PROP = "C17"
LEVEL = "proof"
GEN = ["Huffman"]
FIB = [1, 1]
while FIB[-1] < (1 << 24):
    FIB.append(FIB[-1] + FIB[-2])
FIB = [f for f in FIB if f <= (1 << 24)]


def vec(v):
    return ",".join(str(x) for x in v) if len(v) else "-"


def bitwidth(n):
    """number of bits needed for symbols 0..n-1 (the encoder's max_bits)"""
    b, x = 0, n - 1
    while x:
        x >>= 1
        b += 1
    return b


# ----------------------------------------------------------------------------- generators

def fib_like_18(thorough):
    """all 18-symbol Fibonacci-like vectors: generalised Fibonacci sequences from every seed pair
    (a, b), truncated to m = 2..18 used symbols, laid out ascending / descending / by two strides
    over the 18 positions, at three scales; requested with tree limit 5 (the code length
    alphabet's limit)."""
    out = []
    top = 8 if thorough else 4
    for a in range(1, top + 1):
        for b in range(1, top + 1):
            seq = [a, b]
            while len(seq) < 18:
                seq.append(seq[-1] + seq[-2])
            for m in range(2, 19):
                for layout in range(4):
                    for scale in (1, 3, 1000):
                        c = [0] * 18
                        for k in range(m):
                            pos = (k, 17 - k, (k * 5) % 18, (k * 7 + 3) % 18)[layout]
                            c[pos] = min(seq[k] * scale, 1 << 24)
                        out.append("T 5 " + vec(c))
    return out


def rand_size(rng, thorough):
    r = rng.random()
    if r < 0.55:
        return rng.randrange(2, 33)
    if r < 0.83:
        return rng.randrange(33, 129)
    if r < (0.95 if thorough else 0.975):
        return rng.randrange(129, 401)
    return rng.randrange(401, 705)


def histogram(rng, n, shape):
    maxc = 1 << rng.randrange(1, 25)
    if shape == "geometric":
        num, den = rng.choice([(1, 2), (2, 3), (3, 4), (9, 10), (1, 3), (19, 20)])
        c, x = [], maxc
        for _ in range(n):
            c.append(max(1, x))
            x = x * num // den
    elif shape == "fibonacci":
        k = min(n, rng.randrange(2, len(FIB) + 1))
        c = FIB[:k] + [rng.choice([0, 1, 1, 2]) for _ in range(n - k)]
    elif shape == "flat":
        base = rng.randrange(1, maxc + 1)
        c = [max(1, base + rng.choice([0, 0, 0, 1, -1])) for _ in range(n)]
    elif shape == "sparse":
        c = [0] * n
        for _ in range(rng.randrange(1, max(2, n // 8) + 1)):
            c[rng.randrange(n)] = rng.randrange(1, maxc + 1)
    elif shape == "twolevel":
        heavy = rng.randrange(1, max(2, n // 10) + 1)
        c = [rng.randrange(maxc // 2 + 1, maxc + 1) if k < heavy else rng.randrange(1, 4) for k in range(n)]
    else:  # uniform random magnitudes
        c = [rng.randrange(0, 1 << rng.randrange(1, 25)) for _ in range(n)]
    c = [min(x, 1 << 24) for x in c]
    mode = rng.randrange(4)
    if mode == 1:
        rng.shuffle(c)
    elif mode == 2:
        c.reverse()
    elif mode == 3:  # punch runs of zeros (exercises the RLE of code lengths)
        for _ in range(rng.randrange(1, 4)):
            a = rng.randrange(n)
            for k in range(a, min(n, a + rng.randrange(1, 40))):
                c[k] = 0
    if not any(c):
        c[rng.randrange(n)] = rng.randrange(1, maxc + 1)
    return c


SHAPES = ["geometric", "fibonacci", "flat", "sparse", "twolevel", "random"]


def random_depths(rng, n):
    """arbitrary code length vectors with runs (C17_rle quantifies over all of them)"""
    d = []
    while len(d) < n:
        v = rng.choice([0, 0, rng.randrange(1, 16), rng.randrange(1, 16), 8])
        run = rng.choice([1, 1, 2, 3, 4, 5, 6, 7, 8, 10, 11, 12, rng.randrange(1, 140)])
        d += [v] * run
    return d[:n]


def kraft_le_one_depths(rng, n):
    """an incomplete or complete code: Kraft sum <= 1, lengths <= 15"""
    budget, d = 1 << 15, []
    for _ in range(n):
        l = rng.choice([0, 0] + list(range(1, 16)))
        if l and (1 << (15 - l)) <= budget:
            budget -= 1 << (15 - l)
            d.append(l)
        else:
            d.append(0)
    return d


def gen_cases(run, thorough):
    rng = run.rng
    cases = fib_like_18(thorough)
    nh = 9000 if thorough else 900
    shapes_seen = {}
    for k in range(nh):
        n = rand_size(rng, thorough)
        shape = SHAPES[k % len(SHAPES)]
        c = histogram(rng, n, shape)
        shapes_seen[shape] = shapes_seen.get(shape, 0) + 1
        s = vec(c)
        which = k % 4
        cases.append("B %d %s" % (rng.choice([n, n, 704 if n <= 704 else n, 1 << bitwidth(n)]), s))
        cases.append("F %d %s" % (bitwidth(n) + rng.choice([0, 0, 1]), s))
        if which == 0:
            cases.append("T 15 " + s)
        elif which == 1:
            cases.append("T 14 " + s)
        elif which == 2:
            cases.append("O " + s)
        if n <= 18 and sum(1 for x in c if x) >= 2:
            cases.append("T 5 " + s)
    nd = 3000 if thorough else 500
    for k in range(nd):
        n = rand_size(rng, thorough)
        d = random_depths(rng, n)
        cases.append("W " + vec(d))
        if k % 3 == 0:
            cases.append("D " + vec(d))
        d2 = kraft_le_one_depths(rng, n)
        cases.append("C " + vec(d2))
    # StoreSimpleHuffmanTree on every shape of 2..4 symbol code, symbols as BuildAndStoreHuffmanTree finds them
    for k in range(400 if thorough else 120):
        mb = rng.randrange(2, 11)
        asz = 1 << mb
        ns = rng.randrange(2, 5)
        syms = sorted(rng.sample(range(asz), ns))
        lens = {2: [[1, 1]], 3: [[1, 2, 2], [2, 1, 2], [2, 2, 1]],
                4: [[2, 2, 2, 2], [1, 2, 3, 3], [3, 3, 2, 1], [3, 1, 3, 2], [2, 3, 1, 3], [3, 2, 3, 1]]}[ns]
        ls = rng.choice(lens)
        d = [0] * asz
        for s_, l in zip(syms, ls):
            d[s_] = l
        cases.append("P %d %d %s %s" % (ns, mb, vec(d), vec(syms + [0] * (4 - ns))))
    for nb in range(1, 17):
        for v in (0, 1, 2, 0x5555, 0xAAAA, 0xFFFF, 0x8000, rng.randrange(65536), rng.randrange(65536)):
            cases.append("R %d %d" % (nb, v))
    run.cov["shapes"] = shapes_seen
    return cases


def ranges(thorough):
    """exhaustive count vectors over nsym <= 6 symbols, counts 0..maxc, in hashed chunks"""
    maxc = 12 if thorough else 4
    rs = []
    for nsym in range(1, 7):
        total = (maxc + 1) ** nsym
        step = 20000 if thorough else 1000
        a = 0
        while a < total:
            rs.append("E %d %d %d %d" % (nsym, maxc, a, min(total, a + step)))
            a += step
    rs += ["RH %d" % nb for nb in range(1, 17)]
    return rs, maxc


def nontrivial(c):
    t = c.split()
    if t[0] in ("T", "B", "F"):
        v = t[2].split(",")
        return sum(1 for x in v if x != "0") >= 3
    if t[0] in ("W", "C", "D", "H", "O"):
        return sum(1 for x in t[1].split(",") if x != "0") >= 3
    return t[0] == "P"


RULE = ("explicit cases: all 18-symbol Fibonacci-like vectors (every seed pair, m = 2..18 used symbols, 4 layouts, 3 scales) at "
        "limit 5; random histograms over 2..704 symbols of geometric / Fibonacci / flat / sparse / two-level / random shape with "
        "counts up to 2^24 through BuildAndStoreHuffmanTree (limit 15), BrotliBuildAndStoreHuffmanTreeFast (limit 14), "
        "BrotliCreateHuffmanTree (15/14/5), BrotliOptimizeHuffmanCountsForRle; arbitrary code length vectors through "
        "BrotliWriteHuffmanTree / DecideOverRleUse; incomplete codes (Kraft <= 1) through BrotliConvertBitDepthsToSymbols; "
        "every 2..4-symbol shape through StoreSimpleHuffmanTree; BrotliReverseBits on all 16 x 65536 arguments (hashed).  "
        "distinct_nontrivial = distinct request lines with at least three used symbols / non-zero lengths (every "
        "StoreSimpleHuffmanTree request counts).  E ranges enumerate every count vector over 1..6 symbols with counts 0..maxc.")


def classify(run, req, a, b, s, prof, nbad):
    """one case: implementation answer a, model answer b, spec verdict s on a"""
    fails_spec = (s != "OK") or a.startswith("PANIC") or a.startswith("TOOL") or a == "BADREQ"
    if fails_spec:
        if nbad < 5:
            run.report("spec-violation", {"request": req, "profile": prof}, {"impl": a[:4000], "model": b[:4000], "spec": s},
                       what="implementation's prefix code violates the RFC 7932 specification: " + s)
        return 1
    if a != b:
        if nbad < 5:
            run.report("correspondence", {"request": req, "profile": prof}, {"impl": a[:4000], "model": b[:4000], "spec": "OK"},
                       broken="correspondence model/Huffman.v vs entropy_encode.rs / brotli_bit_stream.rs on `%s`" % req[:200],
                       found_input=False)
        return 1
    return 0


def run_cases(impl_exe, model, cases):
    impl = vlib.run_lines(impl_exe, cases)
    mod = vlib.run_lines(model, cases)
    sl = ["S " + c + " " + r for c, r in zip(cases, impl)]
    sp = vlib.run_lines(model, sl)
    return impl, mod, sp


def check(run):
    thorough = run.tier == "thorough"
    ok_proof, broken = vlib.proof_stage(run, "props/C17.v", GEN,
                                        extra_trusted=["cfg(brotli_verif) hooks exposing BrotliReverseBits, StoreSimpleHuffmanTree, BuildAndStoreHuffmanTree",
                                                       "byte-array mechanics of BrotliWriteBits (compared bit for bit by the correspondence run only)"])
    okx, logx = vlib.coq_extract("C17")
    okm, logm, model = vlib.ocaml_build("C17", "c17_driver.ml")
    if not (okx and okm):
        run.note("model rebuild failed (%s); using last built executable model if present" % (logx[-300:] if not okx else logm[-300:]))
        if ok_proof:
            broken.append("extraction/driver build failed")
            ok_proof = False
    run.cov["rule"] = RULE
    if not os.path.exists(model):
        run.report("proof-obligation", {"stage": "model build"}, {"log": (logx + logm)[-2000:]},
                   broken="executable model could not be built", found_input=False)
        return
    cases = gen_cases(run, thorough)
    run.rng.shuffle(cases)   # spread the large alphabets over the shards
    rs, maxc = ranges(thorough)
    profiles = ["dev", "release"] if thorough else ["dev"]
    total_eval = 0
    retry_hist = {"0": 0, "1": 0, "2": 0, ">=3": 0}
    retry_max = 0
    for prof in profiles:
        okh, logh, impl_exe = vlib.harness_build("c17", prof)
        if not okh:
            run.report("proof-obligation", {"stage": "harness build", "profile": prof}, {"log": logh[-3000:]},
                       broken="harness does not build against /repo (hooked API changed?)", found_input=False)
            return
        impl, mod, sp = run_cases(impl_exe, model, cases)
        total_eval += len(cases)
        nbad = 0
        for c, a, b, s in zip(cases, impl, mod, sp):
            nbad += classify(run, c, a, b, s, prof, nbad)
        # exhaustive small alphabets + BrotliReverseBits, hashed
        ih = vlib.run_lines(impl_exe, rs)
        mh = vlib.run_lines(model, rs)
        for r, a, b in zip(rs, ih, mh):
            t = r.split()
            bt = b.split()
            if t[0] == "E":
                total_eval += int(t[4]) - int(t[3])
            else:
                total_eval += 65536
            same = (a.split()[:2] == bt[:2]) and a.startswith("H ")
            specbad = (t[0] == "E" and (len(bt) < 3 or bt[2] != "0"))
            if same and not specbad:
                continue
            # drill down to the individual cases of this chunk
            if t[0] == "E":
                nsym, radix = int(t[1]), int(t[2]) + 1
                pts = []
                for idx in range(int(t[3]), int(t[4])):
                    x, c = idx, []
                    for _ in range(nsym):
                        c.append(x % radix)
                        x //= radix
                    pts.append("B %d %s" % (nsym, vec(c)))
            else:
                pts = ["R %s %d" % (t[1], v) for v in range(65536)]
            ia, ma, sa = run_cases(impl_exe, model, pts)
            found = 0
            for c, x, y, s in zip(pts, ia, ma, sa):
                found += classify(run, c, x, y, s, prof, nbad + found)
                if found >= 3:
                    break
            if not found:
                run.report("correspondence", {"request": r, "profile": prof}, {"impl": a, "model": b, "spec": "?"},
                           broken="hashed range `%s` differs but no single case does" % r, found_input=False)
            nbad += max(found, 1)
            if nbad >= 5:
                break
        # retry-loop statistics (from the model, whose depth arrays were just compared with the implementation's)
        if prof == profiles[0]:
            ql = ["Q " + c for c in cases if c.split()[0] in ("T", "B", "F")]
            for q in vlib.run_lines(model, ql):
                try:
                    v = int(q)
                except ValueError:
                    continue
                if v < 0:
                    continue
                retry_max = max(retry_max, v)
                retry_hist[str(v) if v < 3 else ">=3"] += 1
            # retries of the code length code's own tree (limit 5) inside BrotliStoreHuffmanTree
            qh = []
            for c, b in zip(cases, mod):
                if c.split()[0] == "B" and not b.startswith(("PANIC", "OUTOFFUEL", "TOOL")):
                    dv = b.split()[0]
                    if sum(1 for x in dv.split(",") if x != "0") >= 5:
                        qh.append("Q H " + dv)
            cl_hist, cl_max = {"0": 0, "1": 0, "2": 0, ">=3": 0}, 0
            for q in vlib.run_lines(model, qh):
                try:
                    v = int(q)
                except ValueError:
                    continue
                if v >= 0:
                    cl_max = max(cl_max, v)
                    cl_hist[str(v) if v < 3 else ">=3"] += 1
            run.cov["cl_tree_retry_runs"] = cl_hist
            run.cov["cl_tree_retry_max"] = cl_max
        run.note("profile %s: %d explicit cases, %d hashed ranges, %d spec failures/disagreements" % (prof, len(cases), len(rs), nbad))
    run.cov["evaluations"] = total_eval
    run.cov["distinct_nontrivial"] = len({c for c in cases if nontrivial(c)})
    run.cov["traces_validated_against_impl"] = len(cases) * len(profiles)
    run.cov["hashed_ranges"] = len(rs)
    run.cov["exhaustive"] = True
    run.cov["exhaustive_note"] = ("every count vector over 1..6 symbols with counts 0..%d through BuildAndStoreHuffmanTree (model vs "
                                  "implementation by hash, RFC spec applied to every answer); BrotliReverseBits on all 16 x 65536 arguments" % maxc)
    run.cov["retry_loop_runs"] = retry_hist
    run.cov["retry_loop_max"] = retry_max
    run.cov["retry_loop_note"] = ("number of times count_limit was doubled per tree built (T/B/F requests), counted by the extracted model "
                                  "whose depth arrays equal the implementation's on these cases; the exhaustive small-alphabet ranges never retry")
    run.cov["unreached"] = [k for k, v in retry_hist.items() if v == 0]
    kinds = {}
    for c in cases:
        kinds[c.split()[0]] = kinds.get(c.split()[0], 0) + 1
    run.cov["kinds"] = kinds
    sizes = {"<=18": 0, "19..64": 0, "65..256": 0, "257..704": 0, ">704": 0}
    for c in cases:
        t = c.split()
        if t[0] in ("T", "B", "F"):
            n = t[2].count(",") + 1
        elif t[0] in ("W", "C", "D", "O"):
            n = t[1].count(",") + 1
        else:
            continue
        sizes["<=18" if n <= 18 else "19..64" if n <= 64 else "65..256" if n <= 256 else "257..704" if n <= 704 else ">704"] += 1
    run.cov["alphabet_sizes"] = sizes
    short = [c for c in cases if len(c) < 120]
    run.cov["samples"] = (short[:4] + [rs[0], rs[-1]]) if short else [rs[0]]
    if not ok_proof and not run.violations:
        run.report("proof-obligation", {"stage": "proof"}, {"broken": broken}, broken="; ".join(b[:400] for b in broken), found_input=False)


def replay(path):
    d = json.load(open(path))
    req = d["case"].get("request")
    if not req:
        print("replay file has no request (kind=%s): %s" % (d.get("kind"), d.get("broken")))
        return 1
    prof = d["case"].get("profile", "dev")
    vlib.coq_regen(GEN)
    _, _, impl_exe = vlib.harness_build("c17", prof)
    vlib.coq_extract("C17")
    _, _, model = vlib.ocaml_build("C17", "c17_driver.ml")
    a = vlib.run_lines(impl_exe, [req])[0]
    b = vlib.run_lines(model, [req])[0]
    if req.split()[0] in ("E", "RH"):
        print("request: %s\nimpl:  %s\nmodel: %s" % (req, a, b))
        return 0 if a.split()[:2] == b.split()[:2] and (b.split() + ["0"])[2] == "0" else 1
    s = vlib.run_lines(model, ["S " + req + " " + a])[0]
    print("request: %s\nimpl:  %s\nmodel: %s\nspec:  %s" % (req[:600], a[:600], b[:600], s))
    return 0 if (s == "OK" and a == b) else 1
