"""C18 - length and distance prefix arithmetic is exact on its whole domain."""
import json, os
import vlib

PROP = "C18"
LEVEL = "proof"
INS_BASE = [0, 1, 2, 3, 4, 5, 6, 8, 10, 14, 18, 26, 34, 50, 66, 98, 130, 194, 322, 578, 1090, 2114, 6210, 22594]
COPY_BASE = [2, 3, 4, 5, 6, 7, 8, 9, 10, 12, 14, 18, 22, 30, 38, 54, 70, 102, 134, 198, 326, 582, 1094, 2118]
BLEN_BASE = [1, 5, 9, 13, 17, 25, 33, 41, 49, 65, 81, 97, 113, 145, 177, 209, 241, 305, 369, 497, 753, 1265, 2289, 4337, 8433, 16625]
INS_MAX = 22594 + (1 << 24)
COPY_MAX = 2118 + (1 << 24)
BLEN_MAX = 16625 + (1 << 24)
DC_MAX = 1 << 31


def around(points, lo, hi, r):
    s = set()
    for p in points:
        for d in range(-r, r + 1):
            if lo <= p + d < hi:
                s.add(p + d)
    return s


def settings():
    return [(k << np, np) for np in range(4) for k in range(16)]


def gen_cases(run, thorough):
    rng = run.rng
    cases = []
    nrand = 60000 if thorough else 6000
    pows = [1 << k for k in range(1, 25)]
    ins = set(range(0, 3000)) | around(INS_BASE + pows + [INS_MAX - 1], 0, INS_MAX, 64)
    ins |= {rng.randrange(0, INS_MAX) for _ in range(nrand)}
    cases += ["ins %d" % n for n in sorted(ins)]
    cp = set(range(2, 3000)) | around(COPY_BASE + pows + [COPY_MAX - 1], 2, COPY_MAX, 64)
    cp |= {rng.randrange(2, COPY_MAX) for _ in range(nrand)}
    cases += ["copy %d" % n for n in sorted(cp)]
    cases += ["comb %d %d %d" % (i, c, u) for i in range(24) for c in range(24) for u in (0, 1)]
    bl = set(range(1, 20000)) | around(BLEN_BASE + pows + [BLEN_MAX - 1], 1, BLEN_MAX, 64)
    bl |= {rng.randrange(1, BLEN_MAX) for _ in range(nrand)}
    cases += ["blen %d" % n for n in sorted(bl)]
    for (nd, np) in settings():
        # bucket boundaries: distance codes where dist = 2^(np+2) + dc - 16 - nd crosses 2^b or 3*2^(b-1)
        bounds = []
        for b in range(np + 2, 32):
            for top in ((1 << b), 3 << (b - 1)):
                bounds.append(top - (1 << (np + 2)) + 16 + nd)
        dcs = set(range(0, 400 if not thorough else 4000)) | around(bounds, 0, DC_MAX, 3)
        dcs |= {rng.randrange(0, 1 << rng.randrange(5, 32)) for _ in range(300 if not thorough else 3000)}
        cases += ["pdist %d %d %d" % (dc, nd, np) for dc in sorted(dcs)]
    ncmd = 40000 if thorough else 8000
    for _ in range(ncmd):
        nd, np = rng.choice(settings())
        il = rng.choice([rng.randrange(0, 300), rng.randrange(0, 1 << rng.randrange(1, 25)), rng.choice(INS_BASE) + rng.randrange(0, 3)])
        cl = rng.choice([rng.randrange(2, 300), rng.randrange(2, 1 << rng.randrange(2, 25)), rng.choice(COPY_BASE) + rng.randrange(0, 3)])
        code = max(2, cl + rng.choice([0, 0, 0, 1, -1, 2, -2, 9, -9, 63, -64, rng.randrange(-64, 64)]))
        dc = rng.choice([rng.randrange(0, 16), rng.randrange(0, 16 + nd + 4), rng.randrange(0, 1 << rng.randrange(5, 32))])
        cases.append("cmd %d %d %d %d %d %d" % (nd, np, il, cl, code, dc))
    # RecomputeDistancePrefixes: every ordered pair of the parameter settings the encoder can move between
    # (BrotliBuildMetaBlock tries npostfix 0..3 with ndirect 0..15 << npostfix; FONT mode starts at (12, 1)), with
    # distance codes in every class: short codes, direct codes of the old / of the new setting, around 16 + ndirect
    # of both, bucket boundaries, large; commands with and without an explicit distance
    sets = settings() + [(12, 1)]
    pairs = [(a, b) for a in sets for b in sets]
    if not thorough:
        pairs = [(a, b) for (a, b) in pairs if a == (12, 1) or b == (12, 1) or a == b] + rng.sample(pairs, 400)
    for (nd0, np0), (nd1, np1) in pairs:
        dcs = set(range(0, 16)) | set(range(16, 16 + max(nd0, nd1) + 4))
        dcs |= {16 + nd0 + d for d in (-1, 0, 1)} | {16 + nd1 + d for d in (-1, 0, 1)}
        dcs |= {rng.randrange(0, 1 << rng.randrange(5, 31)) for _ in range(6 if not thorough else 20)}
        for dc in sorted(x for x in dcs if x >= 0):
            il = rng.choice([0, 1, 5, 6, 200, 70000])
            cl = rng.choice([2, 3, 9, 10, 70, 3000])
            cases.append("recmd %d %d %d %d %d %d %d %d" % (nd0, np0, nd1, np1, il, cl, cl, dc))
    return cases


def ranges(thorough):
    """hashed range requests (correspondence only; the theorems carry the spec over them)."""
    rs = []
    step = 1 << 16
    if thorough:
        for fn, lo, hi in (("ins", 0, INS_MAX), ("copy", 2, COPY_MAX), ("blen", 1, BLEN_MAX)):
            a = lo
            while a < hi:
                rs.append("R %s %d %d" % (fn, a, min(hi, a + step)))
                a += step
        for (nd, np) in settings():
            a = 0
            while a < (1 << 21):
                rs.append("R pdist %d %d %d %d" % (a, min(1 << 21, a + step), nd, np))
                rs.append("R cmd %d %d %d %d" % (a, min(1 << 21, a + step), nd, np))
                a += step
    else:
        for fn, lo, hi in (("ins", 0, 1 << 18), ("copy", 2, 1 << 18), ("blen", 1, 1 << 18)):
            a = lo
            while a < hi:
                rs.append("R %s %d %d" % (fn, a, min(hi, a + step)))
                a += step
        for (nd, np) in settings()[::5]:
            rs.append("R pdist 0 %d %d %d" % (step, nd, np))
            rs.append("R cmd 0 %d %d %d" % (1 << 14, nd, np))
    return rs


def spec_lines(cases, impl):
    out, idx = [], []
    for k, (c, r) in enumerate(zip(cases, impl)):
        if r.startswith("PANIC") or r.startswith("TOOL") or r == "BADREQ":
            continue
        out.append("S " + c + " " + r)
        idx.append(k)
    return out, idx


def check(run):
    thorough = run.tier == "thorough"
    ok_proof, broken = vlib.proof_stage(run, "props/C18.v", ["Arith"])
    okx, logx = vlib.coq_extract("C18")
    okm, logm, model = vlib.ocaml_build("C18", "c18_driver.ml")
    if not (okx and okm):
        run.note("model rebuild failed (%s); using last built executable model if present" % (logx[-300:] if not okx else logm[-300:]))
        if ok_proof:
            broken.append("extraction/driver build failed")
            ok_proof = False
    profiles = ["dev", "release"] if thorough else ["dev"]
    cases = gen_cases(run, thorough)
    rs = ranges(thorough)
    run.cov["rule"] = ("explicit cases: every table breakpoint +-64, powers of two +-64, dense prefixes, PRNG points (seeded), all 24*24*2 "
                       "command cells, all 64 (npostfix, ndirect) settings x bucket boundaries +-3 up to 2^31, random commands; "
                       "distinct_nontrivial counts distinct request lines whose argument is beyond the identity part of the tables "
                       "(insert >= 6, copy >= 10, block length >= 17, distance code >= 16 + ndirect, every cell and command); "
                       "hashed ranges compare model and implementation on every point of a contiguous range")
    if not os.path.exists(model):
        run.report("proof-obligation", {"stage": "model build"}, {"log": (logx + logm)[-2000:]},
                   broken="executable model could not be built", found_input=False)
        return
    total_eval = 0
    for prof in profiles:
        okh, logh, impl_exe = vlib.harness_build("c18", prof)
        if not okh:
            run.report("proof-obligation", {"stage": "harness build", "profile": prof}, {"log": logh[-3000:]},
                       broken="harness does not build against /repo (hooked API changed?)", found_input=False)
            return
        impl = vlib.run_lines(impl_exe, cases)
        mod = vlib.run_lines(model, cases)
        sl, idx = spec_lines(cases, impl)
        sp = vlib.run_lines(model, sl)
        total_eval += len(cases)
        spec_fail = {}
        for k, v in zip(idx, sp):
            if v != "OK":
                spec_fail[k] = v
        nbad = 0
        for k, (c, a, b) in enumerate(zip(cases, impl, mod)):
            fails_spec = k in spec_fail or a.startswith("PANIC") or a.startswith("TOOL")
            if fails_spec:
                nbad += 1
                if nbad <= 5:
                    run.report("spec-violation", {"request": c, "profile": prof},
                               {"impl": a, "model": b, "spec": spec_fail.get(k, "panic/crash")},
                               what="implementation's (symbol, extra) does not denote the value under RFC 7932 tables")
            elif a != b:
                nbad += 1
                if nbad <= 5:
                    run.report("correspondence", {"request": c, "profile": prof}, {"impl": a, "model": b, "spec": "OK"},
                               broken="correspondence Arith.v vs command.rs on `%s`" % c, found_input=False)
        # hashed ranges
        ih = vlib.run_lines(impl_exe, rs, timeout=3000)
        mh = vlib.run_lines(model, rs, timeout=3000)
        # a range whose process timed out or died (heavily loaded machine) is run again on its own before it is judged
        for k in range(len(rs)):
            if ih[k].startswith("TOOL") or mh[k].startswith("TOOL"):
                run.note("range `%s` had no answer (%s / %s): run again on its own" % (rs[k], ih[k][:40], mh[k][:40]))
                ih[k] = vlib.run_lines(impl_exe, [rs[k]], shards=1, timeout=3000)[0]
                mh[k] = vlib.run_lines(model, [rs[k]], shards=1, timeout=3000)[0]
        for r, a, b in zip(rs, ih, mh):
            t = r.split()
            total_eval += int(t[3]) - int(t[2])
            if a != b:
                fn, lo, hi, rest = t[1], int(t[2]), int(t[3]), t[4:]
                # locate the first differing point and apply the spec to it
                pts = []
                for x in range(lo, hi):
                    if fn in ("ins", "copy", "blen"):
                        pts.append("%s %d" % (fn, x))
                    elif fn == "pdist":
                        pts.append("pdist %d %s %s" % (x, rest[0], rest[1]))
                    else:
                        cl = 2 + ((x * 7) & 0xffff)
                        pts.append("cmd %s %s %d %d %d %d" % (rest[0], rest[1], x & 0xffffff, cl, cl, x))
                ia = vlib.run_lines(impl_exe, pts)
                ma = vlib.run_lines(model, pts)
                s2, idx2 = spec_lines(pts, ia)
                sp2 = dict(zip(idx2, vlib.run_lines(model, s2)))
                reported = False
                for k, (c, x, y) in enumerate(zip(pts, ia, ma)):
                    if sp2.get(k, "FAIL") != "OK":
                        run.report("spec-violation", {"request": c, "profile": prof}, {"impl": x, "model": y, "spec": sp2.get(k, "panic")},
                                   what="implementation's (symbol, extra) does not denote the value under RFC 7932 tables")
                        reported = True
                        break
                if not reported:
                    k = next((k for k, (x, y) in enumerate(zip(ia, ma)) if x != y), 0)
                    run.report("correspondence", {"request": pts[k], "profile": prof}, {"impl": ia[k], "model": ma[k], "spec": "OK"},
                               broken="correspondence Arith.v vs command.rs on range `%s`" % r, found_input=False)
                break
        run.note("profile %s: %d explicit cases, %d hashed ranges, %d spec failures/disagreements" % (prof, len(cases), len(rs), nbad))
    run.cov["evaluations"] = total_eval
    nontriv = set()
    for c in cases:
        t = c.split()
        v = int(t[1])
        if (t[0] == "ins" and v >= 6) or (t[0] == "copy" and v >= 10) or (t[0] == "blen" and v >= 17) or t[0] in ("comb", "cmd", "recmd") or \
           (t[0] == "pdist" and v >= 16 + int(t[2])):
            nontriv.add(c)
    run.cov["distinct_nontrivial"] = len(nontriv)
    run.cov["traces_validated_against_impl"] = len(cases) * len(profiles)
    run.cov["hashed_ranges"] = len(rs)
    run.cov["exhaustive"] = bool(thorough)
    run.cov["exhaustive_note"] = ("thorough: insert 0..22594+2^24, copy 2..2118+2^24, block 1..16625+2^24 and distance codes 0..2^21 x 64 settings "
                                  "enumerated completely (model vs implementation); quick: prefixes of those ranges")
    run.cov["samples"] = [cases[0], cases[len(cases) // 3], cases[len(cases) // 2], cases[-1], rs[0]]
    run.cov["kinds"] = {k: sum(1 for c in cases if c.split()[0] == k) for k in ("ins", "copy", "comb", "blen", "pdist", "cmd", "recmd")}
    if not ok_proof and not run.violations:
        # proof stage broken but nothing found by the search above
        run.report("proof-obligation", {"stage": "proof"}, {"broken": broken}, broken="; ".join(b[:400] for b in broken), found_input=False)


def replay(path):
    d = json.load(open(path))
    req = d["case"].get("request")
    if not req:
        print("replay file has no request (kind=%s): %s" % (d.get("kind"), d.get("broken")))
        return 1
    prof = d["case"].get("profile", "dev")
    vlib.coq_regen(["Arith"])
    _, _, impl_exe = vlib.harness_build("c18", prof)
    vlib.coq_extract("C18")
    _, _, model = vlib.ocaml_build("C18", "c18_driver.ml")
    a = vlib.run_lines(impl_exe, [req])[0]
    b = vlib.run_lines(model, [req])[0]
    s = vlib.run_lines(model, ["S " + req + " " + a])[0] if not a.startswith("PANIC") else "panic"
    print("request: %s\nimpl:  %s\nmodel: %s\nspec:  %s" % (req, a, b, s))
    return 0 if (s == "OK" and a == b) else 1
