"""C19 - batched match-index updates equal one-at-a-time updates (DESIGN.md section 4, C19).

proof stage   : coq/props/C19.v (41 theorems) over coq/model/Hashers.v, constants regenerated
correspondence: X lines - the same operation list run on the real hashers (harness c19) and on the
                extracted model (ocaml c19_model); canonical dumps of all non-initial table entries
search (spec) : P lines - on the real code only: bulk / range / every split / random partitions /
                clone / 4-at-a-time entry points against one-at-a-time Store, compared with
                PartialEq and field by field; plus the dump of the bulk call against the dump of the
                one-at-a-time call taken from the X triples.
"""
import json, os
import vlib

PROP = "C19"
LEVEL = "proof"
GEN = ["Hashers"]

# quality x lgwin x size hint (x q9_5) -> which kind HasherSetup selects is asked from the real code
QUALITIES = list(range(2, 12))
LGWINS = [10, 16, 18, 22]
HINTS = [0, 1 << 20, (1 << 20) + 1, (1 << 22) + 1]


def configs(thorough):
    cs = []
    for q in QUALITIES:
        for lg in LGWINS + ([24] if thorough else []):
            for h in HINTS:
                cs.append((q, lg, h, 0))
    for lg in (16, 22):
        for h in (0, (1 << 20) + 1):
            cs.append((10, lg, h, 1))
    return cs


def need_bytes(kind):
    k = kind.split(":")[0]
    if k in ("H2", "H3", "H4", "H54", "H6"):
        return 8
    if k == "H10":
        return 128
    return 4


def has_counters(kind):
    """kinds with a 16-bit per-bucket fill counter (num / num_)"""
    return kind.split(":")[0] in ("H5", "H5q5", "H5q7", "H6", "H9")


def is_h10(kind):
    return kind.startswith("H10")


def kind_name(kind):
    return kind.split("|")[0]


def table_bytes(kind):
    t = kind.split("|")[0].split(":")
    k = t[0]
    if k in ("H2", "H3", "H4", "H54"):
        return 4 * int(t[1])
    if k == "H10":
        return 4 * (int(t[3]) + int(t[4]))
    return 4 * int(t[-1]) + 2 * int(t[-2])


class Scn:
    """one scenario: configuration + data + (prefix, range)"""

    def __init__(self, cfg, kind, maskbits, seed, style, dlen, tail, rc, p0, p1, s, e, numinit=0, cls="sweep"):
        self.cfg, self.kind, self.maskbits, self.seed, self.style = cfg, kind, maskbits, seed, style
        self.dlen, self.tail, self.rc, self.p0, self.p1, self.s, self.e = dlen, tail, rc, p0, p1, s, e
        # numinit: every per-bucket counter starts at this value (a bucket that has already received
        # that many entries); cls: generator class, for the coverage histogram
        self.numinit, self.cls = (numinit if has_counters(kind) else 0), cls

    def head(self):
        return "%d %d %d %d %s %d %d %s %d %d %d" % (self.cfg[0], self.cfg[1], self.cfg[2], self.cfg[3], self.kind,
                                                     self.maskbits, self.seed, self.style, self.dlen, self.tail, 1 if self.rc else 0)

    def x(self, ops):
        return "X " + self.head() + " " + ("N %d " % self.numinit if self.numinit else "") + ops

    def p(self, allsplits, nparts, pseed, full=1):
        return "P %s %d %d %d %d %d %d %d %d %d" % (self.head(), self.p0, self.p1, self.s, self.e, 1 if allsplits else 0, nparts, pseed, full, self.numinit)

    def case(self):
        return {"kind": kind_name(self.kind), "quality": self.cfg[0], "lgwin": self.cfg[1], "size_hint": self.cfg[2], "q9_5": self.cfg[3],
                "mask_bits": self.maskbits, "seed": self.seed, "style": self.style, "data_len": self.dlen, "tail": self.tail,
                "ring_consistent": bool(self.rc), "prefix": [self.p0, self.p1], "start": self.s, "end": self.e, "length": self.e - self.s,
                "start_mod_32": self.s % 32, "counters_start_at": self.numinit, "class": self.cls}


# Coq witnesses of proofs/Hashers_proofs.v (wbytes): replayed verbatim on the real code
def wbytes(n):
    return [(i * i * 7 + i * 13 + 5) % 251 for i in range(n)]


def hexs(b):
    return "".join("%02x" % x for x in b)


def scenarios(run, kinds, thorough):
    """kinds: list of (cfg, kinddesc) with distinct descriptors.  returns (sweep, rnd) lists of Scn."""
    rng = run.rng
    sweep, rnd = [], []
    styles = ["0", "1", "2", "3"]
    for cfg, kind in kinds:
        nb = need_bytes(kind)
        h10 = is_h10(kind)
        big = table_bytes(kind) > (6 << 20)
        # exhaustive short ranges: every start alignment mod 32, every length 0..96
        for maskbits in (0, 10):
            aligns = range(32)
            lens = range(0, 97)
            if not thorough and big:
                lens = [l for l in range(0, 97) if l < 40 or l % 3 == 0]
            for a in aligns:
                for ln in lens:
                    seed = rng.randrange(1 << 30)
                    style = styles[(a + ln) % 4] if (a * 97 + ln) % 5 else "0"
                    if maskbits == 0:
                        base = 32 * rng.randrange(0, 6)
                        s = base + a
                        e = s + ln
                        dlen = e + nb + rng.randrange(0, 9)
                        p1 = rng.randrange(0, max(1, s + ln // 2)) if (a + ln) % 2 else 0
                        p0 = rng.randrange(0, p1 + 1) if p1 else 0
                        p0 = max(p0, p1 - 48)
                        sweep.append(Scn(cfg, kind, 0, seed, style, dlen, 0, 1, p0, p1, s, e))
                    else:
                        n = 1 << maskbits
                        wraps = rng.randrange(1, 5)
                        # half of the ranges straddle the wrap point of the ring
                        near = (n - 64 - 32 * rng.randrange(0, 2)) if (a + ln) % 2 else 32 * rng.randrange(0, 8)
                        s = wraps * n + near + a
                        e = s + ln
                        tail = (nb + 10) if not h10 else 160
                        p1 = s - rng.randrange(0, 30) if (a + ln) % 3 == 0 else 0
                        p0 = max(0, p1 - rng.randrange(0, 40)) if p1 else 0
                        sweep.append(Scn(cfg, kind, maskbits, seed, style, n, tail, 1, p0, p1, s, e))
        # random long ranges
        nlong = (60 if thorough else 14)
        for i in range(nlong):
            seed = rng.randrange(1 << 30)
            style = rng.choice(styles)
            if i % 2 == 0:
                ln = rng.choice([rng.randrange(97, 700), rng.randrange(500, 2500 if not thorough else 9000)])
                s = rng.randrange(0, 300)
                e = s + ln
                dlen = e + nb + rng.randrange(0, 40)
                p1 = rng.randrange(0, s + 1) if i % 4 == 0 else 0
                p0 = max(0, p1 - rng.randrange(0, 100))
                rnd.append(Scn(cfg, kind, 0, seed, style, dlen, 0, 1, p0, p1, s, e))
            else:
                mb = rng.choice([8, 10, 12])
                n = 1 << mb
                ln = rng.randrange(97, 3 * n if not h10 else n)
                s = rng.randrange(1, 6) * n + rng.randrange(0, n)
                e = s + ln
                tail = (nb + 10) if not h10 else 160
                rnd.append(Scn(cfg, kind, mb, seed, style, n, tail, 1, 0, 0, s, e))
    # ---- wrap points -------------------------------------------------------------------------
    # (a) 16-bit bucket counters: short ranges over data whose windows share few keys (one key for
    #     style 3 with period 1), started from counters a few steps before 65535 -> the counter of
    #     a bucket wraps inside the range, at every alignment / length class / split point;
    # (b) the same without presetting: one run of more than 65536 positions of a single key
    #     (one-shot, bulk/range/partitions; without and behind a mask);
    # (c) positions crossing 2^32 behind a mask (`ix as u32` wraps).
    lens = [1, 2, 3, 4, 5, 7, 8, 9, 12, 15, 16, 17, 20, 24, 31, 32, 33, 34, 40, 48, 63, 64, 65, 66, 80, 96]
    for cfg, kind in kinds:
        nb = need_bytes(kind)
        h10 = is_h10(kind)
        tail = (nb + 10) if not h10 else 160
        if has_counters(kind):
            for maskbits in (0, 10):
                for a in range(32):
                    for ln in (lens if thorough else lens[(a % 2)::2]):
                        seed = 7 * rng.randrange(1 << 20) if (a + ln) % 3 else rng.randrange(1 << 30)
                        style = "3" if (a + ln) % 3 else "2"
                        ni = 65535 - rng.randrange(0, 7)
                        if maskbits == 0:
                            s = 32 * rng.randrange(0, 4) + a
                            e = s + ln
                            p1 = rng.randrange(0, s + 1) if (a + ln) % 2 else 0
                            p0 = max(0, p1 - rng.randrange(0, 12))
                            rnd.append(Scn(cfg, kind, 0, seed, style, e + nb + rng.randrange(0, 5), 0, 1, p0, p1, s, e, ni, "counter-preset"))
                        else:
                            n = 1 << maskbits
                            s = rng.randrange(1, 5) * n + ((n - 48) if (a + ln) % 2 else 64) + a
                            rnd.append(Scn(cfg, kind, maskbits, seed, style, n, tail, 1, 0, 0, s, s + ln, ni, "counter-preset"))
            for i in range(4 if thorough else 2):
                seed = 7 * rng.randrange(1 << 20)
                ln = 65536 + rng.randrange(1, 3000)
                if i % 2 == 0:
                    s = rng.randrange(0, 64)
                    rnd.append(Scn(cfg, kind, 0, seed, "3", s + ln + nb + 3, 0, 1, 0, 0, s, s + ln, 0, "counter-long-run"))
                else:
                    mb = 12
                    s = (1 << mb) * rng.randrange(1, 4) + rng.randrange(0, 1 << mb)
                    rnd.append(Scn(cfg, kind, mb, seed, "3", 1 << mb, tail, 1, 0, 0, s, s + ln, 0, "counter-long-run"))
        for i in range(8 if thorough else 4):
            mb = rng.choice([10, 12])
            s = (1 << 32) - rng.randrange(1, 70)
            ln = rng.randrange(16, 97)
            rnd.append(Scn(cfg, kind, mb, rng.randrange(1 << 30), rng.choice(styles), 1 << mb, tail, 1, 0, 0, s, s + ln,
                           (65535 - rng.randrange(0, 4)) if i % 2 else 0, "u32-position-wrap"))
    return sweep, rnd


def x_triple(sc, extra=""):
    """bulk / range / one-at-a-time on the same scenario (with the prefix stored one at a time)"""
    pre = "S %d %d " % (sc.p0, sc.p1) if sc.p1 > sc.p0 else ""
    return [sc.x(pre + "B %d %d%s" % (sc.s, sc.e, extra)), sc.x(pre + "R %d %d%s" % (sc.s, sc.e, extra)), sc.x(pre + "S %d %d%s" % (sc.s, sc.e, extra))]


def permute(lines, shards):
    """order so that vlib.run_lines' contiguous chunks each get every shards-th line; returns (lines', inverse)"""
    idx = []
    for k in range(shards):
        idx.extend(range(k, len(lines), shards))
    return [lines[i] for i in idx], idx


def run_perm(exe, lines, args=None, shards=vlib.NCPU):
    """lines are grouped by hasher kind; contiguous chunks keep the number of (large) hasher
    allocations per process small"""
    if not lines:
        return []
    return vlib.run_lines(exe, lines, shards=shards, args=args)


def norm(a):
    return "PANIC" if a.startswith("PANIC") else a


def witness_scenarios(kindmap):
    """the three refutation witnesses of props/C19.v, on the kinds they are about"""
    out = []
    plain = "x" + hexs(wbytes(32))
    ring = "x" + hexs(wbytes(16))
    for name, (q, lg, hint), mb, style, dlen, tail, s, e in (
            ("asfound-H3-unmasked", (3, 22, 0), 0, plain, 32, 0, 1, 17),
            ("asfound-H2-masked", (2, 22, 0), 4, ring, 16, 10, 16, 32),
            ("asfound-H5q5-masked", (5, 22, 0), 4, ring, 16, 10, 16, 24)):
        cfg = (q, lg, hint, 0)
        if cfg in kindmap:
            out.append((name, Scn(cfg, kindmap[cfg], mb, 0, style, dlen, tail, 1, 0, 0, s, e)))
    return out


def build_all(run, profile):
    okx, logx = vlib.coq_extract("C19")
    okm, logm, model = vlib.ocaml_build("C19", "c19_driver.ml")
    okh, logh, impl = vlib.harness_build("c19", profile)
    return (okx and okm), (logx if not okx else logm), model, okh, logh, impl


def check(run):
    thorough = run.tier == "thorough"
    ok_proof, broken = vlib.proof_stage(run, "props/C19.v", GEN, extra_trusted=[
        "harness c19: the per-split comparisons look only at the slots of the hashed positions (computed with the public HashBytes); "
        "validated by PartialEq on the whole hasher on every line for tables up to 2 MB and on every 8th line for larger ones",
        "the PRNG data generator exists twice (Rust harness, OCaml driver)",
        "positions are modelled as unbounded naturals: theorems carry lim < 2^63, where no usize addition of the modelled code can wrap"])
    profiles = ["dev", "release"] if thorough else ["dev"]
    okmod, logmod, model, okh, logh, impl = build_all(run, "dev")
    if not okmod:
        run.note("model rebuild failed (%s)" % logmod[-300:])
        if ok_proof:
            broken.append("extraction/driver build failed: " + logmod[-300:])
            ok_proof = False
    if not os.path.exists(model):
        run.report("proof-obligation", {"stage": "model build"}, {"log": logmod[-2000:]}, broken="executable model could not be built", found_input=False)
        return
    run.cov["rule"] = ("a scenario = (hasher kind as built by HasherSetup for quality/lgwin/size hint, mask none | ring-buffer mask with positions "
                       "beyond it, PRNG data of one of 4 styles, optional prefix stored one at a time, range [s,e)); distinct_nontrivial counts "
                       "distinct scenarios whose range has at least 16 positions (so that a 4-at-a-time path is entered; >32 positions unmasked "
                       "also enter the 32-at-a-time bulk path of the H5 family)")
    total_eval, total_x = 0, 0
    samples = []
    hist = {"kind": {}, "class": {}, "mask": {"none": 0, "ring": 0}, "len": {"0": 0, "1-15": 0, "16-32": 0, "33-96": 0, "97-574": 0, ">=575": 0},
            "reached": {"fastpath_range": 0, "bulk32": 0, "ring_wrap_inside_range": 0, "prefix_nonempty": 0, "h10_thinned_range": 0}}
    nontriv = set()
    for prof in profiles:
        if prof != "dev":
            okh, logh, impl = vlib.harness_build("c19", prof)
        if not okh:
            run.report("proof-obligation", {"stage": "harness build", "profile": prof}, {"log": logh[-3000:]},
                       broken="harness does not build against /repo (public hasher API changed?)", found_input=False)
            return
        cfgs = configs(thorough)
        descs = vlib.run_lines(impl, ["D %d %d %d %d" % c for c in cfgs], shards=4)
        kindmap = dict(zip(cfgs, descs))
        seen, kinds = {}, []
        for c, dsc in zip(cfgs, descs):
            if dsc.startswith("PANIC") or dsc.startswith("TOOL") or dsc == "Uninit":
                run.report("spec-violation", {"request": "D %d %d %d %d" % c, "profile": prof}, {"impl": dsc}, what="HasherSetup failed for a valid configuration")
                continue
            if dsc not in seen:
                seen[dsc] = c
                kinds.append((c, dsc))
        run.cov["kinds_by_config"] = {"%d/%d/%d/%d" % c: kind_name(dsc) for c, dsc in zip(cfgs, descs)}
        # the side conditions of the H5-family / H10 theorems hold for every hasher the code builds
        for c, dsc in kinds:
            t = kind_name(dsc).split(":")
            bad = None
            if t[0] == "H5":
                sh, bs, bm, bb, nl, bl = (int(x) for x in t[1:7])
                if not (bb <= sh <= 32 and nl == bs and bl == bs * ((1 << bb) & 0xffffffff) and bm == (1 << bb) - 1):
                    bad = "H5 fields outside the hypotheses of C19_*_H5 (block_bits <= hash_shift <= 32, table lengths)"
            elif t[0] in ("H5q5", "H5q7"):
                want = {"H5q5": (16384, 16384 * 16), "H5q7": (32768, 32768 * 64)}[t[0]]
                if (int(t[1]), int(t[2])) != want:
                    bad = "%s table lengths differ from bucket_size / bucket_size * block_size (adv_lens_ok)" % t[0]
            elif t[0] == "H10" and int(t[3]) != (1 << 17):
                bad = "H10 bucket table is not 1 << BUCKET_BITS long (hypothesis of C19_clone_H10)"
            if bad:
                run.report("proof-obligation", {"request": "D %d %d %d %d" % c, "kind": kind_name(dsc)}, {"impl": dsc}, broken=bad, found_input=False)
        run.note("profile %s: %d configurations select %d distinct hasher descriptors: %s" % (prof, len(cfgs), len(kinds), ", ".join(sorted(kind_name(k) for _, k in kinds))))
        sweep, rnd = scenarios(run, kinds, thorough)
        wit = witness_scenarios(kindmap)
        order = {dsc: i for i, (_, dsc) in enumerate(kinds)}
        allsc = sorted([w for _, w in wit] + sweep + rnd, key=lambda sc: order.get(sc.kind, 0))
        # ---------------- search: the property on the real code (P lines)
        plines = []
        FULL_EVERY = 8
        for k, sc in enumerate(allsc):
            short = sc.e - sc.s <= 96
            # whole-hasher PartialEq + clone + stray-write check: every line for tables up to 2 MB,
            # every 8th line (and the witnesses) for the larger ones
            full = 1 if (table_bytes(sc.kind) <= (2 << 20) + (1 << 17) or k % FULL_EVERY == 0 or sc.style.startswith("x")) else 0
            plines.append(sc.p(short, 3 if short else 6, run.rng.randrange(1 << 30), full))
        import time as _t
        t0 = _t.time()
        pans = run_perm(impl, plines)
        run.note("timing: P lines %.1fs" % (_t.time() - t0))
        nviol = 0
        # a stray write found by a periodic whole-hasher comparison may stem from one of the lines
        # since the previous one: re-run those with the comparison on every line
        redo = {}
        for k, a in enumerate(pans):
            if "stray-write" in a and k > 0 and plines[k - 1].endswith(" 0"):
                lo = k - 1
                while lo > 0 and plines[lo - 1].endswith(" 0") and allsc[lo - 1].kind == allsc[k].kind:
                    lo -= 1
                sub = [plines[j][:-2] + " 1" for j in range(lo, k + 1)]
                for j, r in zip(range(lo, k + 1), vlib.run_lines(impl, sub, shards=1)):
                    redo[j] = (sub[j - lo], r)
        for k, (l2, r) in redo.items():
            plines[k], pans[k] = l2, r
        for sc, ln, a in zip(allsc, plines, pans):
            if a.startswith("OK checks="):
                total_eval += int(a.split("=")[1])
                continue
            nviol += 1
            if nviol <= 6:
                c = sc.case()
                c.update({"line": ln, "profile": prof, "failed": a.split()[4:10] if a.startswith("FAIL") else [a[:200]]})
                run.report("spec-violation", c, {"impl": a[:1500], "model": "(not involved: decided on the real code with PartialEq)", "spec": "FAIL"},
                           what="a bulk/range/split call leaves the index in a different state than one-at-a-time Store: " + a[:300])
        # ---------------- correspondence: X lines on implementation and model
        xl, xmeta = [], []
        for name, sc in wit:
            for t, l in zip("BRS", x_triple(sc, " L")):
                xl.append(l); xmeta.append((sc, t, name))
        step = 1 if thorough else 3
        for k, sc in enumerate(sweep):
            if k % step == 0 or sc.e - sc.s in (15, 16, 17, 32, 33, 34, 62, 63, 64):
                for t, l in zip("BRS", x_triple(sc)):
                    xl.append(l); xmeta.append((sc, t, None))
        longrun_seen = set()
        for sc in rnd:
            if sc.cls == "counter-long-run" and not thorough:
                # >65536 one-at-a-time model steps per line: in the quick tier the model runs one such
                # triple per kind name and mask mode (the P lines above cover every descriptor)
                key = (kind_name(sc.kind).split(":")[0], sc.maskbits != 0)
                if key in longrun_seen:
                    continue
                longrun_seen.add(key)
            for t, l in zip("BRS", x_triple(sc)):
                xl.append(l); xmeta.append((sc, t, None))
        # 4-at-a-time entry points, clone, out-of-bounds (panic) behaviour, inconsistent ring tail
        rng = run.rng
        for sc in [s for s in sweep if s.e - s.s >= 24][::(17 if not thorough else 5)]:
            if not is_h10(sc.kind):
                xl.append(sc.x("S %d %d V4 %d VE %d" % (sc.p0, sc.p1, sc.s, sc.s + 1))); xmeta.append((sc, "V", None))
                xl.append(sc.x("S %d %d S %d %d S %d %d S %d %d S %d %d S %d %d S %d %d S %d %d S %d %d" % (
                    (sc.p0, sc.p1) + tuple(v for k in range(4) for v in (sc.s + 4 * k, sc.s + 4 * k + 1)) + tuple(v for k in range(4) for v in (sc.s + 1 + 2 * k, sc.s + 2 + 2 * k)))))
                xmeta.append((sc, "Vref", None))
            xl.append(sc.x("B %d %d C" % (sc.s, sc.e))); xmeta.append((sc, "C", None))
        for sc in [s for s in sweep if s.maskbits == 0 and s.e - s.s >= 20][::(29 if not thorough else 7)]:
            short = Scn(sc.cfg, sc.kind, 0, sc.seed, sc.style, max(0, sc.e - rng.randrange(0, 6)), 0, 1, 0, 0, sc.s, sc.e)
            for t, l in zip("BRS", x_triple(short)):
                xl.append(l); xmeta.append((short, "oob" + t, None))
        for sc in [s for s in sweep if s.maskbits != 0 and s.e - s.s >= 20][::(29 if not thorough else 7)]:
            bad = Scn(sc.cfg, sc.kind, sc.maskbits, sc.seed, sc.style, sc.dlen, sc.tail, 0, 0, 0, sc.s, sc.e)
            for t, l in zip("BRS", x_triple(bad)):
                xl.append(l); xmeta.append((bad, "nrc" + t, None))
        srt = sorted(range(len(xl)), key=lambda k: (order.get(xmeta[k][0].kind, 0), k))
        xl = [xl[k] for k in srt]
        xmeta = [xmeta[k] for k in srt]
        import time as _t
        t0 = _t.time()
        ia = run_perm(impl, xl)
        t1 = _t.time()
        ma = run_perm(model, xl)
        run.note("timing: X lines impl %.1fs model %.1fs" % (t1 - t0, _t.time() - t1))
        total_x += len(xl)
        ndis = 0
        dis_lines = []
        nout = 0
        for k, (l, a, b) in enumerate(zip(xl, ia, ma)):
            if norm(a) != b:
                if xmeta[k][1][:3] in ("oob", "nrc"):
                    # outside the property's domain (reads beyond the buffer / a tail that does not
                    # repeat the start of the ring): validates the model's addressing and panics,
                    # a disagreement here is noted, not reported
                    nout += 1
                    continue
                ndis += 1
                dis_lines.append(k)
        run.cov["out_of_domain_lines"] = run.cov.get("out_of_domain_lines", 0) + sum(1 for m in xmeta if m[1][:3] in ("oob", "nrc"))
        run.cov["out_of_domain_disagreements"] = run.cov.get("out_of_domain_disagreements", 0) + nout
        if nout:
            run.note("profile %s: %d model/impl disagreements on out-of-domain lines (out-of-bounds reads, inconsistent ring tail)" % (prof, nout))
        # dump-based spec on the triples: bulk == single, range == single (hash-table kinds)
        ndump = 0
        k = 0
        while k < len(xl):
            sc, t, name = xmeta[k]
            if t == "B" and k + 2 < len(xl) and xmeta[k + 2][1] == "S":
                b_, r_, s_ = ia[k], ia[k + 1], ia[k + 2]
                total_eval += 2
                probs = []
                if norm(b_) != norm(s_):
                    probs.append("bulk")
                if norm(r_) != norm(s_) and (not is_h10(sc.kind) or sc.e - sc.s < 63):
                    probs.append("range")
                if probs:
                    ndump += 1
                    if ndump <= 4:
                        c = sc.case()
                        c.update({"line": xl[k], "profile": prof, "failed": probs, "witness": name})
                        run.report("spec-violation", c, {"impl": {"bulk": b_[:600], "range": r_[:600], "single": s_[:600]},
                                                        "model": {"bulk": ma[k][:300], "range": ma[k + 1][:300], "single": ma[k + 2][:300]}, "spec": "FAIL " + ",".join(probs)},
                                   what="table dump after %s call differs from the dump after one-at-a-time Store" % "/".join(probs))
                k += 3
            else:
                if t == "V" and k + 1 < len(xl):
                    total_eval += 1
                    if norm(ia[k]) != norm(ia[k + 1]):
                        ndump += 1
                        if ndump <= 4:
                            c = sc.case()
                            c.update({"line": xl[k], "profile": prof, "failed": ["vec4"]})
                            run.report("spec-violation", c, {"impl": {"vec": ia[k][:400], "single": ia[k + 1][:400]}, "model": ma[k][:300], "spec": "FAIL vec4"},
                                       what="Store4Vec4/StoreEvenVec4 differ from Store at the same positions")
                if t == "C":
                    total_eval += 1
                    if "ceq=1" not in ia[k] and not ia[k].startswith("PANIC"):
                        ndump += 1
                        if ndump > 4:
                            k += 1
                            continue
                        c = sc.case()
                        c.update({"line": xl[k], "profile": prof, "failed": ["clone"]})
                        run.report("spec-violation", c, {"impl": ia[k][:400], "model": ma[k][:300], "spec": "FAIL clone != source"}, what="a cloned index is not equal to its source")
                k += 1
        nstray = 0
        for a, l in zip(ia, xl):
            if " STRAY " in a:
                ndump += 1
                nstray += 1
                if nstray > 3:
                    continue
                run.report("spec-violation", {"line": l, "profile": prof, "failed": ["stray-write"]}, {"impl": a[:600], "spec": "FAIL"},
                           what="an update wrote outside the slots of the hashed positions")
        if ndis:
            # does the implementation behave like the fast paths as found (fix reverted)?
            sub = [xl[k] for k in dis_lines[:400]]
            af = vlib.run_lines(model, sub, args=["asfound"])
            like_old = sum(1 for k, b in zip(dis_lines, af) if norm(ia[k]) == b)
            hint = " (%d of %d disagreeing lines match the model of the pre-fix fast paths: the C19 fix looks reverted)" % (like_old, len(sub)) if like_old else ""
            for k in dis_lines[:3]:
                sc = xmeta[k][0]
                c = sc.case()
                c.update({"line": xl[k], "profile": prof, "op": xmeta[k][1]})
                run.report("correspondence", c, {"impl": ia[k][:800], "model": ma[k][:800], "spec": "see spec-violation reports of this run, if any"},
                           broken="correspondence Hashers.v vs backward_references on `%s`%s" % (xl[k][:160], hint), found_input=False)
        run.note("profile %s: %d scenarios (P lines), %d failing; %d X lines, %d model/impl disagreements, %d dump-level spec failures" % (
            prof, len(plines), nviol, len(xl), ndis, ndump))
        # coverage
        for sc in allsc:
            kn = kind_name(sc.kind).split(":")[0]
            hist["kind"][kn] = hist["kind"].get(kn, 0) + 1
            hist["mask"]["none" if sc.maskbits == 0 else "ring"] += 1
            hist["class"][sc.cls] = hist["class"].get(sc.cls, 0) + 1
            ln = sc.e - sc.s
            b = "0" if ln == 0 else "1-15" if ln < 16 else "16-32" if ln <= 32 else "33-96" if ln <= 96 else "97-574" if ln < 575 else ">=575"
            hist["len"][b] += 1
            if ln >= 16:
                hist["reached"]["fastpath_range"] += 1
                nontriv.add((sc.kind, sc.maskbits, sc.seed, sc.style, sc.p0, sc.p1, sc.s, sc.e, sc.numinit))
            if ln > 32 and sc.maskbits == 0:
                hist["reached"]["bulk32"] += 1
            if sc.maskbits and (sc.s >> sc.maskbits) != ((sc.e + 10) >> sc.maskbits):
                hist["reached"]["ring_wrap_inside_range"] += 1
            if sc.p1 > sc.p0:
                hist["reached"]["prefix_nonempty"] += 1
            if is_h10(sc.kind) and ln >= 575:
                hist["reached"]["h10_thinned_range"] += 1
            if sc.cls in ("counter-preset", "counter-long-run"):
                hist["reached"]["bucket_counter_near_or_past_65535"] = hist["reached"].get("bucket_counter_near_or_past_65535", 0) + 1
            if sc.cls == "u32-position-wrap":
                hist["reached"]["position_crosses_2^32"] = hist["reached"].get("position_crosses_2^32", 0) + 1
        if not samples:
            samples = [plines[0], plines[len(plines) // 2], xl[0][:300], xl[len(xl) // 2][:300], xl[-1][:300]]
    run.cov["evaluations"] = total_eval + total_x
    run.cov["distinct_nontrivial"] = len(nontriv)
    run.cov["traces_validated_against_impl"] = total_x
    run.cov["samples"] = samples
    run.cov["histograms"] = hist
    run.cov["exhaustive"] = bool(thorough)
    run.cov["exhaustive_note"] = ("for every distinct hasher descriptor and both mask modes: every start alignment mod 32 x every length 0..96 "
                                  "(quick tier: lengths >= 40 thinned to multiples of 3 for the kinds with tables above 6 MB, complete for the others), each with "
                                  "every split point; the data bytes are PRNG samples, not enumerated")
    unreached = [k for k, v in hist["reached"].items() if v == 0]
    run.cov["unreached"] = unreached
    if not ok_proof and not run.violations:
        run.report("proof-obligation", {"stage": "proof"}, {"broken": broken}, broken="; ".join(b[:400] for b in broken), found_input=False)


def replay(path):
    d = json.load(open(path))
    case = d.get("case", {})
    line = case.get("line")
    if not line:
        print("replay file has no request line (kind=%s): %s" % (d.get("kind"), d.get("broken")))
        return 1
    prof = case.get("profile", "dev")
    vlib.coq_regen(GEN)
    _, _, impl = vlib.harness_build("c19", prof)
    vlib.coq_extract("C19")
    _, _, model = vlib.ocaml_build("C19", "c19_driver.ml")
    t = line.split()
    print("request: %s" % line)
    if t[0] == "P":
        a = vlib.run_lines(impl, [line], shards=1)[0]
        head = " ".join(t[1:12])
        p0, p1, s, e = (int(x) for x in t[12:16])
        ni = int(t[20]) if len(t) > 20 else 0
        pre = ("N %d " % ni if ni else "") + ("S %d %d " % (p0, p1) if p1 > p0 else "")
        xs = ["X %s %sB %d %d L" % (head, pre, s, e), "X %s %sR %d %d L" % (head, pre, s, e), "X %s %sS %d %d L" % (head, pre, s, e)]
        ia = vlib.run_lines(impl, xs, shards=1)
        ma = vlib.run_lines(model, xs, shards=1)
        print("impl  (property decided with PartialEq on the real code): %s" % a)
        for nm, x, y in zip(("bulk", "range", "single"), ia, ma):
            print("impl  %-6s: %s\nmodel %-6s: %s" % (nm, x[:2000], nm, y[:2000]))
        spec_ok = a.startswith("OK")
        print("spec:  %s" % ("OK" if spec_ok else "FAIL (" + a[:300] + ")"))
        return 0 if spec_ok and all(norm(x) == y for x, y in zip(ia, ma)) else 1
    a = vlib.run_lines(impl, [line + (" L" if not line.rstrip().endswith(" L") else "")], shards=1)[0]
    b = vlib.run_lines(model, [line + (" L" if not line.rstrip().endswith(" L") else "")], shards=1)[0]
    bo = vlib.run_lines(model, [line + " L"], shards=1, args=["asfound"])[0]
    # the spec for an X line: the same scenario with every B/R replaced by S must give the same dump
    ref = " ".join("S" if (tok in ("B", "R") and i >= 12) else tok for i, tok in enumerate(t)) + " L"
    r = vlib.run_lines(impl, [ref], shards=1)[0]
    print("impl:  %s\nmodel: %s\nmodel(as found, before the fix): %s\nimpl one-at-a-time: %s" % (a[:3000], b[:3000], bo[:3000], r[:3000]))
    spec_ok = norm(a).split(" ceq")[0] == norm(r).split(" ceq")[0] or ("V4" in t or "C" in t)
    print("spec:  %s" % ("OK" if spec_ok else "FAIL (dump after the batched call differs from one-at-a-time)"))
    return 0 if (spec_ok and norm(a) == b) else 1
