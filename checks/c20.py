"""C20 - streaming state machine honours its call contract."""
import itertools, json, os
import vlib
from checks import stream_common as sc

PROP = "C20"
LEVEL = "proof"

CONFIGS = [
    # (label, params)
    ("q0", "1:0,2:16"), ("q1", "1:1,2:18"), ("q0cat", "1:0,2:16,167:1"), ("q1cat", "1:1,2:10,167:1"),
    ("q2", "1:2,2:16"), ("q3cat", "1:3,2:18,167:1"), ("q5", "1:5,2:18"), ("q5cat", "1:5,2:16,167:1,169:1"),
    ("q9", "1:9,2:22"), ("q9lw", "1:9,2:26,6:1,168:1"), ("q6hint", "1:6,2:20,5:70000"),
    ("q10", "1:10,2:16"), ("q11", "1:11,2:18,168:1"), ("qneg", "1:-3,2:50,3:99"), ("q4blk", "1:4,2:24,3:17"),
]
HEAVY = {"q10", "q11"}


def block_of(label):
    return {"q0": 1 << 16, "q1": 1 << 18, "q0cat": 1 << 16, "q1cat": 1 << 10, "q2": 1 << 14, "q3cat": 1 << 14,
            "q5": 1 << 16, "q5cat": 1 << 16, "q9": 1 << 18, "q9lw": 1 << 18, "q6hint": 1 << 16, "q10": 1 << 16,
            "q11": 1 << 18, "qneg": 1 << 16, "q4blk": 1 << 17}[label]


def finish_suffix(n=5):
    return ["e999999999/131072"] * n + ["t0", "e0/7"]


def alphabet(block, small):
    ins = [0, 1, block - 1, block, block + 1, 999999999] if not small else [0, 1, 999999999]
    outs = [0, 1, 17, 1 << 20] if not small else [0, 1, 1 << 20]
    al = []
    for op in "pfe":
        for i in ins:
            for o in outs:
                al.append("%s%d/%d" % (op, i, o))
    for m in (0, 1, 17, 300):
        for o in (0, 1, 1 << 20):
            al.append("m%d/%d" % (m, o))
    al += ["mR/0", "mR/1", "mR/1000000", "t0", "t1", "s1:3", "s167:1", "m16777217/100", "m16777216/70000"]
    return al


def gen_cases(run, thorough):
    rng = run.rng
    cases = []
    meta = []
    # 1. exhaustive histories of length 2 (quick) / 3 (thorough) over a reduced alphabet, per config class
    depth = 3 if thorough else 2
    for label, params in CONFIGS:
        if label in HEAVY and not thorough:
            continue
        blk = block_of(label)
        dlen = min(3 * blk // 2 + 7, 200000) if label not in HEAVY else 5000
        al = alphabet(min(blk, dlen // 2 + 1), small=True)
        for hist in itertools.product(al, repeat=depth):
            # thin the cross product deterministically to keep the quick tier in budget
            if rng.random() > (0.06 if not thorough else 0.02):
                continue
            kind = rng.choice(["text", "rand", "mix", "zero"])
            calls = list(hist) + finish_suffix()
            cases.append("P=%s D=%s:%d:%d C=%s" % (params, kind, dlen, rng.randrange(1, 1 << 30), ",".join(calls)))
            meta.append(("exh%d" % depth, label))
    # 2. every single call of the full alphabet as first call and after some input
    for label, params in CONFIGS:
        if label in HEAVY and not thorough:
            continue
        blk = block_of(label)
        dlen = min(2 * blk + 5, 150000) if label not in HEAVY else 4000
        for a in alphabet(min(blk, dlen // 2 + 1), small=False):
            for pre in ([], ["p%d/%d" % (min(blk, dlen // 2) + 1, 1 << 20)]):
                if pre and rng.random() > 0.5:
                    continue
                calls = pre + [a] + finish_suffix()
                cases.append("P=%s D=%s:%d:%d C=%s" % (params, rng.choice(["text", "rand"]), dlen, rng.randrange(1, 1 << 30), ",".join(calls)))
                meta.append(("single", label))
    # 2b. corpus of minimized earlier failures + the "stale output cursor" family: a metadata block whose
    #     payload leaves the tiny-buffer cursor at every offset, then a block, then a flush
    cp = os.path.join(vlib.ROOT, "corpus", "stream.txt")
    if os.path.exists(cp):
        for ln in open(cp):
            ln = ln.strip()
            if ln:
                cases.append(ln)
                meta.append(("corpus", "corpus"))
    for label, params in CONFIGS:
        if label in HEAVY and not thorough:
            continue
        for k in (1, 2, 3, 13, 14, 15, 16, 17, 31, 32, 33):
            for drain in ([3, 16], [3, 16, 16], [1, 1, 1, 16, 16], [6, 13], [100]):
                calls = ["p1000/4096", "m%d/0" % k] + ["mR/%d" % d for d in drain] + ["p700/%d" % rng.choice([4096, 100]), "f0/4096", "f0/4096"]
                calls += finish_suffix(2)
                cases.append("P=%s D=%s:3000:%d C=%s" % (params, rng.choice(["text", "rand"]), rng.randrange(1, 1 << 30), ",".join(calls)))
                meta.append(("stale-cursor", label))
    # 3. random long histories, mostly protocol-following with injected violations
    nrand = 1500 if thorough else 350
    for _ in range(nrand):
        label, params = rng.choice(CONFIGS)
        if label in HEAVY and rng.random() > (0.5 if thorough else 0.15):
            continue
        blk = block_of(label)
        dlen = rng.choice([0, 1, 2, 3, 100, blk - 1, blk, blk + 1, 3 * blk + 17, 70000])
        dlen = min(dlen, 250000 if label not in HEAVY else 6000)
        n = rng.randrange(3, 40)
        calls = []
        for _ in range(n):
            r = rng.random()
            o = rng.choice([0, 1, 2, 16, 17, 100, 5000, 1 << 20])
            if r < 0.45:
                calls.append("p%d/%d" % (rng.choice([0, 1, 2, 100, blk - 1, blk, blk + 1, 999999999]), o))
            elif r < 0.6:
                calls.append("f%d/%d" % (rng.choice([0, 0, 0, 1, 100, 999999999]), o))
            elif r < 0.7:
                calls.append("e%d/%d" % (rng.choice([0, 0, 1, 999999999]), o))
            elif r < 0.8:
                k = rng.choice([0, 1, 2, 15, 16, 17, 255, 256, 70000])
                calls.append("m%d/%d" % (k, o))
                for _ in range(rng.randrange(0, 4)):
                    calls.append("mR/%d" % rng.choice([0, 1, 16, 17, 100000]))
            elif r < 0.9:
                calls.append("t%d" % rng.choice([0, 1, 7, 100000]))
            else:
                calls.append(rng.choice(["s1:9", "s2:12", "s167:1", "s5:100", "s4:7", "m16777217/10"]))
        calls += finish_suffix()
        cases.append("P=%s D=%s:%d:%d C=%s" % (params, rng.choice(["text", "rand", "mix", "zero", "skew", "period"]), dlen,
                                               rng.randrange(1, 1 << 30), ",".join(calls)))
        meta.append(("random", label))
    return cases, meta


def obs_for_spec(case, impl_line):
    """build the `S` request of the contract monitor from the script and the implementation's observations"""
    calls = [t for t in case.split() if t.startswith("C=")][0][2:].split(",")
    per, _ = sc.split_obs(impl_line)
    out = []
    for c, o in zip(calls, per):
        if o.startswith("PANIC"):
            break
        head, state = o.split(" | ")[:2]
        f = head.split()
        st = state.split()
        kind = f[0]
        op = {"p": 0, "f": 1, "e": 2, "m": 3}.get(c[0], 0)
        cap = 0
        if c[0] in "pfem":
            cap = int(c[1:].split("/")[1])
        elif c[0] == "t":
            cap = int(c[1:]) or (1 << 40)
        produced = 0 if f[4] == "-" else len(f[4]) // 2
        out.append(",".join(str(x) for x in [kind, op, f[2], cap, f[1], f[3], produced, f[5], f[6],
                                             1 if st[0] == "2" else 0, 1 if st[0] == "1" else 0]))
    return "S " + ";".join(out)


def twin_of(case, impl_line):
    """script without the calls the implementation refused (ret=0, nothing consumed/produced): the
    property says refused calls have no effect, so the emitted bytes must be identical."""
    toks = case.split()
    ci = [k for k, t in enumerate(toks) if t.startswith("C=")][0]
    calls = toks[ci][2:].split(",")
    per, _ = sc.split_obs(impl_line)
    keep = []
    dropped = 0
    for c, o in zip(calls, per):
        f = o.split(" | ")[0].split()
        # a refused EMIT_METADATA call stays in the twin: compress_stream fixes the size hint at the bytes seen so
        # far (update_size_hint(0), as the reference encoder does) before process_metadata refuses the call, which
        # legitimately shows in a later magic-number header and in the hasher choice; the property demands of a
        # refused stream call that it neither corrupts the stream nor panics (decided by the decode verdict), and
        # "no effect" of refused set-parameter calls
        if len(f) >= 5 and f[1] == "0" and f[3] == "0" and f[4] == "-" and not c.startswith("m"):
            dropped += 1
            continue
        keep.append(c)
    keep += calls[len(per):]
    if not dropped:
        return None
    toks[ci] = "C=" + ",".join(keep)
    return " ".join(toks)


def run_stream_checks(run, cases, meta, impl_exe, model, prop_what, kinds_hist=True):
    impl = vlib.run_lines(impl_exe, cases, timeout=2400)
    reqs = [sc.model_request(c, i) for c, i in zip(cases, impl)]
    mod = vlib.run_lines(model, reqs, timeout=2400)
    specs = vlib.run_lines(model, [obs_for_spec(c, i) for c, i in zip(cases, impl)], timeout=1200)
    stats = {"agree": 0, "disagree": 0, "spec_fail": 0, "panic": 0, "finished": 0, "refused_calls": 0, "flushes": 0,
             "metadata_calls": 0}
    for k, (c, i, m, s) in enumerate(zip(cases, impl, mod, specs)):
        vd = sc.verdict_dict(i)
        per, _ = sc.split_obs(i)
        cfg = [t for t in c.split() if t.startswith("P=")][0]
        quality = dict(kv.split(":") for kv in cfg[2:].split(",")).get("1", "11")
        catable = dict(kv.split(":") for kv in cfg[2:].split(",")).get("167", "0")
        calls = [t for t in c.split() if t.startswith("C=")][0][2:].split(",")
        case = {"script": c, "quality": int(quality), "catable": int(catable), "kind": meta[k][0], "config": meta[k][1]}
        panicked = [x for x in per if x.startswith("PANIC") or x.startswith("TOOL")]
        if panicked:
            stats["panic"] += 1
            idx = len(per) - 1
            case.update({"failing_call": calls[idx] if idx < len(calls) else "?", "failing_index": idx,
                         "nonterminating": "non-termination" in panicked[0], "panic": panicked[0][:200],
                         "op": calls[idx][0] if idx < len(calls) else "?"})
            run.report("spec-violation", case, {"impl": panicked[0], "model": m[-300:], "spec": "panic / non-termination inside a stream call"},
                       what="a stream call panicked or did not terminate")
            continue
        if s != "OK":
            stats["spec_fail"] += 1
            idx = int(s.split("call=")[1].split()[0]) if "call=" in s else -1
            case.update({"failing_call": calls[idx] if 0 <= idx < len(calls) else "?", "failing_index": idx, "monitor": s,
                         "op": calls[idx][0] if 0 <= idx < len(calls) else "?"})
            run.report("spec-violation", case, {"impl": per[idx] if 0 <= idx < len(per) else i[:300], "model": "-", "spec": s},
                       what="contract monitor (coq/spec/Contract.v) rejects the observed outcome of a call")
            continue
        if vd.get("DEC") == "fail":
            stats["spec_fail"] += 1
            case.update({"failing_call": "final decode", "failing_index": -1, "op": "-"})
            run.report("spec-violation", case, {"impl": "finished stream does not decode to the consumed input", "spec": "DEC=fail"},
                       what="finished stream is corrupt after this call history")
            continue
        if vd.get("DEC") == "ok":
            stats["finished"] += 1
        d = sc.compare(c, i, m)
        if d is None:
            stats["agree"] += 1
        else:
            stats["disagree"] += 1
            case.update({"failing_index": d[0]})
            run.report("correspondence", case, {"impl": d[1][:400], "model": d[2][:400], "spec": s},
                       broken="correspondence model/Stream.v vs encode.rs at call %s" % d[0], found_input=False)
        stats["refused_calls"] += sum(1 for x in per if x.split(" | ")[0].split()[1:2] == ["0"])
        stats["flushes"] += sum(1 for x in calls if x.startswith("f"))
        stats["metadata_calls"] += sum(1 for x in calls if x.startswith("m"))
    return impl, mod, stats


def check(run):
    thorough = run.tier == "thorough"
    ok_proof, broken = vlib.proof_stage(run, "props/C20.v", [])
    okx, logx = vlib.coq_extract("STREAM")
    okm, logm, model = vlib.ocaml_build("STREAM", "stream_driver.ml")
    okh, logh, impl_exe = vlib.harness_build("stream", "dev")
    if not okh:
        run.report("proof-obligation", {"stage": "harness build"}, {"log": logh[-3000:]},
                   broken="harness does not build against /repo", found_input=False)
        return
    if not (okx and okm) and ok_proof:
        ok_proof = False
        broken.append("extraction/driver build failed: " + (logx if not okx else logm)[-500:])
    if not os.path.exists(model):
        run.report("proof-obligation", {"stage": "model build"}, {"log": (logx + logm)[-2000:]}, broken="executable model could not be built", found_input=False)
        return
    cases, meta = gen_cases(run, thorough)
    impl, mod, stats = run_stream_checks(run, cases, meta, impl_exe, model, "C20")
    # refused calls have no effect: twin scripts without the refused calls emit the same bytes
    twins, idx = [], []
    for k, (c, i) in enumerate(zip(cases, impl)):
        if "PANIC" in i:
            continue
        t = twin_of(c, i)
        if t:
            twins.append(t)
            idx.append(k)
    timpl = vlib.run_lines(impl_exe, twins, timeout=2400)
    ntw = 0
    for k, t, ti in zip(idx, twins, timpl):
        a, b = sc.verdict_dict(impl[k]), sc.verdict_dict(ti)
        ntw += 1
        if a.get("EM") != b.get("EM"):
            run.report("spec-violation", {"script": cases[k], "twin": t, "kind": "twin", "failing_call": "refused-call-effect", "op": "-",
                                          "quality": -1, "catable": -1, "config": meta[k][1]},
                       {"impl": "emitted bytes differ when the refused calls are omitted", "spec": "refused calls must have no effect"},
                       what="a refused call changed the emitted stream")
    run.cov["evaluations"] = len(cases) + len(twins)
    run.cov["distinct_nontrivial"] = len({c for c, i in zip(cases, impl) if i.count(" ; ") >= 3})
    run.cov["rule"] = ("call histories = exhaustive short prefixes over an abstract alphabet (ops x input {0,1,rest} x output {0,1,ample}, metadata sizes, "
                       "take-output, set-parameter) thinned by the seeded PRNG, every single call of the full alphabet (input {0,1,block-1,block,block+1,rest} x "
                       "output {0,1,17,ample}) as first call and after one block, random histories of 3..40 calls with injected contract violations; each followed "
                       "by a finishing suffix; across 15 parameter classes (quality 0,1,2,3,4,5,6,9,10,11, catable, large window, size hint, out-of-range values). "
                       "distinct_nontrivial = distinct scripts on which the implementation executed at least 4 calls")
    run.cov["traces_validated_against_impl"] = stats["agree"]
    run.cov["stats"] = stats
    run.cov["twins_checked"] = ntw
    run.cov["samples"] = [cases[0], cases[len(cases) // 2], cases[-1]]
    kinds = {}
    for m in meta:
        kinds[m[0] + ":" + m[1]] = kinds.get(m[0] + ":" + m[1], 0) + 1
    run.cov["case_kinds"] = kinds
    run.note("cases=%d twins=%d stats=%s" % (len(cases), ntw, stats))
    if not ok_proof and not run.violations:
        run.report("proof-obligation", {"stage": "proof"}, {"broken": broken}, broken="; ".join(b[:400] for b in broken), found_input=False)


def replay(path):
    d = json.load(open(path))
    c = d["case"].get("script")
    if not c:
        print("no script in replay (kind=%s): %s" % (d.get("kind"), d.get("broken")))
        return 1
    _, _, impl_exe = vlib.harness_build("stream", "dev")
    vlib.coq_extract("STREAM")
    _, _, model = vlib.ocaml_build("STREAM", "stream_driver.ml")
    i = vlib.run_lines(impl_exe, [c])[0]
    m = vlib.run_lines(model, [sc.model_request(c, i)])[0]
    s = vlib.run_lines(model, [obs_for_spec(c, i)])[0]
    print("script: %s\nimpl:  %s\nmodel: %s\nspec:  %s %s" % (c, i[:1500], m[:1500], s, sc.verdict_dict(i)))
    return 0 if (s == "OK" and sc.compare(c, i, m) is None and "PANIC" not in i) else 1
