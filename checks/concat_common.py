"""Shared machinery of the three concatenator checks (C16, C12, C03): building the tools,
generating members (real encoder output, hand-built header forms, arbitrary bytes), building
protocol scripts, running implementation and extracted model, canonicalising and comparing."""
import json, os
import vlib

MASK62 = (1 << 62) - 1
BIG = 1 << 22
RC = {0: "Success", 1: "NeedsMoreInput", 2: "NeedsMoreOutput", 124: "BrotliFileNotCraftedForAppend",
      125: "InvalidWindowSize", 126: "WindowSizeLargerThanPreviousFile", 127: "BrotliFileNotCraftedForConcatenation"}
GEN_SECTIONS = []
TRUSTED = ["coq/model/ConcatRun.v caller-protocol loop, re-implemented natively in harness/src/bin/concat.rs (compared call by call)",
           "brotli-decompressor 4.0.3 and Google libbrotlidec 1.0.9 as decoding oracles (C03)"]


def hx(b):
    return bytes(b).hex() if len(b) else "-"


def unhx(s):
    return b"" if s in ("-", "") else bytes.fromhex(s)


# ----------------------------------------------------------------------------- tools
def spread_run(exe, lines, timeout=1500):
    """vlib.run_lines hands each parallel process one contiguous block of lines; neighbouring requests
    have similar cost (big members, heavy sweep contexts sit together), so deal them out round-robin
    and put the answers back in the original order"""
    n = len(lines)
    if n <= vlib.NCPU:
        return vlib.run_lines(exe, lines, timeout=timeout)
    order = [i for r in range(vlib.NCPU) for i in range(r, n, vlib.NCPU)]
    res = vlib.run_lines(exe, [lines[i] for i in order], timeout=timeout)
    out = [None] * n
    for pos, i in enumerate(order):
        out[i] = res[pos] if pos < len(res) else "TOOL-CRASH(no answer)"
    return out


def private_copy(exe, prof):
    import shutil, time
    d = os.path.join(vlib.BUILD, "concat-bin")
    os.makedirs(d, exist_ok=True)
    dst = os.path.join(d, "concat-%s-%d" % (prof, os.getpid()))
    for _ in range(50):
        try:
            shutil.copy2(exe, dst)
            return dst
        except (FileNotFoundError, OSError):
            time.sleep(0.2)
    return exe


class Tools:
    def __init__(self, run, profiles=("dev",)):
        self.run = run
        self.ok = True
        self.problems = []
        okx, logx = vlib.coq_extract("CONCAT")
        okm, logm, self.model_exe = vlib.ocaml_build("CONCAT", "concat_driver.ml")
        if not (okx and okm):
            self.problems.append("extraction/driver build failed: " + (logx if not okx else logm)[-400:])
        self.impl_exe = {}
        for prof in profiles:
            okh, logh, exe = vlib.harness_build("concat", prof)
            if not okh:
                self.ok = False
                self.problems.append("harness does not build against /repo (%s): %s" % (prof, logh[-1500:]))
            # other checks rebuild the shared target directory concurrently (the binary can
            # be missing for a moment while it is re-linked): run a private copy
            self.impl_exe[prof] = private_copy(exe, prof) if okh else exe
        if not os.path.exists(self.model_exe):
            self.ok = False

    def impl(self, lines, prof="dev", timeout=1500):
        return spread_run(self.impl_exe[prof], lines, timeout)

    def model(self, lines, timeout=1500):
        return spread_run(self.model_exe, lines, timeout)


# ----------------------------------------------------------------------------- bit-level member builder
class BitW:
    def __init__(self):
        self.bits = []

    def put(self, v, n):
        for i in range(n):
            self.bits.append((v >> i) & 1)
        return self

    def align(self):
        while len(self.bits) % 8:
            self.bits.append(0)
        return self

    def raw(self, data):
        assert len(self.bits) % 8 == 0
        for b in data:
            self.put(b, 8)
        return self

    def bytes(self):
        self.align()
        out = bytearray()
        for i in range(0, len(self.bits), 8):
            out.append(sum(self.bits[i + k] << k for k in range(8)))
        return bytes(out)


def put_wbits(w, form, lgwin):
    """form in (1, 4, 7, 14) = number of WBITS bits (RFC 7932 9.1 + large-window extension)"""
    if form == 1:
        assert lgwin == 16
        w.put(0, 1)
    elif form == 4:
        assert 18 <= lgwin <= 24
        w.put(1 | ((lgwin - 17) << 1), 4)
    elif form == 7:
        assert lgwin == 17 or 10 <= lgwin <= 15
        w.put(1 | ((0 if lgwin == 17 else lgwin - 8) << 4), 7)
    else:
        assert 10 <= lgwin <= 30
        w.put(0x11, 8)
        w.put(lgwin, 6)
    return w


WFORMS = [(1, 16), (4, 18), (4, 22), (4, 24), (7, 10), (7, 15), (7, 17), (14, 10), (14, 22), (14, 30)]


def read_wbits(data):
    """(lgwin, nbits) or None, from the first two bytes (missing bytes read as 0)"""
    v = (data[0] if len(data) > 0 else 0) | ((data[1] if len(data) > 1 else 0) << 8)
    if v & 1 == 0:
        return (16, 1)
    n = (v >> 1) & 7
    if n:
        return (17 + n, 4)
    m = (v >> 4) & 7
    if m == 0:
        return (17, 7)
    if m != 1:
        return (8 + m, 7)
    if v & 0x80:
        return None
    w = (v >> 8) & 63
    return (w, 14) if 10 <= w <= 30 else None


def meta_block(w, k, data):
    """metadata meta-block with MSKIPBYTES = k carrying `data` (len must fit k bytes, k = 0 -> empty)"""
    w.put(0, 1).put(3, 2).put(0, 1).put(k, 2)
    if k:
        w.put(len(data) - 1, 8 * k)
    w.align()
    w.raw(data if k else b"")
    return w


def raw_block(w, nib, data, declared=None):
    """uncompressed meta-block, MLEN-1 in `nib` nibbles"""
    mlen = len(data) if declared is None else declared
    w.put(0, 1).put(nib - 4, 2).put(mlen - 1, 4 * nib).put(1, 1).align().raw(data)
    return w


def end_marker(w):
    return w.put(1, 1).put(1, 1).align()


def handmade(form, lgwin, kind, arg, payload, tail=b"", finish=True):
    """a member: WBITS, first block (kind 'meta' with MSKIPBYTES arg / 'raw' with MNIBBLES arg /
    'empty'), optionally a second uncompressed block with `tail`, then the end marker.
    returns (bytes, decoded content)"""
    w = put_wbits(BitW(), form, lgwin)
    content = b""
    if kind == "meta":
        meta_block(w, arg, payload)
    elif kind == "raw":
        raw_block(w, arg, payload)
        content += payload
    if tail:
        raw_block(w, 4, tail)
        content += tail
    if finish:
        end_marker(w)
    return w.bytes(), content


# ----------------------------------------------------------------------------- scripts
def chunks(member, sizes):
    """split a member into input buffers: sizes in order (values < 1 count as 1), the remainder
    as one last buffer; an empty member gives no buffer at all"""
    out, pos, n = [], 0, len(member)
    for s in sizes:
        if pos >= n:
            break
        s = max(1, s)
        out.append(member[pos:pos + s])
        pos += s
    if pos < n:
        out.append(member[pos:])
    return out


def fuel_for(ntasks, total_in, ncaps):
    return (ncaps + 2) * (3 * total_in + 16 * ntasks + 64)


def mk_run(members, slicings=None, caps=(BIG,), api="N", init="new", restore="-", finish=True, percall=False):
    """members: list of bytes; slicings: list (one per member) of size lists, None = one buffer"""
    tasks, total = [], 0
    for i, m in enumerate(members):
        tasks.append("F")
        sl = slicings[i] if slicings else None
        for c in (chunks(m, sl) if sl is not None else ([m] if len(m) else [])):
            tasks.append("C" + hx(c))
        total += len(m)
    if finish:
        tasks.append("X")
    # BIG stands for "ample": the model keeps the whole output buffer as a list, so the
    # ample size is derived from the script instead of being a constant
    capl = [(total + 4 * len(members) + 16) if c >= BIG else c for c in caps]
    assert any(c > 0 for c in capl)
    fuel = fuel_for(len(tasks), total, len(capl))
    return "RUN %s %s %s %s%s %d %s" % (api, init, restore, "p:" if percall else "", ",".join(str(c) for c in capl), fuel, " ".join(tasks))


def canon(ans):
    """answer line without the panic text"""
    i = ans.find(" msg=")
    return ans if i < 0 else ans[:i]


def panic_text(ans):
    i = ans.find(" msg=")
    return "" if i < 0 else ans[i + 5:]


def parse_answer(ans):
    d = {"final": None, "ncalls": 0, "out": b"", "trace": [], "raw": ans}
    for tok in canon(ans).split():
        if tok.startswith("final="):
            d["final"] = tok[6:]
        elif tok.startswith("ncalls="):
            d["ncalls"] = int(tok[7:])
        elif tok.startswith("out="):
            d["out"] = unhx(tok[4:])
        elif tok.startswith("trace=") and tok != "trace=-":
            for r in tok[6:].split(";"):
                f = r.split(",")
                d["trace"].append({"op": int(f[0]), "rc": f[1], "inlen": int(f[2]), "in0": int(f[3]), "in1": int(f[4]),
                                   "cap": int(f[5]), "off0": int(f[6]), "off1": int(f[7]), "state": f[9]})
    return d


def final_name(f):
    try:
        return RC[int(f)]
    except Exception:
        return f


def state_fields(hexstate):
    b = bytes.fromhex(hexstate)
    fl = b[9]
    d = {"last_bytes": [b[0], b[1]], "last_bytes_len": b[8], "sanitized": bool(fl & 1), "any_emitted": bool(fl & 32),
         "bit_offset": b[10], "window_size": b[11], "pending": None}
    if fl & 64:
        d["pending"] = {"read": b[12], "written": b[13] if fl & 128 else None, "bytes_so_far": list(b[16:21])}
    return d


def describe_script(line):
    """a human-readable rendering of a RUN line for replay files"""
    t = line.split()
    return {"api": {"N": "BroCatli", "F": "Broccoli C ABI"}.get(t[1], t[1]), "init": t[2], "restore_before_calls": t[3],
            "output_buffer_sizes": t[4], "call_budget": int(t[5]),
            "tasks": [("new_brotli_file" if x == "F" else "finish" if x == "X" else "stream " + x[1:]) for x in t[6:]]}


def first_diff(a, b):
    """where two canonical answers differ (call index and field) for the correspondence report"""
    pa, pb = parse_answer(a), parse_answer(b)
    for k, (x, y) in enumerate(zip(pa["trace"], pb["trace"])):
        if x != y:
            flds = [f for f in x if x[f] != y.get(f)]
            return "call %d fields %s" % (k, flds)
    if len(pa["trace"]) != len(pb["trace"]):
        return "number of calls %d vs %d" % (len(pa["trace"]), len(pb["trace"]))
    if pa["final"] != pb["final"]:
        return "final %s vs %s" % (pa["final"], pb["final"])
    if pa["out"] != pb["out"]:
        return "emitted bytes"
    return "output buffer contents (hash)"


# ----------------------------------------------------------------------------- encoder-made members
def enc_line(q, lgwin, flags, data):
    return "ENC %d %d %s %s" % (q, lgwin, flags or "-", hx(data))


def contents(rng, thorough):
    """member contents: empty, 1-3 bytes, text, runs, random, longer"""
    text = open(os.path.join(vlib.REPO, "testdata", "alice29.txt"), "rb").read() if os.path.exists(os.path.join(vlib.REPO, "testdata", "alice29.txt")) else b"the quick brown fox jumps over the lazy dog. " * 4000
    outs = [b"", b"a", b"ab", b"abc", b"\x00", b"\xff\xff\xff\xff"]
    for n in (4, 5, 7, 8, 15, 16, 17, 31, 64, 100, 255, 256, 1000):
        o = rng.randrange(0, max(1, len(text) - n))
        outs.append(text[o:o + n])
    for n in (6, 33, 300):
        outs.append(bytes(rng.randrange(256) for _ in range(n)))
    outs.append(b"z" * 500)
    big = [1 << 14, (1 << 14) + 1, 40000] + ([1 << 16, (1 << 16) + 1, 150000] if thorough else [])
    for n in big:
        o = rng.randrange(0, max(1, len(text) - n))
        outs.append(text[o:o + n])
    outs.append(bytes(rng.randrange(256) for _ in range(5000)))
    return outs


def hmix(h, x):
    return (h * 1000003 + x) & MASK62


def write_replay_case(kind, line, extra=None):
    d = {"kind": kind, "request": line, "script": describe_script(line) if line.startswith("RUN") else None}
    if extra:
        d.update(extra)
    return d


def replay_common(path, spec_fn):
    """re-run one recorded case on implementation, model and spec; print the three outcomes"""
    d = json.load(open(path))
    case = d["case"]
    prof = case.get("profile", "dev")

    class _R:
        pass
    tools = Tools(_R(), (prof,))
    lines = case.get("requests") or [case["request"]]
    rc = 0
    for line in lines:
        a = tools.impl([line], prof)[0]
        m = tools.model([line])[0]
        print("request: %s" % (line if len(line) < 600 else line[:600] + "..."))
        print("impl:    %s" % (a if len(a) < 1500 else a[:1500] + "..."))
        print("model:   %s" % (m if len(m) < 1500 else m[:1500] + "..."))
        if canon(a) != m:
            rc = 1
    s = spec_fn(tools, case, prof)
    print("spec:    %s" % s)
    return 0 if (rc == 0 and s == "OK") else 1
