"""Shared by checks/c02.py and checks/c06.py: the harness `multi`, the extracted model of
CompressMulti (model/Multi.v, driver ocaml/multi_driver.ml), trace parsing and the
implementation/model comparison."""
import os, re
import vlib

FLAG_CATABLE, FLAG_APPENDABLE, FLAG_MAGIC, FLAG_FAVOR, FLAG_LARGE = 1, 2, 4, 8, 16


class Case:
    """one call of CompressMulti"""

    def __init__(self, sp, q, w, f, t, kind, n, seed, out="bound", hint=0, profile="dev"):
        self.sp, self.q, self.w, self.f, self.t = sp, q, w, f, t
        self.kind, self.n, self.seed, self.out, self.hint, self.profile = kind, n, seed, out, hint, profile

    def line(self, trace=True):
        s = "R sp=%s q=%d w=%d f=%d t=%d in=%s:%d:%d out=%s" % (self.sp, self.q, self.w, self.f, self.t, self.kind, self.n, self.seed, self.out)
        if self.hint:
            s += " hint=%d" % self.hint
        if trace:
            s += " tr=1"
        return s

    def key_input(self):
        return (self.kind, self.n, self.seed)

    def group_key(self):
        """everything the output may depend on (C06): input, settings without the favor bit, thread count"""
        return (self.kind, self.n, self.seed, self.q, self.w, self.f & ~FLAG_FAVOR, self.t, self.hint, self.out)

    def case(self):
        return {"spawner": self.sp.split(":")[0], "spawner_arg": self.sp, "quality": self.q, "lgwin": self.w,
                "catable": bool(self.f & 1), "appendable": bool(self.f & 2), "magic": bool(self.f & 4),
                "favor_cpu_efficiency": bool(self.f & 8), "large_window": bool(self.f & 16), "flags": self.f,
                "threads": self.t, "input_kind": self.kind, "input_len": self.n, "input_seed": self.seed,
                "out": self.out, "size_hint": self.hint, "profile": self.profile, "line": self.line()}

    def with_(self, **kw):
        c = Case(self.sp, self.q, self.w, self.f, self.t, self.kind, self.n, self.seed, self.out, self.hint, self.profile)
        for k, v in kw.items():
            setattr(c, k, v)
        return c


def case_from_line(line, profile="dev"):
    t = line.split()
    d = {}
    for tok in t[1:]:
        k, _, v = tok.partition("=")
        d[k] = v
    kind, n, seed = d.get("in", "text:0:1").split(":")[:3]
    return Case(d.get("sp", "thr"), int(d.get("q", 5)), int(d.get("w", 22)), int(d.get("f", 0)), int(d.get("t", 2)),
                kind, int(n), int(seed), d.get("out", "bound"), int(d.get("hint", 0)), profile)


class Ans:
    """parsed answer line of the harness"""

    def __init__(self, text):
        self.text = text
        self.trace = ""
        head = text
        if " T=" in text:
            head, self.trace = text.split(" T=", 1)
        self.head = head
        m = re.match(r"^(OK n=(\d+)|OK-OVERRUN n=(\d+)|ERR:(\S+)|PANIC\((.*)\)|TOOL-\S+.*|BADREQ)(?: back=(\S+) bound=(\d+) dec=(\S+) h=(\d+))?", head)
        self.kind, self.n, self.err, self.panic = "?", None, None, None
        self.back, self.bound, self.dec, self.h = "?", None, "na", 0
        if m:
            if m.group(2) is not None:
                self.kind, self.n = "OK", int(m.group(2))
            elif m.group(3) is not None:
                self.kind, self.n = "OVERRUN", int(m.group(3))
            elif m.group(4) is not None:
                self.kind, self.err = "ERR", m.group(4)
            elif m.group(5) is not None:
                self.kind, self.panic = "PANIC", m.group(5)
                if self.panic.startswith("worker:"):
                    self.kind = "HANG"      # a pool worker died with its job: the join never returns
            else:
                self.kind = "TOOL"
            if m.group(6) is not None:
                self.back, self.bound, self.dec, self.h = m.group(6), int(m.group(7)), m.group(8), int(m.group(9))
        self.ev = [e for e in self.trace.split(",") if e]

    def result_str(self):
        if self.kind == "OK":
            return "OK n=%d" % self.n
        if self.kind == "ERR":
            return "ERR:" + self.err
        return self.kind

    def same_bytes_key(self):
        return (self.kind, self.n, self.h, self.err)


def parse_events(ev):
    """-> dict with per-job J/D/H/C lists and submitter-side P/S/F lists"""
    J, D, H, C, P, S, F = {}, {}, {}, {}, [], [], None
    for e in ev:
        m = re.match(r"^J(\d+):r(\d+)-(\d+)/(\d+):cap(\d+):f(\d+):n(\d+)$", e)
        if m:
            J[int(m.group(1))] = dict(s=int(m.group(2)), e=int(m.group(3)), t=int(m.group(4)), cap=int(m.group(5)), f=int(m.group(6)), n=int(m.group(7)))
            continue
        m = re.match(r"^D(\d+):f(\d+):d(\d+):q(\d+):w(\d+)$", e)
        if m:
            D[int(m.group(1))] = dict(f=int(m.group(2)), d=int(m.group(3)), q=int(m.group(4)), w=int(m.group(5)))
            continue
        m = re.match(r"^H(\d+):opt(\d+):size(\d+):dict(\d+):local(\d+):cmp(\d+)$", e)
        if m:
            H[int(m.group(1))] = dict(opt=int(m.group(2)), size=int(m.group(3)), dict=int(m.group(4)), local=int(m.group(5)), cmp=int(m.group(6)))
            continue
        m = re.match(r"^C(\d+)\.(\d+):r(\d+):ao(\d+):oo(\d+):fin(\d+):left(\d+)$", e)
        if m:
            C.setdefault(int(m.group(1)), []).append(dict(r=int(m.group(3)), ao=int(m.group(4)), oo=int(m.group(5)), fin=int(m.group(6))))
            continue
        m = re.match(r"^P(\d+):ov(\d+):st(\d+):(\d+)-(\d+)$", e)
        if m:
            P.append(dict(ti=int(m.group(1)), ov=int(m.group(2)), st=int(m.group(3)), s=int(m.group(4)), e=int(m.group(5))))
            continue
        m = re.match(r"^S(\d+):ok(\d+):cat(\d+):out(\d+):in(\d+)/(\d+)$", e)
        if m:
            S.append(dict(i=int(m.group(1)), ok=int(m.group(2)), cat=int(m.group(3)), out=int(m.group(4)), inn=int(m.group(5)), size=int(m.group(6))))
            continue
        m = re.match(r"^F:cat(\d+):out(\d+)$", e)
        if m:
            F = dict(cat=int(m.group(1)), out=int(m.group(2)))
    return dict(J=J, D=D, H=H, C=C, P=P, S=S, F=F)


def mode_of(j, h):
    if h is None:
        return "kept" if (j["f"] & 8) else "fresh"
    if h["opt"] and h["local"] and h["cmp"]:
        return "checked"
    if h["opt"] and not h["local"]:
        return "supplied"
    if not h["opt"] and h["local"]:
        return "local"
    return "odd(%d,%d,%d)" % (h["opt"], h["local"], h["cmp"])


def impl_canonical(c, a):
    """the implementation's decisions in the model's output format; jobs as a dict index -> string"""
    tr = parse_events(a.ev)
    jobs = {}
    for i, j in sorted(tr["J"].items()):
        d = tr["D"].get(i)
        h = tr["H"].get(i)
        s = "%d:%d-%d:%d:%d" % (i, j["s"], j["e"], j["cap"], j["f"])
        if d is not None:
            s += ":%d:%d:%d:%d:%s" % (d["f"], d["d"], d["q"], d["w"], mode_of(j, h))
        else:
            s += ":?:?:?:?:%s" % mode_of(j, h)
        jobs[i] = s
    cat = [str(s["size"]) for s in tr["S"] if s["cat"] < 254]
    pieces = ["%d-%d" % (p["s"], p["e"]) for p in tr["P"] if p["st"]]
    res = a.result_str()
    if a.kind == "PANIC":
        res = "PANIC"
    return dict(res=res, back=a.back, cat=",".join(cat) or "-", jobs=jobs, pieces=",".join(pieces) or "-", tr=tr)


def model_line(c, a, rng, ver="cur"):
    """request for the OCaml driver, with the abstract parts taken from the implementation's trace"""
    tr = parse_events(a.ev)
    kind = c.sp.split(":")[0]
    arg = c.sp.split(":")[1] if ":" in c.sp else None
    sp, jf, vf, uw, base, done = "inl", "-", 0, 1, 0, "-"
    if kind in ("thr", "slice"):
        sp = "thr"
    elif kind in ("pool", "poolr"):
        sp = "pool"
        base = rng.randrange(0, 1000) if kind == "poolr" else 0
        order = list(range(max(0, c.t - 1)))
        rng.shuffle(order)
        done = ",".join(str(x) for x in order) or "-"
    elif kind == "fail":
        jf = arg
    elif kind == "failview":
        vf = int(arg)
    elif kind == "failunwrap":
        uw = 0
    calls = []
    for i in sorted(tr["C"]):
        for cl in tr["C"][i]:
            calls.append("%d.%d.%d.%d.%d" % (i, cl["r"], cl["ao"], cl["oo"], cl["fin"]))
    # a job that entered set_custom_dictionary with a hasher to compare and never came out of it
    disagree = [str(i) for i, h in tr["H"].items() if h["cmp"] and i not in tr["D"]]
    cats = ["%d.%d.%d" % (s["i"], s["cat"], s["out"]) for s in tr["S"] if s["cat"] < 254]
    if tr["F"] is not None:
        fin = "%d.%d" % (tr["F"]["cat"], tr["F"]["out"])
    elif a.kind == "OK":
        fin = "0.%d" % a.n
    elif a.kind == "ERR" and a.err == "OtherThreadPanic" and uw == 0:
        # finish succeeded, then the input could not be taken back: the size it reached is not reported
        fin = "0.0"
    else:
        fin = "-"
    ov = tr["P"][0]["ov"] if tr["P"] else 3
    bound = a.bound if a.bound is not None else 0      # a call that never answered: the spec reports it
    cap = bound if c.out == "bound" else None
    if cap is None:
        if c.out.startswith("bound-"):
            cap = max(0, bound - int(c.out[6:]))
        elif c.out.startswith("bound+"):
            cap = bound + int(c.out[6:])
        else:
            cap = int(c.out)
    return ("M pr=%s ver=%s sp=%s base=%d done=%s jf=%s vf=%d uw=%d q=%d w=%d f=%d hint=%d t=%d n=%d cap=%d ov=%d calls=%s agree=%s cat=%s fin=%s" % (
        "rel" if c.profile == "release" else "dev", ver, sp, base, done, jf, vf, uw, c.q, c.w, c.f, c.hint, c.t, c.n, cap, ov,
        ";".join(calls) or "-", ",".join(disagree) or "-", ";".join(cats) or "-", fin))


def parse_model(text):
    m = re.match(r"^RES=(.*) back=(\S+) cat=(\S+) jobs=(\S+) pieces=(\S+)$", text)
    if not m:
        return None
    jobs = {}
    for j in m.group(4).split(";"):
        if j and j != "PANIC":
            jobs[int(j.split(":")[0])] = j
    return dict(res=m.group(1), back=m.group(2), cat=m.group(3), jobs=jobs, pieces=m.group(5), jobs_raw=m.group(4))


def compare(c, a, mtext):
    """list of disagreements between the implementation's decisions and the model's"""
    if c.sp.startswith("slice"):
        return []
    ic = impl_canonical(c, a)
    mc = parse_model(mtext)
    if mc is None:
        return ["model answer unreadable: " + mtext[:200]]
    diffs = []
    ires = ic["res"]
    if a.kind == "HANG":
        ires = "HANG"
    if ires != mc["res"]:
        diffs.append("result: impl %s / model %s" % (ires, mc["res"]))
    if a.kind in ("OK", "ERR") and mc["back"] != "?" and ic["back"] != mc["back"]:
        diffs.append("hand-back: impl %s / model %s" % (ic["back"], mc["back"]))
    if a.kind in ("OK", "ERR") and ic["cat"] != mc["cat"]:
        diffs.append("chunks given to the concatenator: impl %s / model %s" % (ic["cat"], mc["cat"]))
    for i, js in ic["jobs"].items():
        mj = mc["jobs"].get(i)
        if mj is None:
            diffs.append("job %d: impl %s / model has no such job (%s)" % (i, js, mc["jobs_raw"][:80]))
            continue
        if "?" in js:
            # the job did not get past set_custom_dictionary: compare what was decided before
            pi, pm = js.split(":"), mj.split(":")
            if pi[:4] != pm[:4] or pi[-1] != pm[-1]:
                diffs.append("job %d: impl %s / model %s" % (i, js, mj))
        elif js != mj:
            diffs.append("job %d: impl %s / model %s" % (i, js, mj))
    if a.kind in ("OK", "ERR") and not c.sp.startswith("failview") and len(ic["jobs"]) != c.t:
        diffs.append("jobs seen in the trace: %d of %d" % (len(ic["jobs"]), c.t))
    if (c.f & FLAG_FAVOR) and c.t > 1 and a.kind in ("OK", "ERR") and not c.sp.startswith("failview"):
        if ic["pieces"] != mc["pieces"]:
            diffs.append("ranges stored into the shared hasher: impl %s / model %s" % (ic["pieces"], mc["pieces"]))
    return diffs


# ---------------------------------------------------------------------------------------------
def build_model():
    okx, logx = vlib.coq_extract("MULTI")
    okm, logm, model = vlib.ocaml_build("MULTI", "multi_driver.ml")
    return (okx and okm), (logx if not okx else logm), model


def rerun_lost(exe, lines, outs, timeout=300):
    """a process that aborts or times out loses the answers of all its remaining lines: run every
    line without an answer again in a process of its own, so that only the line that really
    brings the process down keeps the TOOL-... outcome"""
    lost = [k for k, o in enumerate(outs) if o.startswith("TOOL-")]
    for b in range(0, len(lost), 32):
        batch = lost[b:b + 32]
        again = vlib.run_lines(exe, [lines[k] for k in batch], shards=len(batch), timeout=timeout)
        for k, o in zip(batch, again):
            outs[k] = o
    return outs


def run_contiguous(exe, cases, timeout=900, shards=vlib.NCPU):
    """consecutive cases go to the same process (pool reuse); returns Ans list"""
    lines = [c.line() for c in cases]
    outs = vlib.run_lines(exe, lines, shards=shards, timeout=timeout)
    outs = outs + ["TOOL-MISSING"] * (len(lines) - len(outs))
    return [Ans(o) for o in rerun_lost(exe, lines, outs)]


def run_impl(exe, cases, timeout=900, shards=vlib.NCPU):
    """interleave the cases over the shards so that slow configurations spread out"""
    lines = [c.line() for c in cases]
    if not lines:
        return []
    idx = []
    shards = max(1, min(shards, len(lines)))
    for k in range(shards):
        idx.extend(range(k, len(lines), shards))
    plines = [lines[i] for i in idx]
    outs = vlib.run_lines(exe, plines, shards=shards, timeout=timeout)
    outs = outs + ["TOOL-MISSING"] * (len(plines) - len(outs))
    outs = rerun_lost(exe, plines, outs)
    res = [None] * len(lines)
    for pos, i in enumerate(idx):
        res[i] = Ans(outs[pos])
    return res


def run_model(model, cases, answers, rng, ver="cur"):
    lines = [model_line(c, a, rng, ver) for c, a in zip(cases, answers)]
    return lines, vlib.run_lines(model, lines)


# ---------------------------------------------------------------------------------------------
# the spec on the real code (C02), independent of the model
def c02_spec(c, a):
    """list of (what, kind) violations of the property on one call"""
    bad = []
    if a.kind == "TOOL":
        bad.append("the call did not return (harness: %s)" % a.head[:120])
        return bad
    if a.kind == "PANIC":
        bad.append("panic: " + a.panic[:160])
        return bad
    if a.kind == "HANG":
        bad.append("a pool worker panicked with its job (%s): the join never returns" % a.panic[:160])
        return bad
    if a.kind == "OVERRUN":
        bad.append("success reported with more bytes (%d) than the buffer holds" % a.n)
    if a.kind == "OK" and a.dec != "ok":
        bad.append("success with %d bytes that do not decode to the input" % a.n)
    enough = c.out == "bound" or c.out.startswith("bound+")
    fault = c.sp.split(":")[0] in ("fail", "failview", "failunwrap")
    if enough and c.q >= 2 and a.kind != "OK" and not fault:
        bad.append("buffer of the advertised multi-threaded maximum (%s) and quality %d, but %s" % (a.bound, c.q, a.result_str()))
    if a.kind in ("OK", "ERR", "OVERRUN"):
        lost_inside = c.sp.split(":")[0] in ("failview", "failunwrap")
        if a.back != "1" and not lost_inside:
            bad.append("the input was not handed back (owned_input state %s) after %s" % (a.back, a.result_str()))
    if fault and c.sp.startswith("fail:") and a.kind == "OK" and int(c.sp.split(":")[1]) < c.t - 1:
        bad.append("a failed join was reported as success")
    return bad
