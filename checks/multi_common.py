"""Shared by checks/c02.py and checks/c06.py: the harness `multi`, the extracted model of
CompressMulti (model/Multi.v, driver ocaml/multi_driver.ml), trace parsing and the
implementation/model comparison."""
import os, re, subprocess, threading
import vlib

FLAG_CATABLE, FLAG_APPENDABLE, FLAG_MAGIC, FLAG_FAVOR, FLAG_LARGE = 1, 2, 4, 8, 16


def size_hint_cuts():
    """the input sizes at which ChooseHasher (encode.rs) changes its choice: every `size_hint >= / > / <= (1 << k)`
    in its body, read from the source of the tree under test"""
    cuts = set()
    try:
        src = open(os.path.join(vlib.REPO, "src", "enc", "encode.rs")).read()
        m = re.search(r"fn ChooseHasher\b.*?\n}\n", src, re.S)
        body = m.group(0) if m else src
        for x in re.finditer(r"size_hint\s*(?:>=|<=|>|<)\s*\(?\s*\(?\s*1(?:i32|u32|usize|u64)?\s*<<\s*(\d+)", body):
            cuts.add(int(x.group(1)))
    except Exception:
        pass
    return sorted(cuts) or [20, 22]


class Case:
    """one call of CompressMulti"""

    def __init__(self, sp, q, w, f, t, kind, n, seed, out="bound", hint=0, profile="dev", lb=0):
        self.sp, self.q, self.w, self.f, self.t = sp, q, w, f, t
        self.kind, self.n, self.seed, self.out, self.hint, self.profile, self.lb = kind, n, seed, out, hint, profile, lb

    def line(self, trace=True):
        s = "R sp=%s q=%d w=%d f=%d t=%d in=%s:%d:%d out=%s" % (self.sp, self.q, self.w, self.f, self.t, self.kind, self.n, self.seed, self.out)
        if self.hint:
            s += " hint=%d" % self.hint
        if self.lb:
            s += " lb=%d" % self.lb
        if trace:
            s += " tr=1"
        return s

    def key_input(self):
        return (self.kind, self.n, self.seed)

    def group_key(self):
        """everything the output may depend on (C06): input, settings without the favor bit, thread count"""
        return (self.kind, self.n, self.seed, self.q, self.w, self.f & ~FLAG_FAVOR, self.t, self.hint, self.out, self.lb)

    def case(self):
        return {"spawner": self.sp.split(":")[0], "spawner_arg": self.sp, "quality": self.q, "lgwin": self.w,
                "catable": bool(self.f & 1), "appendable": bool(self.f & 2), "magic": bool(self.f & 4),
                "favor_cpu_efficiency": bool(self.f & 8), "large_window": bool(self.f & 16), "flags": self.f,
                "threads": self.t, "input_kind": self.kind, "input_len": self.n, "input_seed": self.seed,
                "out": self.out, "size_hint": self.hint, "lgblock": self.lb, "profile": self.profile, "line": self.line()}

    def with_(self, **kw):
        c = Case(self.sp, self.q, self.w, self.f, self.t, self.kind, self.n, self.seed, self.out, self.hint, self.profile, self.lb)
        for k, v in kw.items():
            setattr(c, k, v)
        return c


def case_from_line(line, profile="dev"):
    t = line.split()
    d = {}
    for tok in t[1:]:
        k, _, v = tok.partition("=")
        d[k] = v
    kind, n, seed = d.get("in", "text:0:1").split(":")[:3]
    return Case(d.get("sp", "thr"), int(d.get("q", 5)), int(d.get("w", 22)), int(d.get("f", 0)), int(d.get("t", 2)),
                kind, int(n), int(seed), d.get("out", "bound"), int(d.get("hint", 0)), profile, int(d.get("lb", 0)))


class Ans:
    """parsed answer line of the harness"""

    def __init__(self, text):
        self.text = text
        self.notrun = text.startswith("TOOL-NOTRUN")
        self.trace = ""
        head = text
        if " T=" in text:
            head, self.trace = text.split(" T=", 1)
        self.head = head
        m = re.match(r"^(OK n=(\d+)|OK-OVERRUN n=(\d+)|ERR:(\S+)|PANIC\((.*)\)|NORETURN\((.*)\)|TOOL-\S+.*|BADREQ)(?: back=(\S+) bound=(\d+) dec=(\S+) h=(\d+))?", head)
        self.kind, self.n, self.err, self.panic, self.stuck = "?", None, None, None, None
        self.back, self.bound, self.dec, self.h = "?", None, "na", 0
        self.served, self.ooo, self.ms = None, 0, 0
        self.history = []       # earlier requests of the same process that shaped the state this call met (reused pool)
        if m:
            if m.group(2) is not None:
                self.kind, self.n = "OK", int(m.group(2))
            elif m.group(3) is not None:
                self.kind, self.n = "OVERRUN", int(m.group(3))
            elif m.group(4) is not None:
                self.kind, self.err = "ERR", m.group(4)
            elif m.group(5) is not None:
                self.kind, self.panic = "PANIC", m.group(5)
                if self.panic.startswith("worker:"):
                    self.kind = "HANG"      # a pool worker died with its job: the join never returns
            elif m.group(6) is not None:
                # the watchdog of the harness: the call had not returned when its time budget ran out
                self.kind, self.stuck = "NORETURN", m.group(6)
            else:
                self.kind = "TOOL"          # the harness process died / was killed / was not run: never an agreement
            if m.group(7) is not None:
                self.back, self.bound, self.dec, self.h = m.group(7), int(m.group(8)), m.group(9), int(m.group(10))
            x = re.search(r" served=(\d+) ooo=(\d)", head)
            if x:
                self.served, self.ooo = int(x.group(1)), int(x.group(2))
            x = re.search(r" ms=(\d+)", head)
            if x:
                self.ms = int(x.group(1))
        self.ev = [e for e in self.trace.split(",") if e]

    def failed_to_return(self):
        return self.kind in ("PANIC", "HANG", "NORETURN", "TOOL")

    def result_str(self):
        if self.kind == "NORETURN":
            return "NORETURN(%s)" % self.stuck
        if self.kind == "OK":
            return "OK n=%d" % self.n
        if self.kind == "ERR":
            return "ERR:" + self.err
        return self.kind

    def same_bytes_key(self):
        return (self.kind, self.n, self.h, self.err)


def parse_events(ev):
    """-> dict with per-job J/D/H/C lists and submitter-side P/S/F lists"""
    J, D, H, C, P, S, F = {}, {}, {}, {}, [], [], None
    for e in ev:
        m = re.match(r"^J(\d+):r(\d+)-(\d+)/(\d+):cap(\d+):f(\d+):n(\d+)$", e)
        if m:
            J[int(m.group(1))] = dict(s=int(m.group(2)), e=int(m.group(3)), t=int(m.group(4)), cap=int(m.group(5)), f=int(m.group(6)), n=int(m.group(7)))
            continue
        m = re.match(r"^D(\d+):f(\d+):d(\d+):q(\d+):w(\d+)$", e)
        if m:
            D[int(m.group(1))] = dict(f=int(m.group(2)), d=int(m.group(3)), q=int(m.group(4)), w=int(m.group(5)))
            continue
        m = re.match(r"^H(\d+):opt(\d+):size(\d+):dict(\d+):local(\d+):cmp(\d+)$", e)
        if m:
            H[int(m.group(1))] = dict(opt=int(m.group(2)), size=int(m.group(3)), dict=int(m.group(4)), local=int(m.group(5)), cmp=int(m.group(6)))
            continue
        m = re.match(r"^C(\d+)\.(\d+):r(\d+):ao(\d+):oo(\d+):fin(\d+):left(\d+)$", e)
        if m:
            C.setdefault(int(m.group(1)), []).append(dict(r=int(m.group(3)), ao=int(m.group(4)), oo=int(m.group(5)), fin=int(m.group(6))))
            continue
        m = re.match(r"^P(\d+):ov(\d+):st(\d+):(\d+)-(\d+)$", e)
        if m:
            P.append(dict(ti=int(m.group(1)), ov=int(m.group(2)), st=int(m.group(3)), s=int(m.group(4)), e=int(m.group(5))))
            continue
        m = re.match(r"^S(\d+):ok(\d+):cat(\d+):out(\d+):in(\d+)/(\d+)$", e)
        if m:
            S.append(dict(i=int(m.group(1)), ok=int(m.group(2)), cat=int(m.group(3)), out=int(m.group(4)), inn=int(m.group(5)), size=int(m.group(6))))
            continue
        m = re.match(r"^F:cat(\d+):out(\d+)$", e)
        if m:
            F = dict(cat=int(m.group(1)), out=int(m.group(2)))
    return dict(J=J, D=D, H=H, C=C, P=P, S=S, F=F)


def mode_of(j, h):
    if h is None:
        return "kept" if (j["f"] & 8) else "fresh"
    if h["opt"] and h["local"] and h["cmp"]:
        return "checked"
    if h["opt"] and not h["local"]:
        return "supplied"
    if not h["opt"] and h["local"]:
        return "local"
    return "odd(%d,%d,%d)" % (h["opt"], h["local"], h["cmp"])


def impl_canonical(c, a):
    """the implementation's decisions in the model's output format; jobs as a dict index -> string"""
    tr = parse_events(a.ev)
    jobs = {}
    for i, j in sorted(tr["J"].items()):
        d = tr["D"].get(i)
        h = tr["H"].get(i)
        s = "%d:%d-%d:%d:%d" % (i, j["s"], j["e"], j["cap"], j["f"])
        if d is not None:
            s += ":%d:%d:%d:%d:%s" % (d["f"], d["d"], d["q"], d["w"], mode_of(j, h))
        else:
            s += ":?:?:?:?:%s" % mode_of(j, h)
        jobs[i] = s
    cat = [str(s["size"]) for s in tr["S"] if s["cat"] < 254]
    pieces = ["%d-%d" % (p["s"], p["e"]) for p in tr["P"] if p["st"]]
    res = a.result_str()
    if a.kind == "PANIC":
        res = "PANIC"
    return dict(res=res, back=a.back, cat=",".join(cat) or "-", jobs=jobs, pieces=",".join(pieces) or "-", tr=tr)


def model_line(c, a, rng, ver="cur"):
    """request for the OCaml driver, with the abstract parts taken from the implementation's trace"""
    tr = parse_events(a.ev)
    kind = c.sp.split(":")[0]
    arg = c.sp.split(":")[1] if ":" in c.sp else None
    sp, jf, vf, uw, base, done = "inl", "-", 0, 1, 0, "-"
    if kind in ("thr", "slice"):
        sp = "thr"
    elif kind in ("pool", "poolr"):
        sp = "pool"
        base = rng.randrange(0, 1000) if kind == "poolr" else 0
        order = list(range(max(0, c.t - 1)))
        rng.shuffle(order)
        done = ",".join(str(x) for x in order) or "-"
    elif kind == "fail":
        jf = arg
    elif kind == "failview":
        vf = int(arg)
    elif kind == "failunwrap":
        uw = 0
    calls = []
    for i in sorted(tr["C"]):
        for cl in tr["C"][i]:
            calls.append("%d.%d.%d.%d.%d" % (i, cl["r"], cl["ao"], cl["oo"], cl["fin"]))
    # a job that entered set_custom_dictionary with a hasher to compare and never came out of it
    disagree = [str(i) for i, h in tr["H"].items() if h["cmp"] and i not in tr["D"]]
    cats = ["%d.%d.%d" % (s["i"], s["cat"], s["out"]) for s in tr["S"] if s["cat"] < 254]
    if tr["F"] is not None:
        fin = "%d.%d" % (tr["F"]["cat"], tr["F"]["out"])
    elif a.kind == "OK":
        fin = "0.%d" % a.n
    elif a.kind == "ERR" and a.err == "OtherThreadPanic" and uw == 0:
        # finish succeeded, then the input could not be taken back: the size it reached is not reported
        fin = "0.0"
    else:
        fin = "-"
    ov = tr["P"][0]["ov"] if tr["P"] else 3
    bound = a.bound if a.bound is not None else 0      # a call that never answered: the spec reports it
    cap = bound if c.out == "bound" else None
    if cap is None:
        if c.out.startswith("bound-"):
            cap = max(0, bound - int(c.out[6:]))
        elif c.out.startswith("bound+"):
            cap = bound + int(c.out[6:])
        else:
            cap = int(c.out)
    return ("M pr=%s ver=%s sp=%s base=%d done=%s jf=%s vf=%d uw=%d q=%d w=%d f=%d hint=%d t=%d n=%d cap=%d ov=%d calls=%s agree=%s cat=%s fin=%s" % (
        "rel" if c.profile == "release" else "dev", ver, sp, base, done, jf, vf, uw, c.q, c.w, c.f, c.hint, c.t, c.n, cap, ov,
        ";".join(calls) or "-", ",".join(disagree) or "-", ";".join(cats) or "-", fin))


def parse_model(text):
    m = re.match(r"^RES=(.*) back=(\S+) cat=(\S+) jobs=(\S+) pieces=(\S+)$", text)
    if not m:
        return None
    jobs = {}
    for j in m.group(4).split(";"):
        if j and j != "PANIC":
            jobs[int(j.split(":")[0])] = j
    return dict(res=m.group(1), back=m.group(2), cat=m.group(3), jobs=jobs, pieces=m.group(5), jobs_raw=m.group(4))


def compare(c, a, mtext):
    """list of disagreements between the implementation's decisions and the model's"""
    if c.sp.startswith("slice"):
        return []
    ic = impl_canonical(c, a)
    mc = parse_model(mtext)
    if mc is None:
        return ["model answer unreadable: " + mtext[:200]]
    diffs = []
    ires = ic["res"]
    if a.kind == "HANG":
        ires = "HANG"
    if ires != mc["res"]:
        diffs.append("result: impl %s / model %s" % (ires, mc["res"]))
    if a.kind in ("OK", "ERR") and mc["back"] != "?" and ic["back"] != mc["back"]:
        diffs.append("hand-back: impl %s / model %s" % (ic["back"], mc["back"]))
    if a.kind in ("OK", "ERR") and ic["cat"] != mc["cat"]:
        diffs.append("chunks given to the concatenator: impl %s / model %s" % (ic["cat"], mc["cat"]))
    for i, js in ic["jobs"].items():
        mj = mc["jobs"].get(i)
        if mj is None:
            diffs.append("job %d: impl %s / model has no such job (%s)" % (i, js, mc["jobs_raw"][:80]))
            continue
        if "?" in js:
            # the job did not get past set_custom_dictionary: compare what was decided before
            pi, pm = js.split(":"), mj.split(":")
            if pi[:4] != pm[:4] or pi[-1] != pm[-1]:
                diffs.append("job %d: impl %s / model %s" % (i, js, mj))
        elif js != mj:
            diffs.append("job %d: impl %s / model %s" % (i, js, mj))
    if a.kind in ("OK", "ERR") and not c.sp.startswith("failview") and len(ic["jobs"]) != c.t:
        diffs.append("jobs seen in the trace: %d of %d" % (len(ic["jobs"]), c.t))
    if (c.f & FLAG_FAVOR) and c.t > 1 and a.kind in ("OK", "ERR") and not c.sp.startswith("failview"):
        if ic["pieces"] != mc["pieces"]:
            diffs.append("ranges stored into the shared hasher: impl %s / model %s" % (ic["pieces"], mc["pieces"]))
    return diffs


# ---------------------------------------------------------------------------------------------
def build_model():
    okx, logx = vlib.coq_extract("MULTI")
    okm, logm, model = vlib.ocaml_build("MULTI", "multi_driver.ml")
    return (okx and okm), (logx if not okx else logm), model


class HangBudget:
    """how many processes of one check run may hang or die before the runner stops restarting the
    rest of their requests (bounds the cost of a defect that makes calls hang: every hang costs the
    watchdog's budget of wall time)"""

    def __init__(self, total=5, per_shard=1):
        self.total, self.per_shard, self.used = total, per_shard, 0
        self.lock = threading.Lock()

    def take(self):
        with self.lock:
            self.used += 1
            return self.used <= self.total

    def exhausted(self):
        with self.lock:
            return self.used >= self.total


def run_shards(exe, shard_lines, budget=None, timeout=1500):
    """every list of request lines runs in ONE process, in order (later requests meet the worker
    pools that earlier `poolr` requests left behind).  The harness answers line by line and, when a
    call does not return, answers NORETURN for it and ends the process; a process that dies or is
    killed leaves its current request without an answer.  In both cases the request that was
    running KEEPS that outcome (it is never run again in a fresh process: there the state that made it
    fail is gone) and the requests after it are run in a new process.  Requests that are not run at
    all (budget of hangs exhausted) are answered TOOL-NOTRUN: they are never counted as agreement.
    returns per shard (answers, starts): starts[k] = index of the first request of the process that ran request k"""
    budget = budget or HangBudget()
    res = [None] * len(shard_lines)

    def work(si):
        lines = shard_lines[si]
        outs, starts = [None] * len(lines), [0] * len(lines)
        pos, stops = 0, 0
        while pos < len(lines):
            p = subprocess.Popen([exe], stdin=subprocess.PIPE, stdout=subprocess.PIPE, stderr=subprocess.PIPE, text=True, preexec_fn=vlib._unlimit_stack)
            why = None
            try:
                o, er = p.communicate("\n".join(lines[pos:]) + "\n", timeout=timeout)
            except subprocess.TimeoutExpired:
                p.kill()
                o, er = p.communicate()
                why = "TOOL-TIMEOUT(the harness process was killed after %ds)" % timeout
            got = (o or "").split("\n")[:-1]          # complete answer lines only
            got = got[:len(lines) - pos]
            for j, g in enumerate(got):
                outs[pos + j], starts[pos + j] = g, pos
            k = pos + len(got)
            if k >= len(lines):
                break
            if got and got[-1].startswith("NORETURN"):
                nxt = k                                  # the harness gave its verdict and ended the process
            else:
                outs[k] = why or "TOOL-CRASH(the harness process ended with status %s while this request was running: %s)" % (
                    p.returncode, (er or "").strip()[-300:].replace("\n", " "))
                starts[k] = pos
                nxt = k + 1
            stops += 1
            if not budget.take() or stops > budget.per_shard:
                for j in range(nxt, len(lines)):
                    outs[j], starts[j] = "TOOL-NOTRUN(%d processes of this run hung or died before; not started)" % budget.used, nxt
                break
            pos = nxt
        res[si] = (outs, starts)

    ths = [threading.Thread(target=work, args=(i,)) for i in range(len(shard_lines))]
    for t in ths:
        t.start()
    for t in ths:
        t.join()
    return res


def _history(cases, starts, k):
    """the earlier requests of the same process that used the same reused pool as request k"""
    c = cases[k]
    if not c.sp.startswith("poolr"):
        return []
    return [cases[j].line() for j in range(starts[k], k) if cases[j].sp == c.sp]


def cost(c):
    """rough relative cost of a call (for spreading the work over the processes)"""
    f = 40 if c.q >= 10 else 4 if c.q >= 9 else 2 if c.q >= 5 else 1
    return 30000 + c.n * f


def run_bins(exe, bins, budget=None, timeout=1500):
    """bins: lists of cases, one process each -> dict id(case) -> Ans (with .history filled)"""
    bins = [b for b in bins if b]
    out = {}
    rs = run_shards(exe, [[c.line() for c in b] for b in bins], budget, timeout)
    for b, (outs, starts) in zip(bins, rs):
        for k, c in enumerate(b):
            a = Ans(outs[k] if outs[k] is not None else "TOOL-MISSING")
            a.history = _history(b, starts, k)
            out[id(c)] = a
    return out


def run_units(exe, units, budget=None, timeout=1500, shards=vlib.NCPU):
    """units = lists of cases that must stay together, in order, in one process (a group whose
    consecutive poolr requests meet the same pool; a scripted history of one pool).  Units are
    spread over `shards` processes by estimated cost.  returns the answers in the order of the units' cases"""
    shards = max(1, min(shards, len(units)))
    bins, load = [[] for _ in range(shards)], [0] * shards
    order = sorted(range(len(units)), key=lambda u: -sum(cost(c) for c in units[u]))
    place = {}
    for u in order:
        b = load.index(min(load))
        place[u] = b
        load[b] += sum(cost(c) for c in units[u])
    for u in range(len(units)):          # inside a process the units keep their generation order
        bins[place[u]].extend(units[u])
    got = run_bins(exe, bins, budget, timeout)
    return [got[id(c)] for u in units for c in u]


def run_impl(exe, cases, timeout=1500, shards=vlib.NCPU, budget=None):
    """every case is a unit of its own; the cases are dealt round the processes so that slow configurations spread out"""
    if not cases:
        return []
    shards = max(1, min(shards, len(cases)))
    bins = [[cases[i] for i in range(k, len(cases), shards)] for k in range(shards)]
    got = run_bins(exe, bins, budget, timeout)
    return [got[id(c)] for c in cases]


def run_sequence(exe, lines, timeout=1500):
    """replay: the given request lines in one process; -> list of Ans"""
    outs, _ = run_shards(exe, [list(lines)], HangBudget(1, 0), timeout)[0]
    return [Ans(o if o is not None else "TOOL-MISSING") for o in outs]


def run_model(model, cases, answers, rng, ver="cur"):
    lines = [model_line(c, a, rng, ver) for c, a in zip(cases, answers)]
    return lines, vlib.run_lines(model, lines)


# ---------------------------------------------------------------------------------------------
# the spec on the real code (C02), independent of the model
def c02_spec(c, a):
    """list of (what, kind) violations of the property on one call"""
    bad = []
    if a.kind == "TOOL":
        bad.append("the call did not return (harness: %s)" % a.head[:200])
        return bad
    if a.kind == "NORETURN":
        bad.append("the call had not returned when the watchdog of the harness gave up (%s)%s" % (
            a.stuck[:300], "; %d earlier calls on the same pool in this process" % len(a.history) if a.history else ""))
        return bad
    if a.kind == "PANIC":
        bad.append("panic: " + a.panic[:160])
        return bad
    if a.kind == "HANG":
        bad.append("a pool worker panicked with its job (%s): the join never returns" % a.panic[:160])
        return bad
    if a.kind == "OVERRUN":
        bad.append("success reported with more bytes (%d) than the buffer holds" % a.n)
    if a.kind == "OK" and a.dec != "ok":
        bad.append("success with %d bytes that do not decode to the input" % a.n)
    if a.kind == "?":
        bad.append("unreadable answer of the harness: %s" % a.head[:120])
        return bad
    enough = c.out == "bound" or c.out.startswith("bound+")
    fault = c.sp.split(":")[0] in ("fail", "failview", "failunwrap")
    if enough and c.q >= 2 and a.kind != "OK" and not fault:
        bad.append("buffer of the advertised multi-threaded maximum (%s) and quality %d, but %s" % (a.bound, c.q, a.result_str()))
    if a.kind in ("OK", "ERR", "OVERRUN"):
        lost_inside = c.sp.split(":")[0] in ("failview", "failunwrap")
        if a.back != "1" and not lost_inside:
            bad.append("the input was not handed back (owned_input state %s) after %s" % (a.back, a.result_str()))
    if fault and c.sp.startswith("fail:") and a.kind == "OK" and int(c.sp.split(":")[1]) < c.t - 1:
        bad.append("a failed join was reported as success")
    return bad
