"""Shared by C20 / C04 / C05 (and C13/C01): script generation, impl-vs-model comparison."""
import os, re
import vlib


def split_obs(line):
    """harness line -> (list of per-call strings, verdict string)"""
    verdict = ""
    if " ## " in line:
        line, verdict = line.split(" ## ", 1)
    return line.split(" ; "), verdict


def model_request(case, impl_line):
    """build the model's request line: the case tokens + X<i>=... trace tokens taken from the implementation run"""
    calls, _ = split_obs(impl_line)
    toks = [case]
    for i, c in enumerate(calls):
        parts = c.split(" | ")
        recs = []
        for p in parts[2:]:
            f = p.split()
            if f and f[0] == "T":
                recs.append(",".join(f[1:]))
        if recs:
            toks.append("X%d=%s" % (i, ";".join(recs)))
    return " ".join(toks)


def strip_trace(call):
    parts = call.split(" | ")
    return " | ".join(parts[:2])


def compare(case, impl_line, model_line):
    """returns None when model and implementation agree on every call, else (index, impl, model)"""
    ic, _ = split_obs(impl_line)
    mc, mv = split_obs(model_line)
    if "BADANSWERS" in mv:
        return (-1, "recorded back-end answers violate answer_ok / answer_ok3 (hypotheses of the stream-layer and round-trip theorems)", mv)
    for k in range(max(len(ic), len(mc))):
        a = strip_trace(ic[k]) if k < len(ic) else "<missing>"
        b = mc[k] if k < len(mc) else "<missing>"
        if a.startswith("PANIC") and b.startswith("PANIC"):
            return None
        if a != b:
            return (k, a, b)
    return None


def verdict_dict(impl_line):
    _, v = split_obs(impl_line)
    d = {}
    for t in v.split():
        if "=" in t:
            k, x = t.split("=", 1)
            d[k] = x
    return d
