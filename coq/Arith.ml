open BinInt
open BinNat
open BinNums
open Datatypes
open GenArith
open List
open Words

(** val get_insert_length_code : coq_N -> coq_N **)

let get_insert_length_code n =
  if N.ltb n (nthN ins_thresholds N0)
  then w16 n
  else if N.ltb n (nthN ins_thresholds (Npos Coq_xH))
       then let nbits =
              wsub32 (log2_floor_nonzero (wsub64 n (nthN ins_subs N0))) (Npos
                Coq_xH)
            in
            w16
              (wadd64
                (wadd64 (wshl32 nbits (Npos Coq_xH))
                  (N.shiftr (wsub64 n (nthN ins_subs (Npos Coq_xH))) nbits))
                (nthN ins_adds N0))
       else if N.ltb n (nthN ins_thresholds (Npos (Coq_xO Coq_xH)))
            then w16
                   (wadd32
                     (log2_floor_nonzero
                       (wsub64 n (nthN ins_subs (Npos (Coq_xO Coq_xH)))))
                     (nthN ins_adds (Npos Coq_xH)))
            else if N.ltb n (nthN ins_thresholds (Npos (Coq_xI Coq_xH)))
                 then nthN ins_tailcodes N0
                 else if N.ltb n
                           (nthN ins_thresholds (Npos (Coq_xO (Coq_xO
                             Coq_xH))))
                      then nthN ins_tailcodes (Npos Coq_xH)
                      else nthN ins_tailcodes (Npos (Coq_xO Coq_xH))

(** val get_copy_length_code : coq_N -> coq_N **)

let get_copy_length_code n =
  if N.ltb n (nthN copy_thresholds N0)
  then w16 (wsub64 n (nthN copy_subs N0))
  else if N.ltb n (nthN copy_thresholds (Npos Coq_xH))
       then let nbits =
              wsub32
                (log2_floor_nonzero (wsub64 n (nthN copy_subs (Npos Coq_xH))))
                (Npos Coq_xH)
            in
            w16
              (wadd64
                (wadd64 (wshl32 nbits (Npos Coq_xH))
                  (N.shiftr
                    (wsub64 n (nthN copy_subs (Npos (Coq_xO Coq_xH)))) nbits))
                (nthN copy_adds N0))
       else if N.ltb n (nthN copy_thresholds (Npos (Coq_xO Coq_xH)))
            then w16
                   (wadd32
                     (log2_floor_nonzero
                       (wsub64 n (nthN copy_subs (Npos (Coq_xI Coq_xH)))))
                     (nthN copy_adds (Npos Coq_xH)))
            else nthN copy_tailcodes N0

(** val combine_length_codes : coq_N -> coq_N -> bool -> coq_N **)

let combine_length_codes inscode copycode use_last =
  let bits64 =
    w16
      (N.coq_lor (N.coq_land copycode (Npos (Coq_xI (Coq_xI Coq_xH))))
        (N.shiftl (N.coq_land inscode (Npos (Coq_xI (Coq_xI Coq_xH)))) (Npos
          (Coq_xI Coq_xH))))
  in
  if (&&)
       ((&&) use_last
         (N.ltb inscode (Npos (Coq_xO (Coq_xO (Coq_xO Coq_xH))))))
       (N.ltb copycode (Npos (Coq_xO (Coq_xO (Coq_xO (Coq_xO Coq_xH))))))
  then if N.ltb copycode (Npos (Coq_xO (Coq_xO (Coq_xO Coq_xH))))
       then bits64
       else N.coq_lor bits64 (Npos (Coq_xO (Coq_xO (Coq_xO (Coq_xO (Coq_xO
              (Coq_xO Coq_xH)))))))
  else let sub_offset =
         N.mul (Npos (Coq_xO Coq_xH))
           (N.add (N.shiftr copycode (Npos (Coq_xI Coq_xH)))
             (N.mul (Npos (Coq_xI Coq_xH))
               (N.shiftr inscode (Npos (Coq_xI Coq_xH)))))
       in
       let offset =
         N.add
           (N.add (N.shiftl sub_offset (Npos (Coq_xI (Coq_xO Coq_xH)))) (Npos
             (Coq_xO (Coq_xO (Coq_xO (Coq_xO (Coq_xO (Coq_xO Coq_xH))))))))
           (N.coq_land (N.shiftr combine_magic sub_offset) (Npos (Coq_xO
             (Coq_xO (Coq_xO (Coq_xO (Coq_xO (Coq_xO (Coq_xI Coq_xH)))))))))
       in
       N.coq_lor (w16 offset) bits64

(** val get_length_code : coq_N -> coq_N -> bool -> coq_N **)

let get_length_code ins copy use_last =
  combine_length_codes (get_insert_length_code ins)
    (get_copy_length_code copy) use_last

(** val blen_loop : nat -> coq_N -> coq_N -> coq_N **)

let rec blen_loop fuel len code =
  match fuel with
  | O -> code
  | S f ->
    if (&&)
         (N.ltb code
           (N.sub (Npos (Coq_xO (Coq_xI (Coq_xO (Coq_xI Coq_xH))))) (Npos
             Coq_xH)))
         (N.leb
           (nthN kBlockLengthPrefixCode_offset (N.add code (Npos Coq_xH)))
           len)
    then blen_loop f len (N.add code (Npos Coq_xH))
    else code

(** val block_length_prefix_code : coq_N -> coq_N **)

let block_length_prefix_code len =
  let start =
    if N.leb (nthN blen_thresholds N0) len
    then if N.leb (nthN blen_thresholds (Npos Coq_xH)) len
         then nthN blen_starts N0
         else nthN blen_starts (Npos Coq_xH)
    else if N.leb (nthN blen_thresholds (Npos (Coq_xO Coq_xH))) len
         then nthN blen_starts (Npos (Coq_xO Coq_xH))
         else nthN blen_starts (Npos (Coq_xI Coq_xH))
  in
  blen_loop (S (S (S (S (S (S (S (S (S (S (S (S (S (S (S (S (S (S (S (S (S (S
    (S (S (S (S O)))))))))))))))))))))))))) len start

(** val get_block_length_prefix_code : coq_N -> (coq_N * coq_N) * coq_N **)

let get_block_length_prefix_code len =
  let c = block_length_prefix_code len in
  ((c, (nthN kBlockLengthPrefixCode_nbits c)),
  (wsub32 len (nthN kBlockLengthPrefixCode_offset c)))

(** val prefix_encode_copy_distance :
    coq_N -> coq_N -> coq_N -> coq_N * coq_N **)

let prefix_encode_copy_distance dc nd np =
  if N.ltb dc (wadd64 coq_BROTLI_NUM_DISTANCE_SHORT_CODES nd)
  then ((w16 dc), N0)
  else let dist =
         wadd64 (wshl64 (Npos Coq_xH) (wadd64 np (Npos (Coq_xO Coq_xH))))
           (wsub64 (wsub64 dc coq_BROTLI_NUM_DISTANCE_SHORT_CODES) nd)
       in
       let bucket = wsub32 (log2_floor_nonzero dist) (Npos Coq_xH) in
       let postfix_mask = wsub32 (wshl32 (Npos Coq_xH) np) (Npos Coq_xH) in
       let postfix = N.coq_land dist postfix_mask in
       let prefix = N.coq_land (N.shiftr dist bucket) (Npos Coq_xH) in
       let offset = wshl64 (wadd64 (Npos (Coq_xO Coq_xH)) prefix) bucket in
       let nbits = wsub64 bucket np in
       let code =
         w16
           (N.coq_lor (wshl64 nbits (Npos (Coq_xO (Coq_xI (Coq_xO Coq_xH)))))
             (wadd64
               (wadd64 (wadd64 coq_BROTLI_NUM_DISTANCE_SHORT_CODES nd)
                 (wshl64
                   (wadd64
                     (wmul64 (Npos (Coq_xO Coq_xH))
                       (wsub64 nbits (Npos Coq_xH))) prefix) np)) postfix))
       in
       let extra = w32 (N.shiftr (wsub64 dist offset) np) in (code, extra)

(** val restore_distance_code : coq_N -> coq_N -> coq_N -> coq_N -> coq_N **)

let restore_distance_code dist_prefix dist_extra nd np =
  let dcode =
    N.coq_land dist_prefix (Npos (Coq_xI (Coq_xI (Coq_xI (Coq_xI (Coq_xI
      (Coq_xI (Coq_xI (Coq_xI (Coq_xI Coq_xH))))))))))
  in
  if N.ltb dcode (N.add coq_BROTLI_NUM_DISTANCE_SHORT_CODES nd)
  then dcode
  else let nbits =
         N.shiftr dist_prefix (Npos (Coq_xO (Coq_xI (Coq_xO Coq_xH))))
       in
       let postfix_mask = N.sub (N.shiftl (Npos Coq_xH) np) (Npos Coq_xH) in
       let t = wsub32 (wsub32 dcode nd) coq_BROTLI_NUM_DISTANCE_SHORT_CODES in
       let hcode = N.shiftr t np in
       let lcode = N.coq_land t postfix_mask in
       let offset =
         wsub32
           (wshl32
             (wadd32 (Npos (Coq_xO Coq_xH)) (N.coq_land hcode (Npos Coq_xH)))
             nbits) (Npos (Coq_xO (Coq_xO Coq_xH)))
       in
       wadd32
         (wadd32 (wadd32 (wshl32 (wadd32 offset dist_extra) np) lcode) nd)
         coq_BROTLI_NUM_DISTANCE_SHORT_CODES

(** val distance_index_and_offset :
    coq_N -> coq_N -> coq_N -> coq_N -> coq_N * coq_Z **)

let distance_index_and_offset dist_prefix dist_extra nd np =
  let dprefix =
    N.coq_land dist_prefix (Npos (Coq_xI (Coq_xI (Coq_xI (Coq_xI (Coq_xI
      (Coq_xI (Coq_xI (Coq_xI (Coq_xI Coq_xH))))))))))
  in
  let nbits = N.shiftr dist_prefix (Npos (Coq_xO (Coq_xI (Coq_xO Coq_xH)))) in
  if N.ltb dprefix coq_BROTLI_NUM_DISTANCE_SHORT_CODES
  then nth (N.to_nat dprefix) short_dist_table (N0, Z0)
  else if N.ltb dprefix (N.add coq_BROTLI_NUM_DISTANCE_SHORT_CODES nd)
       then (N0,
              (Z.sub (Z.add (Z.of_N dprefix) (Zpos Coq_xH))
                (Z.of_N coq_BROTLI_NUM_DISTANCE_SHORT_CODES)))
       else let postfix_mask = N.sub (N.shiftl (Npos Coq_xH) np) (Npos Coq_xH)
            in
            let dcode =
              N.sub (N.sub dprefix coq_BROTLI_NUM_DISTANCE_SHORT_CODES) nd
            in
            let hcode = N.shiftr dcode np in
            let lcode = N.coq_land dcode postfix_mask in
            let offset =
              N.sub
                (N.shiftl
                  (N.add (Npos (Coq_xO Coq_xH))
                    (N.coq_land hcode (Npos Coq_xH))) nbits) (Npos (Coq_xO
                (Coq_xO Coq_xH)))
            in
            (N0,
            (Z.of_N
              (N.add
                (N.add (N.add (N.shiftl (N.add offset dist_extra) np) lcode)
                  nd) (Npos Coq_xH))))

type command = { insert_len_ : coq_N; copy_len_ : coq_N; dist_extra_ : 
                 coq_N; cmd_prefix_ : coq_N; dist_prefix_ : coq_N }

(** val command_new :
    coq_N -> coq_N -> coq_N -> coq_N -> coq_N -> coq_N -> command **)

let command_new nd np insertlen copylen copylen_code dc =
  let delta8 =
    w8
      (N.sub
        (N.add copylen_code
          (N.pow (Npos (Coq_xO Coq_xH)) (Npos (Coq_xO (Coq_xO (Coq_xO (Coq_xO
            (Coq_xO Coq_xH)))))))) (w32 copylen))
  in
  let pe = prefix_encode_copy_distance dc nd np in
  { insert_len_ = (w32 insertlen); copy_len_ =
  (N.coq_lor (w32 copylen)
    (wshl32 delta8 (Npos (Coq_xI (Coq_xO (Coq_xO (Coq_xI Coq_xH)))))));
  dist_extra_ = (snd pe); cmd_prefix_ =
  (get_length_code insertlen copylen_code
    (N.eqb
      (N.coq_land (fst pe) (Npos (Coq_xI (Coq_xI (Coq_xI (Coq_xI (Coq_xI
        (Coq_xI (Coq_xI (Coq_xI (Coq_xI Coq_xH))))))))))) N0));
  dist_prefix_ = (fst pe) }

(** val cmd_copy_len : command -> coq_N **)

let cmd_copy_len c =
  N.coq_land c.copy_len_ (Npos (Coq_xI (Coq_xI (Coq_xI (Coq_xI (Coq_xI
    (Coq_xI (Coq_xI (Coq_xI (Coq_xI (Coq_xI (Coq_xI (Coq_xI (Coq_xI (Coq_xI
    (Coq_xI (Coq_xI (Coq_xI (Coq_xI (Coq_xI (Coq_xI (Coq_xI (Coq_xI (Coq_xI
    (Coq_xI Coq_xH)))))))))))))))))))))))))

(** val cmd_copy_len_code : command -> coq_N **)

let cmd_copy_len_code c =
  let modifier =
    N.shiftr c.copy_len_ (Npos (Coq_xI (Coq_xO (Coq_xO (Coq_xI Coq_xH)))))
  in
  let d8 =
    w8
      (N.coq_lor modifier
        (N.shiftl
          (N.coq_land modifier (Npos (Coq_xO (Coq_xO (Coq_xO (Coq_xO (Coq_xO
            (Coq_xO Coq_xH)))))))) (Npos Coq_xH)))
  in
  w32
    (N.add (cmd_copy_len c)
      (if N.ltb d8 (Npos (Coq_xO (Coq_xO (Coq_xO (Coq_xO (Coq_xO (Coq_xO
            (Coq_xO Coq_xH))))))))
       then d8
       else N.add
              (N.sub
                (N.pow (Npos (Coq_xO Coq_xH)) (Npos (Coq_xO (Coq_xO (Coq_xO
                  (Coq_xO (Coq_xO Coq_xH))))))) (Npos (Coq_xO (Coq_xO (Coq_xO
                (Coq_xO (Coq_xO (Coq_xO (Coq_xO (Coq_xO Coq_xH)))))))))) d8))

(** val store_command_extra : command -> coq_N * coq_N **)

let store_command_extra c =
  let copylen_code = cmd_copy_len_code c in
  let inscode = get_insert_length_code c.insert_len_ in
  let copycode = get_copy_length_code copylen_code in
  let insnumextra = nthN kInsExtra inscode in
  let insextraval = wsub32 c.insert_len_ (nthN kInsBase inscode) in
  let copyextraval = wsub32 copylen_code (nthN kCopyBase copycode) in
  ((w8 (wadd32 insnumextra (nthN kCopyExtra copycode))),
  (N.coq_lor (wshl64 copyextraval insnumextra) insextraval))
