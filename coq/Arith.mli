open BinInt
open BinNat
open BinNums
open Datatypes
open GenArith
open List
open Words

val get_insert_length_code : coq_N -> coq_N

val get_copy_length_code : coq_N -> coq_N

val combine_length_codes : coq_N -> coq_N -> bool -> coq_N

val get_length_code : coq_N -> coq_N -> bool -> coq_N

val blen_loop : nat -> coq_N -> coq_N -> coq_N

val block_length_prefix_code : coq_N -> coq_N

val get_block_length_prefix_code : coq_N -> (coq_N * coq_N) * coq_N

val prefix_encode_copy_distance : coq_N -> coq_N -> coq_N -> coq_N * coq_N

val restore_distance_code : coq_N -> coq_N -> coq_N -> coq_N -> coq_N

val distance_index_and_offset :
  coq_N -> coq_N -> coq_N -> coq_N -> coq_N * coq_Z

type command = { insert_len_ : coq_N; copy_len_ : coq_N; dist_extra_ : 
                 coq_N; cmd_prefix_ : coq_N; dist_prefix_ : coq_N }

val command_new :
  coq_N -> coq_N -> coq_N -> coq_N -> coq_N -> coq_N -> command

val cmd_copy_len : command -> coq_N

val cmd_copy_len_code : command -> coq_N

val store_command_extra : command -> coq_N * coq_N
