open BinNums
open BinPos

module Z :
 sig
  val double : coq_Z -> coq_Z

  val succ_double : coq_Z -> coq_Z

  val pred_double : coq_Z -> coq_Z

  val pos_sub : positive -> positive -> coq_Z

  val add : coq_Z -> coq_Z -> coq_Z

  val opp : coq_Z -> coq_Z

  val sub : coq_Z -> coq_Z -> coq_Z

  val of_N : coq_N -> coq_Z
 end
