
type nat =
| O
| S of nat

(** val fst : ('a1 * 'a2) -> 'a1 **)

let fst = function
| (x, _) -> x

(** val snd : ('a1 * 'a2) -> 'a2 **)

let snd = function
| (_, y) -> y

type comparison =
| Eq
| Lt
| Gt
