
type nat =
| O
| S of nat

val fst : ('a1 * 'a2) -> 'a1

val snd : ('a1 * 'a2) -> 'a2

type comparison =
| Eq
| Lt
| Gt
