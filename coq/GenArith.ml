open BinNums

(** val kInsBase : coq_N list **)

let kInsBase =
  N0 :: ((Npos Coq_xH) :: ((Npos (Coq_xO Coq_xH)) :: ((Npos (Coq_xI
    Coq_xH)) :: ((Npos (Coq_xO (Coq_xO Coq_xH))) :: ((Npos (Coq_xI (Coq_xO
    Coq_xH))) :: ((Npos (Coq_xO (Coq_xI Coq_xH))) :: ((Npos (Coq_xO (Coq_xO
    (Coq_xO Coq_xH)))) :: ((Npos (Coq_xO (Coq_xI (Coq_xO Coq_xH)))) :: ((Npos
    (Coq_xO (Coq_xI (Coq_xI Coq_xH)))) :: ((Npos (Coq_xO (Coq_xI (Coq_xO
    (Coq_xO Coq_xH))))) :: ((Npos (Coq_xO (Coq_xI (Coq_xO (Coq_xI
    Coq_xH))))) :: ((Npos (Coq_xO (Coq_xI (Coq_xO (Coq_xO (Coq_xO
    Coq_xH)))))) :: ((Npos (Coq_xO (Coq_xI (Coq_xO (Coq_xO (Coq_xI
    Coq_xH)))))) :: ((Npos (Coq_xO (Coq_xI (Coq_xO (Coq_xO (Coq_xO (Coq_xO
    Coq_xH))))))) :: ((Npos (Coq_xO (Coq_xI (Coq_xO (Coq_xO (Coq_xO (Coq_xI
    Coq_xH))))))) :: ((Npos (Coq_xO (Coq_xI (Coq_xO (Coq_xO (Coq_xO (Coq_xO
    (Coq_xO Coq_xH)))))))) :: ((Npos (Coq_xO (Coq_xI (Coq_xO (Coq_xO (Coq_xO
    (Coq_xO (Coq_xI Coq_xH)))))))) :: ((Npos (Coq_xO (Coq_xI (Coq_xO (Coq_xO
    (Coq_xO (Coq_xO (Coq_xI (Coq_xO Coq_xH))))))))) :: ((Npos (Coq_xO (Coq_xI
    (Coq_xO (Coq_xO (Coq_xO (Coq_xO (Coq_xI (Coq_xO (Coq_xO
    Coq_xH)))))))))) :: ((Npos (Coq_xO (Coq_xI (Coq_xO (Coq_xO (Coq_xO
    (Coq_xO (Coq_xI (Coq_xO (Coq_xO (Coq_xO Coq_xH))))))))))) :: ((Npos
    (Coq_xO (Coq_xI (Coq_xO (Coq_xO (Coq_xO (Coq_xO (Coq_xI (Coq_xO (Coq_xO
    (Coq_xO (Coq_xO Coq_xH)))))))))))) :: ((Npos (Coq_xO (Coq_xI (Coq_xO
    (Coq_xO (Coq_xO (Coq_xO (Coq_xI (Coq_xO (Coq_xO (Coq_xO (Coq_xO (Coq_xI
    Coq_xH))))))))))))) :: ((Npos (Coq_xO (Coq_xI (Coq_xO (Coq_xO (Coq_xO
    (Coq_xO (Coq_xI (Coq_xO (Coq_xO (Coq_xO (Coq_xO (Coq_xI (Coq_xI (Coq_xO
    Coq_xH))))))))))))))) :: [])))))))))))))))))))))))

(** val kInsExtra : coq_N list **)

let kInsExtra =
  N0 :: (N0 :: (N0 :: (N0 :: (N0 :: (N0 :: ((Npos Coq_xH) :: ((Npos
    Coq_xH) :: ((Npos (Coq_xO Coq_xH)) :: ((Npos (Coq_xO Coq_xH)) :: ((Npos
    (Coq_xI Coq_xH)) :: ((Npos (Coq_xI Coq_xH)) :: ((Npos (Coq_xO (Coq_xO
    Coq_xH))) :: ((Npos (Coq_xO (Coq_xO Coq_xH))) :: ((Npos (Coq_xI (Coq_xO
    Coq_xH))) :: ((Npos (Coq_xI (Coq_xO Coq_xH))) :: ((Npos (Coq_xO (Coq_xI
    Coq_xH))) :: ((Npos (Coq_xI (Coq_xI Coq_xH))) :: ((Npos (Coq_xO (Coq_xO
    (Coq_xO Coq_xH)))) :: ((Npos (Coq_xI (Coq_xO (Coq_xO Coq_xH)))) :: ((Npos
    (Coq_xO (Coq_xI (Coq_xO Coq_xH)))) :: ((Npos (Coq_xO (Coq_xO (Coq_xI
    Coq_xH)))) :: ((Npos (Coq_xO (Coq_xI (Coq_xI Coq_xH)))) :: ((Npos (Coq_xO
    (Coq_xO (Coq_xO (Coq_xI Coq_xH))))) :: [])))))))))))))))))))))))

(** val kCopyBase : coq_N list **)

let kCopyBase =
  (Npos (Coq_xO Coq_xH)) :: ((Npos (Coq_xI Coq_xH)) :: ((Npos (Coq_xO (Coq_xO
    Coq_xH))) :: ((Npos (Coq_xI (Coq_xO Coq_xH))) :: ((Npos (Coq_xO (Coq_xI
    Coq_xH))) :: ((Npos (Coq_xI (Coq_xI Coq_xH))) :: ((Npos (Coq_xO (Coq_xO
    (Coq_xO Coq_xH)))) :: ((Npos (Coq_xI (Coq_xO (Coq_xO Coq_xH)))) :: ((Npos
    (Coq_xO (Coq_xI (Coq_xO Coq_xH)))) :: ((Npos (Coq_xO (Coq_xO (Coq_xI
    Coq_xH)))) :: ((Npos (Coq_xO (Coq_xI (Coq_xI Coq_xH)))) :: ((Npos (Coq_xO
    (Coq_xI (Coq_xO (Coq_xO Coq_xH))))) :: ((Npos (Coq_xO (Coq_xI (Coq_xI
    (Coq_xO Coq_xH))))) :: ((Npos (Coq_xO (Coq_xI (Coq_xI (Coq_xI
    Coq_xH))))) :: ((Npos (Coq_xO (Coq_xI (Coq_xI (Coq_xO (Coq_xO
    Coq_xH)))))) :: ((Npos (Coq_xO (Coq_xI (Coq_xI (Coq_xO (Coq_xI
    Coq_xH)))))) :: ((Npos (Coq_xO (Coq_xI (Coq_xI (Coq_xO (Coq_xO (Coq_xO
    Coq_xH))))))) :: ((Npos (Coq_xO (Coq_xI (Coq_xI (Coq_xO (Coq_xO (Coq_xI
    Coq_xH))))))) :: ((Npos (Coq_xO (Coq_xI (Coq_xI (Coq_xO (Coq_xO (Coq_xO
    (Coq_xO Coq_xH)))))))) :: ((Npos (Coq_xO (Coq_xI (Coq_xI (Coq_xO (Coq_xO
    (Coq_xO (Coq_xI Coq_xH)))))))) :: ((Npos (Coq_xO (Coq_xI (Coq_xI (Coq_xO
    (Coq_xO (Coq_xO (Coq_xI (Coq_xO Coq_xH))))))))) :: ((Npos (Coq_xO (Coq_xI
    (Coq_xI (Coq_xO (Coq_xO (Coq_xO (Coq_xI (Coq_xO (Coq_xO
    Coq_xH)))))))))) :: ((Npos (Coq_xO (Coq_xI (Coq_xI (Coq_xO (Coq_xO
    (Coq_xO (Coq_xI (Coq_xO (Coq_xO (Coq_xO Coq_xH))))))))))) :: ((Npos
    (Coq_xO (Coq_xI (Coq_xI (Coq_xO (Coq_xO (Coq_xO (Coq_xI (Coq_xO (Coq_xO
    (Coq_xO (Coq_xO Coq_xH)))))))))))) :: [])))))))))))))))))))))))

(** val kCopyExtra : coq_N list **)

let kCopyExtra =
  N0 :: (N0 :: (N0 :: (N0 :: (N0 :: (N0 :: (N0 :: (N0 :: ((Npos
    Coq_xH) :: ((Npos Coq_xH) :: ((Npos (Coq_xO Coq_xH)) :: ((Npos (Coq_xO
    Coq_xH)) :: ((Npos (Coq_xI Coq_xH)) :: ((Npos (Coq_xI Coq_xH)) :: ((Npos
    (Coq_xO (Coq_xO Coq_xH))) :: ((Npos (Coq_xO (Coq_xO Coq_xH))) :: ((Npos
    (Coq_xI (Coq_xO Coq_xH))) :: ((Npos (Coq_xI (Coq_xO Coq_xH))) :: ((Npos
    (Coq_xO (Coq_xI Coq_xH))) :: ((Npos (Coq_xI (Coq_xI Coq_xH))) :: ((Npos
    (Coq_xO (Coq_xO (Coq_xO Coq_xH)))) :: ((Npos (Coq_xI (Coq_xO (Coq_xO
    Coq_xH)))) :: ((Npos (Coq_xO (Coq_xI (Coq_xO Coq_xH)))) :: ((Npos (Coq_xO
    (Coq_xO (Coq_xO (Coq_xI Coq_xH))))) :: [])))))))))))))))))))))))

(** val kBlockLengthPrefixCode_offset : coq_N list **)

let kBlockLengthPrefixCode_offset =
  (Npos Coq_xH) :: ((Npos (Coq_xI (Coq_xO Coq_xH))) :: ((Npos (Coq_xI (Coq_xO
    (Coq_xO Coq_xH)))) :: ((Npos (Coq_xI (Coq_xO (Coq_xI Coq_xH)))) :: ((Npos
    (Coq_xI (Coq_xO (Coq_xO (Coq_xO Coq_xH))))) :: ((Npos (Coq_xI (Coq_xO
    (Coq_xO (Coq_xI Coq_xH))))) :: ((Npos (Coq_xI (Coq_xO (Coq_xO (Coq_xO
    (Coq_xO Coq_xH)))))) :: ((Npos (Coq_xI (Coq_xO (Coq_xO (Coq_xI (Coq_xO
    Coq_xH)))))) :: ((Npos (Coq_xI (Coq_xO (Coq_xO (Coq_xO (Coq_xI
    Coq_xH)))))) :: ((Npos (Coq_xI (Coq_xO (Coq_xO (Coq_xO (Coq_xO (Coq_xO
    Coq_xH))))))) :: ((Npos (Coq_xI (Coq_xO (Coq_xO (Coq_xO (Coq_xI (Coq_xO
    Coq_xH))))))) :: ((Npos (Coq_xI (Coq_xO (Coq_xO (Coq_xO (Coq_xO (Coq_xI
    Coq_xH))))))) :: ((Npos (Coq_xI (Coq_xO (Coq_xO (Coq_xO (Coq_xI (Coq_xI
    Coq_xH))))))) :: ((Npos (Coq_xI (Coq_xO (Coq_xO (Coq_xO (Coq_xI (Coq_xO
    (Coq_xO Coq_xH)))))))) :: ((Npos (Coq_xI (Coq_xO (Coq_xO (Coq_xO (Coq_xI
    (Coq_xI (Coq_xO Coq_xH)))))))) :: ((Npos (Coq_xI (Coq_xO (Coq_xO (Coq_xO
    (Coq_xI (Coq_xO (Coq_xI Coq_xH)))))))) :: ((Npos (Coq_xI (Coq_xO (Coq_xO
    (Coq_xO (Coq_xI (Coq_xI (Coq_xI Coq_xH)))))))) :: ((Npos (Coq_xI (Coq_xO
    (Coq_xO (Coq_xO (Coq_xI (Coq_xI (Coq_xO (Coq_xO Coq_xH))))))))) :: ((Npos
    (Coq_xI (Coq_xO (Coq_xO (Coq_xO (Coq_xI (Coq_xI (Coq_xI (Coq_xO
    Coq_xH))))))))) :: ((Npos (Coq_xI (Coq_xO (Coq_xO (Coq_xO (Coq_xI (Coq_xI
    (Coq_xI (Coq_xI Coq_xH))))))))) :: ((Npos (Coq_xI (Coq_xO (Coq_xO (Coq_xO
    (Coq_xI (Coq_xI (Coq_xI (Coq_xI (Coq_xO Coq_xH)))))))))) :: ((Npos
    (Coq_xI (Coq_xO (Coq_xO (Coq_xO (Coq_xI (Coq_xI (Coq_xI (Coq_xI (Coq_xO
    (Coq_xO Coq_xH))))))))))) :: ((Npos (Coq_xI (Coq_xO (Coq_xO (Coq_xO
    (Coq_xI (Coq_xI (Coq_xI (Coq_xI (Coq_xO (Coq_xO (Coq_xO
    Coq_xH)))))))))))) :: ((Npos (Coq_xI (Coq_xO (Coq_xO (Coq_xO (Coq_xI
    (Coq_xI (Coq_xI (Coq_xI (Coq_xO (Coq_xO (Coq_xO (Coq_xO
    Coq_xH))))))))))))) :: ((Npos (Coq_xI (Coq_xO (Coq_xO (Coq_xO (Coq_xI
    (Coq_xI (Coq_xI (Coq_xI (Coq_xO (Coq_xO (Coq_xO (Coq_xO (Coq_xO
    Coq_xH)))))))))))))) :: ((Npos (Coq_xI (Coq_xO (Coq_xO (Coq_xO (Coq_xI
    (Coq_xI (Coq_xI (Coq_xI (Coq_xO (Coq_xO (Coq_xO (Coq_xO (Coq_xO (Coq_xO
    Coq_xH))))))))))))))) :: [])))))))))))))))))))))))))

(** val kBlockLengthPrefixCode_nbits : coq_N list **)

let kBlockLengthPrefixCode_nbits =
  (Npos (Coq_xO Coq_xH)) :: ((Npos (Coq_xO Coq_xH)) :: ((Npos (Coq_xO
    Coq_xH)) :: ((Npos (Coq_xO Coq_xH)) :: ((Npos (Coq_xI Coq_xH)) :: ((Npos
    (Coq_xI Coq_xH)) :: ((Npos (Coq_xI Coq_xH)) :: ((Npos (Coq_xI
    Coq_xH)) :: ((Npos (Coq_xO (Coq_xO Coq_xH))) :: ((Npos (Coq_xO (Coq_xO
    Coq_xH))) :: ((Npos (Coq_xO (Coq_xO Coq_xH))) :: ((Npos (Coq_xO (Coq_xO
    Coq_xH))) :: ((Npos (Coq_xI (Coq_xO Coq_xH))) :: ((Npos (Coq_xI (Coq_xO
    Coq_xH))) :: ((Npos (Coq_xI (Coq_xO Coq_xH))) :: ((Npos (Coq_xI (Coq_xO
    Coq_xH))) :: ((Npos (Coq_xO (Coq_xI Coq_xH))) :: ((Npos (Coq_xO (Coq_xI
    Coq_xH))) :: ((Npos (Coq_xI (Coq_xI Coq_xH))) :: ((Npos (Coq_xO (Coq_xO
    (Coq_xO Coq_xH)))) :: ((Npos (Coq_xI (Coq_xO (Coq_xO Coq_xH)))) :: ((Npos
    (Coq_xO (Coq_xI (Coq_xO Coq_xH)))) :: ((Npos (Coq_xI (Coq_xI (Coq_xO
    Coq_xH)))) :: ((Npos (Coq_xO (Coq_xO (Coq_xI Coq_xH)))) :: ((Npos (Coq_xI
    (Coq_xO (Coq_xI Coq_xH)))) :: ((Npos (Coq_xO (Coq_xO (Coq_xO (Coq_xI
    Coq_xH))))) :: [])))))))))))))))))))))))))

(** val coq_BROTLI_NUM_DISTANCE_SHORT_CODES : coq_N **)

let coq_BROTLI_NUM_DISTANCE_SHORT_CODES =
  Npos (Coq_xO (Coq_xO (Coq_xO (Coq_xO Coq_xH))))

(** val ins_thresholds : coq_N list **)

let ins_thresholds =
  (Npos (Coq_xO (Coq_xI Coq_xH))) :: ((Npos (Coq_xO (Coq_xI (Coq_xO (Coq_xO
    (Coq_xO (Coq_xO (Coq_xO Coq_xH)))))))) :: ((Npos (Coq_xO (Coq_xI (Coq_xO
    (Coq_xO (Coq_xO (Coq_xO (Coq_xI (Coq_xO (Coq_xO (Coq_xO (Coq_xO
    Coq_xH)))))))))))) :: ((Npos (Coq_xO (Coq_xI (Coq_xO (Coq_xO (Coq_xO
    (Coq_xO (Coq_xI (Coq_xO (Coq_xO (Coq_xO (Coq_xO (Coq_xI
    Coq_xH))))))))))))) :: ((Npos (Coq_xO (Coq_xI (Coq_xO (Coq_xO (Coq_xO
    (Coq_xO (Coq_xI (Coq_xO (Coq_xO (Coq_xO (Coq_xO (Coq_xI (Coq_xI (Coq_xO
    Coq_xH))))))))))))))) :: []))))

(** val ins_subs : coq_N list **)

let ins_subs =
  (Npos (Coq_xO Coq_xH)) :: ((Npos (Coq_xO Coq_xH)) :: ((Npos (Coq_xO (Coq_xI
    (Coq_xO (Coq_xO (Coq_xO (Coq_xO Coq_xH))))))) :: []))

(** val ins_adds : coq_N list **)

let ins_adds =
  (Npos (Coq_xO Coq_xH)) :: ((Npos (Coq_xO (Coq_xI (Coq_xO Coq_xH)))) :: [])

(** val ins_tailcodes : coq_N list **)

let ins_tailcodes =
  (Npos (Coq_xI (Coq_xO (Coq_xI (Coq_xO Coq_xH))))) :: ((Npos (Coq_xO (Coq_xI
    (Coq_xI (Coq_xO Coq_xH))))) :: ((Npos (Coq_xI (Coq_xI (Coq_xI (Coq_xO
    Coq_xH))))) :: []))

(** val copy_thresholds : coq_N list **)

let copy_thresholds =
  (Npos (Coq_xO (Coq_xI (Coq_xO Coq_xH)))) :: ((Npos (Coq_xO (Coq_xI (Coq_xI
    (Coq_xO (Coq_xO (Coq_xO (Coq_xO Coq_xH)))))))) :: ((Npos (Coq_xO (Coq_xI
    (Coq_xI (Coq_xO (Coq_xO (Coq_xO (Coq_xI (Coq_xO (Coq_xO (Coq_xO (Coq_xO
    Coq_xH)))))))))))) :: []))

(** val copy_subs : coq_N list **)

let copy_subs =
  (Npos (Coq_xO Coq_xH)) :: ((Npos (Coq_xO (Coq_xI Coq_xH))) :: ((Npos
    (Coq_xO (Coq_xI Coq_xH))) :: ((Npos (Coq_xO (Coq_xI (Coq_xI (Coq_xO
    (Coq_xO (Coq_xO Coq_xH))))))) :: [])))

(** val copy_adds : coq_N list **)

let copy_adds =
  (Npos (Coq_xO (Coq_xO Coq_xH))) :: ((Npos (Coq_xO (Coq_xO (Coq_xI
    Coq_xH)))) :: [])

(** val copy_tailcodes : coq_N list **)

let copy_tailcodes =
  (Npos (Coq_xI (Coq_xI (Coq_xI (Coq_xO Coq_xH))))) :: []

(** val combine_magic : coq_N **)

let combine_magic =
  Npos (Coq_xO (Coq_xO (Coq_xO (Coq_xO (Coq_xO (Coq_xO (Coq_xI (Coq_xO
    (Coq_xI (Coq_xO (Coq_xI (Coq_xI (Coq_xO (Coq_xO (Coq_xO (Coq_xO (Coq_xO
    (Coq_xI (Coq_xO (Coq_xO (Coq_xI (Coq_xO Coq_xH))))))))))))))))))))))

(** val blen_thresholds : coq_N list **)

let blen_thresholds =
  (Npos (Coq_xI (Coq_xO (Coq_xO (Coq_xO (Coq_xI (Coq_xI (Coq_xO
    Coq_xH)))))))) :: ((Npos (Coq_xI (Coq_xO (Coq_xO (Coq_xO (Coq_xI (Coq_xI
    (Coq_xI (Coq_xI (Coq_xO Coq_xH)))))))))) :: ((Npos (Coq_xI (Coq_xO
    (Coq_xO (Coq_xI (Coq_xO Coq_xH)))))) :: []))

(** val blen_starts : coq_N list **)

let blen_starts =
  (Npos (Coq_xO (Coq_xO (Coq_xI (Coq_xO Coq_xH))))) :: ((Npos (Coq_xO (Coq_xI
    (Coq_xI Coq_xH)))) :: ((Npos (Coq_xI (Coq_xI Coq_xH))) :: (N0 :: [])))

(** val short_dist_table : (coq_N * coq_Z) list **)

let short_dist_table =
  ((Npos Coq_xH), Z0) :: (((Npos (Coq_xO Coq_xH)), Z0) :: (((Npos (Coq_xI
    Coq_xH)), Z0) :: (((Npos (Coq_xO (Coq_xO Coq_xH))), Z0) :: (((Npos
    Coq_xH), (Zneg Coq_xH)) :: (((Npos Coq_xH), (Zpos Coq_xH)) :: (((Npos
    Coq_xH), (Zneg (Coq_xO Coq_xH))) :: (((Npos Coq_xH), (Zpos (Coq_xO
    Coq_xH))) :: (((Npos Coq_xH), (Zneg (Coq_xI Coq_xH))) :: (((Npos Coq_xH),
    (Zpos (Coq_xI Coq_xH))) :: (((Npos (Coq_xO Coq_xH)), (Zneg
    Coq_xH)) :: (((Npos (Coq_xO Coq_xH)), (Zpos Coq_xH)) :: (((Npos (Coq_xO
    Coq_xH)), (Zneg (Coq_xO Coq_xH))) :: (((Npos (Coq_xO Coq_xH)), (Zpos
    (Coq_xO Coq_xH))) :: (((Npos (Coq_xO Coq_xH)), (Zneg (Coq_xI
    Coq_xH))) :: (((Npos (Coq_xO Coq_xH)), (Zpos (Coq_xI
    Coq_xH))) :: [])))))))))))))))
