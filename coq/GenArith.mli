open BinNums

val kInsBase : coq_N list

val kInsExtra : coq_N list

val kCopyBase : coq_N list

val kCopyExtra : coq_N list

val kBlockLengthPrefixCode_offset : coq_N list

val kBlockLengthPrefixCode_nbits : coq_N list

val coq_BROTLI_NUM_DISTANCE_SHORT_CODES : coq_N

val ins_thresholds : coq_N list

val ins_subs : coq_N list

val ins_adds : coq_N list

val ins_tailcodes : coq_N list

val copy_thresholds : coq_N list

val copy_subs : coq_N list

val copy_adds : coq_N list

val copy_tailcodes : coq_N list

val combine_magic : coq_N

val blen_thresholds : coq_N list

val blen_starts : coq_N list

val short_dist_table : (coq_N * coq_Z) list
