open Datatypes

(** val nth : nat -> 'a1 list -> 'a1 -> 'a1 **)

let rec nth n l default =
  match n with
  | O -> (match l with
          | [] -> default
          | x :: _ -> x)
  | S m -> (match l with
            | [] -> default
            | _ :: t -> nth m t default)
