open Datatypes

val nth : nat -> 'a1 list -> 'a1 -> 'a1
