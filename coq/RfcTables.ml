open BinNat
open BinNums
open List

(** val rfc_nth : coq_N list -> coq_N -> coq_N **)

let rfc_nth l i =
  nth (N.to_nat i) l N0

(** val rfc_ins_extra_tbl : coq_N list **)

let rfc_ins_extra_tbl =
  N0 :: (N0 :: (N0 :: (N0 :: (N0 :: (N0 :: ((Npos Coq_xH) :: ((Npos
    Coq_xH) :: ((Npos (Coq_xO Coq_xH)) :: ((Npos (Coq_xO Coq_xH)) :: ((Npos
    (Coq_xI Coq_xH)) :: ((Npos (Coq_xI Coq_xH)) :: ((Npos (Coq_xO (Coq_xO
    Coq_xH))) :: ((Npos (Coq_xO (Coq_xO Coq_xH))) :: ((Npos (Coq_xI (Coq_xO
    Coq_xH))) :: ((Npos (Coq_xI (Coq_xO Coq_xH))) :: ((Npos (Coq_xO (Coq_xI
    Coq_xH))) :: ((Npos (Coq_xI (Coq_xI Coq_xH))) :: ((Npos (Coq_xO (Coq_xO
    (Coq_xO Coq_xH)))) :: ((Npos (Coq_xI (Coq_xO (Coq_xO Coq_xH)))) :: ((Npos
    (Coq_xO (Coq_xI (Coq_xO Coq_xH)))) :: ((Npos (Coq_xO (Coq_xO (Coq_xI
    Coq_xH)))) :: ((Npos (Coq_xO (Coq_xI (Coq_xI Coq_xH)))) :: ((Npos (Coq_xO
    (Coq_xO (Coq_xO (Coq_xI Coq_xH))))) :: [])))))))))))))))))))))))

(** val rfc_ins_base_tbl : coq_N list **)

let rfc_ins_base_tbl =
  N0 :: ((Npos Coq_xH) :: ((Npos (Coq_xO Coq_xH)) :: ((Npos (Coq_xI
    Coq_xH)) :: ((Npos (Coq_xO (Coq_xO Coq_xH))) :: ((Npos (Coq_xI (Coq_xO
    Coq_xH))) :: ((Npos (Coq_xO (Coq_xI Coq_xH))) :: ((Npos (Coq_xO (Coq_xO
    (Coq_xO Coq_xH)))) :: ((Npos (Coq_xO (Coq_xI (Coq_xO Coq_xH)))) :: ((Npos
    (Coq_xO (Coq_xI (Coq_xI Coq_xH)))) :: ((Npos (Coq_xO (Coq_xI (Coq_xO
    (Coq_xO Coq_xH))))) :: ((Npos (Coq_xO (Coq_xI (Coq_xO (Coq_xI
    Coq_xH))))) :: ((Npos (Coq_xO (Coq_xI (Coq_xO (Coq_xO (Coq_xO
    Coq_xH)))))) :: ((Npos (Coq_xO (Coq_xI (Coq_xO (Coq_xO (Coq_xI
    Coq_xH)))))) :: ((Npos (Coq_xO (Coq_xI (Coq_xO (Coq_xO (Coq_xO (Coq_xO
    Coq_xH))))))) :: ((Npos (Coq_xO (Coq_xI (Coq_xO (Coq_xO (Coq_xO (Coq_xI
    Coq_xH))))))) :: ((Npos (Coq_xO (Coq_xI (Coq_xO (Coq_xO (Coq_xO (Coq_xO
    (Coq_xO Coq_xH)))))))) :: ((Npos (Coq_xO (Coq_xI (Coq_xO (Coq_xO (Coq_xO
    (Coq_xO (Coq_xI Coq_xH)))))))) :: ((Npos (Coq_xO (Coq_xI (Coq_xO (Coq_xO
    (Coq_xO (Coq_xO (Coq_xI (Coq_xO Coq_xH))))))))) :: ((Npos (Coq_xO (Coq_xI
    (Coq_xO (Coq_xO (Coq_xO (Coq_xO (Coq_xI (Coq_xO (Coq_xO
    Coq_xH)))))))))) :: ((Npos (Coq_xO (Coq_xI (Coq_xO (Coq_xO (Coq_xO
    (Coq_xO (Coq_xI (Coq_xO (Coq_xO (Coq_xO Coq_xH))))))))))) :: ((Npos
    (Coq_xO (Coq_xI (Coq_xO (Coq_xO (Coq_xO (Coq_xO (Coq_xI (Coq_xO (Coq_xO
    (Coq_xO (Coq_xO Coq_xH)))))))))))) :: ((Npos (Coq_xO (Coq_xI (Coq_xO
    (Coq_xO (Coq_xO (Coq_xO (Coq_xI (Coq_xO (Coq_xO (Coq_xO (Coq_xO (Coq_xI
    Coq_xH))))))))))))) :: ((Npos (Coq_xO (Coq_xI (Coq_xO (Coq_xO (Coq_xO
    (Coq_xO (Coq_xI (Coq_xO (Coq_xO (Coq_xO (Coq_xO (Coq_xI (Coq_xI (Coq_xO
    Coq_xH))))))))))))))) :: [])))))))))))))))))))))))

(** val rfc_copy_extra_tbl : coq_N list **)

let rfc_copy_extra_tbl =
  N0 :: (N0 :: (N0 :: (N0 :: (N0 :: (N0 :: (N0 :: (N0 :: ((Npos
    Coq_xH) :: ((Npos Coq_xH) :: ((Npos (Coq_xO Coq_xH)) :: ((Npos (Coq_xO
    Coq_xH)) :: ((Npos (Coq_xI Coq_xH)) :: ((Npos (Coq_xI Coq_xH)) :: ((Npos
    (Coq_xO (Coq_xO Coq_xH))) :: ((Npos (Coq_xO (Coq_xO Coq_xH))) :: ((Npos
    (Coq_xI (Coq_xO Coq_xH))) :: ((Npos (Coq_xI (Coq_xO Coq_xH))) :: ((Npos
    (Coq_xO (Coq_xI Coq_xH))) :: ((Npos (Coq_xI (Coq_xI Coq_xH))) :: ((Npos
    (Coq_xO (Coq_xO (Coq_xO Coq_xH)))) :: ((Npos (Coq_xI (Coq_xO (Coq_xO
    Coq_xH)))) :: ((Npos (Coq_xO (Coq_xI (Coq_xO Coq_xH)))) :: ((Npos (Coq_xO
    (Coq_xO (Coq_xO (Coq_xI Coq_xH))))) :: [])))))))))))))))))))))))

(** val rfc_copy_base_tbl : coq_N list **)

let rfc_copy_base_tbl =
  (Npos (Coq_xO Coq_xH)) :: ((Npos (Coq_xI Coq_xH)) :: ((Npos (Coq_xO (Coq_xO
    Coq_xH))) :: ((Npos (Coq_xI (Coq_xO Coq_xH))) :: ((Npos (Coq_xO (Coq_xI
    Coq_xH))) :: ((Npos (Coq_xI (Coq_xI Coq_xH))) :: ((Npos (Coq_xO (Coq_xO
    (Coq_xO Coq_xH)))) :: ((Npos (Coq_xI (Coq_xO (Coq_xO Coq_xH)))) :: ((Npos
    (Coq_xO (Coq_xI (Coq_xO Coq_xH)))) :: ((Npos (Coq_xO (Coq_xO (Coq_xI
    Coq_xH)))) :: ((Npos (Coq_xO (Coq_xI (Coq_xI Coq_xH)))) :: ((Npos (Coq_xO
    (Coq_xI (Coq_xO (Coq_xO Coq_xH))))) :: ((Npos (Coq_xO (Coq_xI (Coq_xI
    (Coq_xO Coq_xH))))) :: ((Npos (Coq_xO (Coq_xI (Coq_xI (Coq_xI
    Coq_xH))))) :: ((Npos (Coq_xO (Coq_xI (Coq_xI (Coq_xO (Coq_xO
    Coq_xH)))))) :: ((Npos (Coq_xO (Coq_xI (Coq_xI (Coq_xO (Coq_xI
    Coq_xH)))))) :: ((Npos (Coq_xO (Coq_xI (Coq_xI (Coq_xO (Coq_xO (Coq_xO
    Coq_xH))))))) :: ((Npos (Coq_xO (Coq_xI (Coq_xI (Coq_xO (Coq_xO (Coq_xI
    Coq_xH))))))) :: ((Npos (Coq_xO (Coq_xI (Coq_xI (Coq_xO (Coq_xO (Coq_xO
    (Coq_xO Coq_xH)))))))) :: ((Npos (Coq_xO (Coq_xI (Coq_xI (Coq_xO (Coq_xO
    (Coq_xO (Coq_xI Coq_xH)))))))) :: ((Npos (Coq_xO (Coq_xI (Coq_xI (Coq_xO
    (Coq_xO (Coq_xO (Coq_xI (Coq_xO Coq_xH))))))))) :: ((Npos (Coq_xO (Coq_xI
    (Coq_xI (Coq_xO (Coq_xO (Coq_xO (Coq_xI (Coq_xO (Coq_xO
    Coq_xH)))))))))) :: ((Npos (Coq_xO (Coq_xI (Coq_xI (Coq_xO (Coq_xO
    (Coq_xO (Coq_xI (Coq_xO (Coq_xO (Coq_xO Coq_xH))))))))))) :: ((Npos
    (Coq_xO (Coq_xI (Coq_xI (Coq_xO (Coq_xO (Coq_xO (Coq_xI (Coq_xO (Coq_xO
    (Coq_xO (Coq_xO Coq_xH)))))))))))) :: [])))))))))))))))))))))))

(** val rfc_blen_extra_tbl : coq_N list **)

let rfc_blen_extra_tbl =
  (Npos (Coq_xO Coq_xH)) :: ((Npos (Coq_xO Coq_xH)) :: ((Npos (Coq_xO
    Coq_xH)) :: ((Npos (Coq_xO Coq_xH)) :: ((Npos (Coq_xI Coq_xH)) :: ((Npos
    (Coq_xI Coq_xH)) :: ((Npos (Coq_xI Coq_xH)) :: ((Npos (Coq_xI
    Coq_xH)) :: ((Npos (Coq_xO (Coq_xO Coq_xH))) :: ((Npos (Coq_xO (Coq_xO
    Coq_xH))) :: ((Npos (Coq_xO (Coq_xO Coq_xH))) :: ((Npos (Coq_xO (Coq_xO
    Coq_xH))) :: ((Npos (Coq_xI (Coq_xO Coq_xH))) :: ((Npos (Coq_xI (Coq_xO
    Coq_xH))) :: ((Npos (Coq_xI (Coq_xO Coq_xH))) :: ((Npos (Coq_xI (Coq_xO
    Coq_xH))) :: ((Npos (Coq_xO (Coq_xI Coq_xH))) :: ((Npos (Coq_xO (Coq_xI
    Coq_xH))) :: ((Npos (Coq_xI (Coq_xI Coq_xH))) :: ((Npos (Coq_xO (Coq_xO
    (Coq_xO Coq_xH)))) :: ((Npos (Coq_xI (Coq_xO (Coq_xO Coq_xH)))) :: ((Npos
    (Coq_xO (Coq_xI (Coq_xO Coq_xH)))) :: ((Npos (Coq_xI (Coq_xI (Coq_xO
    Coq_xH)))) :: ((Npos (Coq_xO (Coq_xO (Coq_xI Coq_xH)))) :: ((Npos (Coq_xI
    (Coq_xO (Coq_xI Coq_xH)))) :: ((Npos (Coq_xO (Coq_xO (Coq_xO (Coq_xI
    Coq_xH))))) :: [])))))))))))))))))))))))))

(** val rfc_blen_base_tbl : coq_N list **)

let rfc_blen_base_tbl =
  (Npos Coq_xH) :: ((Npos (Coq_xI (Coq_xO Coq_xH))) :: ((Npos (Coq_xI (Coq_xO
    (Coq_xO Coq_xH)))) :: ((Npos (Coq_xI (Coq_xO (Coq_xI Coq_xH)))) :: ((Npos
    (Coq_xI (Coq_xO (Coq_xO (Coq_xO Coq_xH))))) :: ((Npos (Coq_xI (Coq_xO
    (Coq_xO (Coq_xI Coq_xH))))) :: ((Npos (Coq_xI (Coq_xO (Coq_xO (Coq_xO
    (Coq_xO Coq_xH)))))) :: ((Npos (Coq_xI (Coq_xO (Coq_xO (Coq_xI (Coq_xO
    Coq_xH)))))) :: ((Npos (Coq_xI (Coq_xO (Coq_xO (Coq_xO (Coq_xI
    Coq_xH)))))) :: ((Npos (Coq_xI (Coq_xO (Coq_xO (Coq_xO (Coq_xO (Coq_xO
    Coq_xH))))))) :: ((Npos (Coq_xI (Coq_xO (Coq_xO (Coq_xO (Coq_xI (Coq_xO
    Coq_xH))))))) :: ((Npos (Coq_xI (Coq_xO (Coq_xO (Coq_xO (Coq_xO (Coq_xI
    Coq_xH))))))) :: ((Npos (Coq_xI (Coq_xO (Coq_xO (Coq_xO (Coq_xI (Coq_xI
    Coq_xH))))))) :: ((Npos (Coq_xI (Coq_xO (Coq_xO (Coq_xO (Coq_xI (Coq_xO
    (Coq_xO Coq_xH)))))))) :: ((Npos (Coq_xI (Coq_xO (Coq_xO (Coq_xO (Coq_xI
    (Coq_xI (Coq_xO Coq_xH)))))))) :: ((Npos (Coq_xI (Coq_xO (Coq_xO (Coq_xO
    (Coq_xI (Coq_xO (Coq_xI Coq_xH)))))))) :: ((Npos (Coq_xI (Coq_xO (Coq_xO
    (Coq_xO (Coq_xI (Coq_xI (Coq_xI Coq_xH)))))))) :: ((Npos (Coq_xI (Coq_xO
    (Coq_xO (Coq_xO (Coq_xI (Coq_xI (Coq_xO (Coq_xO Coq_xH))))))))) :: ((Npos
    (Coq_xI (Coq_xO (Coq_xO (Coq_xO (Coq_xI (Coq_xI (Coq_xI (Coq_xO
    Coq_xH))))))))) :: ((Npos (Coq_xI (Coq_xO (Coq_xO (Coq_xO (Coq_xI (Coq_xI
    (Coq_xI (Coq_xI Coq_xH))))))))) :: ((Npos (Coq_xI (Coq_xO (Coq_xO (Coq_xO
    (Coq_xI (Coq_xI (Coq_xI (Coq_xI (Coq_xO Coq_xH)))))))))) :: ((Npos
    (Coq_xI (Coq_xO (Coq_xO (Coq_xO (Coq_xI (Coq_xI (Coq_xI (Coq_xI (Coq_xO
    (Coq_xO Coq_xH))))))))))) :: ((Npos (Coq_xI (Coq_xO (Coq_xO (Coq_xO
    (Coq_xI (Coq_xI (Coq_xI (Coq_xI (Coq_xO (Coq_xO (Coq_xO
    Coq_xH)))))))))))) :: ((Npos (Coq_xI (Coq_xO (Coq_xO (Coq_xO (Coq_xI
    (Coq_xI (Coq_xI (Coq_xI (Coq_xO (Coq_xO (Coq_xO (Coq_xO
    Coq_xH))))))))))))) :: ((Npos (Coq_xI (Coq_xO (Coq_xO (Coq_xO (Coq_xI
    (Coq_xI (Coq_xI (Coq_xI (Coq_xO (Coq_xO (Coq_xO (Coq_xO (Coq_xO
    Coq_xH)))))))))))))) :: ((Npos (Coq_xI (Coq_xO (Coq_xO (Coq_xO (Coq_xI
    (Coq_xI (Coq_xI (Coq_xI (Coq_xO (Coq_xO (Coq_xO (Coq_xO (Coq_xO (Coq_xO
    Coq_xH))))))))))))))) :: [])))))))))))))))))))))))))

(** val rfc_ins_base : coq_N -> coq_N **)

let rfc_ins_base c =
  rfc_nth rfc_ins_base_tbl c

(** val rfc_ins_extra : coq_N -> coq_N **)

let rfc_ins_extra c =
  rfc_nth rfc_ins_extra_tbl c

(** val rfc_copy_base : coq_N -> coq_N **)

let rfc_copy_base c =
  rfc_nth rfc_copy_base_tbl c

(** val rfc_copy_extra : coq_N -> coq_N **)

let rfc_copy_extra c =
  rfc_nth rfc_copy_extra_tbl c

(** val rfc_blen_base : coq_N -> coq_N **)

let rfc_blen_base c =
  rfc_nth rfc_blen_base_tbl c

(** val rfc_blen_extra : coq_N -> coq_N **)

let rfc_blen_extra c =
  rfc_nth rfc_blen_extra_tbl c

(** val rfc_cell_bases : (coq_N * coq_N) list **)

let rfc_cell_bases =
  (N0, N0) :: ((N0, (Npos (Coq_xO (Coq_xO (Coq_xO Coq_xH))))) :: ((N0,
    N0) :: ((N0, (Npos (Coq_xO (Coq_xO (Coq_xO Coq_xH))))) :: (((Npos (Coq_xO
    (Coq_xO (Coq_xO Coq_xH)))), N0) :: (((Npos (Coq_xO (Coq_xO (Coq_xO
    Coq_xH)))), (Npos (Coq_xO (Coq_xO (Coq_xO Coq_xH))))) :: ((N0, (Npos
    (Coq_xO (Coq_xO (Coq_xO (Coq_xO Coq_xH)))))) :: (((Npos (Coq_xO (Coq_xO
    (Coq_xO (Coq_xO Coq_xH))))), N0) :: (((Npos (Coq_xO (Coq_xO (Coq_xO
    Coq_xH)))), (Npos (Coq_xO (Coq_xO (Coq_xO (Coq_xO Coq_xH)))))) :: (((Npos
    (Coq_xO (Coq_xO (Coq_xO (Coq_xO Coq_xH))))), (Npos (Coq_xO (Coq_xO
    (Coq_xO Coq_xH))))) :: (((Npos (Coq_xO (Coq_xO (Coq_xO (Coq_xO
    Coq_xH))))), (Npos (Coq_xO (Coq_xO (Coq_xO (Coq_xO
    Coq_xH)))))) :: []))))))))))

(** val rfc_cell : coq_N -> (coq_N * coq_N) * bool **)

let rfc_cell s =
  let (ib, cb) =
    nth
      (N.to_nat
        (N.div s (Npos (Coq_xO (Coq_xO (Coq_xO (Coq_xO (Coq_xO (Coq_xO
          Coq_xH))))))))) rfc_cell_bases (N0, N0)
  in
  (((N.add ib
      (N.modulo (N.div s (Npos (Coq_xO (Coq_xO (Coq_xO Coq_xH))))) (Npos
        (Coq_xO (Coq_xO (Coq_xO Coq_xH)))))),
  (N.add cb (N.modulo s (Npos (Coq_xO (Coq_xO (Coq_xO Coq_xH))))))),
  (N.ltb s (Npos (Coq_xO (Coq_xO (Coq_xO (Coq_xO (Coq_xO (Coq_xO (Coq_xO
    Coq_xH))))))))))

(** val rfc_distance : coq_N -> coq_N -> coq_N -> coq_N -> coq_N **)

let rfc_distance np nd dcode dextra =
  if N.ltb dcode (N.add (Npos (Coq_xO (Coq_xO (Coq_xO (Coq_xO Coq_xH))))) nd)
  then N.sub dcode (Npos (Coq_xI (Coq_xI (Coq_xI Coq_xH))))
  else let t =
         N.sub (N.sub dcode nd) (Npos (Coq_xO (Coq_xO (Coq_xO (Coq_xO
           Coq_xH)))))
       in
       let hcode = N.div t (N.pow (Npos (Coq_xO Coq_xH)) np) in
       let lcode = N.modulo t (N.pow (Npos (Coq_xO Coq_xH)) np) in
       let ndistbits =
         N.add (Npos Coq_xH) (N.div hcode (Npos (Coq_xO Coq_xH)))
       in
       let offset =
         N.sub
           (N.mul
             (N.add (Npos (Coq_xO Coq_xH))
               (N.modulo hcode (Npos (Coq_xO Coq_xH))))
             (N.pow (Npos (Coq_xO Coq_xH)) ndistbits)) (Npos (Coq_xO (Coq_xO
           Coq_xH)))
       in
       N.add
         (N.add
           (N.add
             (N.mul (N.add offset dextra) (N.pow (Npos (Coq_xO Coq_xH)) np))
             lcode) nd) (Npos Coq_xH)
