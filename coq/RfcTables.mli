open BinNat
open BinNums
open List

val rfc_nth : coq_N list -> coq_N -> coq_N

val rfc_ins_extra_tbl : coq_N list

val rfc_ins_base_tbl : coq_N list

val rfc_copy_extra_tbl : coq_N list

val rfc_copy_base_tbl : coq_N list

val rfc_blen_extra_tbl : coq_N list

val rfc_blen_base_tbl : coq_N list

val rfc_ins_base : coq_N -> coq_N

val rfc_ins_extra : coq_N -> coq_N

val rfc_copy_base : coq_N -> coq_N

val rfc_copy_extra : coq_N -> coq_N

val rfc_blen_base : coq_N -> coq_N

val rfc_blen_extra : coq_N -> coq_N

val rfc_cell_bases : (coq_N * coq_N) list

val rfc_cell : coq_N -> (coq_N * coq_N) * bool

val rfc_distance : coq_N -> coq_N -> coq_N -> coq_N -> coq_N
