open BinNat
open BinNums
open List

(** val w8 : coq_N -> coq_N **)

let w8 x =
  N.modulo x
    (N.pow (Npos (Coq_xO Coq_xH)) (Npos (Coq_xO (Coq_xO (Coq_xO Coq_xH)))))

(** val w16 : coq_N -> coq_N **)

let w16 x =
  N.modulo x
    (N.pow (Npos (Coq_xO Coq_xH)) (Npos (Coq_xO (Coq_xO (Coq_xO (Coq_xO
      Coq_xH))))))

(** val w32 : coq_N -> coq_N **)

let w32 x =
  N.modulo x
    (N.pow (Npos (Coq_xO Coq_xH)) (Npos (Coq_xO (Coq_xO (Coq_xO (Coq_xO
      (Coq_xO Coq_xH)))))))

(** val w64 : coq_N -> coq_N **)

let w64 x =
  N.modulo x
    (N.pow (Npos (Coq_xO Coq_xH)) (Npos (Coq_xO (Coq_xO (Coq_xO (Coq_xO
      (Coq_xO (Coq_xO Coq_xH))))))))

(** val wadd32 : coq_N -> coq_N -> coq_N **)

let wadd32 a b =
  w32 (N.add a b)

(** val wsub32 : coq_N -> coq_N -> coq_N **)

let wsub32 a b =
  w32
    (N.sub
      (N.add a
        (N.pow (Npos (Coq_xO Coq_xH)) (Npos (Coq_xO (Coq_xO (Coq_xO (Coq_xO
          (Coq_xO Coq_xH)))))))) (w32 b))

(** val wadd64 : coq_N -> coq_N -> coq_N **)

let wadd64 a b =
  w64 (N.add a b)

(** val wsub64 : coq_N -> coq_N -> coq_N **)

let wsub64 a b =
  w64
    (N.sub
      (N.add a
        (N.pow (Npos (Coq_xO Coq_xH)) (Npos (Coq_xO (Coq_xO (Coq_xO (Coq_xO
          (Coq_xO (Coq_xO Coq_xH))))))))) (w64 b))

(** val wmul64 : coq_N -> coq_N -> coq_N **)

let wmul64 a b =
  w64 (N.mul a b)

(** val wshl32 : coq_N -> coq_N -> coq_N **)

let wshl32 a k =
  w32 (N.shiftl a k)

(** val wshl64 : coq_N -> coq_N -> coq_N **)

let wshl64 a k =
  w64 (N.shiftl a k)

(** val nthN : coq_N list -> coq_N -> coq_N **)

let nthN l i =
  nth (N.to_nat i) l N0

(** val log2_floor_nonzero : coq_N -> coq_N **)

let log2_floor_nonzero v =
  if N.eqb v N0
  then Npos (Coq_xI (Coq_xI (Coq_xI (Coq_xI (Coq_xI (Coq_xI Coq_xH))))))
  else N.log2 v
