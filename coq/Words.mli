open BinNat
open BinNums
open List

val w8 : coq_N -> coq_N

val w16 : coq_N -> coq_N

val w32 : coq_N -> coq_N

val w64 : coq_N -> coq_N

val wadd32 : coq_N -> coq_N -> coq_N

val wsub32 : coq_N -> coq_N -> coq_N

val wadd64 : coq_N -> coq_N -> coq_N

val wsub64 : coq_N -> coq_N -> coq_N

val wmul64 : coq_N -> coq_N -> coq_N

val wshl32 : coq_N -> coq_N -> coq_N

val wshl64 : coq_N -> coq_N -> coq_N

val nthN : coq_N list -> coq_N -> coq_N

val log2_floor_nonzero : coq_N -> coq_N
