From Coq Require Import Extraction ExtrOcamlBasic.
From Coq Require Import ZArith.
From V Require Import lib.Words spec.RfcTables spec.PrefixCode spec.Decoder.
Extraction Language OCaml.
Extraction "../build/ocaml/c01/model.ml"
  decode ngetd context_id apply_transform rfc_lut0 rfc_lut1 rfc_lut2 dist_limit dist_alphabet Z.of_N.
