From Coq Require Import Extraction ExtrOcamlBasic ZArith.
From V Require Import lib.Words lib.PMap spec.RfcTables spec.PrefixCode spec.Decoder model.EncConfig model.RingBuf
  model.MetaBlockHeader model.Stream.
Extraction Language OCaml.
Extraction "../build/ocaml/c01/model.ml"
  decode decode_prefix ngetd context_id apply_transform rfc_lut0 rfc_lut1 rfc_lut2 dist_limit dist_alphabet Z.of_N
  wrap_position set_params configure hq_histogram_ok hq_ok known_hasher choose_hasher_type
  rb_setup rb_writes rb_at fold_pos fold_pos_asfound
  store_chunks encode_window_bits store_compressed_meta_block_header store_var_len_uint8 N_to_bits.
