From Coq Require Import Extraction ExtrOcamlBasic NArith ZArith.
From V Require Import lib.Words gen.GenPool spec.PoolSpec model.Pool.
Extraction Language OCaml.
Extraction "../build/ocaml/c07/model.ml"
  fq_new fq_push fq_pop fq_remove fq_sz fq_can_push fq_how_much_free_space fq_step fq_run
  qs_run qs_step
  pool_new init step run enabled observe outstanding exec_count
  spec_ok mksum join_ok lookupN Z.of_N N.mul N.add N.div_eucl N.pred.
