From Coq Require Import Extraction ExtrOcamlBasic.
From V Require Import lib.Words spec.Header model.Header model.Bound.
Extraction Language OCaml.
Extraction "../build/ocaml/c08/model.ml"
  max_compressed_size max_compressed_size_multi make_uncompressed_segments encoder_compress
  stream_bytes schedule_ok scfg_ok after_block header_end stored_header_bits catable_bytes
  rfc_read_stored_stream bytes_to_bits
  sanitize header_lgwin encode_window_bits encode_base_128 update_size_hint KnownClass_inner_panics.
