From Coq Require Import Extraction ExtrOcamlBasic ZArith.
From V Require Import spec.Ledger model.Alloc.
Extraction Language OCaml.
Extraction "../build/ocaml/c09/model.ml"
  ety_of_code ety_code empty_ledger apply_ev replay returnedb count_faults
  is_foreign is_stray is_dropped is_dup l_alloc l_free l_drop
  new_enc owned run_op run cleanup drop_enc instance_life ensure_init
  choose_hasher hasher_blocks default_hp bal current legacy
  writer_life reader_life copy_life oneshot_life compress_part multi_life multi_slice_life
  multi_life_joinfail ffi_life ffi_single_life
  Z.of_N N.div_eucl.  (* ocaml/conv.ml mentions the types z and N.div_eucl *)
