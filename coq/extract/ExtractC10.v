From Coq Require Import Extraction ExtrOcamlBasic.
From Coq Require Import NArith.
From V Require Import lib.Words model.Dict.
Extraction Language OCaml.
Extraction "../build/ocaml/c10/model.ml"
  enc_dict_setup enc_dict_setup_unfixed dec_dict_setup dec_max_distance enc_max_distance
  enc_prev_bytes header_wbits sanitize_quality sanitize_lgwin read_distance positions_ok N.to_nat N.of_nat N.add N.mul N.div_eucl.
