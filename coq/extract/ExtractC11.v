From Coq Require Import Extraction ExtrOcamlBasic ZArith.
From V Require Import model.IO spec.IOSpec.
Extraction Language OCaml.
Extraction "../build/ocaml/c11/model.ml"
  read_session write_session copy copy_zero_retries read_unguarded write_all
  reader_new writer_new copier_new reader_buffer_size writer_buffer_size
  sink_bytes bytes_of emitted fed log_errs log_zero_writes
  spec_check
  Z.of_N N.add N.mul N.div_eucl. (* only so that ocaml/conv.ml finds the type z and N.add/mul/div_eucl *)
