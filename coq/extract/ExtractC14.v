From Coq Require Import Extraction ExtrOcamlBasic.
From Coq Require Import NArith.
From V Require Import lib.Words model.Arith spec.IrReplay model.Recoder.
Extraction Language OCaml.
Extraction "../build/ocaml/c14/model.ml"
  recode recoder_init recoder_init_unfixed bs_nop
  ir_step ir_run rinit produced_here dict_expand apply_transform
  cmd_step cmd_run cmds_ok copy_loop copy_fast list_eqb split_ok
  count_literal_switches choose_stride_ok choose_stride_ok_unfixed score_len N.add N.mul N.div_eucl.
