From Coq Require Import Extraction ExtrOcamlBasic.
From V Require Import lib.Words spec.Header model.Header.
Extraction Language OCaml.
Extraction "../build/ocaml/c15/model.ml"
  first_bits bits_to_bytes set_parameters client_settings init_params encode_base_128 sanitize
  update_size_hint encode_window_bits header_lgwin uses_fast_path
  spec_check_header bytes_to_bits rfc_read_wbits rfc_read_wbits_strict rfc_read_metadata_block
  base128_decode spec_window spec_size_hint spec_mode_byte.
