From Coq Require Import Extraction ExtrOcamlBasic.
From V Require Import lib.Words gen.GenHuffman spec.PrefixCode model.Huffman.
Extraction Language OCaml.
Extraction "../build/ocaml/c17/model.ml"
  create_huffman_tree convert_bit_depths_to_symbols write_huffman_tree decide_over_rle_use
  optimize_huffman_counts_for_rle store_huffman_tree store_simple_huffman_tree
  build_and_store_huffman_tree build_and_store_huffman_tree_fast reverse_bits node0
  rfc_canonical rfc_decode_symbol rfc_codeword is_prefix kraft wf_depthsb
  rfc_read_prefix_code rfc_expand strip_trailing_zeros bits_to_N N_to_bits msb_first.
