From Coq Require Import Extraction ExtrOcamlBasic.
From V Require Import lib.Words model.Arith spec.RfcTables.
Extraction Language OCaml.
Extraction "../build/ocaml/c18/model.ml"
  get_insert_length_code get_copy_length_code combine_length_codes
  get_block_length_prefix_code prefix_encode_copy_distance restore_distance_code
  distance_index_and_offset command_new recompute_distance_prefix cmd_copy_len cmd_copy_len_code store_command_extra
  rfc_cell rfc_distance rfc_ins_base rfc_ins_extra rfc_copy_base rfc_copy_extra rfc_blen_base rfc_blen_extra.
