From Coq Require Import Extraction ExtrOcamlBasic ZArith.
From V Require Import lib.Words lib.Finite gen.GenHashers model.Hashers.
Extraction Language OCaml.
Extraction "../build/ocaml/c19/model.ml"
  Z.of_N (* ocaml/conv.ml mentions the type z *)
  range for_each tnew tentries tget
  H2p H3p H4p H54p basic_store basic_store_range basic_bulk_store_range basic_clone basic_eqb
  adv_store adv_store_range adv_bulk_store_range adv_store4vec4 adv_store_even_vec4 adv_clone adv_eqb
  h9_store h9_store_range h9_bulk_store_range h9_clone h9_eqb
  h10_store h10_store_range h10_bulk_store_range h10_clone h10_eqb.
