From Coq Require Import Extraction ExtrOcamlBasic NArith ZArith.
From V Require Import lib.Words model.Concat model.ConcatRun spec.ConcatSpec spec.ConcatMarker.
Extraction Language OCaml.
Extraction "../build/ocaml/concat/model.ml"
  bc_new new_with_window_size broccoli_create broccoli_create_with_window_size
  run_native run_ffi stream finish new_brotli_file serialize_to_buffer deserialize_from_buffer
  parse_window_size detect_varlen_offset
  c16_call_ok c16_state_ok c16_run_ok c12_agree rfc_wbits invb startedb concat_spec markers_ok
  Z.of_N.  (* Z.of_N only so that the type z exists for ocaml/conv.ml *)
