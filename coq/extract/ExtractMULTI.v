From Coq Require Import Extraction ExtrOcamlBasic ZArith NArith.
From V Require Import lib.Words gen.GenBound gen.GenMulti model.Bound model.Multi.
Extraction Language OCaml.
Extraction "../build/ocaml/multi/model.ml"
  Z.of_N (* ocaml/conv.ml mentions the type z *)
  Current Repaired AsFound get_range shared_ranges plan_job set_custom_dictionary job_pre_params sanitize_params
  max_compressed_size max_compressed_size_multi compress_part compress_multi.
