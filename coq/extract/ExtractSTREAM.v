From Coq Require Import Extraction ExtrOcamlBasic.
From V Require Import lib.Words model.Stream spec.Contract proofs.Roundtrip_defs.
Extraction Language OCaml.
Extraction "../build/ocaml/stream/model.ml"
  init_st set_parameter ensure_initialized compress_stream compress_stream_from c_reported_total c_reported_total_asfound take_output has_more_output is_finished
  answer_ok answer_ok3 size_ok tail_clean carry_keptb upd_misc mon0 mon_run.
