From Coq Require Import Extraction ExtrOcamlBasic.
From V Require Import lib.Words model.Stream spec.Contract.
Extraction Language OCaml.
Extraction "../build/ocaml/stream/model.ml"
  init_st set_parameter ensure_initialized compress_stream compress_stream_from c_reported_total c_reported_total_asfound take_output has_more_output is_finished
  answer_ok upd_misc mon0 mon_run.
