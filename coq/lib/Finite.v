(* Finite prefixes decided by computation, lifted to universally quantified statements. *)
From Coq Require Import NArith List Lia Bool.
Import ListNotations.
Open Scope N_scope.

Definition all_below (P : N -> bool) (k : N) : bool :=
  N.peano_rect (fun _ => bool) true (fun n acc => P n && acc) k.

Lemma all_below_spec P k : all_below P k = true -> forall n, n < k -> P n = true.
Proof.
  unfold all_below. induction k as [|k IH] using N.peano_ind; intros H n Hn; [lia|].
  rewrite N.peano_rect_succ in H. apply andb_true_iff in H. destruct H as [H1 H2].
  destruct (N.eq_dec n k) as [->|Hne]; [exact H1|]. apply IH; [exact H2|lia].
Qed.

(* all n in [lo, lo+len) *)
Definition all_between (P : N -> bool) (lo len : N) : bool := all_below (fun i => P (lo + i)) len.
Lemma all_between_spec P lo len : all_between P lo len = true -> forall n, lo <= n -> n < lo + len -> P n = true.
Proof.
  intros H n H1 H2. replace n with (lo + (n - lo)) by lia.
  apply (all_below_spec _ _ H). lia.
Qed.

Fixpoint range_nat (lo : N) (len : nat) : list N :=
  match len with O => [] | S l => lo :: range_nat (N.succ lo) l end.
Lemma range_nat_In lo len n : lo <= n -> n < lo + N.of_nat len -> In n (range_nat lo len).
Proof.
  revert lo. induction len as [|l IH]; intros lo H1 H2; [lia|].
  cbn [range_nat]. destruct (N.eq_dec n lo) as [->|Hne]; [left; reflexivity|right].
  apply IH; lia.
Qed.
