(* Finite maps keyed by N (binary tries over the successor positive): the "arrays" of the
   executable specifications and models that must stay fast after extraction. *)
From Coq Require Import NArith PArith List.
Import ListNotations.
Open Scope N_scope.

Inductive pt (A : Type) := PE | PN (l : pt A) (v : option A) (r : pt A).
Arguments PE {A}. Arguments PN {A}.

Fixpoint pt_get {A} (t : pt A) (p : positive) : option A :=
  match t with
  | PE => None
  | PN l v r => match p with xH => v | xO q => pt_get l q | xI q => pt_get r q end
  end.
Fixpoint pt_set {A} (t : pt A) (p : positive) (x : A) : pt A :=
  match p with
  | xH => match t with PE => PN PE (Some x) PE | PN l _ r => PN l (Some x) r end
  | xO q => match t with PE => PN (pt_set PE q x) None PE | PN l v r => PN (pt_set l q x) v r end
  | xI q => match t with PE => PN PE None (pt_set PE q x) | PN l v r => PN l v (pt_set r q x) end
  end.
Definition nget {A} (t : pt A) (i : N) : option A := pt_get t (N.succ_pos i).
Definition nset {A} (t : pt A) (i : N) (x : A) : pt A := pt_set t (N.succ_pos i) x.
Definition ngetd (t : pt N) (i : N) : N := match nget t i with Some v => v | None => 0 end.
Fixpoint pt_of_list_from {A} (t : pt A) (i : N) (l : list A) : pt A :=
  match l with [] => t | x :: r => pt_of_list_from (nset t i x) (i + 1) r end.
Definition pt_of_list {A} (l : list A) : pt A := pt_of_list_from PE 0 l.

Lemma pt_get_empty A (p : positive) : pt_get (@PE A) p = None.
Proof. reflexivity. Qed.

Lemma pt_gss A (t : pt A) p x : pt_get (pt_set t p x) p = Some x.
Proof. revert t. induction p as [q IH|q IH|]; intros [|l v r]; cbn [pt_set pt_get]; auto. Qed.

Lemma pt_gso A (t : pt A) p q x : p <> q -> pt_get (pt_set t p x) q = pt_get t q.
Proof.
  revert t q. induction p as [p IH|p IH|]; intros [|l v r] [q|q|] Hne; cbn [pt_set pt_get];
    try reflexivity; try congruence;
    try (rewrite IH by congruence; try reflexivity; apply pt_get_empty);
    try (destruct q; reflexivity).
Qed.

Lemma nget_set_same A (t : pt A) i x : nget (nset t i x) i = Some x.
Proof. apply pt_gss. Qed.
Lemma nget_set_other A (t : pt A) i j x : i <> j -> nget (nset t i x) j = nget t j.
Proof.
  intros H. apply pt_gso. intros E. apply H.
  apply (f_equal Pos.pred_N) in E. rewrite !N.pos_pred_succ in E. exact E.
Qed.
Lemma ngetd_set_same (t : pt N) i x : ngetd (nset t i x) i = x.
Proof. unfold ngetd. rewrite nget_set_same. reflexivity. Qed.
Lemma ngetd_set_other (t : pt N) i j x : i <> j -> ngetd (nset t i x) j = ngetd t j.
Proof. intros H. unfold ngetd. rewrite nget_set_other by exact H. reflexivity. Qed.
