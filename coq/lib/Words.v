(* Fixed-width machine arithmetic on N, written out explicitly. *)
From Coq Require Import NArith ZArith List Lia.
Import ListNotations.
Open Scope N_scope.

Definition w8 (x : N) : N := x mod 2^8.
Definition w16 (x : N) : N := x mod 2^16.
Definition w32 (x : N) : N := x mod 2^32.
Definition w64 (x : N) : N := x mod 2^64.

Definition wadd32 (a b : N) : N := w32 (a + b).
Definition wsub32 (a b : N) : N := w32 (a + 2^32 - w32 b).
Definition wadd64 (a b : N) : N := w64 (a + b).
Definition wsub64 (a b : N) : N := w64 (a + 2^64 - w64 b).
Definition wmul64 (a b : N) : N := w64 (a * b).
Definition wshl32 (a k : N) : N := w32 (N.shiftl a k).
Definition wshl64 (a k : N) : N := w64 (N.shiftl a k).

(* list indexing by N with default 0 (all uses are guarded by a proved bound) *)
Definition nthN (l : list N) (i : N) : N := nth (N.to_nat i) l 0.

(* u64::leading_zeros-based Log2FloorNonZero: 63 ^ clz(v).  For v = 0, clz = 64 and
   63 xor 64 = 127. *)
Definition log2_floor_nonzero (v : N) : N := if v =? 0 then 127 else N.log2 v.
