(* C09 model: which allocation / release each encoder entry point performs on the long-lived
   fields of BrotliEncoderStateStruct, as transitions of the ledger of spec/Ledger.v.

   Mirrors (file: function):
     enc/encode.rs: BrotliEncoderStateStruct::new, set_parameter, SanitizeParams, ComputeLgBlock,
        ensure_initialized, RingBufferInitBuffer, get_brotli_storage, GetHashTableInternal,
        ChooseHasher, BrotliMakeHasher / InitializeH*, hasher_setup, the command-buffer growth and
        the q1 buffers of encode_data, compress_stream_fast (prologue / epilogue),
        set_custom_dictionary_with_optional_precomputed_hasher, cleanup /
        BrotliEncoderDestroyInstance, encoder_compress (one-shot)
     enc/writer.rs, enc/reader.rs: Drop of the wrappers;  enc/mod.rs: the three exits of
        BrotliCompressCustomIoCustomDict
     enc/threading.rs: compress_part, CompressMulti (stitching), CompressMultiSlice
     ffi/compressor.rs: BrotliEncoderCreateInstance / DestroyInstance;
     ffi/multicompress/mod.rs: help_brotli_encoder_compress_single

   Conventions
   * A field is a `slot` holding the list of blocks it owns ([] = the empty default value).
     Rust assignment to a field drops the old value (`l_drop`); `free_cell(take(field))` is
     `free_slot`.  Locals that hold blocks across statements are slots too (LNew, LCmd, LLit).
   * Data-dependent guards (how many bytes arrived, whether a buffer has to grow, which
     requests reach the back end) are resolved by the *history*: a phase is present iff the
     code took the allocating branch, and carries the size it asked for.  The theorems
     quantify over all histories, which covers every guard outcome.
   * What the back ends (compress_fragment*, BrotliCreateBackwardReferences incl. Zopfli,
     WriteMetaBlockInternal incl. block splitting and IR logging, store_uncompressed_meta_block)
     do with the allocator is not modelled: `temps c k` is the list of their alloc/free steps
     in their k-th invocation, a Section variable; the hypothesis `temporaries_balanced`
     (every step list frees exactly what it allocated) stays visible in every theorem.
   * `version` records which of the four repaired defects are present, so that the same
     model states the theorems about the current code and the witnesses about the old one. *)
From Coq Require Import NArith List Bool.
From V Require Import spec.Ledger gen.GenAlloc.
Import ListNotations.
Open Scope N_scope.

Inductive fld :=
| FStorage | FCommands | FRing | FHasher | FLargeTable | FCommandBuf | FLiteralBuf
| LNew | LCmd | LLit.

Definition all_flds : list fld :=
  [FStorage; FCommands; FRing; FHasher; FLargeTable; FCommandBuf; FLiteralBuf; LNew; LCmd; LLit].

Definition fld_eqb (a b : fld) : bool :=
  match a, b with
  | FStorage, FStorage | FCommands, FCommands | FRing, FRing | FHasher, FHasher
  | FLargeTable, FLargeTable | FCommandBuf, FCommandBuf | FLiteralBuf, FLiteralBuf
  | LNew, LNew | LCmd, LCmd | LLit, LLit => true
  | _, _ => false
  end.

(* BrotliHasherParams: the three fields that determine table sizes *)
Record hparams := mkhp { h_type : N; h_block_bits : N; h_bucket_bits : N }.
Definition default_hp : hparams := mkhp 6 8 15.   (* BrotliEncoderInitParams *)

Record enc := mkenc {
  m8 : N;                          (* the allocator instance the state owns *)
  slot : fld -> list blk;
  initialized : bool;
  quality : N;                     (* i32 stored as its u32 bit pattern until sanitised *)
  lgwin : N;
  lgblock : N;
  size_hint : N;
  q9_5 : bool;
  catable : bool;
  large_window : bool;
  hp : hparams;
  storage_size : N;
  cmd_alloc_size : N }.

Definition new_enc (inst : N) : enc :=
  mkenc inst (fun _ => []) false 11 22 0 0 false false false default_hp 0 0.

Definition upd (e : enc) (f : fld) (v : list blk) : enc :=
  mkenc (m8 e) (fun g => if fld_eqb g f then v else slot e g) (initialized e) (quality e)
        (lgwin e) (lgblock e) (size_hint e) (q9_5 e) (catable e) (large_window e) (hp e)
        (storage_size e) (cmd_alloc_size e).

Definition with_params (e : enc) (ini : bool) (q w b hint : N) (q95 cat lw : bool) : enc :=
  mkenc (m8 e) (slot e) ini q w b hint q95 cat lw (hp e) (storage_size e) (cmd_alloc_size e).
Definition with_hp (e : enc) (h : hparams) : enc :=
  mkenc (m8 e) (slot e) (initialized e) (quality e) (lgwin e) (lgblock e) (size_hint e) (q9_5 e)
        (catable e) (large_window e) h (storage_size e) (cmd_alloc_size e).
Definition with_sizes (e : enc) (ss cs : N) : enc :=
  mkenc (m8 e) (slot e) (initialized e) (quality e) (lgwin e) (lgblock e) (size_hint e) (q9_5 e)
        (catable e) (large_window e) (hp e) ss cs.

Definition owned (e : enc) : list blk := flat_map (slot e) all_flds.

Definition st := (enc * ledger)%type.

Definition isnil {A} (l : list A) : bool := match l with [] => true | _ => false end.
Definition total_len (bs : list blk) : N := fold_right (fun b a => blen b + a) 0 bs.

(* ------------------------------------------------------------------ primitive statements *)

(* `field = allocate(m, len)` through instance `inst` *)
Definition alloc_from (inst : N) (f : fld) (ty : ety) (len : N) (s : st) : st :=
  let (e, l) := s in
  let (b, l1) := l_alloc inst ty len l in
  (upd e f b, l_drop (slot e f) l1).
Definition alloc_to (f : fld) (ty : ety) (len : N) (s : st) : st :=
  alloc_from (m8 (fst s)) f ty len s.

(* a value made of several blocks (a hasher) built through `inst` and stored in `f` *)
Fixpoint alloc_many (inst : N) (shapes : list (ety * N)) (l : ledger) : list blk * ledger :=
  match shapes with
  | [] => ([], l)
  | (ty, len) :: r => let (b, l1) := l_alloc inst ty len l in
                      let (bs, l2) := alloc_many inst r l1 in (b ++ bs, l2)
  end.
Definition alloc_blocks_from (inst : N) (f : fld) (shapes : list (ety * N)) (s : st) : st :=
  let (e, l) := s in
  let (bs, l1) := alloc_many inst shapes l in
  (upd e f bs, l_drop (slot e f) l1).

(* `m8.free_cell(take(&mut field))` *)
Definition free_slot (f : fld) (s : st) : st :=
  let (e, l) := s in (upd e f [], l_free (m8 e) (slot e f) l).

(* `g = take(&mut f)` *)
Definition move (f g : fld) (s : st) : st :=
  let (e, l) := s in (upd (upd e f []) g (slot e f), l_drop (slot e g) l).

(* a local holding blocks goes out of scope *)
Definition drop_slot (f : fld) (s : st) : st :=
  let (e, l) := s in (upd e f [], l_drop (slot e f) l).

(* ------------------------------------------------------------------ parameters *)

Inductive pname := PQuality | PLgwin | PLgblock | PSizeHint | PQ95 | PCatable | PLargeWindow | POther.

Definition i32_neg (v : N) : bool := 2 ^ 31 <=? v.

Definition set_param (p : pname) (v : N) (e : enc) : enc :=
  if initialized e then e else
  match p with
  | PQuality => with_params e false v (lgwin e) (lgblock e) (size_hint e) (q9_5 e) (catable e) (large_window e)
  | PLgwin => with_params e false (quality e) v (lgblock e) (size_hint e) (q9_5 e) (catable e) (large_window e)
  | PLgblock => with_params e false (quality e) (lgwin e) v (size_hint e) (q9_5 e) (catable e) (large_window e)
  | PSizeHint => with_params e false (quality e) (lgwin e) (lgblock e) v (q9_5 e) (catable e) (large_window e)
  | PQ95 => with_params e false (quality e) (lgwin e) (lgblock e) (size_hint e) (negb (v =? 0)) (catable e) (large_window e)
  | PCatable => with_params e false (quality e) (lgwin e) (lgblock e) (size_hint e) (q9_5 e) (negb (v =? 0)) (large_window e)
  | PLargeWindow => with_params e false (quality e) (lgwin e) (lgblock e) (size_hint e) (q9_5 e) (catable e) (negb (v =? 0))
  | POther => e
  end.

(* SanitizeParams *)
Definition sane_quality (q : N) : N := if i32_neg q then 0 else N.min 11 q.
Definition sane_lgwin (w : N) (lw : bool) : N :=
  if i32_neg w then 10 else if w <? 10 then 10
  else if 24 <? w then (if lw then (if 30 <? w then 30 else w) else 24) else w.
(* ComputeLgBlock *)
Definition compute_lgblock (q w b : N) : N :=
  if (q =? 0) || (q =? 1) then w
  else if q <? 4 then 14
  else if b =? 0 then (if (9 <=? q) && (16 <? w) then N.min 18 w else 16)
  else if i32_neg b then 16 else N.min 24 (N.max 16 b).

Definition ensure_init (s : st) : st :=
  let (e, l) := s in
  if initialized e then s else
  let q := sane_quality (quality e) in
  let w := sane_lgwin (lgwin e) (large_window e) in
  (with_params e true q w (compute_lgblock q w (lgblock e)) (size_hint e) (q9_5 e) (catable e)
               (large_window e), l).

(* ChooseHasher *)
Definition choose_hasher (q : N) (q95 : bool) (hint w : N) (h : hparams) : hparams :=
  if (10 <=? q) && negb q95 then mkhp 10 (h_block_bits h) (h_bucket_bits h)
  else if q =? 10 then mkhp 9 h9_block_bits h9_bucket_bits
  else if q =? 9 then mkhp 9 h9_block_bits h9_bucket_bits
  else if (q =? 4) && (2 ^ 20 <=? hint) then mkhp 54 (h_block_bits h) (h_bucket_bits h)
  else if q <? 5 then mkhp q (h_block_bits h) (h_bucket_bits h)
  else if w <=? 16 then
    mkhp (if q <? 7 then 40 else if q <? 9 then 41 else 42) (h_block_bits h) (h_bucket_bits h)
  else if ((q95 && (2 ^ 20 <? hint)) || (2 ^ 22 <? hint)) && (19 <=? w) then
    mkhp 6 (N.min (q - 1) 9) 15
  else mkhp 5 (N.min (q - 1) 9) (if (q <? 7) && (hint <=? 2 ^ 20) then 14 else 15).

(* BrotliMakeHasher: what each Initialize* asks the allocator for, in order *)
Definition hasher_blocks (h : hparams) (w : N) : list (ety * N) :=
  let t := h_type h in
  if t =? 2 then [(U32, h2_buckets)]
  else if t =? 3 then [(U32, h3_buckets)]
  else if t =? 4 then [(U32, h4_buckets)]
  else if t =? 54 then [(U32, h54_buckets)]
  else if t =? 9 then [(U16, 2 ^ h9_bucket_bits); (U32, 2 ^ h9_block_bits * 2 ^ h9_bucket_bits)]
  else if t =? 10 then [(U32, 2 ^ h10_bucket_bits); (U32, 2 ^ w * 2)]
  else (* 5, 6 and the fall-back InitializeH6 *)
    [(U32, 2 ^ h_bucket_bits h * 2 ^ h_block_bits h); (U16, 2 ^ h_bucket_bits h)].

(* ------------------------------------------------------------------ scoped temporaries *)

Inductive callee := CFragmentFast | CFragmentTwoPass | CBackwardRefs | CWriteMetaBlock.
Inductive tstep := TAlloc (ty : ety) (len : N) | TFree (k : nat).

Fixpoint remove_nth {A} (k : nat) (l : list A) : list A :=
  match l, k with
  | [], _ => []
  | _ :: r, O => r
  | x :: r, S k' => x :: remove_nth k' r
  end.

Fixpoint run_temps (inst : N) (tr : list tstep) (open : list blk) (l : ledger) : list blk * ledger :=
  match tr with
  | [] => (open, l)
  | TAlloc ty len :: r => let (b, l1) := l_alloc inst ty len l in run_temps inst r (b ++ open) l1
  | TFree k :: r =>
      match nth_error open k with
      | Some b => run_temps inst r (remove_nth k open) (l_free inst [b] l)
      | None => run_temps inst r open (mkledger (next l) (live l) (Stray 0 inst :: faults l))
      end
  end.

(* executable form of "frees exactly what it allocated" *)
Fixpoint bal (n : nat) (tr : list tstep) : bool :=
  match tr with
  | [] => Nat.eqb n 0
  | TAlloc _ len :: r => bal (if len =? 0 then n else S n) r
  | TFree k :: r => Nat.ltb k n && bal (pred n) r
  end.

(* ------------------------------------------------------------------ code versions *)

Definition fld_of_code (c : N) : fld :=
  match c with
  | 0 => FStorage | 1 => FCommands | 2 => FRing | 3 => FHasher | 4 => FLargeTable
  | 5 => FCommandBuf | 6 => FLiteralBuf | _ => LNew
  end.

(* what the release sites of the source do; `current` is read off /repo by tools/gen_alloc.py
   (coq/gen/GenAlloc.v), `legacy` is the tree before the four C09 repairs *)
Record version := mkver {
  v_debug : bool;                 (* cfg!(debug_assertions) in set_custom_dictionary_with_... *)
  v_cleanup_fields : list fld;    (* the fields cleanup() hands back (canonical order) *)
  v_destroy_cleans : bool;        (* enc::encode::BrotliEncoderDestroyInstance calls cleanup *)
  v_dict_frees_old : bool;        (* fix 58cb8c9 *)
  v_dict_destroys_orig : bool;    (* DestroyHasher(m16, &mut orig_hasher) in the debug path *)
  v_ffi_destroy_cleans : bool;    (* fix b261039 *)
  v_single_cleans : bool;         (* fix 4992104 *)
  v_oneshot_own_alloc : bool;     (* fix 29febca *)
  v_oneshot_destroys : bool;
  v_writer_drop_destroys : bool;
  v_reader_drop_destroys : bool;
  v_copy_returns_destroy : bool;  (* every `return` inside the copy loop destroys the instance first *)
  v_copy_tail_destroys : bool;    (* ... and so does the code after the loop *)
  v_part_destroys : bool;         (* compress_part destroys the instance before building its result *)
  v_part_error_frees_chunk : bool;
  v_stitch_same_alloc : bool;     (* chunk freed through the allocator that came back with it, which is state.m8 *)
  v_clone_same_alloc : bool;      (* precomputed hashers are cloned with the receiving thread's allocator *)
  v_slice_frees_input : bool;
  v_multi_restores_input : bool;  (* fix 2822ce4 *)
  v_dict_installs_first : bool;   (* the by-value hasher is stored in the state before any return *)
  v_dict_ignores_one_byte : bool; (* `size <= 1` is part of the `dictionary ignored` condition *)
  v_dict_cut_discards : bool;     (* a dictionary cut to the window discards a supplied hasher ... *)
  v_dict_cut_frees : bool;        (* ... through DestroyHasher(&mut self.m8, ..) *)
  v_copy_err_try_destroys : bool; (* the `?` in the sink-failed arm of the copy loop comes after the destroy call *)
  v_copy_zero_try_destroys : bool;(* ... and so does the one in the sink-accepted-nothing arm *)
  v_join_failure_continues : bool }. (* a job that cannot be joined no longer ends the stitching loop *)

Definition current (debug : bool) : version :=
  mkver debug (map fld_of_code cleanup_frees) destroy_instance_calls_cleanup
        dict_frees_old_hasher dict_destroys_orig_hasher ffi_destroy_cleans ffi_single_cleans
        oneshot_hasher_from_state_alloc oneshot_destroys writer_drop_destroys reader_drop_destroys
        (copy_returns =? copy_returns_destroying) copy_tail_destroys
        part_destroys_before_result part_error_frees_chunk
        (stitch_frees_with_result_alloc && part_returns_state_alloc && stitch_hands_back_alloc)
        multi_clones_with_thread_alloc slice_frees_input_with_alloc0 multi_restores_input_on_error
        dict_installs_hasher_before_any_return dict_ignores_one_byte dict_cut_discards_supplied_hasher
        dict_cut_frees_supplied_hasher
        copy_sink_error_try_destroys copy_sink_zero_try_destroys
        (join_failure_keeps_stitching && stitch_frees_chunks_after_failure).

Definition legacy (debug : bool) : version :=
  let c := current debug in
  mkver debug (v_cleanup_fields c) (v_destroy_cleans c) false (v_dict_destroys_orig c) false false false
        (v_oneshot_destroys c) (v_writer_drop_destroys c) (v_reader_drop_destroys c)
        (v_copy_returns_destroy c) (v_copy_tail_destroys c) (v_part_destroys c)
        (v_part_error_frees_chunk c) (v_stitch_same_alloc c) (v_clone_same_alloc c) (v_slice_frees_input c) false
        (v_dict_installs_first c) true false false (v_copy_err_try_destroys c) (v_copy_zero_try_destroys c) false.

(* ------------------------------------------------------------------ phases of a stream call *)

Inductive phase :=
| PhSizeHint (v : N)               (* update_size_hint *)
| PhRingInit (buflen : N)          (* RingBufferInitBuffer(buflen) *)
| PhStorage (size : N)             (* get_brotli_storage(size) *)
| PhCommands (newsize extra : N)   (* command buffer growth in encode_data *)
| PhHasherSetup                    (* hasher_setup *)
| PhTable (htsize : N)             (* GetHashTableInternal, after rounding *)
| PhQ1Bufs                         (* encode_data: quality 1 two-pass buffers *)
| PhTemp (c : callee) (k : N).     (* a back end runs *)

(* what can happen inside the loop of compress_stream_fast *)
Inductive fphase := FpStorage (size : N) | FpTable (htsize : N) | FpTemp (c : callee) (k : N).
Definition of_fphase (p : fphase) : phase :=
  match p with FpStorage s => PhStorage s | FpTable h => PhTable h | FpTemp c k => PhTemp c k end.

Definition two17 : N := 2 ^ two_pass_block_bits.   (* kCompressFragmentTwoPassBlockSize *)

Inductive op :=
| OSetParam (p : pname) (v : N)
| OSetDict (size : N) (oinst : N) (oshapes : list (ety * N)) (rings : list N)
| OInstallHasher (inst : N) (shapes : list (ety * N))     (* s.hasher_ = BrotliMakeHasher(m, ..) *)
| OStream (phs : list phase)                               (* compress_stream, general path *)
| OStreamFast (buf_size : N) (phs : list fphase)           (* compress_stream -> compress_stream_fast *)
| OTakeOutput
| OCleanup.                                                (* BrotliEncoderDestroyInstance *)

Section Temporaries.
Variable temps : callee -> N -> list tstep.

Definition do_phase (ph : phase) (s : st) : st :=
  let e := fst s in
  match ph with
  | PhSizeHint v =>
      if size_hint e =? 0 then
        (with_params e (initialized e) (quality e) (lgwin e) (lgblock e) v (q9_5 e) (catable e)
                     (large_window e), snd s)
      else s
  | PhRingInit buflen =>
      let s1 := alloc_to LNew U8 (2 + buflen + 7) s in
      let s2 := if isnil (slot e FRing) then s1 else free_slot FRing s1 in
      move LNew FRing s2
  | PhStorage size =>
      if storage_size e <? size then
        let s1 := alloc_to FStorage U8 size (free_slot FStorage s) in
        (with_sizes (fst s1) size (cmd_alloc_size e), snd s1)
      else s
  | PhCommands newsize extra =>
      if cmd_alloc_size e <? newsize then
        let s1 := alloc_to LNew ECmd (newsize + extra) s in
        let s2 := if isnil (slot e FCommands) then s1 else free_slot FCommands s1 in
        let s3 := move LNew FCommands s2 in
        (with_sizes (fst s3) (storage_size e) (newsize + extra), snd s3)
      else s
  | PhHasherSetup =>
      if isnil (slot e FHasher) then
        let h := choose_hasher (quality e) (q9_5 e) (size_hint e) (lgwin e) (hp e) in
        let s1 := alloc_blocks_from (m8 e) FHasher (hasher_blocks h (lgwin e)) s in
        (with_hp (fst s1) h, snd s1)
      else s
  | PhTable htsize =>
      if htsize <=? 1024 then s
      else if total_len (slot e FLargeTable) <? htsize then
        alloc_to FLargeTable I32 htsize (free_slot FLargeTable s)
      else s
  | PhQ1Bufs =>
      if (quality e =? 1) && isnil (slot e FCommandBuf) then
        alloc_to FLiteralBuf U8 two17 (alloc_to FCommandBuf U32 two17 s)
      else s
  | PhTemp c k =>
      let (open, l1) := run_temps (m8 e) (temps c k) [] (snd s) in
      (e, l_drop open l1)
  end.

Definition do_phases (phs : list phase) (s : st) : st := fold_left (fun s p => do_phase p s) phs s.

(* compress_stream_fast *)
Definition fast_prologue (buf_size : N) (s : st) : st :=
  let e := fst s in
  if quality e =? 1 then
    let s1 := if isnil (slot e FCommandBuf) && (buf_size =? two17)
              then alloc_to FLiteralBuf U8 two17 (alloc_to FCommandBuf U32 two17 s) else s in
    if isnil (slot (fst s1) FCommandBuf) then
      alloc_to LLit U8 buf_size (alloc_to LCmd U32 buf_size s1)
    else move FLiteralBuf LLit (move FCommandBuf LCmd s1)
  else s.
Definition fast_epilogue (s : st) : st :=
  let e := fst s in
  if (total_len (slot e LCmd) =? two17) && isnil (slot e FCommandBuf) then
    move LLit FLiteralBuf (move LCmd FCommandBuf s)
  else free_slot LLit (free_slot LCmd s).
Definition stream_fast (buf_size : N) (phs : list fphase) (s : st) : st :=
  let e := fst s in
  if (quality e =? 0) || (quality e =? 1) then
    fast_epilogue (do_phases (map of_fphase phs) (fast_prologue buf_size s))
  else s.

(* set_custom_dictionary_with_optional_precomputed_hasher; the optional hasher arrives by value
   (local LNew), built by the caller through instance `oinst` *)
Definition set_dict (ver : version) (size oinst : N) (oshapes : list (ety * N)) (rings : list N)
           (s : st) : st :=
  let s0 := alloc_blocks_from oinst LNew oshapes s in
  let has_opt := negb (isnil (slot (fst s0) LNew)) in
  let s1 := if v_dict_frees_old ver then free_slot FHasher s0 else s0 in
  (* self.hasher_ = opt_hasher, either here or only after the early returns *)
  let s2 := if v_dict_installs_first ver then move LNew FHasher s1 else s1 in
  let s3 := ensure_init s2 in
  let e3 := fst s3 in
  if (size =? 0) || (quality e3 =? 0) || (quality e3 =? 1) || (v_dict_ignores_one_byte ver && (size <=? 1)) then
    (* return: a hasher that is still a local goes out of scope *)
    let s3' := drop_slot LNew s3 in
    (with_params (fst s3') true (quality e3) (lgwin e3) (lgblock e3) (size_hint e3) (q9_5 e3) true
                 (large_window e3), snd s3')
  else
    let s3a := if v_dict_installs_first ver then s3 else move LNew FHasher s3 in
    (* if size > max_dict_size: only the tail is kept and a supplied hasher is of no use *)
    let cut := (2 ^ lgwin e3 - 16 <? size) && v_dict_cut_discards ver && has_opt in
    let s3c := if cut then (if v_dict_cut_frees ver then free_slot FHasher s3a else drop_slot FHasher s3a) else s3a in
    let has_opt' := has_opt && negb cut in
    let s4 := do_phases (map PhRingInit rings) s3c in
    if v_debug ver || negb has_opt' then
      let s5 := if has_opt' then move FHasher LNew s4 else s4 in
      let s6 := do_phase PhHasherSetup s5 in
      if has_opt' then (if v_dict_destroys_orig ver then free_slot LNew s6 else drop_slot LNew s6) else s6
    else s4.

(* BrotliEncoderDestroyInstance -> cleanup: free_cell(take(field)) for each listed field *)
Definition cleanup (ver : version) (s : st) : st :=
  if v_destroy_cleans ver then fold_left (fun s f => free_slot f s) (v_cleanup_fields ver) s else s.

(* the state value goes away: every field still holding a block drops it *)
Definition drop_enc (s : st) : ledger := l_drop (owned (fst s)) (snd s).

Definition run_op (ver : version) (o : op) (s : st) : st :=
  match o with
  | OSetParam p v => (set_param p v (fst s), snd s)
  | OSetDict size oinst oshapes rings => set_dict ver size oinst oshapes rings s
  | OInstallHasher inst shapes => alloc_blocks_from inst FHasher shapes s
  | OStream phs => do_phases phs (ensure_init s)
  | OStreamFast n phs => stream_fast n phs (ensure_init s)
  | OTakeOutput => s
  | OCleanup => cleanup ver s
  end.
Definition run (ver : version) (h : list op) (s : st) : st := fold_left (fun s o => run_op ver o s) h s.

(* one encoder state from creation to the end of its life.  `clean` = the owner runs
   BrotliEncoderDestroyInstance before the value is dropped. *)
Definition instance_life (ver : version) (inst : N) (h : list op) (clean : bool) (l : ledger) : ledger :=
  let s := run ver h (new_enc inst, l) in
  drop_enc (if clean then cleanup ver s else s).

(* ------------------------------------------------------------------ wrappers and entry points *)

(* CompressorWriterCustomIo: new sets quality and lgwin; every write / flush / the flush in
   into_inner and in Drop is a stream call that may be cut short by an I/O error (then the
   remaining calls of that method do not happen - a shorter history); Drop always runs and
   always calls BrotliEncoderDestroyInstance. *)
Definition writer_life (ver : version) (q w : N) (calls : list op) : ledger :=
  instance_life ver 0 (OSetParam PQuality q :: OSetParam PLgwin w :: calls)
                (v_writer_drop_destroys ver) empty_ledger.
(* CompressorReaderCustomIo: same shape; StateWrapper::drop destroys the instance, also when
   into_inner takes the reader apart. *)
Definition reader_life (ver : version) (q w : N) (calls : list op) : ledger :=
  instance_life ver 0 (OSetParam PQuality q :: OSetParam PLgwin w :: calls)
                (v_reader_drop_destroys ver) empty_ledger.

(* BrotliCompressCustomIoCustomDict: the ways out once the state exists - inside the loop two
   `return`s (the sink failed; the sink accepted zero bytes), each preceded by a `read_err?` that
   leaves first when the source had failed before, and two `break`s (no progress; finished) *)
Inductive copy_exit :=
| XWriteError | XZeroWrite                         (* `return Err(..)` in the two sink-failure arms *)
| XWriteErrorReadPending | XZeroWriteReadPending   (* `read_err?` in those arms: a source error is pending *)
| XNoProgress | XFinished.                         (* the two `break`s *)
Definition copy_exit_destroys (ver : version) (x : copy_exit) : bool :=
  match x with
  | XWriteError => v_copy_returns_destroy ver
  | XZeroWrite => v_copy_returns_destroy ver
  | XWriteErrorReadPending => v_copy_err_try_destroys ver
  | XZeroWriteReadPending => v_copy_zero_try_destroys ver
  | XNoProgress => v_copy_tail_destroys ver
  | XFinished => v_copy_tail_destroys ver
  end.
Definition copy_life (ver : version) (params : list op) (dict : list op) (calls : list op)
           (x : copy_exit) : ledger :=
  instance_life ver 0 (params ++ dict ++ calls) (copy_exit_destroys ver x) empty_ledger.

(* encoder_compress: instance 0 is the caller's allocator, instance 1 the `empty_m8` placeholder
   that sits in `*m8` while the real one lives in the state *)
Definition oneshot_life (ver : version) (q w : N) (trivial : bool) (calls : list op) : ledger :=
  if trivial then empty_ledger   (* out_size == 0 or input_size == 0: no state is built *)
  else
    let q' := if q =? 10 then 9 else q in
    let pre := if q =? 10 then
                 [OInstallHasher (if v_oneshot_own_alloc ver then 0 else 1)
                                 (hasher_blocks (choose_hasher 10 true 0 22 default_hp) 22)]
               else [] in
    instance_life ver 0 (pre ++ OSetParam PQuality q' :: OSetParam PLgwin w :: calls)
                  (v_oneshot_destroys ver) empty_ledger.

(* compress_part for thread `i` (allocator instance `i`) *)
Record thread_spec := mkthread {
  t_max : N;                 (* BrotliEncoderMaxCompressedSize(range) - the output chunk *)
  t_params : list op;        (* state.params = ... *)
  t_dict : N;                (* range.start *)
  t_rings : list N;
  t_calls : list op;
  t_ok : bool }.             (* compression_result is Ok *)

Definition compress_part (ver : version) (i : N) (oshapes : list (ety * N)) (t : thread_spec)
           (l : ledger) : list blk * ledger :=
  let (chunk, l1) := l_alloc i U8 (t_max t) l in
  let oinst := if v_clone_same_alloc ver then i else i + 1000 in
  let dict := if i =? 0 then [] else [OSetDict (t_dict t) oinst oshapes (t_rings t)] in
  let l2 := instance_life ver i (t_params t ++ dict ++ t_calls t) (v_part_destroys ver) l1 in
  if t_ok t then (chunk, l2)
  else ([], if v_part_error_frees_chunk ver then l_free i chunk l2 else l_drop chunk l2).

Fixpoint run_threads (ver : version) (oshapes : list (ety * N)) (i : N) (ts : list thread_spec)
         (l : ledger) : list (N * list blk) * ledger :=
  match ts with
  | [] => ([], l)
  | t :: r => let (c, l1) := compress_part ver i oshapes t l in
              let (cs, l2) := run_threads ver oshapes (i + 1) r l1 in
              ((i, c) :: cs, l2)
  end.

(* the stitching loop frees each chunk through the allocator that came back with it;
   `back i` is that allocator's instance (the code hands back state.m8, i.e. `i`) *)
Definition stitch (back : N -> N) (cs : list (N * list blk)) (l : ledger) : ledger :=
  fold_left (fun l c => l_free (back (fst c)) (snd c) l) cs l.

Definition multi_life (ver : version) (oshapes : list (ety * N)) (ts : list thread_spec)
           (l : ledger) : ledger :=
  let (cs, l1) := run_threads ver oshapes 0 ts l in
  stitch (fun i => if v_stitch_same_alloc ver then i else i + 1000) cs l1.

(* CompressMultiSlice copies the input through allocator 0 first and frees it there afterwards *)
Definition multi_slice_life (ver : version) (oshapes : list (ety * N)) (input_len : N)
           (ts : list thread_spec) : ledger :=
  let (inp, l0) := l_alloc 0 U8 input_len empty_ledger in
  let l1 := multi_life ver oshapes ts l0 in
  let failed := existsb (fun t => negb (t_ok t)) ts in
  if failed && negb (v_multi_restores_input ver) then
    l_drop inp l1     (* the early return left the input inside the spawner's lock, which is dropped;
                         CompressMultiSlice then panics on owned_input.unwrap() *)
  else if v_slice_frees_input ver then l_free 0 inp l1 else l_drop inp l1.

(* a worker that cannot be joined takes its result - chunk and allocator - with it.  The code
   used to return at once, leaving the later workers unjoined; now it keeps stitching and only
   the lost worker's own chunk is beyond reach *)
Definition multi_life_joinfail (ver : version) (oshapes : list (ety * N)) (ts : list thread_spec)
           (k : nat) : ledger :=
  let (cs, l1) := run_threads ver oshapes 0 ts empty_ledger in
  stitch (fun i => if v_stitch_same_alloc ver then i else i + 1000)
         (if v_join_failure_continues ver then remove_nth k cs else firstn k cs) l1.
Definition lost_chunk (ver : version) (oshapes : list (ety * N)) (ts : list thread_spec) (k : nat) : list blk :=
  match nth_error (fst (run_threads ver oshapes 0 ts empty_ledger)) k with
  | Some c => snd c
  | None => []
  end.

(* C ABI: the state block itself goes through the callbacks when they are given; one opaque =
   one instance.  `state_size` is size_of::<BrotliEncoderState>() *)
Definition ffi_life (ver : version) (custom : bool) (state_size : N) (h : list op) : ledger :=
  let (sb, l0) := if custom then l_alloc 0 EState state_size empty_ledger else ([], empty_ledger) in
  let l1 := instance_life ver 0 h (v_ffi_destroy_cleans ver) l0 in
  l_free 0 sb l1.

(* help_brotli_encoder_compress_single *)
Definition ffi_single_life (ver : version) (params : list op) (call : op) : ledger :=
  instance_life ver 0 (params ++ [call]) (v_single_cleans ver) empty_ledger.

End Temporaries.
