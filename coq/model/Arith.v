(* Model of src/enc/command.rs (length / distance prefix arithmetic), the block-length
   prefix code of src/enc/brotli_bit_stream.rs and StoreCommandExtra's value.
   Definitions only; proofs are in proofs/Arith_proofs.v.  Every constant comes from
   gen/GenArith.v, which is regenerated from /repo on every check. *)
From Coq Require Import NArith ZArith List.
From V Require Import lib.Words gen.GenArith.
Import ListNotations.
Open Scope N_scope.

(* ---- GetInsertLengthCode(insertlen: usize) -> u16 ---- *)
Definition get_insert_length_code (n : N) : N :=
  if n <? nthN ins_thresholds 0 then w16 n
  else if n <? nthN ins_thresholds 1 then
    let nbits := wsub32 (log2_floor_nonzero (wsub64 n (nthN ins_subs 0))) 1 in
    w16 (wadd64 (wadd64 (wshl32 nbits 1) (N.shiftr (wsub64 n (nthN ins_subs 1)) nbits)) (nthN ins_adds 0))
  else if n <? nthN ins_thresholds 2 then
    w16 (wadd32 (log2_floor_nonzero (wsub64 n (nthN ins_subs 2))) (nthN ins_adds 1))
  else if n <? nthN ins_thresholds 3 then nthN ins_tailcodes 0
  else if n <? nthN ins_thresholds 4 then nthN ins_tailcodes 1
  else nthN ins_tailcodes 2.

(* ---- GetCopyLengthCode(copylen: usize) -> u16 ---- *)
Definition get_copy_length_code (n : N) : N :=
  if n <? nthN copy_thresholds 0 then w16 (wsub64 n (nthN copy_subs 0))
  else if n <? nthN copy_thresholds 1 then
    let nbits := wsub32 (log2_floor_nonzero (wsub64 n (nthN copy_subs 1))) 1 in
    w16 (wadd64 (wadd64 (wshl32 nbits 1) (N.shiftr (wsub64 n (nthN copy_subs 2)) nbits)) (nthN copy_adds 0))
  else if n <? nthN copy_thresholds 2 then
    w16 (wadd32 (log2_floor_nonzero (wsub64 n (nthN copy_subs 3))) (nthN copy_adds 1))
  else nthN copy_tailcodes 0.

(* ---- combine_length_codes(inscode: u16, copycode: u16, use_last_distance) -> u16 ---- *)
Definition combine_length_codes (inscode copycode : N) (use_last : bool) : N :=
  let bits64 := w16 (N.lor (N.land copycode 7) (N.shiftl (N.land inscode 7) 3)) in
  if (use_last && (inscode <? 8) && (copycode <? 16))%bool then
    if copycode <? 8 then bits64 else N.lor bits64 64
  else
    let sub_offset := 2 * (N.shiftr copycode 3 + 3 * N.shiftr inscode 3) in
    let offset := N.shiftl sub_offset 5 + 64 + N.land (N.shiftr combine_magic sub_offset) 192 in
    N.lor (w16 offset) bits64.

Definition get_length_code (ins copy : N) (use_last : bool) : N :=
  combine_length_codes (get_insert_length_code ins) (get_copy_length_code copy) use_last.

(* ---- BlockLengthPrefixCode(len: u32) -> u32, with the while loop on explicit fuel ---- *)
Fixpoint blen_loop (fuel : nat) (len code : N) : N :=
  match fuel with
  | O => code
  | S f =>
    if (code <? 26 - 1) && (nthN kBlockLengthPrefixCode_offset (code + 1) <=? len)
    then blen_loop f len (code + 1) else code
  end%bool.

Definition block_length_prefix_code (len : N) : N :=
  let start :=
    if nthN blen_thresholds 0 <=? len then
      (if nthN blen_thresholds 1 <=? len then nthN blen_starts 0 else nthN blen_starts 1)
    else if nthN blen_thresholds 2 <=? len then nthN blen_starts 2 else nthN blen_starts 3 in
  blen_loop 26 len start.

(* GetBlockLengthPrefixCode: (code, n_extra, extra) *)
Definition get_block_length_prefix_code (len : N) : N * N * N :=
  let c := block_length_prefix_code len in
  (c, nthN kBlockLengthPrefixCode_nbits c, wsub32 len (nthN kBlockLengthPrefixCode_offset c)).

(* ---- PrefixEncodeCopyDistance(distance_code, num_direct_codes, postfix_bits) -> (code: u16, extra: u32) ---- *)
Definition prefix_encode_copy_distance (dc nd np : N) : N * N :=
  let short := BROTLI_NUM_DISTANCE_SHORT_CODES in
  if dc <? wadd64 short nd then (w16 dc, 0)
  else
    let dist := wadd64 (wshl64 1 (wadd64 np 2)) (wsub64 (wsub64 dc short) nd) in
    let bucket := wsub32 (log2_floor_nonzero dist) 1 in
    let postfix_mask := wsub32 (wshl32 1 np) 1 in
    let postfix := N.land dist postfix_mask in
    let prefix := N.land (N.shiftr dist bucket) 1 in
    let offset := wshl64 (wadd64 2 prefix) bucket in
    let nbits := wsub64 bucket np in
    let code := w16 (N.lor (wshl64 nbits 10)
                  (wadd64 (wadd64 (wadd64 short nd)
                                  (wshl64 (wadd64 (wmul64 2 (wsub64 nbits 1)) prefix) np))
                          postfix)) in
    let extra := w32 (N.shiftr (wsub64 dist offset) np) in
    (code, extra).

(* ---- Command::restore_distance_code (all u32) ---- *)
Definition restore_distance_code (dist_prefix dist_extra nd np : N) : N :=
  let short := BROTLI_NUM_DISTANCE_SHORT_CODES in
  let dcode := N.land dist_prefix 1023 in
  if dcode <? short + nd then dcode
  else
    let nbits := N.shiftr dist_prefix 10 in
    let postfix_mask := (N.shiftl 1 np) - 1 in
    let t := wsub32 (wsub32 dcode nd) short in
    let hcode := N.shiftr t np in
    let lcode := N.land t postfix_mask in
    let offset := wsub32 (wshl32 (wadd32 2 (N.land hcode 1)) nbits) 4 in
    wadd32 (wadd32 (wadd32 (wshl32 (wadd32 offset dist_extra) np) lcode) nd) short.

(* ---- Command::distance_index_and_offset: (index, offset) ---- *)
Definition distance_index_and_offset (dist_prefix dist_extra nd np : N) : N * Z :=
  let short := BROTLI_NUM_DISTANCE_SHORT_CODES in
  let dprefix := N.land dist_prefix 1023 in
  let nbits := N.shiftr dist_prefix 10 in
  if dprefix <? short then nth (N.to_nat dprefix) short_dist_table (0, 0%Z)
  else if dprefix <? short + nd then (0, (Z.of_N dprefix + 1 - Z.of_N short)%Z)
  else
    let postfix_mask := N.shiftl 1 np - 1 in
    let dcode := dprefix - short - nd in
    let hcode := N.shiftr dcode np in
    let lcode := N.land dcode postfix_mask in
    let offset := N.shiftl (2 + N.land hcode 1) nbits - 4 in
    (0, Z.of_N (N.shiftl (offset + dist_extra) np + lcode + nd + 1)).

(* ---- Command::init: (insert_len_, copy_len_, dist_extra_, cmd_prefix_, dist_prefix_) ---- *)
Record command := { insert_len_ : N; copy_len_ : N; dist_extra_ : N; cmd_prefix_ : N; dist_prefix_ : N }.

Definition command_new (nd np insertlen copylen copylen_code dc : N) : command :=
  let delta8 := w8 (copylen_code + 2^32 - w32 copylen) in   (* (code as i32 - len as i32) as i8 as u8 *)
  let pe := prefix_encode_copy_distance dc nd np in
  {| insert_len_ := w32 insertlen;
     copy_len_ := N.lor (w32 copylen) (wshl32 delta8 25);
     dist_extra_ := snd pe;
     cmd_prefix_ := get_length_code insertlen copylen_code (N.land (fst pe) 1023 =? 0);
     dist_prefix_ := fst pe |}.

(* Command::copy_len / copy_len_code *)
Definition cmd_copy_len (c : command) : N := N.land (copy_len_ c) 33554431.
Definition cmd_copy_len_code (c : command) : N :=
  let modifier := N.shiftr (copy_len_ c) 25 in
  let d8 := w8 (N.lor modifier (N.shiftl (N.land modifier 64) 1)) in
  (* as i8 as i32, added to an i32, result as u32 *)
  w32 (cmd_copy_len c + (if d8 <? 128 then d8 else 2^32 - 256 + d8)).

(* ---- metablock.rs RecomputeDistancePrefixes, per command: when the meta-block's distance parameters change
   (quality 10/11: BrotliBuildMetaBlock tries npostfix/ndirect per block), every command with an explicit
   distance is re-encoded from the distance code its fields denote under the OLD parameters ---- *)
Definition recompute_distance_prefix (nd0 np0 nd1 np1 : N) (c : command) : command :=
  if andb (np0 =? np1) (nd0 =? nd1) then c
  else if andb (negb (cmd_copy_len c =? 0)) (128 <=? cmd_prefix_ c) then
    let dc := restore_distance_code (dist_prefix_ c) (dist_extra_ c) nd0 np0 in
    let pe := prefix_encode_copy_distance dc nd1 np1 in
    {| insert_len_ := insert_len_ c; copy_len_ := copy_len_ c; dist_extra_ := snd pe;
       cmd_prefix_ := cmd_prefix_ c; dist_prefix_ := fst pe |}
  else c.

(* ---- StoreCommandExtra: (nbits, value) handed to BrotliWriteBits ---- *)
Definition store_command_extra (c : command) : N * N :=
  let copylen_code := cmd_copy_len_code c in
  let inscode := get_insert_length_code (insert_len_ c) in
  let copycode := get_copy_length_code copylen_code in
  let insnumextra := nthN kInsExtra inscode in
  let insextraval := wsub32 (insert_len_ c) (nthN kInsBase inscode) in
  let copyextraval := wsub32 copylen_code (nthN kCopyBase copycode) in
  (w8 (wadd32 insnumextra (nthN kCopyExtra copycode)),
   N.lor (wshl64 copyextraval insnumextra) insextraval).
