(* Model of the size bound and everything encode.rs promises to keep below it (C08):
   BrotliEncoderMaxCompressedSize / ...Multi, MakeUncompressedStream, the decision logic of
   encoder_compress over an abstract result of its inner stream call, and the size accounting
   of a never-flushed stream at quality >= 2 (positions in bits; the compression work itself is
   abstract: a compressed meta-block is any number of bits that passes the expansion guard of
   WriteMetaBlockInternal).  Definitions only; proofs in proofs/Bound_proofs.v.
   usize is 64 bits wide.  Constants come from gen/GenBound.v (regenerated from /repo). *)
From Coq Require Import NArith ZArith List Bool.
From V Require Import lib.Words gen.GenBound.
Import ListNotations.
Open Scope N_scope.

Inductive res (A : Type) : Type := Ok (a : A) | Panic.
Arguments Ok {A} a.
Arguments Panic {A}.

(* ---- BrotliEncoderMaxCompressedSize(input_size : usize) -> usize ---- *)
Definition mcs_tail (n : N) : N :=
  wsub64 n (wshl64 (N.shiftr n bound_block_shift) bound_tail_shift).

Definition max_compressed_size_gen (magic_size n : N) : res N :=
  let num_large_blocks := N.shiftr n bound_block_shift in
  let tail := mcs_tail n in
  let tail_overhead := if 2 ^ bound_tail_log <? tail then nthN bound_tail_overheads 0 else nthN bound_tail_overheads 1 in
  let overhead := wadd64 (wadd64 (wadd64 (nthN bound_overhead_consts 0) (wmul64 (nthN bound_overhead_consts 1) num_large_blocks))
                                 tail_overhead) (nthN bound_overhead_consts 2) in
  let result := wadd64 n overhead in
  if n =? 0 then Ok (bound_empty_base + magic_size)
  else if result <? n then Ok 0
  else if 2 ^ 64 <=? result + magic_size then Panic      (* `result + magic_size` is a checked addition *)
  else Ok (result + magic_size).

Definition max_compressed_size (n : N) : res N := max_compressed_size_gen bound_magic_size n.

(* BrotliEncoderMaxCompressedSizeMulti: checked `+` and `*` *)
Definition max_compressed_size_multi (n t : N) : res N :=
  match max_compressed_size n with
  | Panic => Panic
  | Ok v => if (2 ^ 64 <=? t * bound_per_thread) || (2 ^ 64 <=? v + t * bound_per_thread) then Panic
            else Ok (v + t * bound_per_thread)
  end.

(* ---- MakeUncompressedStream(input, input_size, output) ----
   The output is described as segments: literal bytes and copies of input[off .. off+len). *)
Inductive seg : Type := Lit (bs : list N) | Copy (off len : N).

Definition stored_nibbles (chunk_size : N) : N :=
  if 2 ^ nthN mus_nibble_logs 0 <? chunk_size then
    (if 2 ^ nthN mus_nibble_logs 1 <? chunk_size then nthN mus_nibble_values 1 else nthN mus_nibble_values 0)
  else 0.

(* the u32 `bits` word and the 3 or 4 bytes written from it *)
Definition stored_header_word (chunk_size : N) : N :=
  let nibbles := stored_nibbles chunk_size in
  let c := nthN mus_bits_consts in
  N.lor (N.lor (wshl32 nibbles (c 0)) (wshl32 (wsub32 chunk_size (c 1)) (c 2)))
        (wshl32 1 (wadd32 (c 3) (w32 (c 4 * nibbles)))).

Definition stored_chunk_header (chunk_size : N) : list N :=
  let bits := stored_header_word chunk_size in
  [w8 bits; w8 (N.shiftr bits 8); w8 (N.shiftr bits 16)]
  ++ (if stored_nibbles chunk_size =? 2 then [w8 (N.shiftr bits 24)] else []).

Fixpoint mus_loop (fuel : nat) (offset size : N) : list seg :=
  match fuel with
  | O => []
  | S f =>
    if size =? 0 then [] else
    let chunk_size := if 2 ^ mus_chunk_log <? size then 2 ^ mus_chunk_log else size in
    Lit (stored_chunk_header chunk_size) :: Copy offset chunk_size :: mus_loop f (offset + chunk_size) (size - chunk_size)
  end.

Definition mus_fuel (n : N) : nat := N.to_nat (n / 2 ^ mus_chunk_log + 2).

Definition make_uncompressed_segments (n : N) : list seg :=
  if n =? 0 then [Lit mus_empty_stream]
  else Lit mus_prologue :: mus_loop (mus_fuel n) 0 n ++ [Lit mus_epilogue].

Definition seg_bytes (s : seg) : N := match s with Lit bs => N.of_nat (length bs) | Copy _ len => len end.
Definition segs_bytes (l : list seg) : N := fold_right (fun s a => seg_bytes s + a) 0 l.

Definition expand_seg (input : list N) (s : seg) : list N :=
  match s with
  | Lit bs => bs
  | Copy off len => firstn (N.to_nat len) (skipn (N.to_nat off) input)
  end.
Definition expand (input : list N) (l : list seg) : list N := flat_map (expand_seg input) l.

Definition make_uncompressed_stream (input : list N) : list N :=
  expand input (make_uncompressed_segments (N.of_nat (length input))).

(* ---- encoder_compress: what it returns, as a function of the inner stream call's outcome ----
   inner = (result of compress_stream, is_finished, total_out); out_size = *encoded_size on entry. *)
Record inner_result := mkInner { in_result : bool; in_finished : bool; in_total : N }.

Inductive oneshot_output := FromStream | StoredStream | EmptyStream | NoOutput.

(* (return value, *encoded_size on return, where the bytes come from) *)
Definition encoder_compress (n out_size : N) (inner : inner_result) : res (bool * N * oneshot_output) :=
  match max_compressed_size n with
  | Panic => Panic
  | Ok max_out_size =>
    if out_size =? 0 then Ok (false, out_size, NoOutput)
    else if n =? 0 then Ok (true, 1, EmptyStream)
    else
      let result := in_result inner && in_finished inner in
      if negb result || (negb (max_out_size =? 0) && (max_out_size <? in_total inner)) then
        (* fallback *)
        if max_out_size =? 0 then Ok (false, 0, NoOutput)
        else if max_out_size <=? out_size then Ok (true, segs_bytes (make_uncompressed_segments n), StoredStream)
        else Ok (false, 0, NoOutput)
      else Ok (true, in_total inner, FromStream)
  end.

(* ---- size accounting of a never-flushed stream, quality >= 2 ----
   Positions are bit positions in the output.  A configuration fixes the header; a schedule is
   the list of meta-blocks the encoder emitted, each either stored or compressed into `w` bits. *)
Record scfg := mkScfg {
  s_wbits : N;          (* bits of WBITS: 1, 4, 7 or 14 *)
  s_magic : bool;
  s_hintlen : N;        (* bytes of the base-128 size hint, 1..10 *)
  s_catable : bool;
  s_appendable : bool   (* after SanitizeParams: catable implies appendable *)
}.

Definition round8 (p : N) : N := 8 * ((p + 7) / 8).

(* MNIBBLES chosen by BrotliEncodeMlen for a meta-block of `len` bytes (1 .. 2^24) *)
Definition mlen_nibbles (len : N) : N :=
  let lg := if len =? 1 then 1 else N.log2 (len - 1) + 1 in
  (if lg <? nthN mlen_consts 0 then nthN mlen_consts 1 else lg + nthN mlen_consts 2) / nthN mlen_consts 3.

(* store_uncompressed_meta_block header: ISLAST, MNIBBLES, MLEN-1, ISUNCOMPRESSED *)
Definition stored_header_bits (len : N) : N := 1 + 2 + 4 * mlen_nibbles len + 1.

(* position after a stored meta-block of `len` bytes starting at bit position p *)
Definition after_stored (p len : N) : N := round8 (p + stored_header_bits len) + 8 * len.
(* BrotliWriteEmptyLastMetaBlock / the `bytes == 0` exit of WriteMetaBlockInternal *)
Definition after_empty_last (p : N) : N := round8 (p + 2).

(* bits before the first regular meta-block, and the input bytes already consumed by them *)
Definition catable_bytes (c : scfg) (n : N) : N := if s_catable c then N.min 2 n else 0.
Definition header_end (c : scfg) (n : N) : N :=
  let p0 := s_wbits c in
  let p1 := if s_magic c then round8 (p0 + 14) + 8 * (4 + s_hintlen c) else p0 in
  if s_catable c && (0 <? n) then after_stored p1 (catable_bytes c n) else p1.

Inductive mblock := Stored (len : N) | Compressed (len w : N).
Definition mb_len (b : mblock) : N := match b with Stored l => l | Compressed l _ => l end.

(* one meta-block at position p; `last` = it is the final one (is_last was passed).
   None: the schedule is not one the encoder produces (the guard would have replaced the
   compressed form by the stored one). *)
Definition after_block (c : scfg) (p : N) (b : mblock) (last : bool) : option N :=
  let actual_last := last in
  let is_last := if s_appendable c then false else last in
  match b with
  | Stored len =>
    let p1 := after_stored p len in
    let p2 := if is_last then after_empty_last p1 else p1 in
    Some (if actual_last && negb is_last then after_empty_last p2 else p2)
  | Compressed len w =>
    let p1 := if is_last then round8 (p + w) else p + w in
    (* guard: bytes + 4 + saved_byte_location < storage_ix >> 3 takes the stored form instead *)
    if len + guard_slack + p / 8 <? p1 / 8 then None
    else Some (if actual_last && negb is_last then after_empty_last p1 else p1)
  end.

(* `final_empty`: every meta-block of the list was emitted before the FINISH call reached the
   encoder (is_last = false for all of them) and the final call, with nothing left to flush,
   wrote only the empty last meta-block.  Otherwise the last block of the list was emitted
   by the final call (is_last = true). *)
Fixpoint after_blocks (c : scfg) (p : N) (bs : list mblock) (final_empty : bool) : option N :=
  match bs with
  | [] => Some (if final_empty then after_empty_last p else p)
  | b :: t =>
    let last := match t with [] => negb final_empty | _ :: _ => false end in
    match after_block c p b last with
    | Some p' => after_blocks c p' t final_empty
    | None => None
    end
  end.

(* total size in bytes of the stream (None: not a schedule of the encoder) *)
Definition stream_bytes (c : scfg) (n : N) (bs : list mblock) (final_empty : bool) : option N :=
  match bs, final_empty with
  | [], false => None
  | _, _ => match after_blocks c (header_end c n) bs final_empty with
            | Some p => Some ((p + 7) / 8)
            | None => None
            end
  end.

(* what the block logic guarantees when no FLUSH is issued: the meta-blocks cover the input
   after the catable bytes, none is empty, none exceeds 2^24, and every one that was not emitted
   by the final call covers at least one input block of 2^lgblock >= 2^14 bytes (the first one
   counts the catable bytes) *)
Fixpoint nonfinal_ok (first_extra : N) (bs : list mblock) (final_empty : bool) : bool :=
  match bs with
  | [] => true
  | b :: t =>
    (match t with [] => negb final_empty | _ :: _ => false end || (2 ^ 14 <=? mb_len b + first_extra))
    && nonfinal_ok 0 t final_empty
  end.
Definition schedule_ok (c : scfg) (n : N) (bs : list mblock) (final_empty : bool) : bool :=
  (fold_right (fun b a => mb_len b + a) 0 bs + catable_bytes c n =? n)
  && forallb (fun b => (0 <? mb_len b) && (mb_len b <=? 2 ^ 24)) bs
  && nonfinal_ok (catable_bytes c n) bs final_empty.

Definition scfg_ok (c : scfg) : bool :=
  ((s_wbits c =? 1) || (s_wbits c =? 4) || (s_wbits c =? 7) || (s_wbits c =? 14))
  && (1 <=? s_hintlen c) && (s_hintlen c <=? 10)
  && (if s_catable c then s_appendable c else true).

(* ---- known finding outside this model (property C01): the inner stream call panics in
   hq.rs (histogram_dist[140]) at quality 11 with BROTLI_MODE_FONT and a large window, so
   one-shot compression fails there whatever the buffer; encoder_compress above describes
   the decision logic for inner calls that return. ---- *)
Definition KnownClass_inner_panics (quality mode lgwin : Z) : bool :=
  ((quality =? 11) && (mode =? 2) && (24 <? lgwin))%Z.
