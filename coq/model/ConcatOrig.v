(* HISTORICAL model: src/concat/mod.rs as it was before the repairs
   bc0b749, 1b792a2, 3985c2c, 43a0d2f, a559e26 (see known_findings.json).  It is a verbatim
   copy of the faithful model that was compared call by call with that code (0 disagreements
   on the runs of the exploration phase, panics included); it is kept only so that the
   defects stay documented as machine-checked `_refuted` witnesses (proofs/Concat_findings.v),
   each of which was replayed on the real pre-fix code.  Nothing else depends on it.
   Use with `Require` (not `Import`): every name here shadows one of model/Concat.v. *)
From Coq Require Import NArith List Bool.
From V Require Import lib.Words.
Import ListNotations.
Open Scope N_scope.

(* ------------------------------------------------------------------ outcomes *)
Inductive res (A : Type) : Type := Val (a : A) | Panic.
Arguments Val {A} a.
Arguments Panic {A}.

Inductive rcode : Type :=
  | Success | NeedsMoreInput | NeedsMoreOutput
  | BrotliFileNotCraftedForAppend | InvalidWindowSize
  | WindowSizeLargerThanPreviousFile | BrotliFileNotCraftedForConcatenation.

Definition rcode_num (r : rcode) : N :=
  match r with
  | Success => 0 | NeedsMoreInput => 1 | NeedsMoreOutput => 2
  | BrotliFileNotCraftedForAppend => 124 | InvalidWindowSize => 125
  | WindowSizeLargerThanPreviousFile => 126 | BrotliFileNotCraftedForConcatenation => 127
  end.

Definition rcode_eqb (a b : rcode) : bool := rcode_num a =? rcode_num b.

(* ------------------------------------------------------------------ checked arithmetic *)
Definition sub_u (a b : N) : res N := if a <? b then Panic else Val (a - b).
Definition add_u8 (a b : N) : res N := if a + b <? 256 then Val (a + b) else Panic.
Definition mul_u8 (a b : N) : res N := if a * b <? 256 then Val (a * b) else Panic.

(* ------------------------------------------------------------------ slices *)
Fixpoint lenN (l : list N) : N := match l with [] => 0 | _ :: t => N.succ (lenN t) end.
Definition takeN (n : N) (l : list N) : list N := firstn (N.to_nat n) l.
Definition dropN (n : N) (l : list N) : list N := skipn (N.to_nat n) l.
(* l[i] *)
Definition getN (l : list N) (i : N) : res N :=
  match nth_error l (N.to_nat i) with Some v => Val v | None => Panic end.
(* l[i] = v *)
Definition updN (l : list N) (i v : N) : res (list N) :=
  if i <? lenN l then Val (takeN i l ++ v :: dropN (i + 1) l) else Panic.
(* &l[..n] *)
Definition slice_to (l : list N) (n : N) : res (list N) :=
  if n <=? lenN l then Val (takeN n l) else Panic.
(* dst.split_at_mut(off).1.split_at_mut(|src|).0.clone_from_slice(src) *)
Definition blitN (dst : list N) (off : N) (src : list N) : res (list N) :=
  if off + lenN src <=? lenN dst
  then Val (takeN off dst ++ src ++ dropN (off + lenN src) dst) else Panic.
(* src.split_at(off).1.split_at(n).0 *)
Definition subN (src : list N) (off n : N) : res (list N) :=
  if off + n <=? lenN src then Val (takeN n (dropN off src)) else Panic.

(* ------------------------------------------------------------------ state *)
Definition NUM_STREAM_HEADER_BYTES : N := 5.

Record NewStreamData : Type := mkNSD {
  bytes_so_far : list N;            (* [u8; 5] *)
  num_bytes_read : N;               (* u8 *)
  num_bytes_written : option N      (* Option<u8> *)
}.

Record BroCatli : Type := mkBC {
  lb0 : N; lb1 : N;                 (* last_bytes: [u8; 2] *)
  last_bytes_len : N;               (* u8 *)
  last_byte_sanitized : bool;
  any_bytes_emitted : bool;
  last_byte_bit_offset : N;         (* u8 *)
  window_size : N;                  (* u8 *)
  new_stream_pending : option NewStreamData
}.

Definition nsd_new : NewStreamData := mkNSD [0;0;0;0;0] 0 None.

(* BroCatli::new() = Default *)
Definition bc_new : BroCatli := mkBC 0 0 0 false false 0 0 None.

Definition set_lbs (s : BroCatli) (a b : N) : BroCatli :=
  mkBC a b (last_bytes_len s) (last_byte_sanitized s) (any_bytes_emitted s)
       (last_byte_bit_offset s) (window_size s) (new_stream_pending s).
Definition set_len (s : BroCatli) (v : N) : BroCatli :=
  mkBC (lb0 s) (lb1 s) v (last_byte_sanitized s) (any_bytes_emitted s)
       (last_byte_bit_offset s) (window_size s) (new_stream_pending s).
Definition set_sanitized (s : BroCatli) (v : bool) : BroCatli :=
  mkBC (lb0 s) (lb1 s) (last_bytes_len s) v (any_bytes_emitted s)
       (last_byte_bit_offset s) (window_size s) (new_stream_pending s).
Definition set_any (s : BroCatli) (v : bool) : BroCatli :=
  mkBC (lb0 s) (lb1 s) (last_bytes_len s) (last_byte_sanitized s) v
       (last_byte_bit_offset s) (window_size s) (new_stream_pending s).
Definition set_bit_offset (s : BroCatli) (v : N) : BroCatli :=
  mkBC (lb0 s) (lb1 s) (last_bytes_len s) (last_byte_sanitized s) (any_bytes_emitted s)
       v (window_size s) (new_stream_pending s).
Definition set_window (s : BroCatli) (v : N) : BroCatli :=
  mkBC (lb0 s) (lb1 s) (last_bytes_len s) (last_byte_sanitized s) (any_bytes_emitted s)
       (last_byte_bit_offset s) v (new_stream_pending s).
Definition set_pending (s : BroCatli) (v : option NewStreamData) : BroCatli :=
  mkBC (lb0 s) (lb1 s) (last_bytes_len s) (last_byte_sanitized s) (any_bytes_emitted s)
       (last_byte_bit_offset s) (window_size s) v.
(* self.last_bytes[i] = v *)
Definition set_lb_at (s : BroCatli) (i v : N) : res BroCatli :=
  if i =? 0 then Val (set_lbs s v (lb1 s))
  else if i =? 1 then Val (set_lbs s (lb0 s) v) else Panic.

(* NewStreamData::sufficient *)
Definition sufficient (p : NewStreamData) : bool :=
  ((num_bytes_read p =? 4) && negb (N.land 127 (nth 0 (bytes_so_far p) 0) =? 17))
  || (num_bytes_read p =? 5).

(* ------------------------------------------------------------------ header parsing *)
(* parse_window_size(bytes_so_far: &[u8]) -> Result<(u8, usize), ()> ;  Val None = Err(()) *)
Definition wbits4 (x : N) : option N :=     (* the `match bytes_so_far[0] & 15` arms *)
  if x =? 3 then Some 18 else if x =? 5 then Some 19 else if x =? 7 then Some 20
  else if x =? 9 then Some 21 else if x =? 11 then Some 22 else if x =? 13 then Some 23
  else if x =? 15 then Some 24 else None.
Definition wbits7 (x : N) : option N :=     (* the `match bytes_so_far[0] & 127` arms *)
  if x =? 113 then Some 15 else if x =? 97 then Some 14 else if x =? 81 then Some 13
  else if x =? 65 then Some 12 else if x =? 49 then Some 11 else if x =? 33 then Some 10
  else if x =? 1 then Some 17 else None.

Definition parse_window_size (b : list N) : res (option (N * N)) :=
  match getN b 0 with
  | Panic => Panic
  | Val b0 =>
    if N.land b0 1 =? 0 then Val (Some (16, 1)) else
    match wbits4 (N.land b0 15) with
    | Some w => Val (Some (w, 4))
    | None =>
      match wbits7 (N.land b0 127) with
      | Some w => Val (Some (w, 7))
      | None =>
        if negb (N.land b0 128 =? 0) then Val None else
        match getN b 1 with
        | Panic => Panic
        | Val b1 =>
          let ret := N.land b1 63 in
          if (10 <=? ret) && (ret <=? 30) then Val (Some (ret, 14)) else Val None
        end
      end
    end
  end.

(* bytes |= u64::from(item) << (index * 8) over a slice, index from idx *)
Fixpoint le_u64 (l : list N) (idx acc : N) : res N :=
  match l with
  | [] => Val acc
  | x :: t => if 64 <=? idx * 8 then Panic
              else le_u64 t (idx + 1) (N.lor acc (w64 (N.shiftl x (idx * 8))))
  end.

(* detect_varlen_offset(bytes_so_far: &[u8]) -> Result<usize, ()> *)
Definition detect_varlen_offset (b : list N) : res (option N) :=
  match parse_window_size b with
  | Panic => Panic
  | Val None => Val None
  | Val (Some (_, off0)) =>
    match le_u64 b 0 0 with
    | Panic => Panic
    | Val raw =>
      let bytes := N.shiftr raw off0 in
      let offset := off0 + 1 in
      if N.odd bytes && N.odd (N.shiftr bytes 1) then Val (Some (offset + 1))   (* ISLAST, ISLASTEMPTY *)
      else
        let bytes1 := if N.odd bytes then N.shiftr bytes 1 else bytes in
        let offset1 := if N.odd bytes then offset + 1 else offset in
        let bytes2 := N.shiftr bytes1 1 in
        let mnibbles := N.land bytes2 3 in
        let bytes3 := N.shiftr bytes2 2 in
        let offset3 := offset1 + 2 in
        if mnibbles =? 3 then
          if N.odd bytes3 then Val None            (* reserved bit *)
          else
            let bytes4 := N.shiftr bytes3 1 in
            let mskipbytes := N.land bytes4 3 in
            Val (Some (offset3 + 1 + 2 + mskipbytes * 8))
        else
          let mn := mnibbles + 4 in
          let offset4 := offset3 + mn * 4 in
          let bytes4 := N.shiftr bytes3 (mn * 4) in
          if N.odd bytes4 then Val (Some (offset4 + 1)) else Val None
    end
  end.

(* ------------------------------------------------------------------ new_with_window_size *)
Definition new_with_window_size (w : N) : res BroCatli :=
  let mk a b l := Val (mkBC a b l false false 0 w None) in
  if 24 <? w then mk 17 (N.lor (N.lor w 64) 128) 2
  else if w =? 16 then mk 7 0 1
  else if 17 <? w then mk (N.lor (3 + (w - 18) * 2) 48) 0 1
  else if w =? 15 then mk 241 1 2
  else if w =? 14 then mk 225 1 2
  else if w =? 13 then mk 209 1 2
  else if w =? 12 then mk 193 1 2
  else if w =? 11 then mk 177 1 2
  else if w =? 10 then mk 161 1 2
  else if w =? 17 then mk 129 1 2
  else Panic.                                   (* assert_eq!(log_window_size, 17) *)

(* new_brotli_file *)
Definition new_brotli_file (s : BroCatli) : BroCatli := set_pending s (Some nsd_new).

(* ------------------------------------------------------------------ flush_previous_stream *)
(* for i in 0..max { index = max - 1 - i; if ((1 << index) & last_bytes) != 0 { break } } *)
Fixpoint find_high (n : nat) (lbs max i index : N) : res N :=
  match n with
  | O => Val index
  | S n' =>
    let index' := max - 1 - i in
    if 16 <=? index' then Panic                 (* 1u16 << index *)
    else if N.testbit lbs index' then Val index'
    else find_high n' lbs max (i + 1) index'
  end.

Record fret : Type := mkF { f_s : BroCatli; f_out : list N; f_off : N; f_rc : rcode }.

Definition flush_previous_stream (s : BroCatli) (out : list N) (off : N) : res fret :=
  if last_byte_sanitized s then Val (mkF s out off Success) else
  if last_bytes_len s =? 0 then Val (mkF (set_sanitized s true) out off Success) else
  let lbs := lb0 s + N.shiftl (lb1 s) 8 in
  match mul_u8 (last_bytes_len s) 8 with
  | Panic => Panic
  | Val max =>
    match find_high (N.to_nat max) lbs max 0 (max - 1) with
    | Panic => Panic
    | Val index =>
      if index =? 0 then Val (mkF s out off BrotliFileNotCraftedForAppend) else
      if negb (N.shiftr lbs (index - 1) =? 3) then Val (mkF s out off BrotliFileNotCraftedForAppend) else
      let index := index - 1 in
      let lbs := N.land lbs (2 ^ index - 1) in
      let s1 := set_lbs s (w8 lbs) (w8 (N.shiftr lbs 8)) in
      if 8 <=? index then
        if off <? lenN out then
          match updN out off (lb0 s1) with
          | Panic => Panic
          | Val out' =>
            match sub_u (last_bytes_len s1) 1 with
            | Panic => Panic
            | Val len' =>
              let index := index - 8 in
              let s2 := set_len (set_any (set_lbs s1 (lb1 s1) (lb1 s1)) true) len' in
              if index <? 8 then Val (mkF (set_sanitized (set_bit_offset s2 index) true) out' (off + 1) Success)
              else Panic                        (* assert!(index < 8) *)
            end
          end
        else Val (mkF s1 out off NeedsMoreOutput)
      else Val (mkF (set_sanitized (set_bit_offset s1 index) true) out off Success)
    end
  end.

(* ------------------------------------------------------------------ shift_and_check_new_stream_header *)
(* for byte_index in 0..var_len_bytes { ... } over realigned_header *)
Fixpoint realign (n : nat) (byte_index bsf64 lbbo : N) (rh : list N) : res (list N) :=
  match n with
  | O => Val rh
  | S n' =>
    let cur := N.shiftr bsf64 (byte_index * 8) in      (* byte_index <= 5, no shift overflow *)
    match sub_u 8 lbbo with
    | Panic => Panic
    | Val k =>
      let lo := w8 (w64 (N.shiftl (N.land cur (2 ^ k - 1)) lbbo)) in
      match getN rh byte_index with
      | Panic => Panic
      | Val old =>
        match updN rh byte_index (N.lor old lo) with
        | Panic => Panic
        | Val rh1 =>
          match updN rh1 (byte_index + 1) (w8 (N.shiftr cur k)) with
          | Panic => Panic
          | Val rh2 => realign n' (byte_index + 1) bsf64 lbbo rh2
          end
        end
      end
    end
  end.

(* for aligned_index in 0..num_whole_bytes_to_copy { rh[wbd + i] = bsf[wbs + i] } *)
Fixpoint copy_whole (n : nat) (i wbd wbs : N) (bsf rh : list N) : res (list N) :=
  match n with
  | O => Val rh
  | S n' =>
    match getN bsf (wbs + i) with
    | Panic => Panic
    | Val v =>
      match updN rh (wbd + i) v with
      | Panic => Panic
      | Val rh' => copy_whole n' (i + 1) wbd wbs bsf rh'
      end
    end
  end.

(* first half: the `if new_stream_pending.num_bytes_written.is_none() {..} else {..}` block.
   inl = fall through to the copy-out part, inr = early return with that code (self unchanged) *)
Record prep : Type := mkP { p_s : BroCatli; p_nsp : NewStreamData; p_out : list N; p_off : N }.

Definition shift_prepare (s : BroCatli) (p : NewStreamData) (out : list N) (off : N) : res (prep + rcode) :=
  match num_bytes_written p with
  | Some _ => if window_size s =? 0 then Panic else Val (inl (mkP s p out off))   (* assert_ne!(window_size, 0) *)
  | None =>
    match slice_to (bytes_so_far p) (num_bytes_read p) with
    | Panic => Panic
    | Val sl =>
      match parse_window_size sl with
      | Panic => Panic
      | Val None => Val (inr InvalidWindowSize)
      | Val (Some (ws, window_offset)) =>
        if window_size s =? 0 then
          if negb (last_byte_bit_offset s =? 0) then Panic else     (* assert_eq!(last_byte_bit_offset, 0) *)
          match getN (bytes_so_far p) 0 with
          | Panic => Panic
          | Val b0 =>
            match updN out off b0 with
            | Panic => Panic
            | Val out' =>
              Val (inl (mkP (set_any (set_window s ws) true)
                            (mkNSD (bytes_so_far p) (num_bytes_read p) (Some 1)) out' (off + 1)))
            end
          end
        else if window_size s <? ws then Val (inr WindowSizeLargerThanPreviousFile)
        else
          match detect_varlen_offset sl with
          | Panic => Panic
          | Val None => Val (inr BrotliFileNotCraftedForConcatenation)
          | Val (Some varlen_offset) =>
            match le_u64 sl 0 0 with
            | Panic => Panic
            | Val raw =>
              match sub_u varlen_offset window_offset with
              | Panic => Panic
              | Val diff =>
                if 64 <=? diff then Panic else                        (* 1u64 << diff *)
                let bsf64 := N.land (N.shiftr raw window_offset) (2 ^ diff - 1) in
                let var_len_bytes := (diff + 7) / 8 in
                match realign (N.to_nat var_len_bytes) 0 bsf64 (last_byte_bit_offset s) [lb0 s; 0; 0; 0; 0; 0] with
                | Panic => Panic
                | Val rh =>
                  match sub_u (last_byte_bit_offset s + varlen_offset) window_offset with
                  | Panic => Panic
                  | Val d2 =>
                    let wbd := (d2 + 7) / 8 in
                    let wbs := (varlen_offset + 7) / 8 in
                    match sub_u (num_bytes_read p) wbs with
                    | Panic => Panic                                  (* attempt to subtract with overflow *)
                    | Val ncopy =>
                      match copy_whole (N.to_nat ncopy) 0 wbd wbs (bytes_so_far p) rh with
                      | Panic => Panic
                      | Val rh' =>
                        match getN rh' 0 with
                        | Panic => Panic
                        | Val r0 =>
                          match updN out off r0 with
                          | Panic => Panic
                          | Val out' =>
                            match sub_u (w8 (wbd + ncopy)) 1 with
                            | Panic => Panic
                            | Val nread =>
                              Val (inl (mkP (set_any s true) (mkNSD (dropN 1 rh') nread (Some 0)) out' (off + 1)))
                            end
                          end
                        end
                      end
                    end
                  end
                end
              end
            end
          end
      end
    end
  end.

(* second half: copy out of bytes_so_far[written..read] *)
Definition shift_emit (s : BroCatli) (p : NewStreamData) (out : list N) (off : N) : res fret :=
  match num_bytes_written p with
  | None => Panic                                                   (* unwrap *)
  | Some w =>
    match sub_u (lenN out) off with
    | Panic => Panic
    | Val free =>
      match sub_u (num_bytes_read p) w with
      | Panic => Panic
      | Val d =>
        let to_copy := N.min free d in
        if lenN (bytes_so_far p) <? w then Panic else               (* split_at(written) *)
        match subN (bytes_so_far p) w to_copy with
        | Panic => Panic
        | Val src =>
          match blitN out off src with
          | Panic => Panic
          | Val out' =>
            let off' := off + to_copy in
            let s1 := if to_copy =? 0 then s else set_any s true in
            match add_u8 w (w8 to_copy) with
            | Panic => Panic
            | Val w' =>
              if negb (w' =? num_bytes_read p) then
                Val (mkF (set_pending s1 (Some (mkNSD (bytes_so_far p) (num_bytes_read p) (Some w')))) out' off' NeedsMoreOutput)
              else
                match sub_u off' 1 with
                | Panic => Panic
                | Val off'' =>
                  match getN out' off'' with
                  | Panic => Panic
                  | Val b =>
                    Val (mkF (mkBC b 0 1 false (any_bytes_emitted s1) 0 (window_size s1) None) out' off'' Success)
                  end
                end
            end
          end
        end
      end
    end
  end.

Definition shift_and_check_new_stream_header (s : BroCatli) (p : NewStreamData) (out : list N) (off : N) : res fret :=
  match shift_prepare s p out off with
  | Panic => Panic
  | Val (inr rc) => Val (mkF s out off rc)
  | Val (inl q) => shift_emit (p_s q) (p_nsp q) (p_out q) (p_off q)
  end.

(* ------------------------------------------------------------------ stream *)
Record sret : Type := mkS { r_s : BroCatli; r_in : N; r_out : list N; r_off : N; r_rc : rcode }.

(* the part of `stream` after the `if let Some(..) = self.new_stream_pending {..}` block *)
Definition fill_one (s : BroCatli) (input : list N) (in_off : N) : res (BroCatli * N) :=
  match getN input in_off with
  | Panic => Panic
  | Val b =>
    match set_lb_at s (last_bytes_len s) b with
    | Panic => Panic
    | Val s1 =>
      match add_u8 (last_bytes_len s1) 1 with
      | Panic => Panic
      | Val l => Val (set_len s1 l, in_off + 1)
      end
    end
  end.

Definition stream_copy (s : BroCatli) (input : list N) (in_off : N) (out : list N) (off : N) : res sret :=
  if lenN out =? off then Val (mkS s in_off out off NeedsMoreOutput) else
  if lenN input =? in_off then Val (mkS s in_off out off NeedsMoreInput) else
  match sub_u (lenN out) off with
  | Panic => Panic
  | Val free =>
    match sub_u (lenN input) in_off with
    | Panic => Panic
    | Val avail =>
      let to_copy := N.min free avail in
      if to_copy =? 0 then Panic else                                (* assert_ne!(to_copy, 0) *)
      if to_copy =? 1 then
        match updN out off (lb0 s) with
        | Panic => Panic
        | Val out' =>
          match getN input in_off with
          | Panic => Panic
          | Val b =>
            let s' := set_lbs s (lb1 s) b in
            Val (mkS s' (in_off + 1) out' (off + 1)
                     (if off + 1 =? lenN out then NeedsMoreOutput else NeedsMoreInput))
          end
        end
      else
        match blitN out off [lb0 s; lb1 s] with
        | Panic => Panic
        | Val out1 =>
          match subN input in_off to_copy with
          | Panic => Panic
          | Val chunk =>
            match sub_u to_copy 2 with
            | Panic => Panic
            | Val n =>
              let body := takeN n chunk in
              let last_two := dropN n chunk in
              match last_two with
              | [a; b] =>
                match blitN out1 (off + 2) body with
                | Panic => Panic
                | Val out2 =>
                  let off' := off + 2 + n in
                  Val (mkS (set_lbs s a b) (in_off + 2 + n) out2 off'
                           (if off' =? lenN out then NeedsMoreOutput else NeedsMoreInput))
                end
              | _ => Panic                                            (* clone_from_slice length mismatch *)
              end
            end
          end
        end
    end
  end.

Definition stream_body (s : BroCatli) (input : list N) (in_off : N) (out : list N) (off : N) : res sret :=
  match new_stream_pending s with
  | Some _ => Panic                                                 (* assert!(self.new_stream_pending.is_none()) *)
  | None =>
    if negb (last_bytes_len s =? 2) then
      if lenN out =? off then Val (mkS s in_off out off NeedsMoreOutput) else
      if lenN input =? in_off then Val (mkS s in_off out off NeedsMoreInput) else
      match fill_one s input in_off with
      | Panic => Panic
      | Val (s1, in1) =>
        if negb (last_bytes_len s1 =? 2) then
          if lenN out =? off then Val (mkS s1 in1 out off NeedsMoreOutput) else
          if lenN input =? in1 then Val (mkS s1 in1 out off NeedsMoreInput) else
          match fill_one s1 input in1 with
          | Panic => Panic
          | Val (s2, in2) => stream_copy s2 input in2 out off
          end
        else stream_copy s1 input in1 out off
      end
    else stream_copy s input in_off out off
  end.

(* the look-ahead collection inside `stream` *)
Definition collect_header (s : BroCatli) (p : NewStreamData) (input : list N) (in_off : N)
  : res (BroCatli * NewStreamData * N) :=
  if num_bytes_read p <? lenN (bytes_so_far p) then
    match sub_u (lenN (bytes_so_far p)) (num_bytes_read p) with
    | Panic => Panic
    | Val room =>
      match sub_u (lenN input) in_off with
      | Panic => Panic
      | Val avail =>
        let to_copy := N.min room avail in
        match subN input in_off to_copy with
        | Panic => Panic
        | Val src =>
          match blitN (bytes_so_far p) (num_bytes_read p) src with
          | Panic => Panic
          | Val bsf' =>
            match add_u8 (num_bytes_read p) (w8 to_copy) with
            | Panic => Panic
            | Val nr =>
              let p' := mkNSD bsf' nr (num_bytes_written p) in
              Val (set_pending s (Some p'), p', in_off + to_copy)
            end
          end
        end
      end
    end
  else Val (s, p, in_off).

Definition stream (s : BroCatli) (input : list N) (in_off : N) (out : list N) (off : N) : res sret :=
  match new_stream_pending s with
  | None => stream_body s input in_off out off
  | Some p =>
    match flush_previous_stream s out off with
    | Panic => Panic
    | Val f =>
      match f_rc f with
      | Success =>
        match collect_header (f_s f) p input in_off with
        | Panic => Panic
        | Val (s1, p1, in1) =>
          if negb (sufficient p1) then Val (mkS s1 in1 (f_out f) (f_off f) NeedsMoreInput) else
          if lenN (f_out f) =? f_off f then Val (mkS s1 in1 (f_out f) (f_off f) NeedsMoreOutput) else
          match shift_and_check_new_stream_header s1 p1 (f_out f) (f_off f) with
          | Panic => Panic
          | Val g =>
            match f_rc g with
            | Success =>
              if f_off g =? lenN (f_out g) then Val (mkS (f_s g) in1 (f_out g) (f_off g) NeedsMoreOutput)
              else stream_body (f_s g) input in1 (f_out g) (f_off g)
            | rc => Val (mkS (f_s g) in1 (f_out g) (f_off g) rc)
            end
          end
        end
      | rc => Val (mkS (f_s f) in_off (f_out f) (f_off f) rc)
      end
    end
  end.

(* ------------------------------------------------------------------ finish *)
Definition append_eof_metablock_to_last_bytes (s : BroCatli) : res BroCatli :=
  if negb (last_byte_sanitized s) then Panic else                   (* assert!(self.last_byte_sanitized) *)
  let lbs := N.lor (lb0 s) (N.shiftl (lb1 s) 8) in
  match sub_u (last_bytes_len s) 1 with
  | Panic => Panic
  | Val l1 =>
    match mul_u8 l1 8 with
    | Panic => Panic
    | Val l8 =>
      match add_u8 l8 (last_byte_bit_offset s) with
      | Panic => Panic
      | Val bit_end =>
        if 16 <=? bit_end then Panic else                           (* 3u16 << bit_end *)
        let lbs := N.lor lbs (w16 (N.shiftl 3 bit_end)) in
        let s1 := set_sanitized (set_lbs s (w8 lbs) (w8 (N.shiftr lbs 8))) false in
        match add_u8 (last_byte_bit_offset s1) 2 with
        | Panic => Panic
        | Val bo =>
          if 8 <=? bo then
            match add_u8 (last_bytes_len s1) 1 with
            | Panic => Panic
            | Val l => Val (set_len (set_bit_offset s1 (bo - 8)) l)
            end
          else Val (set_bit_offset s1 bo)
        end
      end
    end
  end.

(* while self.last_bytes_len != 0 { .. } : at most 255 iterations *)
Fixpoint finish_loop (n : nat) (s : BroCatli) (out : list N) (off : N) : res fret :=
  match n with
  | O => Val (mkF s out off Success)
  | S n' =>
    if last_bytes_len s =? 0 then Val (mkF s out off Success) else
    if off =? lenN out then Val (mkF s out off NeedsMoreOutput) else
    match updN out off (lb0 s) with
    | Panic => Panic
    | Val out' =>
      match sub_u (last_bytes_len s) 1 with
      | Panic => Panic
      | Val l => finish_loop n' (set_any (set_lbs (set_len s l) (lb1 s) (lb1 s)) true) out' (off + 1)
      end
    end
  end.

Definition finish (s : BroCatli) (out : list N) (off : N) : res fret :=
  match (if last_byte_sanitized s && negb (last_bytes_len s =? 0)
         then append_eof_metablock_to_last_bytes s else Val s) with
  | Panic => Panic
  | Val s1 =>
    match finish_loop 256 s1 out off with
    | Panic => Panic
    | Val f =>
      match f_rc f with
      | Success =>
        if negb (any_bytes_emitted (f_s f)) then
          if lenN (f_out f) =? f_off f then Val (mkF (f_s f) (f_out f) (f_off f) NeedsMoreOutput) else
          match updN (f_out f) (f_off f) 59 with                    (* b';' *)
          | Panic => Panic
          | Val out' => Val (mkF (set_any (f_s f) true) out' (f_off f + 1) Success)
          end
        else Val f
      | _ => Val f
      end
    end
  end.

(* ------------------------------------------------------------------ serialisation *)
Definition b2n (b : bool) : N := if b then 1 else 0.
Definition is_some {A} (o : option A) : bool := match o with Some _ => true | None => false end.

(* total write used where the index is in range by the length test made first *)
Definition setN (l : list N) (i v : N) : list N := takeN i l ++ v :: dropN (i + 1) l.

(* serialize_to_buffer(&self, buffer) -> Result<(), ()>;  None = Err(()) *)
Definition serialize_to_buffer (s : BroCatli) (buf : list N) : option (list N) :=
  if lenN buf <? 16 + NUM_STREAM_HEADER_BYTES then None else
  let buf := setN (setN buf 0 (lb0 s)) 1 (lb1 s) in
  let buf := setN buf 8 (last_bytes_len s) in
  let flags := N.lor (N.lor (b2n (last_byte_sanitized s)) (N.shiftl (b2n (is_some (new_stream_pending s))) 6))
                     (N.shiftl (b2n (any_bytes_emitted s)) 5) in
  let buf := setN buf 9 flags in
  let buf := setN buf 10 (last_byte_bit_offset s) in
  let buf := setN buf 11 (window_size s) in
  match new_stream_pending s with
  | None => Some buf
  | Some p =>
    let buf := if is_some (num_bytes_written p) then setN buf 9 (N.lor flags 128) else buf in
    let buf := setN buf 12 (num_bytes_read p) in
    let buf := setN buf 13 (match num_bytes_written p with Some w => w | None => 0 end) in
    match blitN buf 16 (bytes_so_far p) with
    | Val b => Some b
    | Panic => None          (* unreachable: |bytes_so_far| = 5 and |buf| >= 21 *)
    end
  end.

Definition byte_at (l : list N) (i : N) : N := nth (N.to_nat i) l 0.

(* deserialize_from_buffer(buffer) -> Result<BroCatli, ()> *)
Definition deserialize_from_buffer (buf : list N) : option BroCatli :=
  if lenN buf <? 16 + NUM_STREAM_HEADER_BYTES then None else
  let flags := byte_at buf 9 in
  let p := mkNSD (takeN NUM_STREAM_HEADER_BYTES (dropN 16 buf)) (byte_at buf 12)
                 (if N.testbit flags 7 then Some (byte_at buf 13) else None) in
  Some (mkBC (byte_at buf 0) (byte_at buf 1) (byte_at buf 8) (N.testbit flags 0) (N.testbit flags 5)
             (byte_at buf 10) (byte_at buf 11) (if N.testbit flags 6 then Some p else None)).

(* ------------------------------------------------------------------ the C ABI wrapper (ffi/broccoli.rs) *)
Definition zeros (n : nat) : list N := repeat 0 n.
Definition BROCCOLI_STATE_BYTES : nat := 120.

(* impl From<BroCatli> for BroccoliState *)
Definition to_state (s : BroCatli) : res (list N) :=
  match serialize_to_buffer s (zeros BROCCOLI_STATE_BYTES) with Some b => Val b | None => Panic end.
(* impl From<BroccoliState> for BroCatli *)
Definition of_state (b : list N) : res BroCatli :=
  match deserialize_from_buffer b with Some s => Val s | None => Panic end.

Definition broccoli_create : res (list N) := to_state bc_new.
Definition broccoli_create_with_window_size (w : N) : res (list N) :=
  match new_with_window_size w with Panic => Panic | Val s => to_state s end.
Definition broccoli_new_brotli_file (st : list N) : res (list N) :=
  match of_state st with Panic => Panic | Val s => to_state (new_brotli_file s) end.

Record cret : Type := mkC { c_state : list N; c_in : N; c_out : list N; c_off : N; c_rc : rcode }.

(* BroccoliConcatStream: offsets start at 0 over the caller's (ptr, available) windows *)
Definition broccoli_concat_stream (st : list N) (input out : list N) : res cret :=
  match of_state st with
  | Panic => Panic
  | Val s =>
    match stream s input 0 out 0 with
    | Panic => Panic
    | Val r =>
      match to_state (r_s r) with
      | Panic => Panic
      | Val st' => Val (mkC st' (r_in r) (r_out r) (r_off r) (r_rc r))
      end
    end
  end.

Definition broccoli_concat_finish (st : list N) (out : list N) : res cret :=
  match of_state st with
  | Panic => Panic
  | Val s =>
    match finish s out 0 with
    | Panic => Panic
    | Val f =>
      match to_state (f_s f) with
      | Panic => Panic
      | Val st' => Val (mkC st' 0 (f_out f) (f_off f) (f_rc f))
      end
    end
  end.
