(* The caller's side of the concatenator protocol (what src/bin/catbrotli.rs does), as a
   total function over the model of model/Concat.v: members are fed chunk by chunk, a
   NeedsMoreOutput answer drains the output buffer and supplies the next one, a
   NeedsMoreInput answer moves to the next chunk, `finish` is repeated until Success.
   The same driver loop is implemented natively in harness/src/bin/concat.rs; both print
   one record per call, so the correspondence check compares them call by call.
   Definitions only. *)
From Coq Require Import NArith List Bool.
From V Require Import lib.Words model.Concat.
Import ListNotations.
Open Scope N_scope.

(* result of one operation of a "machine" (native BroCatli, or the C-ABI wrapper) *)
Record oret (St : Type) : Type := mkO { o_s : St; o_in : N; o_out : list N; o_off : N; o_rc : rcode }.
Arguments mkO {St}. Arguments o_s {St}. Arguments o_in {St}. Arguments o_out {St}. Arguments o_off {St}. Arguments o_rc {St}.

Inductive task : Type :=
  | TFile                      (* new_brotli_file *)
  | TChunk (c : list N)        (* one input buffer; stream is called until it answers NeedsMoreInput *)
  | TFinish.                   (* finish until Success *)

Inductive outcome : Type := Done (rc : rcode) | Panicked | Looped.

(* one record per stream/finish call *)
Record call_rec : Type := mkCR {
  cr_op : N;                   (* 0 = stream, 1 = finish *)
  cr_rc : option rcode;        (* None = panic *)
  cr_inlen : N; cr_in0 : N; cr_in1 : N;
  cr_cap : N; cr_off0 : N; cr_off1 : N;
  cr_buf : list N;             (* whole output buffer after the call *)
  cr_state : list N            (* serialised state after the call *)
}.

Record run_result : Type := mkRR { rr_emitted : list N; rr_final : outcome; rr_trace : list call_rec }.

(* fresh output buffers carry a position-dependent pattern so that stray writes show *)
Fixpoint pattern_from (n : nat) (i : N) : list N :=
  match n with O => [] | S n' => ((165 + 7 * i) mod 256) :: pattern_from n' (i + 1) end.
Definition fresh_buf (cap : N) : list N := pattern_from (N.to_nat cap) 0.

Definition nth_cap (caps : list N) (k : N) : N :=
  match caps with [] => 0 | _ => nth (N.to_nat (k mod lenN caps)) caps 0 end.

Definition memN (x : N) (l : list N) : bool := existsb (N.eqb x) l.

Section Run.
  Variable St : Type.
  Variable m_stream : St -> list N -> N -> list N -> N -> res (oret St).
  Variable m_finish : St -> list N -> N -> res (oret St).
  Variable m_file : St -> res St.
  Variable m_show : St -> list N.
  Variable m_restore : St -> res St.        (* save + restore between two calls *)

  Record drv : Type := mkD {
    d_s : St; d_buf : list N; d_off : N; d_capidx : N; d_emitted : list N;
    d_calls : N; d_trace : list call_rec    (* most recent first *)
  }.

  Definition stop (d : drv) (o : outcome) : run_result :=
    mkRR (d_emitted d ++ takeN (d_off d) (d_buf d)) o (rev_append (d_trace d) []).

  (* after NeedsMoreOutput: hand the filled part to the consumer, take the next buffer *)
  Definition drain (caps : list N) (d : drv) : drv :=
    mkD (d_s d) (fresh_buf (nth_cap caps (d_capidx d + 1))) 0 (d_capidx d + 1)
        (d_emitted d ++ takeN (d_off d) (d_buf d)) (d_calls d) (d_trace d).

  Definition maybe_restore (rall : bool) (rs : list N) (d : drv) : res St :=
    if rall || memN (d_calls d) rs then m_restore (d_s d) else Val (d_s d).

  (* percall = false: one output buffer is kept (offset carried over) until it is reported full,
     as catbrotli does;  percall = true: every call gets a fresh buffer of the next size, so
     any amount of free space (including none) can be offered at any call *)
  Fixpoint go (fuel : nat) (caps : list N) (percall : bool) (rall : bool) (rs : list N)
              (tasks : list task) (in_off : N) (d : drv) : run_result :=
    match fuel with
    | O => stop d Looped
    | S f =>
      match tasks with
      | [] => stop d (Done Success)
      | TFile :: rest =>
        match m_file (d_s d) with
        | Panic => stop d Panicked
        | Val s' => go f caps percall rall rs rest 0
                       (mkD s' (d_buf d) (d_off d) (d_capidx d) (d_emitted d) (d_calls d) (d_trace d))
        end
      | TChunk c :: rest =>
        match maybe_restore rall rs d with
        | Panic => stop d Panicked
        | Val s0 =>
          match m_stream s0 c in_off (d_buf d) (d_off d) with
          | Panic =>
            stop (mkD s0 (d_buf d) (d_off d) (d_capidx d) (d_emitted d) (d_calls d + 1)
                      (mkCR 0 None (lenN c) in_off in_off (lenN (d_buf d)) (d_off d) (d_off d) (d_buf d) (m_show s0) :: d_trace d))
                 Panicked
          | Val r =>
            let d' := mkD (o_s r) (o_out r) (o_off r) (d_capidx d) (d_emitted d) (d_calls d + 1)
                          (mkCR 0 (Some (o_rc r)) (lenN c) in_off (o_in r) (lenN (d_buf d)) (d_off d) (o_off r) (o_out r) (m_show (o_s r)) :: d_trace d) in
            match o_rc r with
            | NeedsMoreInput => go f caps percall rall rs rest 0 (if percall then drain caps d' else d')
            | NeedsMoreOutput => go f caps percall rall rs tasks (o_in r) (drain caps d')
            | rc => stop d' (Done rc)
            end
          end
        end
      | TFinish :: _ =>
        match maybe_restore rall rs d with
        | Panic => stop d Panicked
        | Val s0 =>
          match m_finish s0 (d_buf d) (d_off d) with
          | Panic =>
            stop (mkD s0 (d_buf d) (d_off d) (d_capidx d) (d_emitted d) (d_calls d + 1)
                      (mkCR 1 None 0 0 0 (lenN (d_buf d)) (d_off d) (d_off d) (d_buf d) (m_show s0) :: d_trace d))
                 Panicked
          | Val r =>
            let d' := mkD (o_s r) (o_out r) (o_off r) (d_capidx d) (d_emitted d) (d_calls d + 1)
                          (mkCR 1 (Some (o_rc r)) 0 0 0 (lenN (d_buf d)) (d_off d) (o_off r) (o_out r) (m_show (o_s r)) :: d_trace d) in
            match o_rc r with
            | NeedsMoreOutput => go f caps percall rall rs tasks 0 (drain caps d')
            | rc => stop d' (Done rc)
            end
          end
        end
      end
    end.

  Definition run_from (fuel : nat) (caps : list N) (percall : bool) (rall : bool) (rs : list N) (tasks : list task) (s0 : St) : run_result :=
    go fuel caps percall rall rs tasks 0 (mkD s0 (fresh_buf (nth_cap caps 0)) 0 0 [] 0 []).
End Run.

(* ------------------------------------------------------------------ the two machines *)
Definition show_state (s : BroCatli) : list N :=
  match serialize_to_buffer s (zeros 24) with Some b => b | None => [] end.

Definition nat_stream (s : BroCatli) (i : list N) (io : N) (o : list N) (oo : N) : res (oret BroCatli) :=
  match stream s i io o oo with
  | Panic => Panic
  | Val r => Val (mkO (r_s r) (r_in r) (r_out r) (r_off r) (r_rc r))
  end.
Definition nat_finish (s : BroCatli) (o : list N) (oo : N) : res (oret BroCatli) :=
  match finish s o oo with
  | Panic => Panic
  | Val f => Val (mkO (f_s f) 0 (f_out f) (f_off f) (f_rc f))
  end.
(* save/restore through a 24-byte buffer whose untouched bytes are 0xff *)
Definition nat_restore (s : BroCatli) : res BroCatli :=
  match serialize_to_buffer s (repeat 255 24) with
  | None => Panic
  | Some b => match deserialize_from_buffer b with Some s' => Val s' | None => Panic end
  end.

Definition run_native := run_from BroCatli nat_stream nat_finish (fun s => Val (new_brotli_file s)) show_state nat_restore.

(* C ABI: the state is the 120-byte array; buffers are (pointer, available) windows *)
Definition ffi_stream (st : list N) (i : list N) (io : N) (o : list N) (oo : N) : res (oret (list N)) :=
  match broccoli_concat_stream st (dropN io i) (dropN oo o) with
  | Panic => Panic
  | Val c => Val (mkO (c_state c) (io + c_in c) (takeN oo o ++ c_out c) (oo + c_off c) (c_rc c))
  end.
Definition ffi_finish (st : list N) (o : list N) (oo : N) : res (oret (list N)) :=
  match broccoli_concat_finish st (dropN oo o) with
  | Panic => Panic
  | Val c => Val (mkO (c_state c) 0 (takeN oo o ++ c_out c) (oo + c_off c) (c_rc c))
  end.
Definition run_ffi := run_from (list N) ffi_stream ffi_finish broccoli_new_brotli_file (takeN 24) (fun st => Val st).
