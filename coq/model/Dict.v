(* Model of how both sides place a custom (prefix) dictionary in front of the data.
   Encoder: src/enc/encode.rs set_custom_dictionary_with_optional_precomputed_hasher,
            SanitizeParams (lgwin), ensure_initialized (window bits written to the header).
   Decoder: brotli-decompressor-4.0.3 state.rs new_with_custom_dictionary, decode.rs
            BROTLI_STATE_INITIALIZE, BrotliAllocateRingBuffer, the max_distance update in
            ProcessCommandsInternal.
   Definitions only.  Lengths and positions are N; the dictionary itself only matters through
   its length (both sides keep a suffix of it). *)
From Coq Require Import NArith ZArith List Bool.
From V Require Import lib.Words.
Import ListNotations.
Open Scope N_scope.

Inductive dpanic := PShiftOverflow.      (* `1usize << params.lgwin` with lgwin >= 64 (dev profile) *)
Inductive dres (A : Type) := DOk (a : A) | DPanic (p : dpanic).
Arguments DOk {A} a.
Arguments DPanic {A} p.

(* ---- SanitizeParams ---- *)
Definition sanitize_quality (q : Z) : N := Z.to_N (Z.min 11 (Z.max 0 q)).
Definition sanitize_lgwin (lgwin : N) (large_window : bool) : N :=
  if lgwin <? 10 then 10
  else if 24 <? lgwin then (if large_window then N.min lgwin 30 else 24)
  else lgwin.
(* window bits the stream header announces (ensure_initialized: quality 0/1 declare at least 18) *)
Definition header_wbits (q lgwin_sane : N) : N := if q <=? 1 then N.max lgwin_sane 18 else lgwin_sane.

Record enc_setup := {
  e_kept : N;            (* dictionary bytes copied into the ring buffer: input_pos_ = last_flush_pos_ =
                            last_processed_pos_ = recoder_state.num_bytes_encoded afterwards *)
  e_custom : bool;       (* self.custom_dictionary *)
  e_selfcontained : bool;(* the early return: params.catable = params.appendable = true *)
  e_static : bool;       (* params.use_dictionary afterwards: static dictionary references allowed *)
  e_lgwin : N            (* params.lgwin after SanitizeParams *)
}.

(* The code as found differs from the repaired code in two places, kept as flags so that both
   versions are the same function:
     one_byte_early = the `|| size <= 1` of the early return;
     raw_window     = max_dict_size computed from params.lgwin BEFORE SanitizeParams clamps it
                      (`(1usize << self.params.lgwin).wrapping_sub(16)` as the first statement). *)
Definition enc_dict_setup_gen (one_byte_early raw_window : bool) (size : N) (q_raw : Z) (lgwin_raw : N)
           (large_window use_dictionary : bool) : dres enc_setup :=
  if raw_window && (64 <=? lgwin_raw) then DPanic PShiftOverflow else
  let q := sanitize_quality q_raw in
  let lgwin := sanitize_lgwin lgwin_raw large_window in
  let max_dict_size := wsub64 (N.shiftl 1 (if raw_window then lgwin_raw else lgwin)) 16 in
  if (size =? 0) || (q =? 0) || (q =? 1) || (one_byte_early && (size <=? 1)) then
    DOk {| e_kept := 0; e_custom := false; e_selfcontained := true; e_static := use_dictionary; e_lgwin := lgwin |}
  else
    let dict_size := if max_dict_size <? size then max_dict_size else size in
    DOk {| e_kept := dict_size; e_custom := true; e_selfcontained := false; e_static := use_dictionary; e_lgwin := lgwin |}.

Definition enc_dict_setup := enc_dict_setup_gen false false.          (* repaired code *)
Definition enc_dict_setup_unfixed := enc_dict_setup_gen true true.    (* code as found *)

(* prev_byte_ / prev_byte2_ after the call, from the last two dictionary bytes (0 = untouched) *)
Definition enc_prev_bytes (kept last1 last2 : N) : N * N :=
  (if 0 <? kept then last1 else 0, if 1 <? kept then last2 else 0).

(* ---- decoder ---- *)
Record dec_setup := {
  d_kept : N;            (* custom_dict_size after BrotliAllocateRingBuffer: bytes placed before position 0 *)
  d_mbd : N;             (* max_backward_distance = 2^wbits - 16 *)
  d_minus : Z            (* max_backward_distance_minus_custom_dict_size, computed from the FULL length *)
}.
Definition dec_dict_setup (size wbits : N) : dec_setup :=
  let mbd := 2 ^ wbits - 16 in
  {| d_kept := if mbd <? size then mbd else size;       (* max_dict_size = ringbuffer_size - 16, ringbuffer_size = 1 << wbits *)
     d_mbd := mbd;
     d_minus := (Z.of_N mbd - Z.of_N size)%Z |}.

(* max_distance while decoding the command at output position p (ProcessCommandsInternal) *)
Definition dec_max_distance (d : dec_setup) (p : N) : N :=
  if (Z.of_N p <? d_minus d)%Z then p + d_kept d else d_mbd d.
(* the encoder's: min(position, max_backward_limit), position counting the dictionary bytes it kept *)
Definition enc_max_distance (e : enc_setup) (p : N) : N :=
  N.min (e_kept e + p) (2 ^ e_lgwin e - 16).

(* how a distance is read at output position p: a backward copy, or word number
   dist - max_distance - 1 of the static dictionary (to be split into word id and transform) *)
Inductive reading := RCopy (dist : N) | RWord (offset : N).
Definition read_distance (max_distance dist : N) : reading :=
  if dist <=? max_distance then RCopy dist else RWord (dist - max_distance - 1).

(* bytes before the data as lists (for the statement about prefixes) *)
Definition kept_suffix (dict : list N) (kept : N) : list N :=
  skipn (length dict - N.to_nat kept) dict.

(* the conclusion of C10_positions as a test on observed values: quality (sanitized), bytes the
   encoder kept, bytes the decoder kept *)
Definition positions_ok (q e_kept_obs d_kept_obs : N) : bool :=
  if 2 <=? q then e_kept_obs =? d_kept_obs else e_kept_obs =? 0.
