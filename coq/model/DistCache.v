(* Model of how src/enc/encode.rs keeps the decoder's ring of last distances (dist_cache_[0..4]) in step
   across meta-blocks:
     WriteMetaBlockInternal  the back references of the block have already advanced dist_cache; when the block
                             is re-emitted uncompressed (should_compress == false, or the entropy-coded form is
                             bigger than the input) the cache is rolled back to saved_dist_cache;
     encode_data             after the block saved_dist_cache_ := dist_cache_[0..4];
     ensure_initialized      a catable stream starts with both caches poisoned (no short code may refer to a
                             distance of the stream it will be appended to).
   Whether each of these statements is present in the source is regenerated into gen/GenFormat.v
   (the WMB_RESTORES, ENC_SAVES_CACHE_AFTER_BLOCK and CATABLE_POISON definitions).  Definitions only. *)
From Coq Require Import ZArith List Bool.
From V Require Import gen.GenFormat.
Open Scope Z_scope.

Definition cache4 := (Z * Z * Z * Z)%type.
Inductive mb_outcome := StoredNotCompressing | StoredBiggerThanInput | EmittedCompressed.

(* dist_cache[0..4] when WriteMetaBlockInternal returns: [advanced] is what the match finder left in it *)
Definition wmb_dist_cache (saved advanced : cache4) (o : mb_outcome) : cache4 :=
  match o with
  | StoredNotCompressing => if WMB_RESTORES_WHEN_NOT_COMPRESSING then saved else advanced
  | StoredBiggerThanInput => if WMB_RESTORES_WHEN_BIGGER_THAN_INPUT then saved else advanced
  | EmittedCompressed => advanced
  end.
(* (dist_cache_, saved_dist_cache_) after encode_data has emitted the block *)
Definition caches_after_block (saved advanced : cache4) (o : mb_outcome) : cache4 * cache4 :=
  let d := wmb_dist_cache saved advanced o in (d, if ENC_SAVES_CACHE_AFTER_BLOCK then d else saved).

Definition initial_ring : cache4 := (4, 11, 15, 16).
Definition fill (v : Z) : cache4 := (v, v, v, v).
(* (dist_cache_, saved_dist_cache_) after ensure_initialized *)
Definition initial_caches (catable : bool) : cache4 * cache4 :=
  if catable then
    (match CATABLE_POISON_DIST_CACHE with Some v => fill v | None => initial_ring end,
     match CATABLE_POISON_SAVED_DIST_CACHE with Some v => fill v | None => initial_ring end)
  else (initial_ring, initial_ring).
