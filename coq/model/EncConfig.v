(* Model of the configuration code of src/enc/encode.rs that C01 depends on:
     set_parameter (the fields that influence the configuration), SanitizeParams, ComputeLgBlock,
     ChooseDistanceParams + BrotliInitDistanceParams (metablock.rs), ComputeRbBits, RingBufferSetup,
     ChooseHasher, WrapPosition,
   and of the two array bounds of the quality-10/11 cost model (hq.rs) that the distance
   alphabet must respect.  Every literal comes from gen/GenFormat.v (regenerated from /repo).
   Definitions only. *)
From Coq Require Import NArith ZArith List Bool.
From V Require Import lib.Words gen.GenFormat.
Import ListNotations.
Open Scope N_scope.

(* ---- WrapPosition (u64 -> u32) ---- *)
Definition wrap_position (p : N) : N :=
  let result := w32 p in
  let gb := N.shiftr p WRAP_BITS in
  if WRAP_GB_THRESHOLD <? gb
  then N.lor (N.land result (2 ^ WRAP_BITS - 1)) (N.shiftl (N.land (gb - 1) 1 + 1) WRAP_BITS)
  else result.

(* ---- parameters as set_parameter leaves them (the fields the configuration reads) ---- *)
Record eparams := {
  e_quality : Z; e_lgwin : Z; e_lgblock : Z;   (* i32: any value can be stored (u32 `as i32`) *)
  e_mode : N;                                  (* 0 generic 1 text 2 font 3..6 forced priors *)
  e_large : bool; e_q9_5 : bool; e_size_hint : N;
  e_np0 : N; e_nd0 : N                         (* params.dist as BrotliEncoderInitParams left it: not settable *)
}.
Definition default_params : eparams :=
  {| e_quality := 11; e_lgwin := 22; e_lgblock := 0; e_mode := 0; e_large := false; e_q9_5 := false;
     e_size_hint := 0; e_np0 := 0; e_nd0 := 0 |}.

Definition i32_of_u32 (v : N) : Z := if v <? 2147483648 then Z.of_N v else (Z.of_N v - 4294967296)%Z.

Definition set_param (p : eparams) (id v : N) : eparams :=
  let mk q w b m lg q95 h :=
    {| e_quality := q; e_lgwin := w; e_lgblock := b; e_mode := m; e_large := lg; e_q9_5 := q95;
       e_size_hint := h; e_np0 := e_np0 p; e_nd0 := e_nd0 p |} in
  if id =? 0 then mk (e_quality p) (e_lgwin p) (e_lgblock p) (if v <=? 6 then v else 0) (e_large p) (e_q9_5 p) (e_size_hint p)
  else if id =? 1 then mk (i32_of_u32 v) (e_lgwin p) (e_lgblock p) (e_mode p) (e_large p) (e_q9_5 p) (e_size_hint p)
  else if id =? 2 then mk (e_quality p) (i32_of_u32 v) (e_lgblock p) (e_mode p) (e_large p) (e_q9_5 p) (e_size_hint p)
  else if id =? 3 then mk (e_quality p) (e_lgwin p) (i32_of_u32 v) (e_mode p) (e_large p) (e_q9_5 p) (e_size_hint p)
  else if id =? 5 then mk (e_quality p) (e_lgwin p) (e_lgblock p) (e_mode p) (e_large p) (e_q9_5 p) v
  else if id =? 6 then mk (e_quality p) (e_lgwin p) (e_lgblock p) (e_mode p) (negb (v =? 0)) (e_q9_5 p) (e_size_hint p)
  else if id =? 150 then mk (e_quality p) (e_lgwin p) (e_lgblock p) (e_mode p) (e_large p) (negb (v =? 0)) (e_size_hint p)
  else p.
Definition set_params (l : list (N * N)) : eparams :=
  fold_left (fun p kv => set_param p (fst kv) (snd kv)) l default_params.

(* what the parameter interface can produce *)
Definition reachable (p : eparams) : Prop :=
  (- 2147483648 <= e_quality p < 2147483648)%Z /\ (- 2147483648 <= e_lgwin p < 2147483648)%Z /\
  (- 2147483648 <= e_lgblock p < 2147483648)%Z /\ e_mode p <= 6 /\ e_np0 p = 0 /\ e_nd0 p = 0.

(* ---- SanitizeParams / ComputeLgBlock ---- *)
Definition sanitize_quality (q : Z) : Z := Z.min SAN_QMAX (Z.max SAN_QMIN q).
Definition sanitize_lgwin (w : Z) (lw : bool) : Z :=
  if (w <? SAN_WMIN)%Z then SAN_WMIN
  else if (SAN_WMAX <? w)%Z then (if lw then (if (SAN_WMAX_LARGE <? w)%Z then SAN_WMAX_LARGE else w) else SAN_WMAX)
  else w.
Definition compute_lgblock (q w b : Z) : Z :=
  if ((q =? LGB_Q0) || (q =? LGB_Q1))%Z then w
  else if (q <? LGB_QLOW)%Z then LGB_LOW
  else if (b =? LGB_UNSET)%Z then (if ((LGB_QHIGH <=? q) && (LGB_DEFAULT <? w))%Z then Z.min LGB_HIGH w else LGB_DEFAULT)
  else Z.min LGB_MAX (Z.max LGB_MIN b).

(* ---- ChooseDistanceParams ---- *)
Definition choose_distance_params (q : Z) (mode np0 nd0 : N) : N * N :=
  if (DIST_MIN_QUALITY <=? q)%Z then
    let '(np, nd) := if mode =? 2 then (DIST_FONT_NPOSTFIX, DIST_FONT_NDIRECT) else (np0, nd0) in
    let msb := N.land (N.shiftr nd np) 15 in
    if (BROTLI_MAX_NPOSTFIX <? np) || (BROTLI_MAX_NDIRECT <? nd) || negb (N.shiftl msb np =? nd)
    then (0, 0) else (np, nd)
  else (0, 0).

Definition distance_alphabet_size (np nd maxnbits : N) : N :=
  ENC_BROTLI_NUM_DISTANCE_SHORT_CODES + nd + N.shiftl maxnbits (np + 1).

(* BrotliInitDistanceParams: (alphabet_size, max_distance), u32 arithmetic *)
Definition init_distance_params (large : bool) (np nd : N) : N * N :=
  let alpha := distance_alphabet_size np nd ENC_BROTLI_MAX_DISTANCE_BITS in
  let maxd := wsub32 (wadd32 nd (wshl32 1 (ENC_BROTLI_MAX_DISTANCE_BITS + np + 2))) (wshl32 1 (np + 2)) in
  if large then
    let bound := nthN DIST_BOUND np in
    let postfix := 2 ^ np in
    let alpha' := distance_alphabet_size np nd ENC_BROTLI_LARGE_MAX_DISTANCE_BITS in
    let maxd' :=
      if nd <? bound then wsub32 (w32 ENC_BROTLI_MAX_ALLOWED_DISTANCE) (bound - nd)
      else if bound + postfix <=? nd then wadd32 (3 * 2 ^ 29 - 4) (nd - bound)
      else w32 ENC_BROTLI_MAX_ALLOWED_DISTANCE in
    (alpha', maxd')
  else (alpha, maxd).

(* ---- ChooseHasher: the hasher type ---- *)
Definition choose_hasher_type (q w : Z) (q95 : bool) (hint : N) : Z :=
  if ((10 <=? q)%Z && negb q95) then 10%Z
  else if (q =? 10)%Z then 9%Z
  else if (q =? 9)%Z then 9%Z
  else if ((q =? 4)%Z && (2 ^ 20 <=? hint)) then 54%Z
  else if (q <? 5)%Z then q
  else if (w <=? 16)%Z then (if (q <? 7)%Z then 40%Z else if (q <? 9)%Z then 41%Z else 42%Z)
  else if (((q95 && (2 ^ 20 <? hint)) || (2 ^ 22 <? hint)) && (19 <=? w)%Z) then 6%Z
  else 5%Z.

(* ---- the configuration ensure_initialized (+ hasher_setup) arrives at ---- *)
Record config := {
  c_quality : Z; c_lgwin : Z; c_lgblock : Z; c_np : N; c_nd : N; c_alphabet : N; c_maxdist : N;
  c_rbbits : Z; c_rbsize : N; c_rbmask : N; c_rbtail : N; c_rbtotal : N; c_hasher : Z }.

Definition configure (p : eparams) : config :=
  let q := sanitize_quality (e_quality p) in
  let w := sanitize_lgwin (e_lgwin p) (e_large p) in
  let b := compute_lgblock q w (e_lgblock p) in
  let '(np, nd) := choose_distance_params q (e_mode p) (e_np0 p) (e_nd0 p) in
  let '(alpha, maxd) := init_distance_params (e_large p) np nd in
  let rbbits := (RB_EXTRA_BITS + Z.max w b)%Z in
  let size := wshl32 1 (Z.to_N rbbits) in
  let tail := wshl32 1 (Z.to_N b) in
  {| c_quality := q; c_lgwin := w; c_lgblock := b; c_np := np; c_nd := nd; c_alphabet := alpha; c_maxdist := maxd;
     c_rbbits := rbbits; c_rbsize := size; c_rbmask := wsub32 size 1; c_rbtail := tail; c_rbtotal := wadd32 size tail;
     c_hasher := choose_hasher_type q w (e_q9_5 p) (e_size_hint p) |}.

(* ---- hq.rs: the cost model's distance histogram ---- *)
(* distance_histogram_size = min(alphabet_size, cap): the number of entries SetCost walks in the
   local histogram array of HQ_HIST_DIST_LEN entries *)
Definition distance_histogram_size (alpha : N) : N := N.min alpha HQ_DIST_HIST_CAP.
Definition hq_histogram_ok (hist_len alpha : N) : bool := distance_histogram_size alpha <=? hist_len.
(* hasher types hasher_setup knows how to build *)
Definition known_hasher (t : Z) : bool := existsb (Z.eqb t) [2; 3; 4; 5; 6; 9; 10; 40; 41; 42; 54]%Z.
(* with the array length the source has now *)
Definition hq_ok (alpha : N) : bool := hq_histogram_ok HQ_HIST_DIST_LEN alpha.
