(* C19 - executable models of the match-index ("hasher") update entry points of
   src/enc/backward_references/mod.rs (BasicHasher H2/H3/H4/H54, AdvHasher H5/H5q5/H5q7/H6, H9)
   and hash_to_binary_tree.rs (H10).  Definitions only.

   Conventions
   * `usize` values (positions, masks, table indices) are N; the entry points are modelled for
     positions below 2^63, where none of the `+`/`*` on usize in the modelled code can overflow
     (the theorems carry `e < 2^63`).  `u32`/`u16` stores are written out (`w32`, `w16`).
   * Out-of-bounds slice indexing, `split_at` beyond the end, failed `assert_eq!` and checked
     u32/u64 arithmetic that overflows (debug profile) are the outcome `Panic`.
   * A data buffer is a length and a byte reader, so that the extracted model can be run on an
     OCaml array; tables (`buckets`, `num`, `forest`) are a length, an initial value and a trie
     of the entries written so far.
   * Constants come from gen/GenHashers.v (regenerated from /repo on every check).
   * `variant`: `Repaired` is the code as it is now (after the `fix:` commit for C19); `AsFound`
     keeps the two fast paths as they were found (sweep slot taken once per group of four from
     the masked position; masked positions stored), for the refutation witnesses. *)
From Coq Require Import NArith List Bool.
From V Require Import lib.Words lib.Finite gen.GenHashers.
Import ListNotations.
Open Scope N_scope.

(* ------------------------------------------------------------------------------------------ *)
(* outcomes *)
Inductive res (A : Type) : Type := Ok (a : A) | Panic.
Arguments Ok {A} a.
Arguments Panic {A}.
Definition bind {A B} (r : res A) (f : A -> res B) : res B :=
  match r with Ok a => f a | Panic => Panic end.
Notation "x <- r ;; k" := (bind r (fun x => k)) (at level 61, r at next level, right associativity).

Inductive variant := AsFound | Repaired.

Definition USIZE_MAX : N := 18446744073709551615.   (* usize::MAX on the 64-bit target *)
Definition M32 : N := 4294967295.
Definition M64 : N := 18446744073709551615.
Definition lo64 (x : N) : N := N.land x M64.          (* u64 wrapping result *)
Definition lo32 (x : N) : N := N.land x M32.          (* `as u32` *)
Definition lo16 (x : N) : N := N.land x 65535.        (* `as u16` *)
(* checked arithmetic of the debug profile *)
Definition mul_u64 (a b : N) : res N := let m := a * b in if m <=? M64 then Ok m else Panic.
Definition add_u32 (a b : N) : res N := if a + b <=? M32 then Ok (a + b) else Panic.

(* positions lo, lo+1, .., hi-1 *)
Definition range (lo hi : N) : list N := range_nat lo (N.to_nat (hi - lo)).

(* `for i in l { s = body(s, i)? }` *)
Definition for_each {S : Type} (body : S -> N -> res S) (l : list N) (r : res S) : res S :=
  fold_left (fun acc i => bind acc (fun s => body s i)) l r.

(* ------------------------------------------------------------------------------------------ *)
(* data buffers *)
Record buf := { blen : N; bget : N -> N }.
Definition byte (d : buf) (i : N) : N := N.land (bget d i) 255.
Definition buf_of_list (l : list N) : buf := {| blen := N.of_nat (length l); bget := nthN l |}.

(* data[i] *)
Definition rd (d : buf) (i : N) : res N := if i <? blen d then Ok (byte d i) else Panic.

(* p[0] | p[1] << 8 | ... as the code writes it *)
Definition le32 (d : buf) (a : N) : N :=
  N.lor (N.lor (N.lor (byte d a) (N.shiftl (byte d (a + 1)) 8)) (N.shiftl (byte d (a + 2)) 16))
        (N.shiftl (byte d (a + 3)) 24).
Definition le56 (d : buf) (a : N) : N :=
  N.lor (N.lor (N.lor (N.lor (N.lor (N.lor (byte d a) (N.shiftl (byte d (a + 1)) 8))
    (N.shiftl (byte d (a + 2)) 16)) (N.shiftl (byte d (a + 3)) 24)) (N.shiftl (byte d (a + 4)) 32))
    (N.shiftl (byte d (a + 5)) 40)) (N.shiftl (byte d (a + 6)) 48).
Definition le64 (d : buf) (a : N) : N := N.lor (le56 d a) (N.shiftl (byte d (a + 7)) 56).
Definition le16 (d : buf) (a : N) : N := N.lor (byte d a) (N.shiftl (byte d (a + 1)) 8).

(* BROTLI_UNALIGNED_LOAD32/64(&data[a..]): `split_at(a)` then `split_at(4|8)` *)
Definition load32 (d : buf) (a : N) : res N := if a + 4 <=? blen d then Ok (le32 d a) else Panic.
Definition load64 (d : buf) (a : N) : res N := if a + 8 <=? blen d then Ok (le64 d a) else Panic.

(* ------------------------------------------------------------------------------------------ *)
(* tables *)
Inductive trie := TLeaf | TNode (l : trie) (v : option N) (r : trie).
Fixpoint pget (t : trie) (p : positive) : option N :=
  match t with
  | TLeaf => None
  | TNode l v r => match p with xH => v | xO q => pget l q | xI q => pget r q end
  end.
Fixpoint pset (t : trie) (p : positive) (x : N) : trie :=
  match p with
  | xH => match t with TLeaf => TNode TLeaf (Some x) TLeaf | TNode l _ r => TNode l (Some x) r end
  | xO q => match t with TLeaf => TNode (pset TLeaf q x) None TLeaf | TNode l v r => TNode (pset l q x) v r end
  | xI q => match t with TLeaf => TNode TLeaf None (pset TLeaf q x) | TNode l v r => TNode l v (pset r q x) end
  end.
(* all entries written so far, keys rebuilt from the path *)
Fixpoint pelems (t : trie) (path : positive -> positive) (acc : list (N * N)) : list (N * N) :=
  match t with
  | TLeaf => acc
  | TNode l v r =>
    let acc1 := pelems r (fun q => path (xI q)) acc in
    let acc2 := pelems l (fun q => path (xO q)) acc1 in
    match v with Some x => (N.pred (Npos (path xH)), x) :: acc2 | None => acc2 end
  end.

Record table := { tlen : N; tdef : N; tmap : trie }.
Definition tnew (len init : N) : table := {| tlen := len; tdef := init; tmap := TLeaf |}.
Definition tget (t : table) (i : N) : res N :=
  if i <? tlen t then Ok (match pget (tmap t) (N.succ_pos i) with Some x => x | None => tdef t end)
  else Panic.
Definition tset (t : table) (i x : N) : res table :=
  if i <? tlen t then Ok {| tlen := tlen t; tdef := tdef t; tmap := pset (tmap t) (N.succ_pos i) x |}
  else Panic.
Definition tentries (t : table) : list (N * N) := pelems (tmap t) (fun q => q) [].

(* slice equality (`a.slice() == b.slice()`), decided on the tries: an absent entry stands for
   the table's initial value.  Two tables of one hasher kind always share the initial value (they
   come from the same initialiser, and clone_from_slice copies it along); tables with different
   initial values are reported unequal. *)
Definition vval (d : N) (v : option N) : N := match v with Some x => x | None => d end.
Fixpoint trie_all (t : trie) (d : N) : bool :=      (* every entry of t holds the initial value *)
  match t with
  | TLeaf => true
  | TNode l v r => trie_all l d && (vval d v =? d) && trie_all r d
  end.
Fixpoint trie_eqb (d : N) (a b : trie) : bool :=
  match a, b with
  | TLeaf, _ => trie_all b d
  | _, TLeaf => trie_all a d
  | TNode l1 v1 r1, TNode l2 v2 r2 => trie_eqb d l1 l2 && (vval d v1 =? vval d v2) && trie_eqb d r1 r2
  end.
Definition table_eqb (a b : table) : bool :=
  (tlen a =? tlen b) && (tdef a =? tdef b) && trie_eqb (tdef a) (tmap a) (tmap b).

(* allocate(len) followed by `clone_from_slice(src)`: panics when the lengths differ, otherwise
   the destination holds the source's contents *)
Definition clone_from_slice (dst src : table) : res table :=
  if tlen dst =? tlen src then Ok {| tlen := tlen dst; tdef := tdef src; tmap := tmap src |} else Panic.
Definition clone_table (t : table) : res table := clone_from_slice (tnew (tlen t) 0) t.

(* Struct1 + H9Opts: ten numbers that no store touches (type_, bucket_bits, block_bits, hash_len,
   num_last_distances_to_check, literal_byte_score, is_prepared_, dict_num_lookups,
   dict_num_matches, h9_opts.literal_byte_score) *)
Definition common := list N.
Fixpoint common_eqb (a b : common) : bool :=
  match a, b with
  | [], [] => true
  | x :: a', y :: b' => (x =? y) && common_eqb a' b'
  | _, _ => false
  end.

(* ------------------------------------------------------------------------------------------ *)
(* BasicHasher<H2Sub | H3Sub | H4Sub | H54Sub> *)
Record basic_params := { bp_bucket_bits : N; bp_sweep : N; bp_shl : N; bp_shr : N }.
Definition H2p : basic_params := {| bp_bucket_bits := H2_BUCKET_BITS; bp_sweep := H2_BUCKET_SWEEP; bp_shl := H2_HASH_SHL; bp_shr := H2_HASH_SHR |}.
Definition H3p : basic_params := {| bp_bucket_bits := H3_BUCKET_BITS; bp_sweep := H3_BUCKET_SWEEP; bp_shl := H3_HASH_SHL; bp_shr := H3_HASH_SHR |}.
Definition H4p : basic_params := {| bp_bucket_bits := H4_BUCKET_BITS; bp_sweep := H4_BUCKET_SWEEP; bp_shl := H4_HASH_SHL; bp_shr := H4_HASH_SHR |}.
Definition H54p : basic_params := {| bp_bucket_bits := H54_BUCKET_BITS; bp_sweep := H54_BUCKET_SWEEP; bp_shl := H54_HASH_SHL; bp_shr := H54_HASH_SHR |}.

Record basic_state := { b_common : common; b_buckets : table }.

(* HxSub::HashBytes on the eight loaded bytes: ((w << shl) * kHashMul64 mod 2^64) >> shr, as u32 *)
Definition basic_hash (p : basic_params) (w : N) : N :=
  lo32 (N.shiftr (lo64 (lo64 (N.shiftl w (bp_shl p)) * kHashMul64)) (bp_shr p)).

Definition sweep_off (p : basic_params) (ix : N) : N := (N.shiftr ix BASIC_SWEEP_SHIFT) mod (bp_sweep p).

(* BasicHasher::Store *)
Definition basic_store (p : basic_params) (d : buf) (mask : N) (st : basic_state) (ix : N) : res basic_state :=
  w <- load64 d (N.land ix mask);;
  let key := basic_hash p w in
  let off := lo32 (sweep_off p ix) in
  b <- tset (b_buckets st) (lo32 (key + off)) (lo32 ix);;     (* key.wrapping_add(off) as usize; ix as u32 *)
  Ok {| b_common := b_common st; b_buckets := b |}.

(* one iteration of the loop of StoreRangeOptBasic, `ix` = ix_start + chunk_id * 4 *)
Definition basic_quad (v : variant) (p : basic_params) (d : buf) (mask : N) (st : basic_state) (ix : N) : res basic_state :=
  let i := N.land ix mask in
  if i + OPT_BASIC_WORD <=? blen d then        (* data.split_at(i).1.split_at(11) *)
    let m0 := basic_hash p (le64 d i) in
    let m1 := basic_hash p (le64 d (i + 1)) in
    let m2 := basic_hash p (le64 d (i + 2)) in
    let m3 := basic_hash p (le64 d (i + 3)) in
    match v with
    | Repaired =>
      b <- tset (b_buckets st) (m0 + sweep_off p ix) (lo32 ix);;
      b <- tset b (m1 + sweep_off p (ix + 1)) (lo32 (ix + 1));;
      b <- tset b (m2 + sweep_off p (ix + 2)) (lo32 (ix + 2));;
      b <- tset b (m3 + sweep_off p (ix + 3)) (lo32 (ix + 3));;
      Ok {| b_common := b_common st; b_buckets := b |}
    | AsFound =>
      let off := lo32 (sweep_off p i) in
      b <- tset (b_buckets st) (m0 + off) (lo32 i);;
      v1 <- add_u32 (lo32 i) 1;;
      b <- tset b (m1 + off) v1;;
      v2 <- add_u32 (lo32 i) 2;;
      b <- tset b (m2 + off) v2;;
      v3 <- add_u32 (lo32 i) 3;;
      b <- tset b (m3 + off) v3;;
      Ok {| b_common := b_common st; b_buckets := b |}
    end
  else Panic.

(* StoreRangeOptBasic: returns the new ix_start *)
Definition basic_store_range_opt (v : variant) (p : basic_params) (d : buf) (mask : N) (st : basic_state) (ix_start ix_end : N)
  : res (N * basic_state) :=
  if ix_start + OPT_BASIC_LOOKAHEAD * 2 <=? ix_end then
    let chunk_count := (ix_end - ix_start) / OPT_BASIC_CHUNK in
    st' <- for_each (fun s c => basic_quad v p d mask s (ix_start + c * OPT_BASIC_CHUNK)) (range 0 chunk_count) (Ok st);;
    Ok (ix_start + chunk_count * OPT_BASIC_CHUNK, st')
  else Ok (ix_start, st).

(* BasicHasher::StoreRange; BulkStoreRange is the same call *)
Definition basic_store_range (v : variant) (p : basic_params) (d : buf) (mask : N) (st : basic_state) (ix_start ix_end : N) : res basic_state :=
  r <- basic_store_range_opt v p d mask st ix_start ix_end;;
  for_each (basic_store p d mask) (range (fst r) ix_end) (Ok (snd r)).
Definition basic_bulk_store_range := basic_store_range.

Definition basic_clone (st : basic_state) : res basic_state :=
  b <- clone_table (b_buckets st);;
  Ok {| b_common := b_common st; b_buckets := b |}.
Definition basic_eqb (a b : basic_state) : bool :=
  common_eqb (b_common a) (b_common b) && table_eqb (b_buckets a) (b_buckets b).

(* ------------------------------------------------------------------------------------------ *)
(* AdvHasher<H5Sub | HQ5Sub | HQ7Sub | H6Sub> *)
Inductive adv_kind := AK_H5 | AK_HQ5 | AK_HQ7 | AK_H6.
(* the fields of H5Sub / H6Sub (unused ones are 0); HQ5Sub and HQ7Sub have no fields *)
Record adv_spec := { ak : adv_kind; f_hash_mask : N; f_hash_shift : N; f_bucket_size : N; f_block_mask : N; f_block_bits : N }.

Definition hash_shift (sp : adv_spec) : N :=
  match ak sp with AK_HQ5 => HQ5_hash_shift | AK_HQ7 => HQ7_hash_shift | _ => f_hash_shift sp end.
Definition bucket_size (sp : adv_spec) : N :=
  match ak sp with AK_HQ5 => HQ5_bucket_size | AK_HQ7 => HQ7_bucket_size | _ => f_bucket_size sp end.
Definition block_bits (sp : adv_spec) : N :=
  match ak sp with AK_HQ5 => HQ5_block_bits | AK_HQ7 => HQ7_block_bits | _ => f_block_bits sp end.
Definition block_mask (sp : adv_spec) : N :=
  match ak sp with AK_HQ5 => HQ5_block_mask | AK_HQ7 => HQ7_block_mask | _ => f_block_mask sp end.
Definition block_size (sp : adv_spec) : N :=
  match ak sp with AK_HQ5 => HQ5_block_size | AK_HQ7 => HQ7_block_size | _ => lo32 (N.shiftl 1 (f_block_bits sp)) end.
Definition get_hash_mask (sp : adv_spec) : N :=
  match ak sp with AK_HQ5 => HQ5_get_hash_mask | AK_HQ7 => HQ7_get_hash_mask | AK_H5 => H5_get_hash_mask | AK_H6 => f_hash_mask sp end.
Definition get_k_hash_mul (sp : adv_spec) : N :=
  match ak sp with AK_H6 => kHashMul64Long | _ => kHashMul32 end.
Definition store_lookahead (sp : adv_spec) : N :=
  match ak sp with AK_HQ5 => HQ5_StoreLookahead | AK_HQ7 => HQ7_StoreLookahead | AK_H5 => H5_StoreLookahead | AK_H6 => H6_StoreLookahead end.

Record adv_state := { a_common : common; a_spec : adv_spec; a_num : table; a_buckets : table }.

(* load_and_mix_word(&data[a..]) *)
Definition load_and_mix_word (sp : adv_spec) (d : buf) (a : N) : res N :=
  match ak sp with
  | AK_H6 => w <- load64 d a;; Ok (lo64 (N.land w (get_hash_mask sp) * get_k_hash_mul sp))      (* wrapping_mul *)
  | _ => w <- load32 d a;; m <- mul_u64 w (get_k_hash_mul sp);; Ok (N.land m (get_hash_mask sp))   (* u64 `*` *)
  end.
(* AdvHasher::HashBytes: (h >> shift) as u32 as usize *)
Definition adv_hash_bytes (sp : adv_spec) (d : buf) (a : N) : res N :=
  h <- load_and_mix_word sp d a;; Ok (lo32 (N.shiftr h (hash_shift sp))).

(* AdvHasher::Store *)
Definition adv_store (d : buf) (mask : N) (st : adv_state) (ix : N) : res adv_state :=
  let sp := a_spec st in
  key <- adv_hash_bytes sp d (N.land ix mask);;
  n <- tget (a_num st) key;;
  let minor_ix := N.land n (block_mask sp) in
  let offset := minor_ix + lo32 (N.shiftl key (block_bits sp)) in      (* (key << block_bits) is u32 *)
  b <- tset (a_buckets st) offset (lo32 ix);;
  nm <- tset (a_num st) key (lo16 (n + 1));;
  Ok {| a_common := a_common st; a_spec := sp; a_num := nm; a_buckets := b |}.

(* the hash of the window starting k bytes into a little-endian word, as the 4-at-a-time paths
   compute it: ((((word >> 8k) & 0xffffffff) * mul) & hash_mask) >> shift *)
Definition mix_window (sp : adv_spec) (w32bits : N) : res N :=
  m <- mul_u64 w32bits (get_k_hash_mul sp);;
  Ok (N.shiftr (N.land m (get_hash_mask sp)) (hash_shift sp)).

(* num_ref = num[mixed]; num[mixed] = num_ref + 1; num_ref &= block_mask *)
Definition bump (sp : adv_spec) (num : table) (mixed : N) : res (table * N) :=
  n <- tget num mixed;;
  nm <- tset num mixed (lo16 (lo32 (n + 1)));;
  Ok (nm, N.land n (block_mask sp)).

(* the common tail of StoreRangeOptBatch / BulkStoreRangeOptMemFetch / Store4Vec4 / StoreEvenVec4:
   four keys, four counter bumps, then four writes of the given positions *)
Definition adv_quad_keys (st : adv_state) (m0 m1 m2 m3 : N) (v0 v1 v2 v3 : N) : res adv_state :=
  let sp := a_spec st in
  r0 <- bump sp (a_num st) m0;;
  r1 <- bump sp (fst r0) m1;;
  r2 <- bump sp (fst r1) m2;;
  r3 <- bump sp (fst r2) m3;;
  let off k r := N.shiftl k (block_bits sp) + snd r in
  b <- tset (a_buckets st) (off m0 r0) (lo32 v0);;
  b <- tset b (off m1 r1) (lo32 v1);;
  b <- tset b (off m2 r2) (lo32 v2);;
  b <- tset b (off m3 r3) (lo32 v3);;
  Ok {| a_common := a_common st; a_spec := sp; a_num := fst r3; a_buckets := b |}.

(* a 7-byte word hashed at byte offsets 0,1,2,3 *)
Definition adv_quad_word (st : adv_state) (word : N) (v0 v1 v2 v3 : N) : res adv_state :=
  let sp := a_spec st in
  m0 <- mix_window sp (N.land word M32);;
  m1 <- mix_window sp (N.land (N.shiftr word 8) M32);;
  m2 <- mix_window sp (N.land (N.shiftr word 16) M32);;
  m3 <- mix_window sp (N.land (N.shiftr word 24) M32);;
  adv_quad_keys st m0 m1 m2 m3 v0 v1 v2 v3.

(* the two assert_eq! on the table lengths *)
Definition adv_lens_ok (st : adv_state) : bool :=
  (tlen (a_num st) =? bucket_size (a_spec st)) &&
  (tlen (a_buckets st) =? bucket_size (a_spec st) * block_size (a_spec st)).

(* one iteration of StoreRangeOptBatch *)
Definition adv_batch_quad (v : variant) (d : buf) (mask : N) (st : adv_state) (ix : N) : res adv_state :=
  let i := N.land ix mask in
  if i + 7 <=? blen d then        (* data[i] .. data[i + 6] *)
    match v with
    | Repaired => adv_quad_word st (le56 d i) ix (ix + 1) (ix + 2) (ix + 3)
    | AsFound => adv_quad_word st (le56 d i) i (i + 1) (i + 2) (i + 3)
    end
  else Panic.

(* StoreRangeOptBatch: returns the new ix_start *)
Definition adv_store_range_opt (v : variant) (d : buf) (mask : N) (st : adv_state) (ix_start ix_end : N) : res (N * adv_state) :=
  let lookahead := store_lookahead (a_spec st) in
  if (ix_start + lookahead * 2 <=? ix_end) && (lookahead =? 4) then
    if adv_lens_ok st then
      let chunk_count := (ix_end - ix_start) / OPT_BATCH_CHUNK in
      st' <- for_each (fun s c => adv_batch_quad v d mask s (ix_start + c * OPT_BATCH_CHUNK)) (range 0 chunk_count) (Ok st);;
      Ok (ix_start + chunk_count * OPT_BATCH_CHUNK, st')
    else Panic
  else Ok (ix_start, st).

(* AdvHasher::StoreRange *)
Definition adv_store_range (v : variant) (d : buf) (mask : N) (st : adv_state) (ix_start ix_end : N) : res adv_state :=
  r <- adv_store_range_opt v d mask st ix_start ix_end;;
  for_each (adv_store d mask) (range (fst r) ix_end) (Ok (snd r)).

(* one 32-position block of BulkStoreRangeOptMemFetch: copy 35 bytes, then eight quads *)
Definition adv_memfetch_block (d : buf) (st : adv_state) (ix_offset : N) : res adv_state :=
  if ix_offset + (MEMFETCH_REG_SIZE + 4 - 1) <=? blen d then
    for_each (fun s q => let i := q * 4 in
                adv_quad_word s (le56 d (ix_offset + i)) (ix_offset + i) (ix_offset + i + 1) (ix_offset + i + 2) (ix_offset + i + 3))
             (range 0 (MEMFETCH_REG_SIZE / 4)) (Ok st)
  else Panic.

Definition adv_bulk_opt_memfetch (d : buf) (mask : N) (st : adv_state) (ix_start ix_end : N) : res (N * adv_state) :=
  let lookahead := store_lookahead (a_spec st) in
  if (mask =? USIZE_MAX) && (ix_start + MEMFETCH_REG_SIZE <? ix_end) && (lookahead =? 4) then
    if adv_lens_ok st then
      let del := (ix_end - ix_start) / MEMFETCH_REG_SIZE in
      st' <- for_each (fun s c => adv_memfetch_block d s (ix_start + c * MEMFETCH_REG_SIZE)) (range 0 del) (Ok st);;
      Ok (ix_start + del * MEMFETCH_REG_SIZE, st')
    else Panic
  else Ok (ix_start, st).

(* AdvHasher::BulkStoreRange *)
Definition adv_bulk_store_range (d : buf) (mask : N) (st : adv_state) (ix_start ix_end : N) : res adv_state :=
  r <- adv_bulk_opt_memfetch d mask st ix_start ix_end;;
  for_each (adv_store d mask) (range (fst r) ix_end) (Ok (snd r)).

(* AdvHasher::Store4Vec4: positions ix, ix+4, ix+8, ix+12 *)
Definition adv_store4vec4 (d : buf) (mask : N) (st : adv_state) (ix : N) : res adv_state :=
  let sp := a_spec st in
  if negb (store_lookahead sp =? 4) then
    for_each (adv_store d mask) [ix; ix + 4; ix + 8; ix + 12] (Ok st)
  else
    let li := N.land ix mask in
    let ui := N.land (ix + 8) mask in
    if (li + 8 <=? blen d) && (ui + 8 <=? blen d) then
      m0 <- mix_window sp (le32 d li);;
      m1 <- mix_window sp (le32 d (li + 4));;
      m2 <- mix_window sp (le32 d ui);;
      m3 <- mix_window sp (le32 d (ui + 4));;
      adv_quad_keys st m0 m1 m2 m3 ix (ix + 4) (ix + 8) (ix + 12)
    else Panic.

(* AdvHasher::StoreEvenVec4: positions ix, ix+2, ix+4, ix+6 *)
Definition adv_store_even_vec4 (d : buf) (mask : N) (st : adv_state) (ix : N) : res adv_state :=
  let sp := a_spec st in
  if negb (store_lookahead sp =? 4) then
    for_each (adv_store d mask) [ix; ix + 2; ix + 4; ix + 6] (Ok st)
  else
    let li := N.land ix mask in
    let hi := N.land (ix + 8) mask in
    if (li + 8 <=? blen d) && (hi + 2 <=? blen d) then
      let lword := le64 d li in
      let hword := le16 d hi in
      m0 <- mix_window sp (N.land lword M32);;
      m1 <- mix_window sp (N.land (N.shiftr lword 16) M32);;
      m2 <- mix_window sp (N.land (N.shiftr lword 32) M32);;
      m3 <- mix_window sp (N.lor (N.shiftl (N.land hword 65535) 16) (N.land (N.shiftr lword 48) 65535));;
      adv_quad_keys st m0 m1 m2 m3 ix (ix + 2) (ix + 4) (ix + 6)
    else Panic.

Definition adv_clone (st : adv_state) : res adv_state :=
  n <- clone_table (a_num st);;
  b <- clone_table (a_buckets st);;
  Ok {| a_common := a_common st; a_spec := a_spec st; a_num := n; a_buckets := b |}.
Definition adv_kind_eqb (a b : adv_kind) : bool :=
  match a, b with AK_H5, AK_H5 | AK_HQ5, AK_HQ5 | AK_HQ7, AK_HQ7 | AK_H6, AK_H6 => true | _, _ => false end.
Definition adv_spec_eqb (a b : adv_spec) : bool :=
  adv_kind_eqb (ak a) (ak b) && (f_hash_mask a =? f_hash_mask b) && (f_hash_shift a =? f_hash_shift b) &&
  (f_bucket_size a =? f_bucket_size b) && (f_block_mask a =? f_block_mask b) && (f_block_bits a =? f_block_bits b).
Definition adv_eqb (a b : adv_state) : bool :=
  common_eqb (a_common a) (a_common b) && adv_spec_eqb (a_spec a) (a_spec b) &&
  table_eqb (a_num a) (a_num b) && table_eqb (a_buckets a) (a_buckets b).

(* ------------------------------------------------------------------------------------------ *)
(* H9 *)
Record h9_state := { h9_common : common; h9_num : table; h9_buckets : table }.
Definition H9_BLOCK_MASK : N := N.shiftl 1 H9_BLOCK_BITS - 1.

Definition h9_hash_bytes (d : buf) (a : N) : res N :=
  w <- load32 d a;; Ok (N.shiftr (lo32 (w * kHashMul32)) (32 - H9_BUCKET_BITS)).

Definition h9_store (d : buf) (mask : N) (st : h9_state) (ix : N) : res h9_state :=
  key <- h9_hash_bytes d (N.land ix mask);;
  n <- tget (h9_num st) key;;
  let minor_ix := N.land n H9_BLOCK_MASK in
  b <- tset (h9_buckets st) (minor_ix + N.shiftl key H9_BLOCK_BITS) (lo32 ix);;
  nm <- tset (h9_num st) key (lo16 (n + 1));;
  Ok {| h9_common := h9_common st; h9_num := nm; h9_buckets := b |}.
Definition h9_store_range (d : buf) (mask : N) (st : h9_state) (ix_start ix_end : N) : res h9_state :=
  for_each (h9_store d mask) (range ix_start ix_end) (Ok st).
Definition h9_bulk_store_range := h9_store_range.
Definition h9_clone (st : h9_state) : res h9_state :=
  n <- clone_table (h9_num st);;
  b <- clone_table (h9_buckets st);;
  Ok {| h9_common := h9_common st; h9_num := n; h9_buckets := b |}.
Definition h9_eqb (a b : h9_state) : bool :=
  common_eqb (h9_common a) (h9_common b) && table_eqb (h9_num a) (h9_num b) && table_eqb (h9_buckets a) (h9_buckets b).

(* ------------------------------------------------------------------------------------------ *)
(* H10 (hash_to_binary_tree.rs) *)
Record h10_state := { t_window_mask : N; t_common : common; t_buckets : table; t_invalid_pos : N; t_forest : table }.

Definition h10_hash_bytes (d : buf) (a : N) : res N :=
  w <- load32 d a;; Ok (N.shiftr (lo32 (w * kHashMul32)) (32 - H10_BUCKET_BITS)).

(* FindMatchLengthWithLimit on two addresses known to have `limit` bytes *)
Fixpoint match_len (d : buf) (a b : N) (limit : nat) : N :=
  match limit with
  | O => 0
  | S l => if byte d a =? byte d b then 1 + match_len d (N.succ a) (N.succ b) l else 0
  end.

Definition left_child (st : h10_state) (pos : N) : N := 2 * N.land pos (t_window_mask st).
Definition right_child (st : h10_state) (pos : N) : N := 2 * N.land pos (t_window_mask st) + 1.

(* the loop of StoreAndFindMatchesH10 with max_length = 128 and no room for matches;
   `depth` is depth_remaining *)
Fixpoint h10_descend (st : h10_state) (d : buf) (mask cur_ix max_backward : N) (forest : table)
         (prev_ix node_left node_right best_len_left best_len_right : N) (depth : nat) : res table :=
  let cur_ix_masked := N.land cur_ix mask in
  let backward := lo64 (cur_ix + (M64 + 1) - prev_ix) in
  let prev_ix_masked := N.land prev_ix mask in
  let stop := f <- tset forest node_left (t_invalid_pos st);; tset f node_right (t_invalid_pos st) in
  match depth with
  | O => stop
  | S depth' =>
    if (backward =? 0) || (max_backward <? backward) then stop
    else
      let cur_len := N.min best_len_left best_len_right in
      let limit := H10_MAX_TREE_COMP_LENGTH - cur_len in
      if (cur_ix_masked + cur_len + limit <=? blen d) && (prev_ix_masked + cur_len + limit <=? blen d) then
        let len := cur_len + match_len d (cur_ix_masked + cur_len) (prev_ix_masked + cur_len) (N.to_nat limit) in
        if N.min H10_MAX_TREE_COMP_LENGTH H10_COMP_CAP <=? len then
          l <- tget forest (left_child st prev_ix);;
          f <- tset forest node_left l;;
          r <- tget f (right_child st prev_ix);;
          tset f node_right r
        else
          a <- rd d (cur_ix_masked + len);;
          b <- rd d (prev_ix_masked + len);;
          if b <? a then
            f <- tset forest node_left (lo32 prev_ix);;
            let nl := right_child st prev_ix in
            p <- tget f nl;;
            h10_descend st d mask cur_ix max_backward f p nl node_right len best_len_right depth'
          else
            f <- tset forest node_right (lo32 prev_ix);;
            let nr := left_child st prev_ix in
            p <- tget f nr;;
            h10_descend st d mask cur_ix max_backward f p node_left nr best_len_left len depth'
      else Panic
  end.

(* H10::Store = StoreAndFindMatchesH10(self, data, ix, mask, 128, window_mask - 15, &mut 0, &mut []) *)
Definition h10_store (d : buf) (mask : N) (st : h10_state) (ix : N) : res h10_state :=
  let max_backward := lo64 (lo64 (t_window_mask st + (M64 + 1) - H10_WINDOW_GAP) + 1) in
  key <- h10_hash_bytes d (N.land ix mask);;
  prev_ix <- tget (t_buckets st) key;;
  b <- tset (t_buckets st) key (lo32 ix);;
  f <- h10_descend st d mask ix max_backward (t_forest st) prev_ix (left_child st ix) (right_child st ix) 0 0
                   (N.to_nat H10_DEPTH);;
  Ok {| t_window_mask := t_window_mask st; t_common := t_common st; t_buckets := b;
        t_invalid_pos := t_invalid_pos st; t_forest := f |}.

Definition h10_bulk_store_range (d : buf) (mask : N) (st : h10_state) (ix_start ix_end : N) : res h10_state :=
  for_each (h10_store d mask) (range ix_start ix_end) (Ok st).

(* H10::StoreRange thins long ranges by design *)
Definition h10_store_range (d : buf) (mask : N) (st : h10_state) (ix_start ix_end : N) : res h10_state :=
  let i := if ix_start + H10_RANGE_TAIL <=? ix_end then ix_end - H10_RANGE_TAIL else ix_start in
  st1 <- (if ix_start + H10_RANGE_THIN_MIN <=? i
          then for_each (h10_store d mask)
                        (map (fun k => ix_start + k * H10_RANGE_STEP) (range 0 ((i - ix_start + (H10_RANGE_STEP - 1)) / H10_RANGE_STEP)))
                        (Ok st)
          else Ok st);;
  for_each (h10_store d mask) (range i ix_end) (Ok st1).

(* clone_with_alloc: the bucket table is `Buckets::new_uninit` (always 1 << BUCKET_BITS entries),
   the forest `allocate(self.forest.len())`; both then `clone_from_slice` *)
Definition h10_clone (st : h10_state) : res h10_state :=
  b <- clone_from_slice (tnew (N.shiftl 1 H10_BUCKET_BITS) 0) (t_buckets st);;
  f <- clone_table (t_forest st);;
  Ok {| t_window_mask := t_window_mask st; t_common := t_common st; t_buckets := b;
        t_invalid_pos := t_invalid_pos st; t_forest := f |}.
Definition h10_eqb (a b : h10_state) : bool :=
  (t_window_mask a =? t_window_mask b) && common_eqb (t_common a) (t_common b) &&
  table_eqb (t_buckets a) (t_buckets b) && (t_invalid_pos a =? t_invalid_pos b) &&
  table_eqb (t_forest a) (t_forest b).
