(* Model of the stream-header logic of src/enc/encode.rs (set_parameter, SanitizeParams,
   ensure_initialized's window choice, EncodeWindowBits, update_size_hint, the dispatch of
   compress_stream to the quality-0/1 fast path) and of src/enc/brotli_bit_stream.rs
   (BrotliWriteMetadataMetaBlock, encode_base_128).  Definitions only; proofs are in
   proofs/Header_proofs.v.  Every constant comes from gen/GenHeader.v (regenerated from /repo).

   The bit writer is modelled as a bit list, least significant bit first: BrotliWriteBits(n, v)
   appends the n low bits of v; JumpToByteBoundary pads with zeros to a multiple of 8. *)
From Coq Require Import NArith ZArith List Bool.
From V Require Import lib.Words gen.GenHeader.
Import ListNotations.
Open Scope N_scope.

Definition nthZ (l : list Z) (i : nat) : Z := nth i l 0%Z.

(* ---- integer casts ---- *)
Definition as_i32 (v : N) : Z :=            (* u32 -> i32 *)
  let v := v mod 2 ^ 32 in if v <? 2 ^ 31 then Z.of_N v else (Z.of_N v - 2 ^ 32)%Z.
Definition as_u32 (z : Z) : N := Z.to_N (z mod 2 ^ 32).   (* i32 -> u32 *)
Definition as_u16 (z : Z) : N := Z.to_N (z mod 2 ^ 16).   (* i32 -> u16 *)

Record params := mkParams {
  quality : Z;            (* i32 *)
  lgwin : Z;              (* i32 *)
  large_window : bool;
  catable : bool;
  appendable : bool;
  use_dictionary : bool;
  magic_number : bool;
  size_hint : N           (* usize *)
}.

Definition init_params : params :=
  mkParams default_quality default_lgwin default_large_window default_catable default_appendable
           default_use_dictionary default_magic_number 0.

(* ---- set_parameter(params, p, value: u32) for the parameters that reach the header ---- *)
Definition set_parameter (p : params) (id value : N) : params * bool :=
  let nz := negb (value =? 0) in
  if id =? BROTLI_PARAM_QUALITY then
    (mkParams (as_i32 value) (lgwin p) (large_window p) (catable p) (appendable p) (use_dictionary p) (magic_number p) (size_hint p), true)
  else if id =? BROTLI_PARAM_LGWIN then
    (mkParams (quality p) (as_i32 value) (large_window p) (catable p) (appendable p) (use_dictionary p) (magic_number p) (size_hint p), true)
  else if id =? BROTLI_PARAM_SIZE_HINT then
    (mkParams (quality p) (lgwin p) (large_window p) (catable p) (appendable p) (use_dictionary p) (magic_number p) (w32 value), true)
  else if id =? BROTLI_PARAM_LARGE_WINDOW then
    (mkParams (quality p) (lgwin p) nz (catable p) (appendable p) (use_dictionary p) (magic_number p) (size_hint p), true)
  else if id =? BROTLI_PARAM_CATABLE then
    (mkParams (quality p) (lgwin p) (large_window p) nz (if appendable p then true else nz) (value =? 0) (magic_number p) (size_hint p), true)
  else if id =? BROTLI_PARAM_APPENDABLE then
    (mkParams (quality p) (lgwin p) (large_window p) (catable p) nz (use_dictionary p) (magic_number p) (size_hint p), true)
  else if id =? BROTLI_PARAM_MAGIC_NUMBER then
    (mkParams (quality p) (lgwin p) (large_window p) (catable p) (appendable p) (use_dictionary p) nz (size_hint p), true)
  else (p, false).

Fixpoint set_parameters (p : params) (l : list (N * N)) : params * bool :=
  match l with
  | [] => (p, true)
  | (id, v) :: t => let '(p', ok) := set_parameter p id v in
                    let '(p'', ok') := set_parameters p' t in (p'', ok && ok')
  end.

(* the calls a C-style client makes (the order used by the harness) *)
Definition client_settings (q lgw : Z) (lw cat app magic : bool) (hint : N) : list (N * N) :=
  [ (BROTLI_PARAM_QUALITY, as_u32 q); (BROTLI_PARAM_LGWIN, as_u32 lgw);
    (BROTLI_PARAM_LARGE_WINDOW, if lw then 1 else 0); (BROTLI_PARAM_CATABLE, if cat then 1 else 0);
    (BROTLI_PARAM_APPENDABLE, if app then 1 else 0); (BROTLI_PARAM_MAGIC_NUMBER, if magic then 1 else 0);
    (BROTLI_PARAM_SIZE_HINT, w32 hint) ].

(* ---- SanitizeParams (check_large_window_ok() = true: feature disallow_large_window_size off) ---- *)
Definition sanitize (p : params) : params :=
  let q := Z.min sanitize_qmax (Z.max sanitize_qmin (quality p)) in
  let lw :=
    if (lgwin p <? nthZ sanitize_lgwin_cmp 0)%Z then nthZ sanitize_lgwin_set 0
    else if (lgwin p >? nthZ sanitize_lgwin_cmp 1)%Z then
      (if large_window p then
         (if (lgwin p >? nthZ sanitize_lgwin_cmp 2)%Z then nthZ sanitize_lgwin_set 1 else lgwin p)
       else nthZ sanitize_lgwin_set 2)
    else lgwin p in
  mkParams q lw (large_window p) (catable p) (if catable p then true else appendable p)
           (use_dictionary p) (magic_number p) (size_hint p).

Definition is_fast_quality (q : Z) : bool := ((q =? nthZ fast_qualities 0) || (q =? nthZ fast_qualities 1))%Z.

(* ensure_initialized: the window written into the header *)
Definition header_lgwin (p : params) : Z :=
  if is_fast_quality (quality p) then Z.max (lgwin p) fast_min_lgwin else lgwin p.

(* ---- EncodeWindowBits(lgwin, large_window) -> (last_bytes : u16, last_bytes_bits : u8) ---- *)
Definition encode_window_bits (lgw : Z) (large : bool) : N * N :=
  let L := nthZ ewb_literals in
  if large then
    (as_u16 (Z.lor (Z.shiftl (Z.land lgw (L 0%nat)) (L 1%nat)) (L 2%nat)), Z.to_N (L 3%nat))
  else if (lgw =? L 4%nat)%Z then (as_u16 (L 5%nat), Z.to_N (L 6%nat))
  else if (lgw =? L 7%nat)%Z then (as_u16 (L 8%nat), Z.to_N (L 9%nat))
  else if (lgw >? L 10%nat)%Z then
    (as_u16 (Z.lor (Z.shiftl (lgw - L 11%nat) (L 12%nat)) (L 13%nat)), Z.to_N (L 14%nat))
  else
    (as_u16 (Z.lor (Z.shiftl (lgw - L 15%nat) (L 16%nat)) (L 17%nat)), Z.to_N (L 18%nat)).

(* ---- bit writer ---- *)
Fixpoint bits_of (n : nat) (v : N) : list bool :=
  match n with O => [] | S n' => N.odd v :: bits_of n' (N.div2 v) end.
Definition write_bits (n v : N) (st : list bool) : list bool := st ++ bits_of (N.to_nat n) v.
Definition jump_to_byte_boundary (st : list bool) : list bool :=
  st ++ repeat false (N.to_nat ((8 - N.of_nat (length st) mod 8) mod 8)).
Definition write_bytes (bs : list N) (st : list bool) : list bool :=
  fold_left (fun s b => write_bits 8 b s) bs st.

(* ---- encode_base_128(value : u64) -> the first `count` bytes of the array ---- *)
Fixpoint encode_base_128_loop (fuel : nat) (value : N) : list N :=
  match fuel with
  | O => []
  | S f =>
    let b := N.land value b128_mask in
    let value' := N.shiftr value b128_shift in
    if negb (value' =? 0) then N.lor b b128_cont :: encode_base_128_loop f value' else [b]
  end.
Definition encode_base_128 (value : N) : list N :=
  encode_base_128_loop (N.to_nat MAX_SIZE_ENCODING) (w64 value).

(* ---- update_size_hint: new params.size_hint, given unprocessed input `delta` and `tail` = available_in ---- *)
Definition update_size_hint (hint delta tail : N) : N :=
  if hint =? 0 then
    let limit := 2 ^ size_hint_limit_log in
    if (limit <=? delta) || (limit <=? tail) || (limit <=? wadd64 delta tail) then limit
    else w32 (wadd64 delta tail)
  else hint.

(* ---- BrotliWriteMetadataMetaBlock(params, storage_ix, storage) ---- *)
Definition magic_bytes (p : params) : list N :=
  if catable p && negb (use_dictionary p) then magic_catable
  else if appendable p then magic_appendable else magic_plain.

Definition write_metadata_block (p : params) (st : list bool) : list bool :=
  let st := fold_left (fun s w => write_bits (fst w) (snd w) s) meta_hdr_writes st in
  let hint := encode_base_128 (size_hint p) in
  let st := write_bits meta_len_nbits (meta_len_base + N.of_nat (length hint)) st in
  let st := jump_to_byte_boundary st in
  let st := write_bytes (magic_bytes p) st in
  let st := write_bits 8 VERSION st in
  write_bytes hint st.

(* ---- compress_stream: quality 0/1 go to compress_stream_fast, which writes no magic block ---- *)
Definition uses_fast_path (p : params) : bool :=
  is_fast_quality (quality p)
  && (if fast_path_requires_not_catable then negb (catable p) else true)
  && (if fast_path_requires_not_magic then negb (magic_number p) else true).

Definition with_size_hint (p : params) (h : N) : params :=
  mkParams (quality p) (lgwin p) (large_window p) (catable p) (appendable p) (use_dictionary p) (magic_number p) h.

(* The first bits of a fresh stream: `p0` as set by the client; `delta`/`tail` = unprocessed
   and still-available input when the first block is encoded. *)
Definition first_bits (p0 : params) (delta tail : N) : list bool :=
  let p := sanitize p0 in
  let '(v, nb) := encode_window_bits (header_lgwin p) (large_window p) in
  let st := write_bits nb v [] in
  if magic_number p && negb (uses_fast_path p)
  then write_metadata_block (with_size_hint p (update_size_hint (size_hint p) delta tail)) st
  else st.

(* pack bits into bytes (zero padded), for comparison with the real output *)
Fixpoint bits_value (l : list bool) : N :=
  match l with [] => 0 | b :: t => (if b then 1 else 0) + 2 * bits_value t end.
Fixpoint pack_bytes (fuel : nat) (l : list bool) : list N :=
  match fuel with
  | O => []
  | S f => match l with
           | [] => []
           | _ => bits_value (firstn 8 l) :: pack_bytes f (skipn 8 l)
           end
  end.
Definition bits_to_bytes (l : list bool) : list N := pack_bytes (length l) l.
