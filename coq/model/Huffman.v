(* Model of src/enc/entropy_encode.rs and of the prefix-code serialisers of
   src/enc/brotli_bit_stream.rs (C17).  Definitions only; proofs are in
   proofs/Huffman_proofs.v.  Tables and thresholds come from gen/GenHuffman.v, regenerated
   from /repo on every check.

   Conventions: Rust slices are lists; every index goes through getA/setA, which return
   `Panic` out of bounds (the Rust bounds check); `u32`/`u16`/`usize` wrapping arithmetic is
   written out with lib/Words.v; `while`/`loop` are recursion on explicit fuel (`OutOfFuel`);
   `for a..b` is `for_range`.  Bit output is the list of bits appended by `BrotliWriteBits`
   (least significant bit of the value first); the byte-array mechanics of `BrotliWriteBits`
   are covered by the correspondence run only. *)
From Coq Require Import NArith ZArith List Bool.
From V Require Import lib.Words gen.GenHuffman.
Import ListNotations.
Open Scope N_scope.

Inductive res (A : Type) : Type := Done (a : A) | Panic | OutOfFuel.
Arguments Done {A} a.
Arguments Panic {A}.
Arguments OutOfFuel {A}.

Definition bind {A B} (r : res A) (f : A -> res B) : res B :=
  match r with Done a => f a | Panic => Panic | OutOfFuel => OutOfFuel end.
Notation "x <- c1 ;; c2" := (bind c1 (fun x => c2)) (at level 61, c1 at next level, right associativity).
Notation "' p <- c1 ;; c2" := (bind c1 (fun x => match x with p => c2 end))
  (at level 61, p pattern, c1 at next level, right associativity).

(* ---- arrays ---- *)
Fixpoint upd {A} (l : list A) (i : nat) (x : A) : list A :=
  match l, i with
  | [], _ => []
  | _ :: t, O => x :: t
  | h :: t, S k => h :: upd t k x
  end.
Definition getA {A} (l : list A) (i : N) : res A :=
  match nth_error l (N.to_nat i) with Some x => Done x | None => Panic end.
(* single traversal: Some (upd l i x) when i < length l, None otherwise *)
Fixpoint upd_opt {A} (l : list A) (i : nat) (x : A) : option (list A) :=
  match l, i with
  | [], _ => None
  | _ :: t, O => Some (x :: t)
  | h :: t, S k => match upd_opt t k x with Some t' => Some (h :: t') | None => None end
  end.
Definition setA {A} (l : list A) (i : N) (x : A) : res (list A) :=
  match upd_opt l (N.to_nat i) x with Some l' => Done l' | None => Panic end.
(* index of type i16/i32 converted with `as usize`: negative values are far out of bounds *)
Definition getZ {A} (l : list A) (z : Z) : res A := if (z <? 0)%Z then Panic else getA l (Z.to_N z).
Definition setZ {A} (l : list A) (z : Z) (x : A) : res (list A) := if (z <? 0)%Z then Panic else setA l (Z.to_N z) x.

Fixpoint for_range {S} (todo : nat) (i : N) (body : N -> S -> res S) (s : S) : res S :=
  match todo with
  | O => Done s
  | S t => s' <- body i s ;; for_range t (i + 1) body s'
  end.
(* for i in a..b *)
Definition for_in {S} (a b : N) (body : N -> S -> res S) (s : S) : res S :=
  for_range (N.to_nat (b - a)) a body s.

Definition i16 (x : N) : Z :=
  let m := x mod 65536 in if m <? 32768 then Z.of_N m else (Z.of_N m - 65536)%Z.
Definition u8_of_Z (z : Z) : N := Z.to_N (z mod 256).
Definition wmul32 (a b : N) : N := w32 (a * b).

(* ---- HuffmanTree ---- *)
Record node := mk_node { total_count_ : N; index_left_ : Z; index_right_or_value_ : Z }.
Definition sentinel : node := mk_node (2 ^ 32 - 1) (-1) (-1).
Definition node0 : node := mk_node 0 0 0.   (* HuffmanTree::default() *)

(* ------------------------------------------------------------------------------------------
   BrotliSetDepth(p0, pool, depth, max_depth) -> bool
   ------------------------------------------------------------------------------------------ *)
(* while level >= 0 && stack[level] == -1 { level -= 1 } *)
Fixpoint pop_levels (fuel : nat) (stack : list Z) (level : Z) : res Z :=
  match fuel with
  | O => OutOfFuel
  | S f =>
    if (0 <=? level)%Z then
      s <- getZ stack level ;;
      if (s =? -1)%Z then pop_levels f stack (level - 1) else Done level
    else Done level
  end.

Fixpoint set_depth_loop (fuel : nat) (pool : list node) (depth : list N) (stack : list Z)
                        (level p max_depth : Z) : res (bool * list N) :=
  match fuel with
  | O => OutOfFuel
  | S f =>
    nd <- getZ pool p ;;
    if (0 <=? index_left_ nd)%Z then
      let level := (level + 1)%Z in
      if (max_depth <? level)%Z then Done (false, depth)
      else
        stack <- setZ stack level (index_right_or_value_ nd) ;;
        set_depth_loop f pool depth stack level (index_left_ nd) max_depth
    else
      depth <- setZ depth (index_right_or_value_ nd) (u8_of_Z level) ;;
      level <- pop_levels 18 stack level ;;
      if (level <? 0)%Z then Done (true, depth)
      else
        p <- getZ stack level ;;
        stack <- setZ stack level (-1)%Z ;;
        set_depth_loop f pool depth stack level p max_depth
  end.

Definition stack0 : list Z := (-1)%Z :: repeat 0%Z 15.
(* every iteration handles one node of the unfolding; a tree over n leaves has 2n-1 nodes and
   the pool has at least that many entries, so 2*|pool|+2 iterations suffice for every pool
   that is a tree; other pools may run out of fuel *)
Definition set_depth (p0 : Z) (pool : list node) (depth : list N) (max_depth : Z) : res (bool * list N) :=
  set_depth_loop (2 * length pool + 2) pool depth stack0 0 p0 max_depth.

(* ------------------------------------------------------------------------------------------
   comparators and SortHuffmanTreeItems
   ------------------------------------------------------------------------------------------ *)
Definition cmp_sort (v0 v1 : node) : bool :=
  if negb (total_count_ v0 =? total_count_ v1) then total_count_ v0 <? total_count_ v1
  else (index_right_or_value_ v1 <? index_right_or_value_ v0)%Z.
Definition cmp_simple (v0 v1 : node) : bool := total_count_ v0 <? total_count_ v1.

(* n < 13:  while cmp(tmp, items[j]) { items[k] = items[j]; k = j; if j-- == 0 { break } } *)
Fixpoint small_inner (fuel : nat) (cmp : node -> node -> bool) (items : list node) (tmp : node)
                     (k j : N) : res (list node * N) :=
  match fuel with
  | O => OutOfFuel
  | S f =>
    x <- getA items j ;;
    if cmp tmp x then
      items <- setA items k x ;;
      if j =? 0 then Done (items, j) else small_inner f cmp items tmp j (j - 1)
    else Done (items, k)
  end.
Definition small_sort (cmp : node -> node -> bool) (items : list node) (n : N) : res (list node) :=
  for_in 1 n (fun i items =>
    tmp <- getA items i ;;
    '(items, k) <- small_inner (S (N.to_nat i)) cmp items tmp i (i - 1) ;;
    setA items k tmp) items.

(* while j >= gap && cmp(tmp, items[j - gap]) { items[j] = items[j - gap]; j -= gap } *)
Fixpoint shell_inner (fuel : nat) (cmp : node -> node -> bool) (items : list node) (tmp : node)
                     (gap j : N) : res (list node * N) :=
  match fuel with
  | O => OutOfFuel
  | S f =>
    if gap <=? j then
      x <- getA items (j - gap) ;;
      if cmp tmp x then
        items <- setA items j x ;;
        shell_inner f cmp items tmp gap (j - gap)
      else Done (items, j)
    else Done (items, j)
  end.
Definition shell_pass (cmp : node -> node -> bool) (items : list node) (n gap : N) : res (list node) :=
  for_in gap n (fun i items =>
    tmp <- getA items i ;;
    '(items, j) <- shell_inner (S (N.to_nat i)) cmp items tmp gap i ;;
    setA items j tmp) items.
(* while g < 6 { gap = gaps[g]; ...; g += 1 } *)
Fixpoint shell_gaps_loop (fuel : nat) (cmp : node -> node -> bool) (items : list node) (n g : N)
  : res (list node) :=
  match fuel with
  | O => OutOfFuel
  | S f =>
    if g <? 6 then
      gap <- getA shell_gaps g ;;
      items <- shell_pass cmp items n gap ;;
      shell_gaps_loop f cmp items n (g + 1)
    else Done items
  end.
Definition sort_items (cmp : node -> node -> bool) (items : list node) (n : N) : res (list node) :=
  if n <? sort_small_threshold then small_sort cmp items n
  else shell_gaps_loop 8 cmp items n
         (if n <? sort_gap_threshold then sort_gap_start_small else sort_gap_start_large).

(* ------------------------------------------------------------------------------------------
   BrotliCreateHuffmanTree(data, length, tree_limit, tree, depth)
   ------------------------------------------------------------------------------------------ *)
(* i = length; while i != 0 { i -= 1; if data[i] != 0 { tree[n] = new(max(data[i], count_limit), -1, i as i16); n += 1 } } *)
Fixpoint collect_leaves (i : nat) (data : list N) (count_limit : N) (pool : list node) (n : N)
  : res (list node * N) :=
  match i with
  | O => Done (pool, n)
  | S i' =>
    x <- getA data (N.of_nat i') ;;
    if negb (x =? 0) then
      pool <- setA pool n (mk_node (N.max x count_limit) (-1) (i16 (N.of_nat i'))) ;;
      collect_leaves i' data count_limit pool (n + 1)
    else collect_leaves i' data count_limit pool n
  end.

(* one pick of the two-queue merge: the smaller of tree[i], tree[j], ties to the leaf queue *)
Definition pick (pool : list node) (i j : N) : res (N * N * N) :=
  ti <- getA pool i ;;
  tj <- getA pool j ;;
  if total_count_ ti <=? total_count_ tj then Done (i, i + 1, j) else Done (j, i, j + 1).

(* k = n - 1; while k != 0 { ...; j_end = 2 * n - k; ...; k -= 1 } *)
Fixpoint merge_loop (k : nat) (n : N) (pool : list node) (i j : N) : res (list node) :=
  match k with
  | O => Done pool
  | S k' =>
    '(lft, i, j) <- pick pool i j ;;
    '(rgt, i, j) <- pick pool i j ;;
    let j_end := 2 * n - N.of_nat k in
    tl <- getA pool lft ;;
    tr <- getA pool rgt ;;
    pool <- setA pool j_end (mk_node (wadd32 (total_count_ tl) (total_count_ tr)) (i16 lft) (i16 rgt)) ;;
    pool <- setA pool (j_end + 1) sentinel ;;
    merge_loop k' n pool i j
  end.

(* the body of the retry loop; the boolean says `break` *)
Definition huffman_attempt (data : list N) (length : N) (tree_limit : Z) (pool : list node)
                           (depth : list N) (count_limit : N) : res (list node * list N * bool) :=
  '(pool, n) <- collect_leaves (N.to_nat length) data count_limit pool 0 ;;
  if n =? 1 then
    t0 <- getA pool 0 ;;
    depth <- setZ depth (index_right_or_value_ t0) 1 ;;
    Done (pool, depth, true)
  else if n =? 0 then
    (* k = 0usize.wrapping_sub(1): the merge loop walks off the end of `tree` *)
    Panic
  else
    pool <- sort_items cmp_sort pool n ;;
    pool <- setA pool n sentinel ;;
    pool <- setA pool (n + 1) sentinel ;;
    pool <- merge_loop (N.to_nat (n - 1)) n pool 0 (n + 1) ;;
    '(ok, depth) <- set_depth (Z.of_N (2 * n - 1)) pool depth tree_limit ;;
    Done (pool, depth, ok).

(* 'break1: loop { ...; count_limit = count_limit.wrapping_mul(2) }.  After 32 doublings
   count_limit is 0 and stays 0, which behaves as count_limit = 1 did: 64 iterations without
   success mean the real loop never ends. *)
Fixpoint create_loop (fuel : nat) (data : list N) (length : N) (tree_limit : Z) (pool : list node)
                     (depth : list N) (count_limit retries : N) : res (list N * list node * N) :=
  match fuel with
  | O => OutOfFuel
  | S f =>
    '(pool, depth, ok) <- huffman_attempt data length tree_limit pool depth count_limit ;;
    if ok then Done (depth, pool, retries)
    else create_loop f data length tree_limit pool depth (wmul32 count_limit 2) (retries + 1)
  end.
(* returns (depth, tree, number of times count_limit was doubled) *)
Definition create_huffman_tree (data : list N) (length : N) (tree_limit : Z) (pool : list node)
                               (depth : list N) : res (list N * list node * N) :=
  create_loop 64 data length tree_limit pool depth 1 0.

(* ------------------------------------------------------------------------------------------
   BrotliReverseBits(num_bits, bits) and BrotliConvertBitDepthsToSymbols(depth, len, bits)
   ------------------------------------------------------------------------------------------ *)
Fixpoint reverse_loop (fuel : nat) (i num_bits retval bits : N) : res N :=
  match fuel with
  | O => OutOfFuel
  | S f =>
    if i <? num_bits then
      let retval := wshl64 retval 4 in
      let bits := N.shiftr bits 4 in
      l <- getA kLut (N.land bits 15) ;;
      reverse_loop f (i + 4) num_bits (N.lor retval l) bits
    else Done retval
  end.
Definition reverse_bits (num_bits bits : N) : res N :=
  l0 <- getA kLut (N.land bits 15) ;;
  r <- reverse_loop 70 4 num_bits l0 bits ;;
  Done (w16 (N.shiftr r (N.land (wsub64 0 num_bits) 3))).

Definition i32_wrap (z : Z) : Z := ((z + 2 ^ 31) mod 2 ^ 32 - 2 ^ 31)%Z.
Definition u16_of_Z (z : Z) : N := Z.to_N (z mod 65536).

(* for i in 1..16 { code = (code + bl_count[i-1] as i32) << 1; next_code[i] = code as u16 }
   `+` on i32 panics on overflow in the dev profile; `<<` wraps *)
Definition next_code_loop (bl_count : list N) : res (list N) :=
  '(nc, _) <- for_in 1 16 (fun i '(nc, code) =>
      c <- getA bl_count (i - 1) ;;
      let s := (code + Z.of_N c)%Z in
      if (2 ^ 31 <=? s)%Z then Panic
      else let code := i32_wrap (s * 2) in
           nc <- setA nc i (u16_of_Z code) ;;
           Done (nc, code)) (repeat 0 16, 0%Z) ;;
  Done nc.

Definition convert_bit_depths_to_symbols (depth : list N) (len : N) (bits : list N) : res (list N) :=
  blc <- for_in 0 len (fun i blc =>
      d <- getA depth i ;;
      c <- getA blc d ;;
      setA blc d (w16 (c + 1))) (repeat 0 16) ;;
  blc <- setA blc 0 0 ;;
  nc <- next_code_loop blc ;;
  '(bits, _) <- for_in 0 len (fun i '(bits, nc) =>
      d <- getA depth i ;;
      if negb (d =? 0) then
        old <- getA nc d ;;
        nc <- setA nc d (w16 (old + 1)) ;;
        r <- reverse_bits d old ;;
        bits <- setA bits i r ;;
        Done (bits, nc)
      else Done (bits, nc)) (bits, nc) ;;
  Done bits.

(* ------------------------------------------------------------------------------------------
   decide_over_rle_use(depth, length) -> (use_rle_for_non_zero, use_rle_for_zero)
   ------------------------------------------------------------------------------------------ *)
(* k = i + 1; while k < length && depth[k] == value { reps += 1; k += 1 } *)
Fixpoint count_run (fuel : nat) (depth : list N) (length value k reps : N) : res N :=
  match fuel with
  | O => OutOfFuel
  | S f =>
    if k <? length then
      d <- getA depth k ;;
      if d =? value then count_run f depth length value (k + 1) (reps + 1) else Done reps
    else Done reps
  end.

Fixpoint decide_loop (fuel : nat) (depth : list N) (length i trz trnz crz crnz : N)
  : res (N * N * N * N) :=
  match fuel with
  | O => OutOfFuel
  | S f =>
    if i <? length then
      value <- getA depth i ;;
      reps <- count_run (S (N.to_nat length)) depth length value (i + 1) 1 ;;
      let '(trz, crz) := if (3 <=? reps) && (value =? 0) then (trz + reps, crz + 1) else (trz, crz) in
      let '(trnz, crnz) := if (4 <=? reps) && negb (value =? 0) then (trnz + reps, crnz + 1) else (trnz, crnz) in
      decide_loop f depth length (i + reps) trz trnz crz crnz
    else Done (trz, trnz, crz, crnz)
  end.
Definition decide_over_rle_use (depth : list N) (length : N) : res (bool * bool) :=
  '(trz, trnz, crz, crnz) <- decide_loop (S (N.to_nat length)) depth length 0 0 0 1 1 ;;
  Done (crnz * 2 <? trnz, crz * 2 <? trz).

(* ------------------------------------------------------------------------------------------
   BrotliWriteHuffmanTree(depth, length, &mut tree_size, tree, extra_bits_data)
   The two output arrays are modelled as one list of (code length symbol, extra bits) pairs,
   tree_size being its length; `cap` is the capacity of the arrays.
   ------------------------------------------------------------------------------------------ *)
Definition rle := list (N * N).
Definition push (cap : N) (out : rle) (v e : N) : res rle :=
  if N.of_nat (length out) <? cap then Done (out ++ [(v, e)]) else Panic.
Fixpoint push_times (k : nat) (cap : N) (out : rle) (v : N) : res rle :=
  match k with O => Done out | S k' => out <- push cap out v 0 ;; push_times k' cap out v end.

(* loop { tree[size] = code; extra[size] = reps & mask; size += 1; reps >>= shift;
          if reps == 0 { break } reps -= 1 }    -- chunk in the order pushed *)
Fixpoint rep_chunk (fuel : nat) (cap size code mask shift reps : N) (chunk : rle) : res rle :=
  match fuel with
  | O => OutOfFuel
  | S f =>
    if size <? cap then
      let chunk := chunk ++ [(code, N.land reps mask)] in
      let reps := N.shiftr reps shift in
      if reps =? 0 then Done chunk else rep_chunk f cap (size + 1) code mask shift (reps - 1) chunk
    else Panic
  end.

Definition write_repetitions (cap : N) (out : rle) (previous_value value repetitions : N) : res rle :=
  '(out, repetitions) <-
     (if negb (previous_value =? value)
      then out <- push cap out value 0 ;; Done (out, wsub64 repetitions (nthN rep_nonzero_consts 3))
      else Done (out, repetitions)) ;;
  '(out, repetitions) <-
     (if repetitions =? nthN rep_nonzero_consts 0
      then out <- push cap out value 0 ;; Done (out, wsub64 repetitions (nthN rep_nonzero_consts 4))
      else Done (out, repetitions)) ;;
  if repetitions <? nthN rep_nonzero_consts 1 then push_times (N.to_nat repetitions) cap out value
  else
    chunk <- rep_chunk 70 cap (N.of_nat (length out)) (nthN rep_nonzero_consts 7) (nthN rep_nonzero_consts 8)
                       (nthN rep_nonzero_consts 9) (wsub64 repetitions (nthN rep_nonzero_consts 5)) [] ;;
    Done (out ++ rev chunk).

Definition write_repetitions_zeros (cap : N) (out : rle) (repetitions : N) : res rle :=
  '(out, repetitions) <-
     (if repetitions =? nthN rep_zero_consts 0
      then out <- push cap out 0 0 ;; Done (out, wsub64 repetitions (nthN rep_zero_consts 3))
      else Done (out, repetitions)) ;;
  if repetitions <? nthN rep_zero_consts 1 then push_times (N.to_nat repetitions) cap out 0
  else
    chunk <- rep_chunk 70 cap (N.of_nat (length out)) (nthN rep_zero_consts 6) (nthN rep_zero_consts 7)
                       (nthN rep_zero_consts 8) (wsub64 repetitions (nthN rep_zero_consts 4)) [] ;;
    Done (out ++ rev chunk).

(* new_length = length minus the trailing zeros *)
Fixpoint trim_loop (todo : nat) (depth : list N) (length i new_length : N) : res N :=
  match todo with
  | O => Done new_length
  | S t =>
    d <- getA depth (wsub64 (wsub64 length i) 1) ;;
    if d =? 0 then trim_loop t depth length (i + 1) (new_length - 1) else Done new_length
  end.

Fixpoint write_loop (fuel : nat) (cap : N) (depth : list N) (new_length : N) (use_nz use_z : bool)
                    (i previous_value : N) (out : rle) : res rle :=
  match fuel with
  | O => OutOfFuel
  | S f =>
    if i <? new_length then
      value <- getA depth i ;;
      reps <- (if (negb (value =? 0) && use_nz) || ((value =? 0) && use_z)
               then count_run (S (N.to_nat new_length)) depth new_length value (i + 1) 1
               else Done 1) ;;
      if value =? 0 then
        out <- write_repetitions_zeros cap out reps ;;
        write_loop f cap depth new_length use_nz use_z (i + reps) previous_value out
      else
        out <- write_repetitions cap out previous_value value reps ;;
        write_loop f cap depth new_length use_nz use_z (i + reps) value out
    else Done out
  end.

Definition write_huffman_tree (depth : list N) (length cap : N) : res rle :=
  new_length <- trim_loop (N.to_nat length) depth length 0 length ;;
  '(use_nz, use_z) <- (if rle_min_length <? length then decide_over_rle_use depth new_length
                       else Done (false, false)) ;;
  write_loop (S (N.to_nat new_length)) cap depth new_length use_nz use_z 0 rle_initial_previous [].

(* ------------------------------------------------------------------------------------------
   BrotliOptimizeHuffmanCountsForRle(length, counts, good_for_rle)
   returns (counts, good_for_rle)
   ------------------------------------------------------------------------------------------ *)
Fixpoint trim_counts (fuel : nat) (counts : list N) (length : N) : res N :=
  match fuel with
  | O => OutOfFuel
  | S f =>
    if negb (length =? 0) then
      c <- getA counts (length - 1) ;;
      if c =? 0 then trim_counts f counts (length - 1) else Done length
    else Done length
  end.

Definition rle_limit3 (a b c : N) : N := wadd32 (w32 (wmul32 256 (wadd32 (wadd32 a b) c)) / 3) 420.

Definition optimize_huffman_counts_for_rle (length : N) (counts good_for_rle : list N)
  : res (list N * list N) :=
  let streak_limit := 1240 in
  nonzero_count <- for_in 0 length (fun i nz => c <- getA counts i ;; Done (if negb (c =? 0) then nz + 1 else nz)) 0 ;;
  if nonzero_count <? 16 then Done (counts, good_for_rle) else
  length <- trim_counts (S (N.to_nat length)) counts length ;;
  if length =? 0 then Done (counts, good_for_rle) else
  '(nonzeros, smallest_nonzero) <- for_in 0 length (fun i '(nz, sm) =>
      c <- getA counts i ;;
      if negb (c =? 0) then Done (nz + 1, if c <? sm then c else sm) else Done (nz, sm)) (0, 2 ^ 30) ;;
  if nonzeros <? 5 then Done (counts, good_for_rle) else
  counts <- (if smallest_nonzero <? 4 then
               let zeros := wsub64 length nonzeros in
               if zeros <? 6 then
                 for_in 1 (wsub64 length 1) (fun i counts =>
                   a <- getA counts (i - 1) ;; b <- getA counts i ;; c <- getA counts (i + 1) ;;
                   if negb (a =? 0) && (b =? 0) && negb (c =? 0) then setA counts i 1 else Done counts) counts
               else Done counts
             else Done counts) ;;
  if nonzeros <? 28 then Done (counts, good_for_rle) else
  let good := repeat 0 (List.length good_for_rle) in
  c0 <- getA counts 0 ;;
  '(good, _, _) <- for_in 0 (length + 1) (fun i '(good, symbol, step) =>
      ci <- (if i =? length then Done 0 else getA counts i) ;;
      if (i =? length) || negb (ci =? symbol) then
        good <- (if ((symbol =? 0) && (5 <=? step)) || (negb (symbol =? 0) && (7 <=? step))
                 then for_in 0 step (fun k good => setA good (wsub64 (wsub64 i k) 1) 1) good
                 else Done good) ;;
        Done (good, (if negb (i =? length) then ci else symbol), 1)
      else Done (good, symbol, wadd64 step 1)) (good, c0, 0) ;;
  c1 <- getA counts 1 ;;
  c2 <- getA counts 2 ;;
  '(counts, _, _, _) <- for_in 0 (length + 1) (fun i '(counts, stride, limit, sum) =>
      brk <- (if i =? length then Done true else
              g <- getA good i ;;
              if negb (g =? 0) then Done true else
              gp <- (if negb (i =? 0) then getA good (wsub64 i 1) else Done 0) ;;
              if negb (i =? 0) && negb (gp =? 0) then Done true else
              ci <- getA counts i ;;
              Done (2 * streak_limit <=? wadd64 (wsub64 (wmul32 256 ci) limit) streak_limit)) ;;
      '(counts, stride, limit, sum) <-
        (if brk then
           counts <- (if (4 <=? stride) || ((3 <=? stride) && (sum =? 0)) then
                        let count := wadd64 sum (stride / 2) / stride in
                        let count := if count =? 0 then 1 else count in
                        let count := if sum =? 0 then 0 else count in
                        for_in 0 stride (fun k counts => setA counts (wsub64 (wsub64 i k) 1) (w32 count)) counts
                      else Done counts) ;;
           limit <- (if i <? wsub64 length 2 then
                       a <- getA counts i ;; b <- getA counts (i + 1) ;; c <- getA counts (i + 2) ;;
                       Done (rle_limit3 a b c)
                     else if i <? length then a <- getA counts i ;; Done (wmul32 256 a)
                     else Done 0) ;;
           Done (counts, 0, limit, 0)
         else Done (counts, stride, limit, sum)) ;;
      let stride := wadd64 stride 1 in
      if negb (i =? length) then
        ci <- getA counts i ;;
        let sum := wadd64 sum ci in
        let limit := if 4 <=? stride then wadd64 (wmul64 256 sum) (stride / 2) / stride else limit in
        let limit := if stride =? 4 then wadd64 limit 120 else limit in
        Done (counts, stride, limit, sum)
      else Done (counts, stride, limit, sum)) (counts, 0, rle_limit3 c0 c1 c2, 0) ;;
  Done (counts, good).

(* ------------------------------------------------------------------------------------------
   bit output
   ------------------------------------------------------------------------------------------ *)
Definition bitlist := list bool.
Fixpoint lsb_bits (n : nat) (v : N) : bitlist :=
  match n with O => [] | S k => N.odd v :: lsb_bits k (N.div2 v) end.
(* BrotliWriteBits(n_bits, bits, ..): assert_eq!(bits >> n_bits, 0); assert!(n_bits <= 56) *)
Definition write_bits (n_bits bits : N) (out : bitlist) : res bitlist :=
  if negb (N.shiftr bits n_bits =? 0) then Panic
  else if 56 <? n_bits then Panic
  else Done (out ++ lsb_bits (N.to_nat n_bits) bits).

(* ---- BrotliStoreHuffmanTreeOfHuffmanTreeToBitMask(num_codes, code_length_bitdepth, ..) ---- *)
Fixpoint codes_to_store_loop (fuel : nat) (cl : list N) (codes_to_store : N) : res N :=
  match fuel with
  | O => OutOfFuel
  | S f =>
    if 0 <? codes_to_store then
      o <- getA kStorageOrder (codes_to_store - 1) ;;
      d <- getA cl o ;;
      if negb (d =? 0) then Done codes_to_store else codes_to_store_loop f cl (codes_to_store - 1)
    else Done codes_to_store
  end.

Definition store_huffman_tree_of_huffman_tree_to_bit_mask (num_codes : N) (cl : list N) (out : bitlist)
  : res bitlist :=
  codes_to_store <- (if 1 <? num_codes then codes_to_store_loop 20 cl 18 else Done 18) ;;
  o0 <- getA kStorageOrder 0 ;; d0 <- getA cl o0 ;;
  skip_some <- (if d0 =? 0 then
                  o1 <- getA kStorageOrder 1 ;; d1 <- getA cl o1 ;;
                  if d1 =? 0 then
                    o2 <- getA kStorageOrder 2 ;; d2 <- getA cl o2 ;;
                    Done (if d2 =? 0 then 3 else 2)
                  else Done 0
                else Done 0) ;;
  out <- write_bits 2 skip_some out ;;
  for_in skip_some codes_to_store (fun i out =>
    o <- getA kStorageOrder i ;;
    l <- getA cl o ;;
    nb <- getA kHuffmanBitLengthHuffmanCodeBitLengths l ;;
    v <- getA kHuffmanBitLengthHuffmanCodeSymbols l ;;
    write_bits nb v out) out.

(* ---- BrotliStoreHuffmanTreeToBitMask ---- *)
Fixpoint store_huffman_tree_to_bit_mask (tree : rle) (cl cl_symbols : list N) (out : bitlist) : res bitlist :=
  match tree with
  | [] => Done out
  | (ix, extra) :: t =>
    nb <- getA cl ix ;;
    v <- getA cl_symbols ix ;;
    out <- write_bits nb v out ;;
    out <- (if ix =? 16 then write_bits 2 extra out
            else if ix =? 17 then write_bits 3 extra out else Done out) ;;
    store_huffman_tree_to_bit_mask t cl cl_symbols out
  end.

(* i = 0; while i < 18 { if hist[i] != 0 { if num_codes == 0 { code = i; num_codes = 1 }
                                           else if num_codes == 1 { num_codes = 2; break } } i += 1 } *)
Fixpoint count_codes (hist : list N) (i num_codes code : N) : N * N :=
  match hist with
  | [] => (num_codes, code)
  | h :: t =>
    if negb (h =? 0) then
      if num_codes =? 0 then count_codes t (i + 1) 1 i
      else if num_codes =? 1 then (2, code)
      else count_codes t (i + 1) num_codes code
    else count_codes t (i + 1) num_codes code
  end.

(* ---- BrotliStoreHuffmanTree(depths, num, tree, storage_ix, storage) ----
   returns (bits, tree, number of count_limit doublings of the code length code's own tree) *)
Definition store_huffman_tree (depths : list N) (num : N) (pool : list node) (out : bitlist)
  : res (bitlist * list node * N) :=
  huffman_tree <- write_huffman_tree depths num 704 ;;
  hist <- for_in 0 (N.of_nat (length huffman_tree)) (fun i hist =>
      '(s, _) <- getA huffman_tree i ;;
      c <- getA hist s ;;
      setA hist s (wadd32 c 1)) (repeat 0 18) ;;
  let '(num_codes, code) := count_codes hist 0 0 0 in
  '(cl, pool, retries) <- create_huffman_tree hist cl_alphabet_size (Z.of_N cl_tree_limit) pool (repeat 0 18) ;;
  cl_symbols <- convert_bit_depths_to_symbols cl 18 (repeat 0 18) ;;
  out <- store_huffman_tree_of_huffman_tree_to_bit_mask num_codes cl out ;;
  cl <- (if num_codes =? 1 then setA cl code 0 else Done cl) ;;
  out <- store_huffman_tree_to_bit_mask huffman_tree cl cl_symbols out ;;
  Done (out, pool, retries).

(* ---- StoreSimpleHuffmanTree(depths, symbols, num_symbols, max_bits, ..) ---- *)
(* for i in 0..num { for j in i+1..num { if depths[symbols[j]] < depths[symbols[i]] { symbols.swap(j, i) } } } *)
Definition sort_symbols_by_depth (depths symbols : list N) (num_symbols : N) : res (list N) :=
  for_in 0 num_symbols (fun i symbols =>
    for_in (i + 1) num_symbols (fun j symbols =>
      sj <- getA symbols j ;; si <- getA symbols i ;;
      dj <- getA depths sj ;; di <- getA depths si ;;
      if dj <? di then symbols <- setA symbols j si ;; setA symbols i sj else Done symbols) symbols) symbols.

Definition write_symbols (k : N) (max_bits : N) (symbols : list N) (out : bitlist) : res bitlist :=
  for_in 0 k (fun i out => s <- getA symbols i ;; write_bits (w8 max_bits) s out) out.

Definition store_simple_huffman_tree (depths symbols : list N) (num_symbols max_bits : N) (out : bitlist)
  : res bitlist :=
  out <- write_bits 2 1 out ;;
  out <- write_bits 2 (wsub64 num_symbols 1) out ;;
  symbols <- sort_symbols_by_depth depths symbols num_symbols ;;
  if num_symbols =? 2 then write_symbols 2 max_bits symbols out
  else if num_symbols =? 3 then write_symbols 3 max_bits symbols out
  else
    out <- write_symbols 4 max_bits symbols out ;;
    s0 <- getA symbols 0 ;;
    d0 <- getA depths s0 ;;
    write_bits 1 (if d0 =? 1 then 1 else 0) out.

(* ---- BuildAndStoreHuffmanTree(histogram, histogram_length, alphabet_size, tree, depth, bits, ..) ---- *)
(* i = 0; while i < histogram_length { if histogram[i] != 0 { if count < 4 { s4[count] = i }
                                         else if count > 4 { break } count += 1 } i += 1 } *)
Fixpoint count_symbols (fuel : nat) (histogram : list N) (histogram_length i count : N) (s4 : list N)
  : res (N * list N) :=
  match fuel with
  | O => OutOfFuel
  | S f =>
    if i <? histogram_length then
      h <- getA histogram i ;;
      if negb (h =? 0) then
        if count <? 4 then
          s4 <- setA s4 count i ;;
          count_symbols f histogram histogram_length (i + 1) (count + 1) s4
        else if 4 <? count then Done (count, s4)
        else count_symbols f histogram histogram_length (i + 1) (count + 1) s4
      else count_symbols f histogram histogram_length (i + 1) count s4
    else Done (count, s4)
  end.

(* max_bits_counter = alphabet_size - 1; while max_bits_counter != 0 { >>= 1; max_bits += 1 } *)
Fixpoint max_bits_loop (fuel : nat) (counter max_bits : N) : res N :=
  match fuel with
  | O => OutOfFuel
  | S f => if negb (counter =? 0) then max_bits_loop f (N.shiftr counter 1) (max_bits + 1) else Done max_bits
  end.

Definition zero_prefix (l : list N) (n : N) : res (list N) :=
  if N.of_nat (length l) <? n then Panic else Done (repeat 0 (N.to_nat n) ++ skipn (N.to_nat n) l).

(* returns (depth, bits, out, tree) *)
Definition build_and_store_huffman_tree (histogram : list N) (histogram_length alphabet_size : N)
    (pool : list node) (depth bits : list N) (out : bitlist) : res (list N * list N * bitlist * list node) :=
  '(count, s4) <- count_symbols (S (N.to_nat histogram_length)) histogram histogram_length 0 0 [0; 0; 0; 0] ;;
  max_bits <- max_bits_loop 70 (wsub64 alphabet_size 1) 0 ;;
  if count <=? 1 then
    out <- write_bits 4 1 out ;;
    s0 <- getA s4 0 ;;
    out <- write_bits (w8 max_bits) s0 out ;;
    depth <- setA depth s0 0 ;;
    bits <- setA bits s0 0 ;;
    Done (depth, bits, out, pool)
  else
    depth <- zero_prefix depth histogram_length ;;
    '(depth, pool, _) <- create_huffman_tree histogram histogram_length (Z.of_N exact_tree_limit) pool depth ;;
    bits <- convert_bit_depths_to_symbols depth histogram_length bits ;;
    if count <=? 4 then
      out <- store_simple_huffman_tree depth s4 count max_bits out ;;
      Done (depth, bits, out, pool)
    else
      '(out, pool, _) <- store_huffman_tree depth histogram_length pool out ;;
      Done (depth, bits, out, pool).

(* ------------------------------------------------------------------------------------------
   BrotliBuildAndStoreHuffmanTreeFast(m, histogram, histogram_total, max_bits, depth, bits, ..)
   ------------------------------------------------------------------------------------------ *)
(* while total != 0 { if histogram[length] != 0 { if count < 4 { symbols[count] = length }
                      count += 1; total -= histogram[length] } length += 1 } *)
Fixpoint fast_scan (fuel : nat) (histogram : list N) (total length count : N) (symbols : list N)
  : res (N * N * list N) :=
  match fuel with
  | O => OutOfFuel
  | S f =>
    if negb (total =? 0) then
      h <- getA histogram length ;;
      if negb (h =? 0) then
        symbols <- (if count <? 4 then setA symbols count length else Done symbols) ;;
        fast_scan f histogram (wsub64 total h) (length + 1) (count + 1) symbols
      else fast_scan f histogram total (length + 1) count symbols
    else Done (length, count, symbols)
  end.

(* l = length; while l != 0 { l -= 1; if histogram[l] != 0 { tree[node_index] = new(
     if histogram[l] >= count_limit { histogram[l] } else { count_limit }, -1, l as i16); node_index += 1 } } *)
Fixpoint fast_collect (l : nat) (histogram : list N) (count_limit : N) (pool : list node) (node_index : N)
  : res (list node * N) :=
  match l with
  | O => Done (pool, node_index)
  | S l' =>
    h <- getA histogram (N.of_nat l') ;;
    if negb (h =? 0) then
      pool <- setA pool (w32 node_index)
                   (mk_node (if count_limit <=? h then h else count_limit) (-1) (i16 (N.of_nat l'))) ;;
      fast_collect l' histogram count_limit pool (wadd32 node_index 1)
    else fast_collect l' histogram count_limit pool node_index
  end.

(* k = n - 1; while k > 0 { ... node_index += 1; k -= 1 }   (i, j: i32; node_index: u32) *)
Fixpoint fast_merge (k : nat) (pool : list node) (i j node_index : N) : res (list node) :=
  match k with
  | O => Done pool
  | S k' =>
    '(lft, i, j) <- pick pool i j ;;
    '(rgt, i, j) <- pick pool i j ;;
    tl <- getA pool lft ;;
    tr <- getA pool rgt ;;
    let tree_ind := wsub32 node_index 1 in
    pool <- setA pool tree_ind (mk_node (wadd32 (total_count_ tl) (total_count_ tr)) (i16 lft) (i16 rgt)) ;;
    pool <- setA pool node_index sentinel ;;
    fast_merge k' pool i j (wadd32 node_index 1)
  end.

Fixpoint fast_loop (fuel : nat) (histogram : list N) (length : N) (pool : list node) (depth : list N)
                   (count_limit retries : N) : res (list N * N) :=
  match fuel with
  | O => OutOfFuel
  | S f =>
    '(pool, n) <- fast_collect (N.to_nat length) histogram count_limit pool 0 ;;
    pool <- sort_items cmp_simple pool n ;;
    pool <- setA pool (wadd32 n 1) sentinel ;;
    pool <- setA pool n sentinel ;;
    pool <- fast_merge (N.to_nat (n - 1)) pool 0 (n + 1) (wadd32 n 2) ;;
    '(ok, depth) <- set_depth (2 * Z.of_N n - 1) pool depth (Z.of_N fast_tree_limit) ;;
    if ok then Done (depth, retries)
    else fast_loop f histogram length pool depth (wmul32 count_limit 2) (retries + 1)
  end.

(* for i in 0..count { for j in i+1..count { if depth[symbols[j]] < depth[symbols[i]] { symbols.swap(j, i) } } } *)
(* while i < length { value = depth[i]; reps = run length; i += reps; ... static code ... } *)
Fixpoint fast_rle_loop (fuel : nat) (depth : list N) (length i previous_value : N) (out : bitlist)
  : res bitlist :=
  match fuel with
  | O => OutOfFuel
  | S f =>
    if i <? length then
      value <- getA depth i ;;
      reps <- count_run (S (N.to_nat length)) depth length value (i + 1) 1 ;;
      let i := i + reps in
      if value =? 0 then
        nb <- getA kZeroRepsDepth reps ;;
        v <- getA kZeroRepsBits reps ;;
        out <- write_bits (w8 nb) v out ;;
        fast_rle_loop f depth length i previous_value out
      else
        nbv <- getA kCodeLengthDepth value ;;
        vv <- getA kCodeLengthBits value ;;
        '(out, reps) <- (if negb (previous_value =? value)
                         then out <- write_bits nbv vv out ;; Done (out, wsub64 reps 1)
                         else Done (out, reps)) ;;
        out <- (if reps <? 3 then
                  for_in 0 reps (fun _ out => write_bits nbv vv out) out
                else
                  let reps := wsub64 reps 3 in
                  nb <- getA kNonZeroRepsDepth reps ;;
                  v <- getA kNonZeroRepsBits reps ;;
                  write_bits (w8 nb) v out) ;;
        fast_rle_loop f depth length i value out
    else Done out
  end.

(* returns (depth, bits, out, retries) *)
Definition build_and_store_huffman_tree_fast (histogram : list N) (histogram_total max_bits : N)
    (depth bits : list N) (out : bitlist) : res (list N * list N * bitlist * N) :=
  '(length, count, symbols) <- fast_scan (S (List.length histogram)) histogram histogram_total 0 0 [0; 0; 0; 0] ;;
  if count <=? 1 then
    out <- write_bits 4 1 out ;;
    s0 <- getA symbols 0 ;;
    out <- write_bits (w8 max_bits) s0 out ;;
    depth <- setA depth s0 0 ;;
    bits <- setA bits s0 0 ;;
    Done (depth, bits, out, 0)
  else
    depth <- zero_prefix depth length ;;
    let pool := repeat node0 (N.to_nat (2 * length + 1)) in
    '(depth, retries) <- fast_loop 64 histogram length pool depth 1 0 ;;
    bits <- convert_bit_depths_to_symbols depth length bits ;;
    if count <=? 4 then
      out <- write_bits 2 1 out ;;
      out <- write_bits 2 (count - 1) out ;;
      symbols <- sort_symbols_by_depth depth symbols count ;;
      if count =? 2 then out <- write_symbols 2 max_bits symbols out ;; Done (depth, bits, out, retries)
      else if count =? 3 then out <- write_symbols 3 max_bits symbols out ;; Done (depth, bits, out, retries)
      else
        out <- write_symbols 4 max_bits symbols out ;;
        s0 <- getA symbols 0 ;;
        d0 <- getA depth s0 ;;
        out <- write_bits 1 (if d0 =? 1 then 1 else 0) out ;;
        Done (depth, bits, out, retries)
    else
      out <- write_bits static_cl_code_nbits static_cl_code_bits out ;;
      out <- fast_rle_loop (S (N.to_nat length)) depth length 0 8 out ;;
      Done (depth, bits, out, retries).
