(* L9 - the compressing reader / writer / copy adapters of src/enc/reader.rs, src/enc/writer.rs and
   src/enc/mod.rs, together with the std <-> Custom{Read,Write} wrappers of
   brotli_decompressor::io_wrappers, over
     (a) an ABSTRACT ENCODER (Section variables [estate], [enc_step], [enc_finished], [enc_more]):
         one call of BrotliEncoderStateStruct::compress_stream is
           enc_step s op (the avail_in bytes at next_in) avail_out = (s', consumed, produced, ok);
     (b) SCRIPTED wrapped streams: a list of per-call behaviours followed by a behaviour that is
         repeated for ever ([s_tail]), so that "a sink that always accepts nothing" is expressible.
   Definitions only (no proofs): the file still extracts and runs when a proof is broken.
   The models follow the code AFTER the two repairs
     3fdd175 (reader: empty buffer -> Ok(0))   b5ff0f7 (copy adapter: zero-length write -> Err);
   whether the two repairs are present, the copy_to_front threshold and the default buffer sizes
   are regenerated from the sources on every check (gen/GenIO.v).  The unrepaired loops are kept
   as [read_unguarded] / [copy_zero_retries] for the refutations. *)
From Coq Require Import NArith List Bool Arith.
From V Require Import gen.GenIO.
Import ListNotations.

Definition byte := N.

(* ------------------------------------------------------------------ results *)

Inductive op := Process | Flush | Finish.

Inductive ioerr :=
| EScript (code : N)        (* an error produced by the wrapped stream, returned unchanged *)
| EInvalidData              (* error_if_invalid_data *)
| EWriteZero                (* error_if_zero_bytes_written *)
| EUnexpectedEof.           (* unexpected_eof_error_constant of the copy adapter *)

(* Panic reasons: 1 = Option::unwrap on None (stored error already taken), 2 = index / subtraction
   out of range, 3 = a failed assert!/assert_eq! of the copy adapter *)
Inductive res (A : Type) :=
| Ok (a : A) | Err (e : ioerr) | Panic (why : N) | OutOfFuel.
Arguments Ok {A} a. Arguments Err {A} e. Arguments Panic {A} why. Arguments OutOfFuel {A}.

(* ------------------------------------------------------------------ scripted wrapped streams *)

Inductive beh := Full | Short (k : nat) | Zero | Interrupted | Fail (e : N).
Record script := { s_list : list beh; s_tail : beh }.

(* what one call on the wrapped std::io stream returned *)
(* sizes in the log are kept in binary: the log is retained for the whole run *)
Inductive ret := RN (n : N) | RInt | RErr (e : N).
Inductive event := EvIO (offered : N) (r : ret) | EvFlush (r : ret).

(* byte strings that only ever grow are kept reversed (cheap to extend when the model runs) *)
Definition grow (acc_rev d : list byte) : list byte := rev_append d acc_rev.
Definition bytes_of (acc_rev : list byte) : list byte := rev_append acc_rev [].   (* = rev acc_rev, linear *)

(* errors the wrapped stream has returned so far, most recent first *)
Fixpoint log_errs (l : list event) : list N :=
  match l with
  | [] => []
  | EvIO _ (RErr e) :: l' => e :: log_errs l'
  | EvFlush (RErr e) :: l' => e :: log_errs l'
  | _ :: l' => log_errs l'
  end.
(* number of zero-length answers to a non-empty write *)
Fixpoint log_zero_writes (l : list event) : nat :=
  match l with
  | [] => 0
  | EvIO o (RN n) :: l' =>
    if N.eqb n 0 && negb (N.eqb o 0) then S (log_zero_writes l') else log_zero_writes l'
  | _ :: l' => log_zero_writes l'
  end.

(* -- the wrapped reader (a std::io::Read), seen through IntoIoReader / IoReaderWrapper, whose
      `read` retries while the inner call fails with ErrorKind::Interrupted *)
Record source := {
  src_rest : list byte;          (* bytes the wrapped reader has not delivered yet *)
  src_taken : list byte;         (* ghost: bytes delivered so far, reversed *)
  src_script : script;
  src_log : list event           (* most recent first *)
}.
Inductive rres := RGot (d : list byte) | RFail (e : N) | RSpin.

Definition read_apply (b : beh) (room : nat) (rest : list byte) : list byte :=
  match b with
  | Full => firstn room rest
  | Short k => firstn (Nat.min k room) rest
  | _ => []
  end.

Fixpoint io_read_go (l : list beh) (tl : beh) (room : nat) (rest taken : list byte) (log : list event)
  : rres * source :=
  let mk l' rest' taken' log' := {| src_rest := rest'; src_taken := taken';
                                    src_script := {| s_list := l'; s_tail := tl |}; src_log := log' |} in
  let finish b l' :=
    match b with
    | Fail e => (RFail e, mk l' rest taken (EvIO (N.of_nat room) (RErr e) :: log))
    | _ => let d := read_apply b room rest in
           (RGot d, mk l' (skipn (length d) rest) (grow taken d) (EvIO (N.of_nat room) (RN (N.of_nat (length d))) :: log))
    end in
  match l with
  | Interrupted :: l' => io_read_go l' tl room rest taken (EvIO (N.of_nat room) RInt :: log)
  | b :: l' => finish b l'
  | [] => match tl with
          | Interrupted => (RSpin, mk [] rest taken log)
          | b => finish b []
          end
  end.
Definition io_read (s : source) (room : nat) : rres * source :=
  io_read_go (s_list (src_script s)) (s_tail (src_script s)) room (src_rest s) (src_taken s) (src_log s).

(* -- the wrapped sink (a std::io::Write), seen through IntoIoWriter / IoWriterWrapper *)
Record sink := {
  k_got : list byte;             (* bytes accepted so far, reversed *)
  k_script : script;
  k_log : list event
}.
Definition sink_bytes (k : sink) : list byte := bytes_of (k_got k).
Inductive wres := WAccept (n : nat) | WFail (e : N) | WSpin.

Definition write_apply (b : beh) (len : nat) : nat :=
  match b with
  | Full => len
  | Short k => Nat.min k len
  | _ => 0
  end.

Fixpoint sink_write_go (l : list beh) (tl : beh) (d : list byte) (got : list byte) (log : list event)
  : wres * sink :=
  let mk l' got' log' := {| k_got := got'; k_script := {| s_list := l'; s_tail := tl |}; k_log := log' |} in
  let finish b l' :=
    match b with
    | Fail e => (WFail e, mk l' got (EvIO (N.of_nat (length d)) (RErr e) :: log))
    | _ => let n := write_apply b (length d) in
           (WAccept n, mk l' (grow got (firstn n d)) (EvIO (N.of_nat (length d)) (RN (N.of_nat n)) :: log))
    end in
  match l with
  | Interrupted :: l' => sink_write_go l' tl d got (EvIO (N.of_nat (length d)) RInt :: log)
  | b :: l' => finish b l'
  | [] => match tl with
          | Interrupted => (WSpin, mk [] got log)
          | b => finish b []
          end
  end.
Definition sink_write (k : sink) (d : list byte) : wres * sink :=
  sink_write_go (s_list (k_script k)) (s_tail (k_script k)) d (k_got k) (k_log k).

(* flush of the wrapped sink: Fail e -> Err e, Interrupted -> retried, anything else -> Ok *)
Fixpoint sink_flush_go (l : list beh) (tl : beh) (got : list byte) (log : list event) : wres * sink :=
  let mk l' log' := {| k_got := got; k_script := {| s_list := l'; s_tail := tl |}; k_log := log' |} in
  let finish b l' :=
    match b with
    | Fail e => (WFail e, mk l' (EvFlush (RErr e) :: log))
    | _ => (WAccept 0, mk l' (EvFlush (RN 0) :: log))
    end in
  match l with
  | Interrupted :: l' => sink_flush_go l' tl got (EvFlush RInt :: log)
  | b :: l' => finish b l'
  | [] => match tl with
          | Interrupted => (WSpin, mk [] log)
          | b => finish b []
          end
  end.
Definition sink_flush (k : sink) : wres * sink :=
  sink_flush_go (s_list (k_script k)) (s_tail (k_script k)) (k_got k) (k_log k).

(* CompressorReader::new / CompressorWriter::new: `if buffer_size == 0 { 4096 } else { buffer_size }` *)
Definition reader_buffer_size (n : nat) : nat := if n =? 0 then IO_READER_DEFAULT_BUFFER else n.
Definition writer_buffer_size (n : nat) : nat := if n =? 0 then IO_WRITER_DEFAULT_BUFFER else n.

(* buffer[pos .. pos+|d|] := d *)
Definition write_at (buf : list byte) (pos : nat) (d : list byte) : list byte :=
  firstn pos buf ++ d ++ skipn (pos + length d) buf.

(* ------------------------------------------------------------------ writer.rs `write_all` *)
(* while !buf.is_empty() { match writer.write(buf) { Ok(n) => if n != 0 { buf = &buf[n..] }
     else if let Some(err) = error_to_return_if_zero_bytes_written() { return Err(err) } else { return Ok(()) },
     Err(e) => return Err(e) } }   Ok(())
   with the closure of `write` / `flush_or_close`:  zero_err.take() or else fallback.take().
   [ez], [ei]: whether error_if_zero_bytes_written / error_if_invalid_data are still Some. *)
Record wa_out := { wa_res : res unit; wa_sink : sink; wa_ez : bool; wa_ei : bool }.

Fixpoint write_all (fuel : nat) (k : sink) (buf : list byte) (ez ei : bool) : wa_out :=
  match fuel with
  | O => {| wa_res := OutOfFuel; wa_sink := k; wa_ez := ez; wa_ei := ei |}
  | S f =>
    match buf with
    | [] => {| wa_res := Ok tt; wa_sink := k; wa_ez := ez; wa_ei := ei |}
    | _ =>
      match sink_write k buf with
      | (WSpin, k') => {| wa_res := OutOfFuel; wa_sink := k'; wa_ez := ez; wa_ei := ei |}
      | (WFail e, k') => {| wa_res := Err (EScript e); wa_sink := k'; wa_ez := ez; wa_ei := ei |}
      | (WAccept n, k') =>
        if n =? 0 then
          if ez then {| wa_res := Err EWriteZero; wa_sink := k'; wa_ez := false; wa_ei := ei |}
          else if ei then {| wa_res := Err EInvalidData; wa_sink := k'; wa_ez := false; wa_ei := false |}
          else {| wa_res := Ok tt; wa_sink := k'; wa_ez := false; wa_ei := false |}   (* swallowed *)
        else if length buf <? n then {| wa_res := Panic 2; wa_sink := k'; wa_ez := ez; wa_ei := ei |}
        else write_all f k' (skipn n buf) ez ei
      end
    end
  end.

Section Adapters.

(* ------------------------------------------------------------------ the abstract encoder *)
Variable estate : Type.
Record eans := { ea_state : estate; ea_consumed : nat; ea_produced : list byte; ea_ok : bool }.
Variable enc_step : estate -> op -> list byte -> nat -> eans.
Variable enc_finished : estate -> bool.     (* is_finished() *)
Variable enc_more : estate -> bool.         (* has_more_output() *)

(* the encoder with two ghost fields: everything it has consumed / produced so far (reversed) *)
Record tenc := { t_st : estate; t_fed : list byte; t_out : list byte }.
Record tans := { ta_enc : tenc; ta_consumed : nat; ta_produced : list byte; ta_ok : bool }.
Definition tstep (t : tenc) (o : op) (inp : list byte) (cap : nat) : tans :=
  let a := enc_step (t_st t) o inp cap in
  {| ta_enc := {| t_st := ea_state a;
                  t_fed := grow (t_fed t) (firstn (ea_consumed a) inp);
                  t_out := grow (t_out t) (ea_produced a) |};
     ta_consumed := ea_consumed a; ta_produced := ea_produced a; ta_ok := ea_ok a |}.
Definition fed (t : tenc) : list byte := bytes_of (t_fed t).
Definition emitted (t : tenc) : list byte := bytes_of (t_out t).

(* ------------------------------------------------------------------ reader.rs *)
Record reader := {
  r_buf : list byte;        (* input_buffer (its length never changes) *)
  r_off : nat;              (* input_offset *)
  r_len : nat;              (* input_len *)
  r_eof : bool;             (* input_eof *)
  r_ei : bool;              (* error_if_invalid_data.is_some() *)
  r_enc : tenc;
  r_src : source
}.
Definition reader_new (staging : nat) (st0 : estate) (src : source) : reader :=
  {| r_buf := repeat 0%N staging; r_off := 0; r_len := 0; r_eof := false; r_ei := true;
     r_enc := {| t_st := st0; t_fed := []; t_out := [] |}; r_src := src |}.

Definition set_buf (r : reader) b off len :=
  {| r_buf := b; r_off := off; r_len := len; r_eof := r_eof r; r_ei := r_ei r; r_enc := r_enc r; r_src := r_src r |}.

(* pub fn copy_to_front; None = `self.input_len - self.input_offset` underflows *)
Definition copy_to_front (r : reader) : option reader :=
  if r_len r <? r_off r then None else
  let avail_in := r_len r - r_off r in
  let n := length (r_buf r) in
  if r_off r =? n then Some (set_buf r (r_buf r) 0 0)
  else if (n <? r_off r + IO_COPY_TO_FRONT_SLACK) && (avail_in <? r_off r) then
    Some (set_buf r (firstn avail_in (skipn (r_off r) (r_buf r)) ++ skipn avail_in (r_buf r)) 0 (r_len r - r_off r))
  else Some r.

(* `if self.input_len < self.input_buffer.len() && !self.input_eof { match self.input.read(..) {..} }`;
   Ok = the new value of the local `avail_in` *)
Definition fill_staging (r : reader) (avail_in : nat) : res nat * reader :=
  let n := length (r_buf r) in
  if (r_len r <? n) && negb (r_eof r) then
    match io_read (r_src r) (n - r_len r) with
    | (RSpin, s') => (OutOfFuel, r)
    | (RFail e, s') =>
      (Err (EScript e),
       {| r_buf := r_buf r; r_off := r_off r; r_len := r_len r; r_eof := r_eof r; r_ei := r_ei r;
          r_enc := r_enc r; r_src := s' |})
    | (RGot d, s') =>
      if length d =? 0 then
        (Ok avail_in,
         {| r_buf := r_buf r; r_off := r_off r; r_len := r_len r; r_eof := true; r_ei := r_ei r;
            r_enc := r_enc r; r_src := s' |})
      else
        let r1 := {| r_buf := write_at (r_buf r) (r_len r) d; r_off := r_off r;
                     r_len := r_len r + length d; r_eof := r_eof r; r_ei := r_ei r;
                     r_enc := r_enc r; r_src := s' |} in
        if r_len r1 <? r_off r1 then (Panic 2, r1) else (Ok (r_len r1 - r_off r1), r1)
    end
  else (Ok avail_in, r).

(* the body of `while output_offset == 0 { .. }`; one unit of fuel per evaluation of the loop
   condition.  [outp] = buf[..output_offset]. *)
Fixpoint read_loop (fuel : nat) (r : reader) (avail_in avail_out : nat) (outp : list byte)
  : res (list byte) * reader :=
  match fuel with
  | O => (OutOfFuel, r)
  | S f =>
    if negb (length outp =? 0) then (Ok outp, r) else
    match fill_staging r avail_in with
    | (Ok avail_in1, r1) =>
      let o := if avail_in1 =? 0 then Finish else Process in
      let a := tstep (r_enc r1) o (firstn avail_in1 (skipn (r_off r1) (r_buf r1))) avail_out in
      let avail_in2 := avail_in1 - ta_consumed a in
      let avail_out2 := avail_out - length (ta_produced a) in
      let outp2 := outp ++ ta_produced a in
      let r2 := {| r_buf := r_buf r1; r_off := r_off r1 + ta_consumed a; r_len := r_len r1; r_eof := r_eof r1;
                   r_ei := r_ei r1; r_enc := ta_enc a; r_src := r_src r1 |} in
      match (if avail_in2 =? 0 then copy_to_front r2 else Some r2) with
      | None => (Panic 2, r2)
      | Some r3 =>
        if negb (ta_ok a) then
          (* return Err(self.error_if_invalid_data.take().unwrap()) *)
          if r_ei r3 then
            (Err EInvalidData,
             {| r_buf := r_buf r3; r_off := r_off r3; r_len := r_len r3; r_eof := r_eof r3; r_ei := false;
                r_enc := r_enc r3; r_src := r_src r3 |})
          else (Panic 1, r3)
        else if enc_finished (t_st (r_enc r3)) then (Ok outp2, r3)
        else read_loop f r3 avail_in2 avail_out2 outp2
      end
    | (Err e, r1) => (Err e, r1)
    | (Panic w, r1) => (Panic w, r1)
    | (OutOfFuel, r1) => (OutOfFuel, r1)
    end
  end.

(* the loop as it stood before repair 3fdd175 *)
Definition read_unguarded (fuel : nat) (r : reader) (buf_len : nat) : res (list byte) * reader :=
  if r_len r <? r_off r then (Panic 2, r) else
  read_loop fuel r (r_len r - r_off r) buf_len [].

(* CustomRead::read for CompressorReaderCustomIo (and CompressorReader::read, which forwards) *)
Definition read (fuel : nat) (r : reader) (buf_len : nat) : res (list byte) * reader :=
  if io_reader_guards_empty_buffer && (buf_len =? 0) then (Ok [], r) else read_unguarded fuel r buf_len.

(* a caller: reads with the buffer sizes [sizes], then with [drain], at most [maxreads] calls;
   stops at end of stream (Ok 0 into a non-empty buffer), at a panic or when out of fuel *)
Fixpoint read_session (fuel : nat) (maxreads : nat) (sizes : list nat) (drain : nat) (r : reader)
  : list (res nat) * reader :=
  match maxreads with
  | O => ([], r)
  | S m =>
    let sz := match sizes with [] => drain | s :: _ => s end in
    let rest := match sizes with [] => [] | _ :: l => l end in
    match read fuel r sz with
    | (Ok d, r') =>
      if (length d =? 0) && negb (sz =? 0) then ([Ok 0], r')
      else let (l, r'') := read_session fuel m rest drain r' in (Ok (length d) :: l, r'')
    | (Err e, r') => let (l, r'') := read_session fuel m rest drain r' in (Err e :: l, r'')
    | (Panic w, r') => ([Panic w], r')
    | (OutOfFuel, r') => ([OutOfFuel], r')
    end
  end.

(* ------------------------------------------------------------------ writer.rs *)
Record writer := {
  w_obuf : nat;             (* output_buffer.len() *)
  w_enc : tenc;
  w_ei : bool;              (* error_if_invalid_data.is_some() *)
  w_ez : bool;              (* error_if_zero_bytes_written.is_some() *)
  w_sink : sink
}.
Definition writer_new (obuf : nat) (st0 : estate) (k : sink) : writer :=
  {| w_obuf := obuf; w_enc := {| t_st := st0; t_fed := []; t_out := [] |}; w_ei := true; w_ez := true; w_sink := k |}.

(* `if output_offset > 0 { match write_all(..) {..} }  if !ret { return Err(take().unwrap()) }`
   shared by `write` and `flush_or_close`.  Some result = the adapter call returns it. *)
Definition hand_over (w : writer) (a : tans) : option (res unit) * writer :=
  let w1 := {| w_obuf := w_obuf w; w_enc := ta_enc a; w_ei := w_ei w; w_ez := w_ez w; w_sink := w_sink w |} in
  let after_write : option (res unit) * writer :=
    if length (ta_produced a) =? 0 then (None, w1) else
    let o := write_all (S (length (ta_produced a))) (w_sink w1) (ta_produced a) (w_ez w1) (w_ei w1) in
    let w2 := {| w_obuf := w_obuf w1; w_enc := w_enc w1; w_ei := wa_ei o; w_ez := wa_ez o; w_sink := wa_sink o |} in
    match wa_res o with
    | Ok _ => (None, w2)
    | r => (Some r, w2)
    end in
  match after_write with
  | (Some r, w2) => (Some r, w2)
  | (None, w2) =>
    if negb (ta_ok a) then
      if w_ei w2 then
        (Some (Err EInvalidData),
         {| w_obuf := w_obuf w2; w_enc := w_enc w2; w_ei := false; w_ez := w_ez w2; w_sink := w_sink w2 |})
      else (Some (Panic 1), w2)
    else (None, w2)
  end.

(* fn write(&mut self, buf): while avail_in != 0 { compress_stream(PROCESS ..); hand over } Ok(buf.len()) *)
Fixpoint write_loop (fuel : nat) (w : writer) (rest : list byte) : res unit * writer :=
  match fuel with
  | O => (OutOfFuel, w)
  | S f =>
    if length rest =? 0 then (Ok tt, w) else
    let a := tstep (w_enc w) Process rest (w_obuf w) in
    match hand_over w a with
    | (Some r, w') => (r, w')
    | (None, w') => write_loop f w' (skipn (ta_consumed a) rest)
    end
  end.
Definition write (fuel : nat) (w : writer) (buf : list byte) : res nat * writer :=
  match write_loop fuel w buf with
  | (Ok _, w') => (Ok (length buf), w')
  | (Err e, w') => (Err e, w')
  | (Panic y, w') => (Panic y, w')
  | (OutOfFuel, w') => (OutOfFuel, w')
  end.

(* fn flush_or_close(&mut self, op) *)
Fixpoint flush_or_close (fuel : nat) (w : writer) (o : op) : res unit * writer :=
  match fuel with
  | O => (OutOfFuel, w)
  | S f =>
    let a := tstep (w_enc w) o [] (w_obuf w) in
    match hand_over w a with
    | (Some r, w') => (r, w')
    | (None, w') =>
      match o with
      | Flush => if enc_more (t_st (w_enc w')) then flush_or_close f w' o else (Ok tt, w')
      | _ => if enc_finished (t_st (w_enc w')) then (Ok tt, w') else flush_or_close f w' o
      end
    end
  end.

(* fn flush(&mut self): flush_or_close(FLUSH)?; self.output.flush() *)
Definition flush (fuel : nat) (w : writer) : res unit * writer :=
  match flush_or_close fuel w Flush with
  | (Ok _, w') =>
    match sink_flush (w_sink w') with
    | (WSpin, k') => (OutOfFuel, w')
    | (WFail e, k') => (Err (EScript e), {| w_obuf := w_obuf w'; w_enc := w_enc w'; w_ei := w_ei w'; w_ez := w_ez w'; w_sink := k' |})
    | (WAccept _, k') => (Ok tt, {| w_obuf := w_obuf w'; w_enc := w_enc w'; w_ei := w_ei w'; w_ez := w_ez w'; w_sink := k' |})
    end
  | r => r
  end.

(* into_inner / Drop: `match self.flush_or_close(FINISH) { Ok(_) => {}, Err(_) => {} }` - the
   result is discarded, only a panic or non-termination shows.  Returns what flush_or_close
   returned as a ghost so that the theorems can speak about the discarded error. *)
Definition close (fuel : nat) (w : writer) : res unit * res unit * writer :=
  match flush_or_close fuel w Finish with
  | (Ok _, w') => (Ok tt, Ok tt, w')
  | (Err e, w') => (Ok tt, Err e, w')
  | (Panic y, w') => (Panic y, Panic y, w')
  | (OutOfFuel, w') => (OutOfFuel, OutOfFuel, w')
  end.

Inductive wop := WWrite (buf : list byte) | WFlush | WClose.
Definition res_forget {A} (r : res A) : res unit :=
  match r with Ok _ => Ok tt | Err e => Err e | Panic y => Panic y | OutOfFuel => OutOfFuel end.
Definition stops {A} (r : res A) : bool := match r with Panic _ | OutOfFuel => true | _ => false end.

(* a caller: the operations in order; the session ends at WClose, at a panic or out of fuel *)
Fixpoint write_session (fuel : nat) (ops : list wop) (w : writer) : list (res unit) * writer :=
  match ops with
  | [] => ([], w)
  | WWrite b :: l =>
    let (r, w') := write fuel w b in
    if stops r then ([res_forget r], w') else
    let (rs, w'') := write_session fuel l w' in (res_forget r :: rs, w'')
  | WFlush :: l =>
    let (r, w') := flush fuel w in
    if stops r then ([r], w') else
    let (rs, w'') := write_session fuel l w' in (r :: rs, w'')
  | WClose :: _ =>
    match close fuel w with (r, _, w') => ([r], w') end
  end.

(* ------------------------------------------------------------------ enc/mod.rs BrotliCompressCustomIoCustomDict *)
Record copier := {
  c_ibuf : list byte;       (* input_buffer *)
  c_obuf : list byte;       (* output_buffer *)
  c_in_off : nat;           (* next_in_offset *)
  c_out_off : nat;          (* next_out_offset *)
  c_avail_in : nat;         (* available_in *)
  c_avail_out : nat;        (* available_out *)
  c_eof : bool;
  c_read_err : option ioerr;  (* read_err *)
  c_total : N;              (* total_out *)
  c_enc : tenc;
  c_src : source;
  c_sink : sink
}.
Definition copier_new (ibuf obuf : nat) (st0 : estate) (src : source) (k : sink) : copier :=
  {| c_ibuf := repeat 0%N ibuf; c_obuf := repeat 0%N obuf; c_in_off := 0; c_out_off := 0;
     c_avail_in := 0; c_avail_out := obuf; c_eof := false; c_read_err := None; c_total := 0%N;
     c_enc := {| t_st := st0; t_fed := []; t_out := [] |}; c_src := src; c_sink := k |}.

Definition set_sink (c : copier) (k : sink) (out_off : nat) : copier :=
  {| c_ibuf := c_ibuf c; c_obuf := c_obuf c; c_in_off := c_in_off c; c_out_off := out_off;
     c_avail_in := c_avail_in c; c_avail_out := c_avail_out c; c_eof := c_eof c; c_read_err := c_read_err c;
     c_total := c_total c; c_enc := c_enc c; c_src := c_src c; c_sink := k |}.

(* `read_err?; return Err(e)` *)
Definition first_err (c : copier) (e : ioerr) : ioerr :=
  match c_read_err c with Some e0 => e0 | None => e end.

(* while next_out_offset < lim { match w.write(&output_buffer[next_out_offset..lim]) {..} }
   [zero_is_error] = true: the repaired code (b5ff0f7); false: the code as it stood *)
Fixpoint copy_drain (zero_is_error : bool) (fuel : nat) (c : copier) (lim : nat) : res unit * copier :=
  match fuel with
  | O => (OutOfFuel, c)
  | S f =>
    if lim <=? c_out_off c then (Ok tt, c) else
    match sink_write (c_sink c) (firstn (lim - c_out_off c) (skipn (c_out_off c) (c_obuf c))) with
    | (WSpin, k') => (OutOfFuel, set_sink c k' (c_out_off c))
    | (WFail e, k') => (Err (first_err c (EScript e)), set_sink c k' (c_out_off c))
    | (WAccept n, k') =>
      if zero_is_error && (n =? 0) then (Err (first_err c EUnexpectedEof), set_sink c k' (c_out_off c))
      else copy_drain zero_is_error f (set_sink c k' (c_out_off c + n)) lim
    end
  end.

(* if available_in == 0 && !eof { next_in_offset = 0; match r.read(input_buffer) {..} }
   (None: the wrapped reader is interrupted for ever) *)
Definition copy_fill (c : copier) : option copier :=
  if (c_avail_in c =? 0) && negb (c_eof c) then
    match io_read (c_src c) (length (c_ibuf c)) with
    | (RSpin, s') => None
    | (RFail e, s') =>
      Some {| c_ibuf := c_ibuf c; c_obuf := c_obuf c; c_in_off := 0; c_out_off := c_out_off c;
              c_avail_in := 0; c_avail_out := c_avail_out c; c_eof := true;
              c_read_err := Some (EScript e); c_total := c_total c; c_enc := c_enc c; c_src := s'; c_sink := c_sink c |}
    | (RGot d, s') =>
      Some {| c_ibuf := write_at (c_ibuf c) 0 d; c_obuf := c_obuf c; c_in_off := 0; c_out_off := c_out_off c;
              c_avail_in := length d; c_avail_out := c_avail_out c;
              c_eof := if length d =? 0 then true else c_eof c;
              c_read_err := c_read_err c; c_total := c_total c; c_enc := c_enc c; c_src := s'; c_sink := c_sink c |}
    end
  else Some c.

(* op = if available_in == 0 { FINISH } else { PROCESS }; s.compress_stream(..) *)
Definition copy_compress (c1 : copier) : copier * bool :=
  let o := if c_avail_in c1 =? 0 then Finish else Process in
  let a := tstep (c_enc c1) o (firstn (c_avail_in c1) (skipn (c_in_off c1) (c_ibuf c1))) (c_avail_out c1) in
  ({| c_ibuf := c_ibuf c1; c_obuf := write_at (c_obuf c1) (c_out_off c1) (ta_produced a);
      c_in_off := c_in_off c1 + ta_consumed a; c_out_off := c_out_off c1 + length (ta_produced a);
      c_avail_in := c_avail_in c1 - ta_consumed a;
      c_avail_out := c_avail_out c1 - length (ta_produced a);
      c_eof := c_eof c1; c_read_err := c_read_err c1;
      c_total := (c_total c1 + N.of_nat (length (ta_produced a)))%N; c_enc := ta_enc a;
      c_src := c_src c1; c_sink := c_sink c1 |}, ta_ok a).

(* if available_out == 0 || fin { .. write the whole output buffer to the sink .. } *)
Definition copy_write_out (zero_is_error : bool) (f : nat) (c2 : copier) (fin : bool) : res unit * copier :=
  if (c_avail_out c2 =? 0) || fin then
    let lim := length (c_obuf c2) - c_avail_out c2 in
    if negb (c_out_off c2 =? lim) then (Panic 3, c2) else
    match copy_drain zero_is_error f (set_sink c2 (c_sink c2) 0) lim with
    | (Ok _, c3) =>
      (Ok tt, {| c_ibuf := c_ibuf c3; c_obuf := c_obuf c3; c_in_off := c_in_off c3; c_out_off := 0;
                 c_avail_in := c_avail_in c3; c_avail_out := length (c_obuf c3); c_eof := c_eof c3;
                 c_read_err := c_read_err c3; c_total := c_total c3; c_enc := c_enc c3;
                 c_src := c_src c3; c_sink := c_sink c3 |})
    | r => r
    end
  else (Ok tt, c2).

Fixpoint copy_loop (zero_is_error : bool) (fuel : nat) (c : copier) : res N * copier :=
  match fuel with
  | O => (OutOfFuel, c)
  | S f =>
    match copy_fill c with
    | None => (OutOfFuel, c)
    | Some c1 =>
      let (c2, ok) := copy_compress c1 in
      let fin := enc_finished (t_st (c_enc c2)) in
      match copy_write_out zero_is_error f c2 fin with
      | (Ok _, c4) =>
        if negb ok then
          (* if read_err.is_ok() { read_err = Err(unexpected_eof_error_constant) } break; read_err? *)
          (Err (first_err c4 EUnexpectedEof), c4)
        else if fin then
          match c_read_err c4 with
          | Some e => (Err e, c4)
          | None => (Ok (c_total c4), c4)
          end
        else copy_loop zero_is_error f c4
      | (Err e, c4) => (Err e, c4)
      | (Panic y, c4) => (Panic y, c4)
      | (OutOfFuel, c4) => (OutOfFuel, c4)
      end
    end
  end.

(* BrotliCompressCustomIo (and BrotliCompress / BrotliCompressCustomAlloc, which forward);
   `assert!(!input_buffer.is_empty()); assert!(!output_buffer.is_empty());` *)
Definition copy (fuel : nat) (c : copier) : res N * copier :=
  if (length (c_ibuf c) =? 0) || (length (c_obuf c) =? 0) then (Panic 3, c) else copy_loop io_copy_zero_write_is_error fuel c.
(* the loop before repair b5ff0f7 *)
Definition copy_zero_retries (fuel : nat) (c : copier) : res N * copier :=
  if (length (c_ibuf c) =? 0) || (length (c_obuf c) =? 0) then (Panic 3, c) else copy_loop false fuel c.

End Adapters.

(* the encoder's state type is always inferable *)
Arguments ea_state {estate}. Arguments ea_consumed {estate}. Arguments ea_produced {estate}. Arguments ea_ok {estate}.
Arguments Build_eans {estate}.
Arguments t_st {estate}. Arguments t_fed {estate}. Arguments t_out {estate}. Arguments Build_tenc {estate}.
Arguments ta_enc {estate}. Arguments ta_consumed {estate}. Arguments ta_produced {estate}. Arguments ta_ok {estate}.
Arguments Build_tans {estate}.
Arguments r_buf {estate}. Arguments r_off {estate}. Arguments r_len {estate}. Arguments r_eof {estate}.
Arguments r_ei {estate}. Arguments r_enc {estate}. Arguments r_src {estate}. Arguments Build_reader {estate}.
Arguments w_obuf {estate}. Arguments w_enc {estate}. Arguments w_ei {estate}. Arguments w_ez {estate}.
Arguments w_sink {estate}. Arguments Build_writer {estate}.
Arguments c_ibuf {estate}. Arguments c_obuf {estate}. Arguments c_in_off {estate}. Arguments c_out_off {estate}.
Arguments c_avail_in {estate}. Arguments c_avail_out {estate}. Arguments c_eof {estate}. Arguments c_read_err {estate}.
Arguments c_total {estate}. Arguments c_enc {estate}. Arguments c_src {estate}. Arguments c_sink {estate}.
Arguments Build_copier {estate}.
Arguments tstep {estate}. Arguments fed {estate}. Arguments emitted {estate}.
Arguments reader_new {estate}. Arguments set_buf {estate}. Arguments copy_to_front {estate}. Arguments fill_staging {estate}.
Arguments read_loop {estate}. Arguments read_unguarded {estate}. Arguments read {estate}. Arguments read_session {estate}.
Arguments writer_new {estate}. Arguments hand_over {estate}. Arguments write_loop {estate}. Arguments write {estate}.
Arguments flush_or_close {estate}. Arguments flush {estate}. Arguments close {estate}. Arguments write_session {estate}.
Arguments copier_new {estate}. Arguments set_sink {estate}. Arguments first_err {estate}.
Arguments copy_drain {estate}. Arguments copy_fill {estate}. Arguments copy_compress {estate}. Arguments copy_write_out {estate}. Arguments copy_loop {estate}. Arguments copy {estate}. Arguments copy_zero_retries {estate}.
