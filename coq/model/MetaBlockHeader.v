(* Model of the meta-block header writers of src/enc/brotli_bit_stream.rs:
     BrotliWriteBits (as a bit list: the n low bits of v, least significant first; its two
       assertions `bits >> n_bits == 0` and `n_bits <= 56` are [None]),
     BrotliEncodeMlen, StoreCompressedMetaBlockHeader, BrotliStoreUncompressedMetaBlockHeader,
     BrotliWriteEmptyLastMetaBlock (with JumpToByteBoundary), StoreVarLenUint8.
   Definitions only. *)
From Coq Require Import NArith List Bool.
From V Require Import lib.Words spec.PrefixCode.
Import ListNotations.
Open Scope N_scope.

Definition wb (n v : N) (out : bits) : option bits :=
  if (N.shiftr v n =? 0) && (n <=? 56) then Some (out ++ N_to_bits (N.to_nat n) v) else None.
Definition obind {A B} (o : option A) (f : A -> option B) : option B := match o with Some a => f a | None => None end.

(* BrotliEncodeMlen: (bits, numbits, nibblesbits); None = one of its assertions fails *)
Definition encode_mlen (length : N) : option (N * N * N) :=
  let lg := if length =? 1 then 1 else log2_floor_nonzero (w32 (length - 1)) + 1 in
  let mnibbles := (if lg <? 16 then 16 else lg + 3) / 4 in
  if (0 <? length) && (length <=? 2 ^ 24) && (lg <=? 24)
  then Some (length - 1, mnibbles * 4, mnibbles - 4) else None.

Definition store_compressed_meta_block_header (is_final : bool) (length : N) (out : bits) : option bits :=
  obind (wb 1 (if is_final then 1 else 0) out) (fun o1 =>
  obind (if is_final then wb 1 0 o1 else Some o1) (fun o2 =>
  obind (encode_mlen length) (fun '(lenbits, nlenbits, nibblesbits) =>
  obind (wb 2 nibblesbits o2) (fun o3 =>
  obind (wb nlenbits lenbits o3) (fun o4 =>
  if is_final then Some o4 else wb 1 0 o4))))).

Definition store_uncompressed_meta_block_header (length : N) (out : bits) : option bits :=
  obind (wb 1 0 out) (fun o1 =>
  obind (encode_mlen length) (fun '(lenbits, nlenbits, nibblesbits) =>
  obind (wb 2 nibblesbits o1) (fun o2 =>
  obind (wb nlenbits lenbits o2) (fun o3 => wb 1 1 o3)))).

(* JumpToByteBoundary: storage_ix = (storage_ix + 7) & !7 -- in a bit list: zeros up to a multiple of 8 *)
Definition jump_to_byte_boundary (out : bits) : bits :=
  out ++ repeat false (Nat.modulo (8 - Nat.modulo (length out) 8) 8).
Definition write_empty_last_meta_block (out : bits) : option bits :=
  obind (wb 1 1 out) (fun o1 => obind (wb 1 1 o1) (fun o2 => Some (jump_to_byte_boundary o2))).

Definition store_var_len_uint8 (n : N) (out : bits) : option bits :=
  if n =? 0 then wb 1 0 out
  else
    let nbits := w8 (log2_floor_nonzero n) in
    obind (wb 1 1 out) (fun o1 => obind (wb 3 nbits o1) (fun o2 => wb nbits (wsub64 n (wshl64 1 nbits)) o2)).

(* ---- BrotliStoreUncompressedMetaBlock for every chunk (header, JumpToByteBoundary, the bytes), then
        the empty last meta-block: the stream body written for stored (incompressible) input ---- *)
Definition bytes_bits (l : list N) : bits := flat_map (fun b => N_to_bits 8 b) l.
Fixpoint store_chunks (chunks : list (list N)) (out : bits) : option bits :=
  match chunks with
  | [] => write_empty_last_meta_block out
  | c :: t => obind (store_uncompressed_meta_block_header (N.of_nat (length c)) out)
                    (fun o1 => store_chunks t (jump_to_byte_boundary o1 ++ bytes_bits c))
  end.
