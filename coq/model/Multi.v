(* C02 / C06 - executable model of multi-threaded compression: src/enc/threading.rs
   (get_range, compress_part, CompressMulti, Owned hand-back, BrotliEncoderThreadError), the part
   of src/enc/encode.rs that decides what a job does with its prefix and with a supplied hasher
   (set_custom_dictionary_with_optional_precomputed_hasher, SanitizeParams), and the three
   spawners (singlethreading.rs: jobs run inside spawn; multithreading.rs: one OS thread per job;
   worker_pool.rs: results keyed by work id, joined by id) as far as CompressMulti can see them.
   Definitions only; proofs in proofs/Multi_proofs.v.

   What is modelled exactly: every usize multiplication / division / subtraction of get_range
   (overflow = Panic in the dev profile, wrap in release), the per-job parameter derivation,
   the truncation of a prefix to the window, which index a job ends up with (built locally /
   built locally and compared with the supplied one under cfg!(debug_assertions) / the supplied
   one taken as is), the ranges CompressMulti stores into the shared hasher, compress_part's
   loop over the results of compress_stream, the stitching loop with every early return, the
   call of finish, the hand-back of the input, and which of the spawner's answers reaches
   which join.

   What is abstract (Section variables): the compressor inside a job (`run_job`: what the k-th
   compress_stream call of a job answers; `job_bytes`: the bytes it left in its buffer), whether
   a supplied index equals the locally built one (`index_agrees`; proofs/Multi_proofs.v ties it
   to the stored ranges through the split law that C19 proves for every hasher kind), and the
   concatenator (`cat_stream`, `cat_finish`: BroCatli::new_brotli_file + stream, and finish).

   `version`: `Repaired` is the code as it is now; the flags name the three `fix:` commits so
   that the statements that were false of the code as found stay provable as `_refuted`. *)
From Coq Require Import NArith ZArith List Bool.
From V Require Import lib.Words gen.GenBound gen.GenMulti model.Bound.
Import ListNotations.
Open Scope N_scope.

(* ------------------------------------------------------------------------------------------ *)
Inductive profile := Dev | Release.

Record version := mkVersion {
  v_finished_check : bool;     (* compress_part: Ok only when is_finished(); refused call = error *)
  v_first_error : bool;        (* stitching loop: the first failed chunk decides; later chunks are skipped *)
  v_join_continue : bool;      (* a failed join / a failed view of the last job no longer returns early *)
  v_contiguous : bool;         (* shared hasher: ranges continue where the previous one ended *)
  v_discard_truncated : bool   (* set_custom_dictionary: supplied hasher dropped when the prefix is cut *)
}.
Definition Repaired : version := mkVersion true true true true true.
Definition AsFound : version := mkVersion false false false false false.
(* what /repo contains now, read off the source by tools/gen_multi.py (gen/GenMulti.v); the
   property files pin `Current = Repaired` *)
Definition Current : version :=
  mkVersion multi_part_requires_finished multi_first_error_decides multi_join_failure_continues
            multi_shared_ranges_contiguous multi_discards_truncated_hasher.

(* ------------------------------------------------------------------------------------------ *)
(* get_range(thread_index, num_threads, file_size):
     ((thread_index * file_size) / num_threads)..(((thread_index + 1) * file_size) / num_threads) *)
Definition mul_usize (pr : profile) (a b : N) : res N :=
  if 2 ^ 64 <=? a * b then (match pr with Dev => Panic | Release => Ok (w64 (a * b)) end) else Ok (a * b).

Definition get_range (pr : profile) (thread_index num_threads file_size : N) : res (N * N) :=
  if num_threads =? 0 then Panic                        (* division by zero *)
  else match mul_usize pr thread_index file_size, mul_usize pr (thread_index + 1) file_size with
       | Ok a, Ok b => Ok (a / num_threads, b / num_threads)
       | _, _ => Panic
       end.

(* ------------------------------------------------------------------------------------------ *)
(* the fields of BrotliEncoderParams that the orchestration reads or writes *)
Record params := mkParams {
  p_quality : Z; p_lgwin : Z; p_large_window : bool;
  p_catable : bool; p_appendable : bool; p_magic : bool; p_favor : bool; p_size_hint : N }.

Definition set_flags (p : params) (catable appendable magic : bool) : params :=
  mkParams (p_quality p) (p_lgwin p) (p_large_window p) catable appendable magic (p_favor p) (p_size_hint p).

Definition sanitize_params (p : params) : params :=
  let q := Z.min MULTI_QUALITY_MAX (Z.max 0 (p_quality p)) in
  let lw := if (p_lgwin p <? MULTI_LGWIN_MIN)%Z then MULTI_LGWIN_MIN
            else if (MULTI_LGWIN_MAX <? p_lgwin p)%Z then
              (if p_large_window p then (if (MULTI_LGWIN_LARGE_MAX <? p_lgwin p)%Z then MULTI_LGWIN_LARGE_MAX else p_lgwin p)
               else MULTI_LGWIN_MAX)
            else p_lgwin p in
  mkParams q lw (p_large_window p) (p_catable p) (p_appendable p || p_catable p) (p_magic p) (p_favor p) (p_size_hint p).

(* compress_part, before the dictionary: later chunks are catable and carry no magic header,
   every chunk is appendable *)
Definition job_pre_params (thread_index : N) (p : params) : params :=
  if thread_index =? 0 then set_flags p (p_catable p) true (p_magic p)
  else set_flags p true true false.

(* which index a job compresses with *)
Inductive hasher_mode :=
  | HFresh      (* no dictionary, nothing supplied: created at first use *)
  | HKept       (* no dictionary (quality 0/1, or a prefix of at most MULTI_DICT_MIN bytes): the supplied one is kept unseen *)
  | HLocal      (* built from the dictionary by the job *)
  | HChecked    (* built by the job and compared with the supplied one: assertion failure if they differ *)
  | HSupplied.  (* the supplied one, taken as is (release profile) *)

Record dict_decision := mkDD {
  dd_params : params;     (* state.params afterwards *)
  dd_custom : bool;       (* custom_dictionary *)
  dd_size : N;            (* bytes of prefix kept = last_flush_pos_ *)
  dd_offset : N;          (* where in the input the kept prefix starts *)
  dd_mode : hasher_mode }.

(* set_custom_dictionary_with_optional_precomputed_hasher(size, &input[..size], hasher) *)
Definition set_custom_dictionary (ver : version) (pr : profile) (p : params) (size : N) (has_opt : bool)
  : dict_decision :=
  let p := sanitize_params p in
  if (size =? 0) || (p_quality p =? 0)%Z || (p_quality p =? 1)%Z || (size <=? MULTI_DICT_MIN) then
    mkDD (set_flags p true true (p_magic p)) false 0 0 (if has_opt then HKept else HFresh)
  else
    let max_dict_size := 2 ^ (Z.to_N (p_lgwin p)) - MULTI_DICT_GAP in
    let truncated := max_dict_size <? size in
    let dict_size := if truncated then max_dict_size else size in
    let has_opt' := has_opt && negb (truncated && v_discard_truncated ver) in
    mkDD p true dict_size (size - dict_size)
         (if has_opt' then (match pr with Dev => HChecked | Release => HSupplied end) else HLocal).

(* ------------------------------------------------------------------------------------------ *)
(* the ranges CompressMulti stores into the shared hasher (favor_cpu_efficiency), in order.
   `shared_step` is one round of the `for thread_index in 1..num_threads` loop, looking at the
   range of job thread_index - 1; `hashed_to` is the repaired code's cursor. *)
Definition shared_step (ver : version) (ov : N) (rng : N * N) (hashed_to : N) : option (N * N) * N :=
  let '(s, e) := rng in
  if v_contiguous ver then
    if (ov <? e) && (hashed_to <? e - ov) then (Some (hashed_to, e - ov), e - ov) else (None, hashed_to)
  else
    if ov <? e - s then (Some ((if ov <? s then s - ov else 0), e - ov), hashed_to) else (None, hashed_to).

(* ranges stored before job `upto` is spawned: rounds 1 .. upto *)
Fixpoint shared_ranges_from (ver : version) (pr : profile) (ov t n : N) (j : N) (rounds : nat) (hashed_to : N)
  : res (list (N * N)) :=
  match rounds with
  | O => Ok []
  | S r =>
    match get_range pr j t n with
    | Panic => Panic
    | Ok rng =>
      let '(piece, h') := shared_step ver ov rng hashed_to in
      match shared_ranges_from ver pr ov t n (j + 1) r h' with
      | Panic => Panic
      | Ok rest => Ok (match piece with Some x => x :: rest | None => rest end)
      end
    end
  end.
Definition shared_ranges (ver : version) (pr : profile) (ov t n upto : N) : res (list (N * N)) :=
  shared_ranges_from ver pr ov t n 0 (N.to_nat upto) 0.

(* ------------------------------------------------------------------------------------------ *)
(* what CompressMulti hands to spawn / to the last job *)
Record job_input := mkJI {
  ji_index : N; ji_threads : N; ji_len : N;            (* thread_index, num_threads, input length *)
  ji_params : params;                                  (* the caller's params (cloned into the pair) *)
  ji_supplied : option (list (N * N)) }.               (* ranges in the supplied hasher; None = UnionHasher::Uninit *)

(* what compress_part has decided when it enters its loop *)
Record job_plan := mkPlan {
  jp_start : N; jp_end : N;       (* the chunk *)
  jp_cap : N;                     (* BrotliEncoderMaxCompressedSize(end - start): the job's buffer *)
  jp_pre : params;                (* params after the thread_index overrides *)
  jp_dict : dict_decision }.

Definition plan_job (ver : version) (pr : profile) (ji : job_input) : res job_plan :=
  match get_range pr (ji_index ji) (ji_threads ji) (ji_len ji) with
  | Panic => Panic
  | Ok (s, e) =>
    if e <? s then Panic        (* `range.end - range.start` (only after a wrapped product) *)
    else match max_compressed_size (e - s) with
    | Panic => Panic
    | Ok cap =>
      let pre := job_pre_params (ji_index ji) (ji_params ji) in
      let dd := if ji_index ji =? 0
                then mkDD pre false 0 0 HFresh    (* set_custom_dictionary is not called *)
                else set_custom_dictionary ver pr pre s (match ji_supplied ji with Some _ => true | None => false end) in
      Ok (mkPlan s e cap pre dd)
    end
  end.

(* ------------------------------------------------------------------------------------------ *)
Inductive cat_result := CSuccess | CNeedsMoreInput | CNeedsMoreOutput | CError (code : N).

Inductive thread_error :=
  | InsufficientOutputSpace
  | ConcatenationDidNotProcessFullFile
  | ConcatenationError (c : cat_result)
  | ConcatenationFinalizationError (c : cat_result)
  | OtherThreadPanic
  | ThreadExecError.

Inductive job_result := JROk (chunk : list N) | JRErr (e : thread_error).
Inductive job_exec := JPanicked | JHung | JReturned (r : job_result).

(* one answer of compress_stream(FINISH, ..) inside compress_part *)
Record call_outcome := mkCall { co_result : bool; co_avail_out : N; co_out_offset : N; co_finished : bool }.

Inductive spawner_kind := Inline | ThreadPerJob | Pool.

(* what the environment does: which spawner, how the pool numbers and completes the jobs, and
   the faults a spawner may answer with *)
Record sched := mkSched {
  s_kind : spawner_kind;
  s_base : N;                 (* Pool: cur_work_id when the first job is spawned (0 on a fresh pool) *)
  s_done : list N;            (* Pool: the order in which the spawned jobs (by index) deliver their results *)
  s_join_fail : option N;     (* the join of this job answers Err (injected by a spawner) *)
  s_view_fail : N;            (* the k-th view() of the shared input answers Err; 0 = never *)
  s_unwrap_ok : bool }.       (* the final unwrap() of the shared input answers Ok *)

Inductive join_res := JoinErr (e : thread_error) | ViewErr | Joined (r : job_result).

Inductive result := ROk (n : N) | RErr (e : thread_error).
Definition is_ok (r : result) : bool := match r with ROk _ => true | RErr _ => false end.

Record returned := mkRet { r_result : result; r_out : list N; r_back : bool }.
Inductive outcome := OPanic | OHang | OReturned (r : returned).

Definition lenN {A} (l : list A) : N := N.of_nat (length l).

Section Model.
  (* the compressor inside a job *)
  Variable run_job : job_input -> job_plan -> N -> call_outcome.   (* answer of the k-th call, k = 0, 1, .. *)
  Variable job_bytes : job_input -> job_plan -> list N.            (* the job's buffer afterwards *)
  Variable index_agrees : job_input -> job_plan -> bool.           (* supplied index == locally built index *)
  (* the concatenator: new_brotli_file + stream(chunk, out, cap) and finish(out, cap); `out` is
     everything written so far (stream takes one byte back after a header) *)
  Variable cstate : Type.
  Variable cat_init : cstate.
  Variable cat_stream : cstate -> list N -> list N -> N -> cat_result * cstate * list N.
  Variable cat_finish : cstate -> list N -> N -> cat_result * list N.

  Variable ver : version.
  Variable pr : profile.

  (* compress_part's loop: `fuel` calls at most *)
  Fixpoint part_loop (ji : job_input) (pl : job_plan) (fuel : nat) (k : N) : option job_result :=
    match fuel with
    | O => None
    | S f =>
      let c := run_job ji pl k in
      if v_finished_check ver then
        if co_result c && co_finished c then Some (JROk (firstn (N.to_nat (co_out_offset c)) (job_bytes ji pl)))
        else if negb (co_result c) || (co_avail_out c =? 0) then Some (JRErr InsufficientOutputSpace)
        else part_loop ji pl f (k + 1)
      else
        if co_result c then Some (JROk (firstn (N.to_nat (co_out_offset c)) (job_bytes ji pl)))
        else if co_avail_out c =? 0 then Some (JRErr InsufficientOutputSpace)
        else part_loop ji pl f (k + 1)
    end.

  Definition compress_part (fuel : nat) (ji : job_input) : job_exec :=
    match plan_job ver pr ji with
    | Panic => JPanicked
    | Ok pl =>
      match dd_mode (jp_dict pl) with
      | HChecked => if index_agrees ji pl then
                      match part_loop ji pl fuel 0 with Some r => JReturned r | None => JHung end
                    else JPanicked          (* debug_assert!(orig_hasher == self.hasher_) *)
      | _ => match part_loop ji pl fuel 0 with Some r => JReturned r | None => JHung end
      end
    end.

  (* ---------------------------------------------------------------------------------------- *)
  (* the stitching loop; the state is (compression_result, output so far, concatenator).  The
     joins happen inside the loop, in index order: `None` is a join that never returns. *)
  Record sstate := mkS { ss_res : result; ss_out : list N; ss_cat : cstate }.
  Inductive sflow := Continue (s : sstate) | EarlyReturn (e : thread_error) | Stuck.

  Definition set_err (s : sstate) (e : thread_error) : sstate :=
    if v_first_error ver then (if is_ok (ss_res s) then mkS (RErr e) (ss_out s) (ss_cat s) else s)
    else mkS (RErr e) (ss_out s) (ss_cat s).

  Definition stitch_chunk (cap : N) (s : sstate) (chunk : list N) : sstate :=
    if v_first_error ver && negb (is_ok (ss_res s)) then s      (* only released *)
    else
      let '(r, c', out') := cat_stream (ss_cat s) chunk (ss_out s) cap in
      let res := match r with
                 | CSuccess | CNeedsMoreInput => ROk (lenN out')
                 | CNeedsMoreOutput => RErr InsufficientOutputSpace
                 | CError _ => RErr (ConcatenationError r)
                 end in
      mkS res out' c'.

  Definition stitch_one (cap : N) (s : sstate) (j : join_res) : sflow :=
    match j with
    | ViewErr => if v_join_continue ver then Continue (set_err s OtherThreadPanic) else EarlyReturn OtherThreadPanic
    | JoinErr e => if v_join_continue ver then Continue (set_err s e) else EarlyReturn e
    | Joined (JROk chunk) => Continue (stitch_chunk cap s chunk)
    | Joined (JRErr e) => Continue (set_err s e)
    end.

  Fixpoint stitch_loop (cap : N) (s : sstate) (js : list (option join_res)) : sflow :=
    match js with
    | [] => Continue s
    | None :: _ => Stuck
    | Some j :: rest => match stitch_one cap s j with
                        | Continue s' => stitch_loop cap s' rest
                        | other => other
                        end
    end.

  Definition stitch_init : sstate :=
    mkS (if v_first_error ver then ROk 0 else RErr InsufficientOutputSpace) [] cat_init.

  (* after the loop: finish, then the hand-back *)
  Definition finish_and_hand_back (cap : N) (unwrap_ok : bool) (s : sstate) : returned :=
    let '(res, out) :=
      if is_ok (ss_res s) then
        let '(r, out') := cat_finish (ss_cat s) (ss_out s) cap in
        match r with
        | CSuccess => (ROk (lenN out'), out')
        | _ => (RErr (ConcatenationFinalizationError r), out')
        end
      else (ss_res s, ss_out s) in
    if unwrap_ok then mkRet res out true
    else mkRet (if is_ok res then RErr OtherThreadPanic else res) out false.

  Definition stitch (cap : N) (unwrap_ok : bool) (js : list (option join_res)) : outcome :=
    match stitch_loop cap stitch_init js with
    | Stuck => OHang
    | EarlyReturn e => OReturned (mkRet (RErr e) [] false)      (* the input stays inside the spawner *)
    | Continue s => OReturned (finish_and_hand_back cap unwrap_ok s)
    end.

  (* ---------------------------------------------------------------------------------------- *)
  (* CompressMulti *)
  Fixpoint job_inputs_from (favor : bool) (ov : N) (p : params) (t n : N) (k : nat) (i : N) : res (list job_input) :=
    match k with
    | O => Ok []
    | S k' =>
      match (if favor && negb (i =? 0) then
               match shared_ranges ver pr ov t n i with Ok l => Ok (Some l) | Panic => Panic end
             else Ok None) with
      | Panic => Panic
      | Ok sup => match job_inputs_from favor ov p t n k' (i + 1) with
                  | Panic => Panic
                  | Ok rest => Ok (mkJI i t n p sup :: rest)
                  end
      end
    end.
  Definition job_inputs (ov : N) (p : params) (t n : N) : res (list job_input) :=
    job_inputs_from ((1 <? t) && p_favor p) ov p t n (N.to_nat t) 0.

  (* the result store of the worker pool: (work id, result) in the order of completion;
     join(id) takes the first entry with that id *)
  Definition pool_store (sc : sched) (execs : list job_exec) : list (N * job_exec) :=
    map (fun k => (s_base sc + k, nth (N.to_nat k) execs JHung)) (s_done sc).
  Fixpoint store_find (id : N) (st : list (N * job_exec)) : option job_exec :=
    match st with
    | [] => None
    | (i, e) :: rest => if i =? id then Some e else store_find id rest
    end.

  (* what join() of spawned job i answers: None = the call does not return *)
  Definition join_spawned (sc : sched) (execs : list job_exec) (i : N) : option join_res :=
    let answered :=
      match s_kind sc with
      | Inline | ThreadPerJob => Some (nth (N.to_nat i) execs JHung)
      | Pool => store_find (s_base sc + i) (pool_store sc execs)
      end in
    match answered with
    | None => None
    | Some JHung => None
    | Some JPanicked =>
      match s_kind sc with
      | ThreadPerJob => Some (JoinErr ThreadExecError)   (* the thread unwound: join answers Err(payload) *)
      | _ => None    (* Inline: handled at spawn; Pool: the worker died with the job, no result ever arrives *)
      end
    | Some (JReturned r) =>
      if (match s_join_fail sc with Some k => k =? i | None => false end) then Some (JoinErr OtherThreadPanic)
      else Some (Joined r)
    end.

  Definition joins (sc : sched) (execs : list job_exec) (count : nat) : list (option join_res) :=
    map (fun i => join_spawned sc execs (N.of_nat i)) (seq 0 count).

  Definition view_fails (sc : sched) (k : N) : bool := negb (s_view_fail sc =? 0) && (s_view_fail sc =? k).
  (* does one of the views 1..k fail? *)
  Definition view_fails_upto (sc : sched) (k : N) : bool :=
    negb (s_view_fail sc =? 0) && (s_view_fail sc <=? k).

  (* jobs run by an inline spawner execute inside spawn, in order: the first one that does not
     return decides *)
  Fixpoint inline_first_bad (l : list job_exec) : option outcome :=
    match l with
    | [] => None
    | JPanicked :: _ => Some OPanic
    | JHung :: _ => Some OHang
    | JReturned _ :: rest => inline_first_bad rest
    end.

  (* owned = the caller's Owned holds the input (otherwise `unwrap` panics at once) *)
  Definition compress_multi (fuel : nat) (ov : N) (sc : sched) (p : params) (t n : N) (owned : bool) (cap : N)
    : outcome :=
    if (t =? 0) || negb owned then OPanic
    else if (match s_kind sc with Pool => (1 <? t) && (MULTI_MAX_THREADS <? t) | _ => false end) then OPanic  (* assert!(num_threads <= MAX_THREADS) *)
    else
      let favor := (1 <? t) && p_favor p in
      match job_inputs ov p t n with
      | Panic => OPanic                       (* get_range overflowed while the shared hasher was filled *)
      | Ok jis =>
        let execs := map (compress_part fuel) jis in
        let spawned := firstn (N.to_nat (t - 1)) execs in
        let last := nth (N.to_nat (t - 1)) execs JHung in
        let inline_bad (upto : N) :=
          match s_kind sc with Inline => inline_first_bad (firstn (N.to_nat upto) spawned) | _ => None end in
        (* the favor loop looks at the input once per later job (view k precedes the spawn of
           job k); a failed view returns at once, leaving the jobs spawned so far behind *)
        if favor && view_fails_upto sc (t - 1) then
          match inline_bad (s_view_fail sc) with
          | Some o => o
          | None => OReturned (mkRet (RErr OtherThreadPanic) [] false)
          end
        else
          match inline_bad (t - 1) with
          | Some o => o
          | None =>
            let last_view := if favor then t else 1 in
            if view_fails sc last_view then
              stitch cap (s_unwrap_ok sc) (joins sc spawned (N.to_nat (t - 1)) ++ [Some ViewErr])
            else
              match last with
              | JPanicked => OPanic          (* unwinds through CompressMulti *)
              | JHung => OHang
              | JReturned r => stitch cap (s_unwrap_ok sc) (joins sc spawned (N.to_nat (t - 1)) ++ [Some (Joined r)])
              end
          end
      end.
End Model.
