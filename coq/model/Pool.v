(* Model of src/enc/fixed_queue.rs (FixedQueue, verbatim) and of src/enc/worker_pool.rs
   (WorkerPool / WorkQueue / do_work / spawn / WorkerJoinable::join / Drop) as a labelled
   transition system whose atomic steps are the critical sections of worker_pool.rs.
   Definitions only; proofs are in proofs/Pool_proofs.v.  MAX_THREADS, the `<=` of spawn's
   back-pressure test and the initial WorkQueue come from gen/GenPool.v (regenerated from
   /repo on every check).

   usize = u64 is assumed (x86_64).  Every `+`, `+=`, `-=` on usize/u64 of the two files is
   modelled with the debug-build overflow check (explicit Panic); the theorems show that
   the checks cannot fire on the stated domain, so the release build (wrapping) agrees. *)
From Coq Require Import NArith List Bool.
From V Require Import lib.Words gen.GenPool spec.PoolSpec.
Import ListNotations.
Open Scope N_scope.

Inductive panic :=
| PAddOverflow            (* `attempt to add with overflow` *)
| PSubOverflow            (* `attempt to subtract with overflow` *)
| PAssertIsNone           (* fixed_queue.rs: assert!(is_none.is_none()) *)
| PUnwrapJobsPush         (* worker_pool.rs spawn: jobs.push(..).unwrap() on Err *)
| PUnwrapResultsPush      (* worker_pool.rs do_work: results.push(ret).unwrap() on Err *)
| PJoinUnwrap.            (* worker_pool.rs drop: th.join().unwrap() on a worker that panicked *)

Inductive res (A : Type) := Ok (a : A) | Panic (why : panic).
Arguments Ok {A} a.
Arguments Panic {A} why.

Definition USIZE_MAX : N := 2 ^ 64 - 1.
Definition uadd (a b : N) : option N := if a + b <=? USIZE_MAX then Some (a + b) else None.
Definition usub (a b : N) : option N := if b <=? a then Some (a - b) else None.

Fixpoint set_nth {A : Type} (l : list A) (n : nat) (x : A) : list A :=
  match l, n with
  | [], _ => []
  | _ :: t, O => x :: t
  | h :: t, S n' => h :: set_nth t n' x
  end.

(* ------------------------------------------------------------------------------------ *)
(* FixedQueue<T>: data: [Option<T>; MAX_THREADS], size: usize, start: usize              *)
(* ------------------------------------------------------------------------------------ *)
Section FixedQueue.
  Variable T : Type.

  Record fq := mkfq { fq_data : list (option T); fq_size : N; fq_start : N }.

  (* self.data.len(): the array type fixes it to MAX_THREADS *)
  Definition DLEN : N := MAX_THREADS.

  Definition slot (d : list (option T)) (i : N) : option T := nth (N.to_nat i) d None.
  Definition put (d : list (option T)) (i : N) (x : option T) : list (option T) := set_nth d (N.to_nat i) x.

  (* FixedQueue::new *)
  Definition fq_new : fq := mkfq (repeat None (N.to_nat FQ_NEW_NONES)) FQ_NEW_SIZE FQ_NEW_START.

  Definition fq_can_push (q : fq) : bool := fq_size q <? DLEN.
  Definition fq_sz (q : fq) : N := fq_size q.

  (* push: Ok(()) = true, Err(()) = false *)
  Definition fq_push (q : fq) (item : T) : res (bool * fq) :=
    if fq_size q =? DLEN then Ok (false, q)
    else match uadd (fq_start q) (fq_size q) with
         | None => Panic PAddOverflow
         | Some ss =>
           let index := ss mod DLEN in
           let data := put (fq_data q) index (Some item) in
           match uadd (fq_size q) 1 with
           | None => Panic PAddOverflow
           | Some sz => Ok (true, mkfq data sz (fq_start q))
           end
         end.

  Definition fq_pop (q : fq) : res (option T * fq) :=
    if fq_size q =? 0 then Ok (None, q)
    else
      let index := fq_start q mod DLEN in
      let ret := slot (fq_data q) index in                (* self.data[index].take() *)
      let data := put (fq_data q) index None in
      match uadd (fq_start q) 1 with
      | None => Panic PAddOverflow
      | Some st =>
        match usub (fq_size q) 1 with
        | None => Panic PSubOverflow
        | Some sz => Ok (ret, mkfq data sz st)
        end
      end.

  Definition fq_how_much_free_space (q : fq) : res N :=
    match usub DLEN (fq_size q) with Some v => Ok v | None => Panic PSubOverflow end.

  (* remove: `for index in 0..self.size` on explicit fuel (= size - index) *)
  Fixpoint fq_remove_loop (f : option T -> bool) (q : fq) (index : N) (fuel : nat) : res (option T * fq) :=
    match fuel with
    | O => Ok (None, q)
    | S fuel' =>
      match uadd (fq_start q) index with
      | None => Panic PAddOverflow
      | Some si =>
        if f (slot (fq_data q) (si mod DLEN)) then
          let start_index := fq_start q mod DLEN in
          let target_index := si mod DLEN in
          let ret := slot (fq_data q) target_index in                 (* data[target].take() *)
          let d1 := put (fq_data q) target_index None in
          let replace := slot d1 start_index in                       (* data[start].take() *)
          let d2 := put d1 start_index None in
          let is_none := slot d2 target_index in                      (* mem::replace(&mut data[target], replace) *)
          let d3 := put d2 target_index replace in
          match is_none with
          | Some _ => Panic PAssertIsNone
          | None =>
            match uadd (fq_start q) 1 with
            | None => Panic PAddOverflow
            | Some st =>
              match usub (fq_size q) 1 with
              | None => Panic PSubOverflow
              | Some sz => Ok (ret, mkfq d3 sz st)
              end
            end
          end
        else fq_remove_loop f q (index + 1) fuel'
      end
    end.

  Definition fq_remove (f : option T -> bool) (q : fq) : res (option T * fq) :=
    if fq_size q =? 0 then Ok (None, q)
    else fq_remove_loop f q 0 (N.to_nat (fq_size q)).
End FixedQueue.

Arguments mkfq {T}.
Arguments fq_data {T}.
Arguments fq_size {T}.
Arguments fq_start {T}.
Arguments fq_new {T}.
Arguments fq_push {T}.
Arguments fq_pop {T}.
Arguments fq_remove {T}.
Arguments fq_remove_loop {T}.
Arguments fq_sz {T}.
Arguments fq_can_push {T}.
Arguments fq_how_much_free_space {T}.
Arguments slot {T}.
Arguments put {T}.

(* operation sequences on the queue, with the operation / answer alphabet of spec/PoolSpec.v *)
Definition fq_step {T : Type} (q : fq T) (o : qop T) : res (qans T * fq T) :=
  match o with
  | QPush x => match fq_push q x with Panic p => Panic p | Ok (b, q') => Ok (APush b, q') end
  | QPop => match fq_pop q with Panic p => Panic p | Ok (r, q') => Ok (APop r, q') end
  | QRemove f => match fq_remove f q with Panic p => Panic p | Ok (r, q') => Ok (ARemove r, q') end
  | QSize => Ok (ASize (fq_sz q), q)
  | QCanPush => Ok (ACan (fq_can_push q), q)
  | QFree => match fq_how_much_free_space q with Panic p => Panic p | Ok n => Ok (AFree n, q) end
  end.

Fixpoint fq_run {T : Type} (q : fq T) (ops : list (qop T)) : res (list (qans T)) :=
  match ops with
  | [] => Ok []
  | o :: r =>
    match fq_step q o with
    | Panic p => Panic p
    | Ok (a, q') => match fq_run q' r with Panic p => Panic p | Ok l => Ok (a :: l) end
    end
  end.

(* ------------------------------------------------------------------------------------ *)
(* The pool                                                                              *)
(* ------------------------------------------------------------------------------------ *)

(* JobRequest: func/extra_input/index/thread_size/alloc are the opaque payload `j_arg`;
   `data: Arc<RwLock<U>>` is the clone of the spawner Arc `j_arc` (ghost: which Arc). *)
Record job := mkjob { j_id : N; j_arg : N; j_arc : N }.
(* JobReply *)
Record reply := mkreply { r_id : N; r_val : N }.

(* WorkQueue *)
Record workq := mkwq {
  jobs : fq job;
  results : fq reply;
  shutdown : bool;
  immediate_shutdown : bool;
  num_in_progress : N;
  cur_work_id : N
}.

Definition wq_default : workq :=
  mkwq fq_new fq_new WQ_INIT_shutdown WQ_INIT_immediate_shutdown WQ_INIT_num_in_progress WQ_INIT_cur_work_id.

(* program counter of a worker thread (do_work) *)
Inductive wpc :=
| WTop                           (* at `lock.lock()` at the top of the loop *)
| WWaiting                       (* inside cvar.wait (in `waiters` = not yet notified) *)
| WHolding (j : job)             (* popped a job, lock released, job body not yet run *)
| WRan (j : job) (v : N)         (* job body returned v; possible_job (the Arc clone) still alive *)
| WDropped (id : N) (v : N)      (* possible_job dropped; at the second `lock.lock()` *)
| WExited                        (* left the loop (break) *)
| WKilled.                       (* unwound out of a panicking job body *)

(* program counter of the submitting thread *)
Inductive spc :=
| SIdle                          (* between pool operations *)
| SSpawnWait (arg : N)           (* inside spawn's cvar.wait *)
| SJoinWait (w : N)              (* inside join's cvar.wait *)
| SReaping (k : nat)             (* in Drop: about to join worker k's thread *)
| SDone.                         (* pool dropped *)

(* thread ids: 0 = submitter, S i = worker i *)
Definition tid := nat.

Record pstate := mkps {
  wq : workq;                    (* the Mutex-protected WorkQueue *)
  wpcs : list wpc;
  sub : spc;
  waiters : list tid;            (* threads blocked in cvar.wait and not notified *)
  (* ghost *)
  lock_owner : option tid;       (* None between atomic steps: every step is a whole critical section *)
  executed : list N;             (* work ids whose job body ran (multiset) *)
  strong : N -> N;               (* strong count of each spawner Arc<RwLock<U>> *)
  spawned : list job;            (* every job ever submitted, newest first *)
  batch_n : N;                   (* spawns since the last make_spawner *)
  (* submitter-local *)
  handles : list N;              (* WorkerJoinable handles held *)
  cur_arc : option N;            (* FinalJoinHandle held *)
  next_arc : N;
  joined : list (N * N);         (* (work id, value returned by its join) *)
  unwraps : list (N * bool * bool); (* (arc, were all join handles consumed, did try_unwrap succeed) *)
  n_notify : N                   (* ghost: number of notify_all calls so far (observation only) *)
}.

Definition set_wq (s : pstate) (x : workq) : pstate :=
  mkps x (wpcs s) (sub s) (waiters s) (lock_owner s) (executed s) (strong s) (spawned s) (batch_n s)
       (handles s) (cur_arc s) (next_arc s) (joined s) (unwraps s) (n_notify s).
Definition set_wpcs (s : pstate) (x : list wpc) : pstate :=
  mkps (wq s) x (sub s) (waiters s) (lock_owner s) (executed s) (strong s) (spawned s) (batch_n s)
       (handles s) (cur_arc s) (next_arc s) (joined s) (unwraps s) (n_notify s).
Definition set_sub (s : pstate) (x : spc) : pstate :=
  mkps (wq s) (wpcs s) x (waiters s) (lock_owner s) (executed s) (strong s) (spawned s) (batch_n s)
       (handles s) (cur_arc s) (next_arc s) (joined s) (unwraps s) (n_notify s).
Definition set_waiters (s : pstate) (x : list tid) : pstate :=
  mkps (wq s) (wpcs s) (sub s) x (lock_owner s) (executed s) (strong s) (spawned s) (batch_n s)
       (handles s) (cur_arc s) (next_arc s) (joined s) (unwraps s) (n_notify s).
Definition set_executed (s : pstate) (x : list N) : pstate :=
  mkps (wq s) (wpcs s) (sub s) (waiters s) (lock_owner s) x (strong s) (spawned s) (batch_n s)
       (handles s) (cur_arc s) (next_arc s) (joined s) (unwraps s) (n_notify s).
Definition set_strong (s : pstate) (x : N -> N) : pstate :=
  mkps (wq s) (wpcs s) (sub s) (waiters s) (lock_owner s) (executed s) x (spawned s) (batch_n s)
       (handles s) (cur_arc s) (next_arc s) (joined s) (unwraps s) (n_notify s).
Definition set_spawned (s : pstate) (x : list job) (b : N) : pstate :=
  mkps (wq s) (wpcs s) (sub s) (waiters s) (lock_owner s) (executed s) (strong s) x b
       (handles s) (cur_arc s) (next_arc s) (joined s) (unwraps s) (n_notify s).
Definition set_handles (s : pstate) (x : list N) : pstate :=
  mkps (wq s) (wpcs s) (sub s) (waiters s) (lock_owner s) (executed s) (strong s) (spawned s) (batch_n s)
       x (cur_arc s) (next_arc s) (joined s) (unwraps s) (n_notify s).
Definition set_arc (s : pstate) (x : option N) (nx : N) : pstate :=
  mkps (wq s) (wpcs s) (sub s) (waiters s) (lock_owner s) (executed s) (strong s) (spawned s) (batch_n s)
       (handles s) x nx (joined s) (unwraps s) (n_notify s).
Definition set_joined (s : pstate) (x : list (N * N)) : pstate :=
  mkps (wq s) (wpcs s) (sub s) (waiters s) (lock_owner s) (executed s) (strong s) (spawned s) (batch_n s)
       (handles s) (cur_arc s) (next_arc s) x (unwraps s) (n_notify s).
Definition set_unwraps (s : pstate) (x : list (N * bool * bool)) : pstate :=
  mkps (wq s) (wpcs s) (sub s) (waiters s) (lock_owner s) (executed s) (strong s) (spawned s) (batch_n s)
       (handles s) (cur_arc s) (next_arc s) (joined s) x (n_notify s).

Definition set_wpc (s : pstate) (i : nat) (pc : wpc) : pstate := set_wpcs s (set_nth (wpcs s) i pc).

Definition upd (f : N -> N) (a v : N) : N -> N := fun x => if x =? a then v else f x.

(* cvar.notify_all(): every waiter becomes runnable *)
Definition notify_all (s : pstate) : pstate :=
  mkps (wq s) (wpcs s) (sub s) [] (lock_owner s) (executed s) (strong s) (spawned s) (batch_n s)
       (handles s) (cur_arc s) (next_arc s) (joined s) (unwraps s) (n_notify s + 1).
(* cvar.wait(guard): the thread joins the waiter set (and releases the lock) *)
Definition wait (s : pstate) (t : tid) : pstate := set_waiters s (t :: waiters s).

Definition mem_nat (t : nat) (l : list nat) : bool := existsb (Nat.eqb t) l.
Definition mem_N (t : N) (l : list N) : bool := existsb (N.eqb t) l.
Fixpoint remove_nat (t : nat) (l : list nat) : list nat :=
  match l with [] => [] | h :: r => if Nat.eqb t h then remove_nat t r else h :: remove_nat t r end.
(* removes the first occurrence *)
Fixpoint remove_N (t : N) (l : list N) : list N :=
  match l with [] => [] | h :: r => if t =? h then r else h :: remove_N t r end.

(* WorkerPool::new(num_threads): the first worker is started unconditionally, worker k
   (1 <= k <= 15) iff k < num_threads *)
Definition pool_workers (num_threads : N) : nat :=
  N.to_nat (N.max 1 (N.min num_threads MAX_THREADS)).

Definition init (nworkers : nat) : pstate :=
  mkps wq_default (repeat WTop nworkers) SIdle [] None [] (fun _ => 0) [] 0 [] None 0 [] [] 0.

Definition pool_new (num_threads : N) : pstate := init (pool_workers num_threads).

Inductive move :=
| MWorker (i : nat)      (* worker i performs its next atomic step *)
| MBegin                 (* submitter: make_spawner (a fresh Arc<RwLock<U>>) *)
| MSpawn (arg : N)       (* submitter: spawn's critical section (first attempt, or re-check after a wake-up) *)
| MJoin (w : N)          (* submitter: join's critical section on handle w (first attempt or re-check) *)
| MUnwrap                (* submitter: OwnedRetriever::unwrap = Arc::try_unwrap of the spawner *)
| MDrop                  (* submitter: the critical section of Drop for WorkerPool *)
| MReap                  (* submitter: th.join().unwrap() of the next worker in Drop's loop *)
| MSpurious (t : tid).   (* a spurious wake-up of thread t *)

Section Pool.
  (* the job bodies: value computed from the payload, and whether the body returns at all
     (false = it panics, which kills the worker thread) *)
  Variable jf : N -> N.
  Variable job_ok : N -> bool.

  Definition outstanding_res (q : workq) : res N :=
    match uadd (fq_sz (jobs q)) (num_in_progress q) with
    | None => Panic PAddOverflow
    | Some a => match uadd a (fq_sz (results q)) with None => Panic PAddOverflow | Some b => Ok b end
    end.

  (* ---- do_work ---- *)
  Definition worker_top (s : pstate) (i : nat) : res pstate :=
    let q := wq s in
    if immediate_shutdown q then Ok (set_wpc s i WExited)
    else
      match fq_pop (jobs q) with
      | Panic p => Panic p
      | Ok (Some j, jobs') =>
        (* cvar.notify_all(); num_in_progress += 1; res *)
        match uadd (num_in_progress q) 1 with
        | None => Panic PAddOverflow
        | Some nip =>
          let q' := mkwq jobs' (results q) (shutdown q) (immediate_shutdown q) nip (cur_work_id q) in
          Ok (set_wpc (notify_all (set_wq s q')) i (WHolding j))
        end
      | Ok (None, jobs') =>
        let q' := mkwq jobs' (results q) (shutdown q) (immediate_shutdown q) (num_in_progress q) (cur_work_id q) in
        if shutdown q then Ok (set_wpc (set_wq s q') i WExited)
        else Ok (set_wpc (wait (set_wq s q') (S i)) i WWaiting)
      end.

  Definition worker_publish (s : pstate) (i : nat) (id v : N) : res pstate :=
    let q := wq s in
    match usub (num_in_progress q) 1 with
    | None => Panic PSubOverflow
    | Some nip =>
      match fq_push (results q) (mkreply id v) with
      | Panic p => Panic p
      | Ok (false, _) => Panic PUnwrapResultsPush
      | Ok (true, results') =>
        let q' := mkwq (jobs q) results' (shutdown q) (immediate_shutdown q) nip (cur_work_id q) in
        Ok (set_wpc (notify_all (set_wq s q')) i WTop)
      end
    end.

  Definition lock_free (s : pstate) : bool := match lock_owner s with None => true | Some _ => false end.

  Definition worker_step (s : pstate) (i : nat) : option (res pstate) :=
    match nth_error (wpcs s) i with
    | None => None
    | Some WTop => if lock_free s then Some (worker_top s i) else None
    | Some WWaiting =>
      (* wait returns (re-acquiring the lock), the guard is dropped, `continue` *)
      if mem_nat (S i) (waiters s) then None
      else if lock_free s then Some (Ok (set_wpc s i WTop)) else None
    | Some (WHolding j) =>
      if job_ok (j_arg j) then
        Some (Ok (set_wpc (set_executed s (j_id j :: executed s)) i (WRan j (jf (j_arg j)))))
      else
        (* the body panics: unwinding drops possible_job, the thread dies, num_in_progress stays *)
        Some (Ok (set_wpc (set_strong (set_executed s (j_id j :: executed s))
                                      (upd (strong s) (j_arc j) (strong s (j_arc j) - 1))) i WKilled))
    | Some (WRan j v) =>
      Some (Ok (set_wpc (set_strong s (upd (strong s) (j_arc j) (strong s (j_arc j) - 1))) i (WDropped (j_id j) v)))
    | Some (WDropped id v) => if lock_free s then Some (worker_publish s i id v) else None
    | Some WExited => None
    | Some WKilled => None
    end.

  (* ---- BatchSpawnableLite::make_spawner ---- *)
  Definition sub_begin (s : pstate) : option (res pstate) :=
    match sub s, cur_arc s with
    | SIdle, None =>
      let a := next_arc s in
      Some (Ok (set_spawned (set_arc (set_strong s (upd (strong s) a 1)) (Some a) (a + 1)) (spawned s) 0))
    | _, _ => None
    end.

  (* ---- BatchSpawnableLite::spawn ---- *)
  Definition spawn_cs (s : pstate) (arg a : N) : res pstate :=
    let q := wq s in
    match outstanding_res q with
    | Panic p => Panic p
    | Ok o =>
      if (if spawn_admits_equal then o <=? MAX_THREADS else o <? MAX_THREADS) then
        let work_id := cur_work_id q in
        match uadd (cur_work_id q) 1 with
        | None => Panic PAddOverflow
        | Some cur' =>
          let j := mkjob work_id arg a in                  (* data: locked_input.clone() *)
          match fq_push (jobs q) j with
          | Panic p => Panic p
          | Ok (false, _) => Panic PUnwrapJobsPush
          | Ok (true, jobs') =>
            let q' := mkwq jobs' (results q) (shutdown q) (immediate_shutdown q) (num_in_progress q) cur' in
            let s1 := set_strong (set_wq s q') (upd (strong s) a (strong s a + 1)) in
            let s2 := set_handles (set_spawned s1 (j :: spawned s) (batch_n s + 1)) (work_id :: handles s) in
            Ok (set_sub (notify_all s2) SIdle)
          end
        end
      else Ok (set_sub (wait s 0%nat) (SSpawnWait arg))
    end.

  Definition sub_spawn (s : pstate) (arg : N) : option (res pstate) :=
    match cur_arc s with
    | None => None
    | Some a =>
      match sub s with
      | SIdle => if lock_free s then Some (spawn_cs s arg a) else None
      | SSpawnWait arg' =>
        if (arg' =? arg) && negb (mem_nat 0%nat (waiters s)) && lock_free s then Some (spawn_cs s arg a) else None
      | _ => None
      end
    end.

  (* ---- WorkerJoinable::join ---- *)
  Definition is_reply_for (w : N) (o : option reply) : bool :=
    match o with Some r => r_id r =? w | None => false end.

  Definition join_cs (s : pstate) (w : N) : res pstate :=
    let q := wq s in
    match fq_remove (is_reply_for w) (results q) with
    | Panic p => Panic p
    | Ok (Some r, results') =>
      let q' := mkwq (jobs q) results' (shutdown q) (immediate_shutdown q) (num_in_progress q) (cur_work_id q) in
      Ok (set_sub (set_joined (set_wq s q') ((w, r_val r) :: joined s)) SIdle)
    | Ok (None, results') =>
      let q' := mkwq (jobs q) results' (shutdown q) (immediate_shutdown q) (num_in_progress q) (cur_work_id q) in
      Ok (set_sub (wait (set_wq s q') 0%nat) (SJoinWait w))
    end.

  Definition sub_join (s : pstate) (w : N) : option (res pstate) :=
    match sub s with
    | SIdle =>
      (* join(self) consumes the handle *)
      if mem_N w (handles s) && lock_free s then Some (join_cs (set_handles s (remove_N w (handles s))) w) else None
    | SJoinWait w' =>
      if (w' =? w) && negb (mem_nat 0%nat (waiters s)) && lock_free s then Some (join_cs s w) else None
    | _ => None
    end.

  (* ---- OwnedRetriever::unwrap for Arc<RwLock<U>> ---- *)
  Definition sub_unwrap (s : pstate) : option (res pstate) :=
    match sub s, cur_arc s with
    | SIdle, Some a =>
      let okk := strong s a =? 1 in
      Some (Ok (set_unwraps (set_arc (set_strong s (upd (strong s) a (strong s a - 1))) None (next_arc s))
                            ((a, match handles s with [] => true | _ => false end, okk) :: unwraps s)))
    | _, _ => None
    end.

  (* ---- Drop for WorkerPool ---- *)
  Definition sub_drop (s : pstate) : option (res pstate) :=
    match sub s with
    | SIdle =>
      if lock_free s then
        let q := wq s in
        let q' := mkwq (jobs q) (results q) (shutdown q) true (num_in_progress q) (cur_work_id q) in
        Some (Ok (set_sub (notify_all (set_wq s q')) (SReaping 0)))
      else None
    | _ => None
    end.

  Definition sub_reap (s : pstate) : option (res pstate) :=
    match sub s with
    | SReaping k =>
      match nth_error (wpcs s) k with
      | None => Some (Ok (set_sub s SDone))              (* no handle left: drop returns *)
      | Some WExited =>
        Some (Ok (set_sub s (if Nat.eqb (S k) (length (wpcs s)) then SDone else SReaping (S k))))
      | Some WKilled => Some (Panic PJoinUnwrap)
      | Some _ => None
      end
    | _ => None
    end.

  Definition spurious (s : pstate) (t : tid) : option (res pstate) :=
    if mem_nat t (waiters s) then Some (Ok (set_waiters s (remove_nat t (waiters s)))) else None.

  (* None: the move is not enabled in s.  Some (Panic p): the code panics. *)
  Definition step (s : pstate) (m : move) : option (res pstate) :=
    match m with
    | MWorker i => worker_step s i
    | MBegin => sub_begin s
    | MSpawn arg => sub_spawn s arg
    | MJoin w => sub_join s w
    | MUnwrap => sub_unwrap s
    | MDrop => sub_drop s
    | MReap => sub_reap s
    | MSpurious t => spurious s t
    end.

  (* a whole trace; None = some move was not enabled *)
  Fixpoint run (s : pstate) (tr : list move) : option (res pstate) :=
    match tr with
    | [] => Some (Ok s)
    | m :: tr' =>
      match step s m with
      | None => None
      | Some (Panic p) => Some (Panic p)
      | Some (Ok s') => run s' tr'
      end
    end.

  Definition enabled (s : pstate) (m : move) : bool :=
    match step s m with Some _ => true | None => false end.
End Pool.

(* ---- observations shared with the harness ---- *)
Definition observe (s : pstate) : N * N * N * N :=
  (fq_sz (jobs (wq s)), fq_sz (results (wq s)), num_in_progress (wq s), cur_work_id (wq s)).

Definition outstanding (s : pstate) : N :=
  fq_sz (jobs (wq s)) + num_in_progress (wq s) + fq_sz (results (wq s)).

Definition exec_count (s : pstate) (w : N) : nat := count_occ N.eq_dec (executed s) w.
