(* Model of src/enc/brotli_bit_stream.rs process_command_queue / LogMetaBlock (the command
   logic that rebuilds the IR handed to the meta-block callback) and of
   src/enc/input_pair.rs InputPair::split_at, src/enc/interface.rs push_literals.
   Definitions only.  Distances come from model/Arith.v (Command::distance_index_and_offset,
   Command::copy_len_code).  The static dictionary and TransformDictionaryWord live in the
   brotli-decompressor crate; they enter through spec/IrReplay.v's Section parameters.
   The meta-block input bytes are read through `mb_at` (only the dictionary branch looks at
   bytes: its assert_eq! compares the expanded word with the input). *)
From Coq Require Import NArith ZArith List Bool.
From V Require Import lib.Words model.Arith spec.IrReplay.
Import ListNotations.
Open Scope N_scope.

Inductive panic :=
| PSplitLengths0        (* block_type.btypX.lengths[0] on an empty slice *)
| PNumTypes             (* LogMetaBlock assert_eq!(max(types)+1, num_types) *)
| PAssertInserts        (* assert!(inserts.len() <= mb_len) *)
| PCopyLenLt4 | PCopyLenGe25
| PDictIndex            (* kBrotliDictionary[..] / kTransforms[..] index out of range *)
| PDictAssertEq         (* assert_eq!(transformed word, input) *)
| PSubOverflow.         (* `attempt to subtract with overflow` (dev profile) *)
Inductive outcome (A : Type) := Done (a : A) | Panic (p : panic) | OutOfFuel.
Arguments Done {A} a.
Arguments Panic {A} p.
Arguments OutOfFuel {A}.

(* ---- InputPair as two (orig_offset, len) ranges of the meta-block input ---- *)
Record ipair := { o0 : N; n0 : N; o1 : N; n1 : N }.
Definition ip_len (p : ipair) : N := n0 p + n1 p.
Definition ip_split_at (p : ipair) (loc : N) : ipair * ipair :=
  if n0 p <=? loc then
    let off := loc - n0 p in
    let k := N.min off (n1 p) in
    ({| o0 := o0 p; n0 := n0 p; o1 := o1 p; n1 := k |},
     {| o0 := 0; n0 := 0; o1 := off + o1 p; n1 := n1 p - k |})
  else
    ({| o0 := o0 p; n0 := loc; o1 := 0; n1 := 0 |},
     {| o0 := o0 p + loc; n0 := n0 p - loc; o1 := o1 p; n1 := n1 p |}).
(* CommandProcessor::push_literals / push_rand_literals followed by freeze() *)
Definition push_literals (p : ipair) (he : bool) : list ir_cmd :=
  (if n0 p =? 0 then [] else [IrLiteral (o0 p) (n0 p) he]) ++
  (if n1 p =? 0 then [] else [IrLiteral (o1 p) (n1 p) he]).
(* positions of the bytes of a pair, in order (for InputPair's PartialEq) *)
Definition ip_positions (p : ipair) : list N :=
  map (fun i => o0 p + N.of_nat i) (seq 0 (N.to_nat (n0 p))) ++
  map (fun i => o1 p + N.of_nat i) (seq 0 (N.to_nat (n1 p))).

(* ---- BlockSplitRef ---- *)
Record bsplit := { bs_types : list N; bs_lengths : list N; bs_num_types : N }.
Definition bs_nop : bsplit := {| bs_types := []; bs_lengths := []; bs_num_types := 1 |}.
Definition bs_first_sub (b : bsplit) : outcome N :=
  if bs_num_types b =? 1 then Done (2 ^ 31)
  else match bs_lengths b with l :: _ => Done l | [] => Panic PSplitLengths0 end.
(* (type, length) of the blocks after the first one *)
Definition bs_tail (b : bsplit) : list (N * N) := tl (combine (bs_types b) (bs_lengths b)).
Definition bs_types_ok (b : bsplit) : bool :=
  fold_right N.max 0 (bs_types b) + 1 =? bs_num_types b.

(* what LogMetaBlock / process_command_queue need of a block split not to panic: the
   assert_eq! on num_types, a first length when there is more than one type, and (command and
   distance splits, whose counters are decremented once per command) no zero-length block *)
Definition split_ok (strict : bool) (b : bsplit) : bool :=
  bs_types_ok b
  && ((bs_num_types b =? 1) || negb (match bs_lengths b with [] => true | _ => false end))
  && (negb strict || forallb (fun l => 1 <=? l) (bs_lengths b)).

Section Recoder.
Variable dict_word : N -> N -> list N.
Variable transforms : list (list N * N * list N).
Variable mb_at : N -> N.                    (* byte of the meta-block input at an offset *)
(* parameters read from BrotliEncoderParams / the arguments *)
Variable lgwin nd np : N.
Variable he_quality : N.                    (* params.high_entropy_detection_quality *)
Variable has_context_type : bool.           (* context_type.is_some() *)

Definition lit_he : bool := negb has_context_type && negb (he_quality =? 0).

(* the `while tmp_inserts.len() > btypel_sub` loop; returns (tmp_inserts, btypel_sub, rest of
   the literal split, mb_len, IR pushed) *)
Fixpoint lit_loop (fuel : nat) (tmp : ipair) (sub : N) (rest : list (N * N)) (mb_len : N)
  : outcome (ipair * N * list (N * N) * N * list ir_cmd) :=
  if ip_len tmp <=? sub then Done (tmp, sub, rest, mb_len, []) else
  match fuel with
  | O => OutOfFuel
  | S f =>
    let (a, b) := ip_split_at tmp sub in
    if mb_len <? ip_len a then Panic PSubOverflow else
    let mb_len := mb_len - ip_len a in
    match rest with
    | (t, l) :: rest' =>
      match lit_loop f b l rest' mb_len with
      | Done (x, ir) => Done (x, push_literals a lit_he ++ IrBlockSwitchLiteral t 0 :: ir)
      | Panic p => Panic p
      | OutOfFuel => OutOfFuel
      end
    | [] =>
      match lit_loop f b (2 ^ 31) [] mb_len with
      | Done (x, ir) => Done (x, push_literals a lit_he ++ ir)
      | Panic p => Panic p
      | OutOfFuel => OutOfFuel
      end
    end
  end.

(* `if inserts.len() != 0 { ... }`: (btypel_sub, rest of the literal split, mb_len, IR pushed) *)
Definition rec_literals (inserts : ipair) (sub : N) (rest : list (N * N)) (mb_len : N)
  : outcome (N * list (N * N) * N * list ir_cmd) :=
  if ip_len inserts =? 0 then Done (sub, rest, mb_len, [])
  else
    match lit_loop (length rest + 2 + N.to_nat (ip_len inserts / 2 ^ 31)) inserts sub rest mb_len with
    | Done (tmp, sub, rest, ml, ir) =>
      let ir := ir ++ push_literals tmp lit_he in
      if ip_len tmp =? 0 then Done (sub, rest, ml, ir)
      else Done (sub - ip_len tmp, rest, ml - ip_len tmp, ir)
    | Panic p => Panic p
    | OutOfFuel => OutOfFuel
    end.

(* `sub -= 1; if sub == 0 { counter += 1; ... }` of the command / distance block splits *)
Definition tick (sub : N) (rest : list (N * N)) (mk : N -> ir_cmd) : outcome (N * list (N * N) * list ir_cmd) :=
  if sub =? 0 then Panic PSubOverflow else
  let sub := sub - 1 in
  if sub =? 0 then
    match rest with
    | (t, l) :: rest' => Done (l, rest', [mk t])
    | [] => Done (2 ^ 31, [], [])
    end
  else Done (sub, rest, []).

Definition as_i32 (x : N) : Z :=
  let y := x mod 2 ^ 32 in if y <? 2 ^ 31 then Z.of_N y else (Z.of_N y - 2 ^ 32)%Z.
Definition as_usize (z : Z) : N := Z.to_N (z mod 2 ^ 64)%Z.

(* `if final_distance > max_distance { dictionary } else { copy }`:
   (IR pushed, mb_len, actual_copy_len, local_dist_cache) *)
Definition rec_copy (idx : N) (off : Z) (final_distance copy_len max_distance : N) (interim : ipair)
           (ml : N) (cache : list Z) : outcome (list ir_cmd * N * N * list Z) :=
  if max_distance <? final_distance then
    if copy_len <? 4 then Panic PCopyLenLt4 else
    if 25 <=? copy_len then Panic PCopyLenGe25 else
    let dictionary_offset := final_distance - max_distance - 1 in
    let nb := ndbits copy_len in
    let action := N.shiftr dictionary_offset nb in
    let word_sub_index := N.land dictionary_offset (N.shiftl 1 nb - 1) in
    match apply_transform transforms action (dict_word copy_len word_sub_index) with
    | None => Panic PDictIndex
    | Some w =>
      let actual := N.of_nat (length w) in
      if actual <=? ml then
        let got := map mb_at (ip_positions (fst (ip_split_at interim actual))) in
        if negb (list_eqb w got) then Panic PDictAssertEq
        else Done ([IrDict (w8 copy_len) (w8 action) (w8 actual) 0 (w32 word_sub_index)], ml - actual, actual, cache)
      else if negb (ml =? 0) then
        Done (push_literals (fst (ip_split_at interim ml)) false, 0, actual, cache)
      else Done ([], ml, actual, cache)
    end
  else
    let actual := N.min ml copy_len in
    let ir := if actual =? 0 then [] else [IrCopy (w32 final_distance) (w32 actual)] in
    let cache' := if (idx =? 1) && (off =? 0)%Z then cache
                  else as_i32 final_distance :: firstn 3 cache in
    Done (ir, ml - actual, actual, cache').

Record rec_state := {
  input_iter : ipair;
  cache : list Z;                 (* local_dist_cache, i32 *)
  l_sub : N; l_rest : list (N * N);
  c_sub : N; c_rest : list (N * N);
  d_sub : N; d_rest : list (N * N);
  mb_len : N;
  nbe : N                         (* recoder_state.num_bytes_encoded *)
}.

(* one iteration of `for cmd in commands.iter()`.  (freeze()'s debug_assert!(len <= u32::MAX) is
   not modelled: meta-block inputs are far below 2^32 bytes.) *)
Definition rec_cmd (cmd : command) (s : rec_state) : outcome (list ir_cmd * rec_state) :=
  let (inserts, interim) := ip_split_at (input_iter s) (N.min (insert_len_ cmd) (mb_len s)) in
  let nbe1 := nbe s + ip_len inserts in
  let copy_len := cmd_copy_len_code cmd in
  let (idx, off) := distance_index_and_offset (dist_prefix_ cmd) (dist_extra_ cmd) nd np in
  let final_distance := if idx =? 0 then as_usize off else as_usize (ring_get (cache s) (idx - 1) + off) in
  let max_distance := N.min nbe1 (2 ^ lgwin - 16) in
  if mb_len s <? ip_len inserts then Panic PAssertInserts else
  match rec_literals inserts (l_sub s) (l_rest s) (mb_len s) with
  | Panic p => Panic p
  | OutOfFuel => OutOfFuel
  | Done (lsub, lrest, ml, ir_lit) =>
    match rec_copy idx off final_distance copy_len max_distance interim ml (cache s) with
    | Panic p => Panic p
    | OutOfFuel => OutOfFuel
    | Done (ir_copy, ml2, actual_copy_len, cache') =>
      match tick (c_sub s) (c_rest s) IrBlockSwitchCommand with
      | Panic p => Panic p
      | OutOfFuel => OutOfFuel
      | Done (csub, crest, ir_c) =>
        match (if negb (copy_len =? 0) && (128 <=? cmd_prefix_ cmd)
               then tick (d_sub s) (d_rest s) IrBlockSwitchDistance
               else Done (d_sub s, d_rest s, [])) with
        | Panic p => Panic p
        | OutOfFuel => OutOfFuel
        | Done (dsub, drest, ir_d) =>
          let (copied, remainder) := ip_split_at interim actual_copy_len in
          Done (ir_lit ++ ir_copy ++ ir_c ++ ir_d,
                {| input_iter := remainder; cache := cache';
                   l_sub := lsub; l_rest := lrest; c_sub := csub; c_rest := crest;
                   d_sub := dsub; d_rest := drest; mb_len := ml2;
                   nbe := nbe1 + ip_len copied |})
        end
      end
    end
  end.

Fixpoint rec_cmds (cmds : list command) (s : rec_state) : outcome (list ir_cmd * rec_state) :=
  match cmds with
  | [] => Done ([], s)
  | c :: r =>
    match rec_cmd c s with
    | Done (ir1, s1) =>
      match rec_cmds r s1 with
      | Done (ir2, s2) => Done (ir1 ++ ir2, s2)
      | Panic p => Panic p
      | OutOfFuel => OutOfFuel
      end
    | Panic p => Panic p
    | OutOfFuel => OutOfFuel
    end
  end.
End Recoder.

(* LogMetaBlock + process_command_queue on one meta-block: IR list and the new
   RecoderState::num_bytes_encoded.  `l0`, `l1` = lengths of the two input slices
   (InputPairFromMaskedInput: l1 > 0 exactly when the meta-block wraps the ring buffer). *)
Definition recode (dict_word : N -> N -> list N) (transforms : list (list N * N * list N)) (mb_at : N -> N)
           (lgwin nd np he_quality : N) (has_context_type : bool)
           (bl bc bd : bsplit) (dist_cache : list Z) (l0 l1 : N)
           (cmds : list command) (num_bytes_encoded : N) : outcome (list ir_cmd * N) :=
  if negb (bs_types_ok bl && bs_types_ok bc && bs_types_ok bd) then Panic PNumTypes else
  match bs_first_sub bl, bs_first_sub bc, bs_first_sub bd with
  | Done ls, Done cs, Done ds =>
    let s0 := {| input_iter := {| o0 := 0; n0 := l0; o1 := l0; n1 := l1 |};
                 cache := firstn 4 dist_cache;
                 l_sub := ls; l_rest := bs_tail bl; c_sub := cs; c_rest := bs_tail bc;
                 d_sub := ds; d_rest := bs_tail bd; mb_len := l0 + l1; nbe := num_bytes_encoded |} in
    match rec_cmds dict_word transforms mb_at lgwin nd np he_quality has_context_type cmds s0 with
    | Done (ir, s) => Done (IrBlockSwitchLiteral 0 0 :: ir, nbe s)
    | Panic p => Panic p
    | OutOfFuel => OutOfFuel
    end
  | Panic p, _, _ => Panic p
  | _, Panic p, _ => Panic p
  | _, _, Panic p => Panic p
  | _, _, _ => OutOfFuel
  end.

(* ---- src/enc/stride_eval.rs StrideEval (run by LogMetaBlock when stride_detection_quality > 2):
        the score array holds 8 entries per literal block type seen.  It starts with 32 entries;
        update_block_type (one call per BlockSwitchLiteral pushed, the first included) increments
        cur_score_epoch and doubles the array when `cur_score_epoch * 8 + 7 >= len`; choose_stride
        asserts a bound before reading score[(1 + index) * 8 ..][..8] for index < cur_score_epoch. ---- *)
Definition score_grow (epoch len : N) : N := if len <=? epoch * 8 + 7 then len * 2 else len.
Fixpoint score_len (n : nat) : N :=
  match n with O => 32 | S k => score_grow (N.of_nat (S k)) (score_len k) end.
Definition choose_stride_ok (n : nat) : bool :=
  (N.of_nat n <? score_len n) && (N.of_nat n * 8 + 7 <? score_len n).
(* as found: assert!(len > (n << 3) + 7 + 8) *)
Definition choose_stride_ok_unfixed (n : nat) : bool :=
  (N.of_nat n <? score_len n) && (N.of_nat n * 8 + 7 + 8 <? score_len n).
Definition count_literal_switches (ir : list ir_cmd) : nat :=
  length (filter (fun c => match c with IrBlockSwitchLiteral _ _ => true | _ => false end) ir).

(* RecoderState at the first meta-block.  encode.rs creates RecoderState::new() (0); the
   repaired set_custom_dictionary additionally sets it to the number of dictionary bytes it
   placed in front of the input (see model/Dict.v for that number). *)
Definition recoder_init_unfixed (dict_bytes_in_window : N) : N := 0.
Definition recoder_init (dict_bytes_in_window : N) : N := dict_bytes_in_window.
