(* Model of the input ring buffer of src/enc/encode.rs: RingBufferSetup, RingBufferInitBuffer,
   RingBufferWriteTail, RingBufferWrite (as repaired by dd9b0c6: the position is folded modulo
   2^31; the as-found fold at 2^30 is kept as [fold_pos_asfound]).
   The byte array `data_mo` is a finite map from index to byte (absent = 0, as freshly allocated
   cells are); `buffer_index` is always 2.  Every slice operation of the Rust code is bounds
   checked: the model answers [RbPanic] where the slice would be out of range.
   Definitions only. *)
From Coq Require Import NArith List Bool.
From V Require Import lib.Words lib.PMap gen.GenFormat.
Import ListNotations.
Open Scope N_scope.

Record rb := {
  r_size : N; r_mask : N; r_tail : N; r_total : N; r_cur : N; r_pos : N;
  r_data : pt N; r_len : N        (* r_len: length of the allocated array, 0 = none *)
}.
Inductive rb_out := RbDone (r : rb) | RbPanic (why : N).

Definition lenN {A} (l : list A) : N := N.of_nat (length l).
Definition takeN {A} (n : N) (l : list A) : list A := firstn (N.to_nat n) l.
Definition dropN {A} (n : N) (l : list A) : list A := skipn (N.to_nat n) l.

(* RingBufferSetup with window_bits = ComputeRbBits, tail_bits = lgblock (u32 shifts) *)
Definition rb_setup (rbbits lgblock : N) : rb :=
  let size := wshl32 1 rbbits in
  let tail := wshl32 1 lgblock in
  {| r_size := size; r_mask := wsub32 size 1; r_tail := tail; r_total := wadd32 size tail;
     r_cur := 0; r_pos := 0; r_data := PE; r_len := 0 |}.

Fixpoint write_bytes (d : pt N) (at_ : N) (bs : list N) : pt N :=
  match bs with [] => d | b :: t => write_bytes (nset d at_ b) (at_ + 1) t end.

Definition with_data (r : rb) (d : pt N) : rb :=
  {| r_size := r_size r; r_mask := r_mask r; r_tail := r_tail r; r_total := r_total r; r_cur := r_cur r;
     r_pos := r_pos r; r_data := d; r_len := r_len r |}.
Definition with_pos (r : rb) (p : N) : rb :=
  {| r_size := r_size r; r_mask := r_mask r; r_tail := r_tail r; r_total := r_total r; r_cur := r_cur r;
     r_pos := p; r_data := r_data r; r_len := r_len r |}.

(* data[at .. at + |bs|) = bs *)
Definition store (r : rb) (at_ : N) (bs : list N) : rb_out :=
  if r_len r <? at_ + lenN bs then RbPanic 2 else RbDone (with_data r (write_bytes (r_data r) at_ bs)).

(* RingBufferInitBuffer *)
Definition init_buffer (buflen : N) (r : rb) : rb_out :=
  let newlen := 2 + buflen + 7 in
  if negb (r_len r =? 0) && (newlen <? 2 + r_cur r + 7) then RbPanic 1
  else
    let d0 := if r_len r =? 0 then PE else r_data r in
    let d1 := nset (nset d0 0 0) 1 0 in
    let d2 := write_bytes d1 (2 + buflen) (repeat 0 7) in
    RbDone {| r_size := r_size r; r_mask := r_mask r; r_tail := r_tail r; r_total := r_total r;
              r_cur := buflen; r_pos := r_pos r; r_data := d2; r_len := newlen |}.

(* the position after n more bytes: modulo 2^RB_FOLD_BITS with that bit kept set *)
Definition fold_pos (pos n : N) : N :=
  let p := w64 (pos + n) in
  if 2 ^ RB_FOLD_BITS <? p then w32 (N.lor (N.land p (2 ^ RB_FOLD_BITS - 1)) (2 ^ RB_FOLD_BITS)) else w32 p.
(* as found: u32 arithmetic, fold at 2^30 *)
Definition fold_pos_asfound (pos n : N) : N :=
  let p := wadd32 pos (w32 n) in
  if 2 ^ 30 <? p then N.lor (N.land p (2 ^ 30 - 1)) (2 ^ 30) else p.

Definition bind (o : rb_out) (f : rb -> rb_out) : rb_out :=
  match o with RbDone r => f r | RbPanic w => RbPanic w end.

(* RingBufferWrite(bytes, n) with bytes = bs, n = |bs| *)
Definition rb_write_with (fold : N -> N -> N) (bs : list N) (r : rb) : rb_out :=
  let n := lenN bs in
  if (r_pos r =? 0) && (n <? r_tail r) then
    bind (init_buffer n (with_pos r (w32 n))) (fun r1 => store r1 2 bs)
  else
    let o1 := if r_cur r <? r_total r
              then bind (init_buffer (r_total r) r) (fun r1 =>
                   bind (store r1 (2 + r_size r1 - 2) [0]) (fun r2 => store r2 (2 + r_size r2 - 1) [0]))
              else RbDone r in
    bind o1 (fun r1 =>
      let masked := N.land (r_pos r1) (r_mask r1) in
      (* RingBufferWriteTail *)
      let o2 := if masked <? r_tail r1
                then store r1 (2 + r_size r1 + masked) (takeN (N.min n (r_tail r1 - masked)) bs)
                else RbDone r1 in
      bind o2 (fun r2 =>
        let o3 := if masked + n <=? r_size r2 then store r2 (2 + masked) bs
                  else bind (store r2 (2 + masked) (takeN (N.min n (r_total r2 - masked)) bs)) (fun r3 =>
                       store r3 2 (dropN (r_size r3 - masked) bs)) in
        bind o3 (fun r3 =>
          if r_len r3 <? 2 + r_size r3 then RbPanic 3 else
          let d := r_data r3 in
          let d' := nset (nset d 0 (ngetd d (2 + r_size r3 - 2))) 1 (ngetd d (2 + r_size r3 - 1)) in
          RbDone (with_pos (with_data r3 d') (fold (r_pos r3) n))))).

Definition rb_write := rb_write_with fold_pos.
Definition rb_write_asfound := rb_write_with fold_pos_asfound.

Fixpoint rb_writes_with (fold : N -> N -> N) (ws : list (list N)) (r : rb) : rb_out :=
  match ws with
  | [] => RbDone r
  | w :: t => bind (rb_write_with fold w r) (rb_writes_with fold t)
  end.
Definition rb_writes := rb_writes_with fold_pos.

(* byte of the ring at (wrapped) position p, as the readers index it *)
Definition rb_at (r : rb) (p : N) : N := ngetd (r_data r) (2 + N.land p (r_mask r)).
