(* Model of the streaming state machine of src/enc/encode.rs: set_parameter,
   ensure_initialized (SanitizeParams, ComputeLgBlock, EncodeWindowBits), compress_stream,
   compress_stream_fast, process_metadata, write_metadata_header,
   inject_flush_or_push_output, inject_byte_padding_block, check_flush_complete,
   take_output, is_finished, has_more_output, update_size_hint, remaining_input_block_size.

   The compression back ends (encode_data's meta-block emission, the fragment compressors) are NOT
   modelled: each invocation consumes one recorded [answer] from the oracle list carried in
   the state.  The model computes the *request* (is_last, force_flush, block size, in-place
   flag, input position, size hint) itself and reports [Mismatch] when the recorded request
   differs, so "when the back end runs and with what" is decided by the model.
   Definitions only; proofs are in proofs/Stream_proofs.v. *)
From Coq Require Import NArith ZArith List Bool.
From V Require Import lib.Words.
Import ListNotations.
Open Scope N_scope.

Inductive sstate := SProcessing | SFlushRequested | SFinished | SMetaHead | SMetaBody.
Inductive nextout := NoNone | NoDyn (off : N) | NoTiny (off : N).
Inductive opk := OpProcess | OpFlush | OpFinish | OpMeta.

Definition sstate_eqb (a b : sstate) : bool :=
  match a, b with
  | SProcessing, SProcessing | SFlushRequested, SFlushRequested | SFinished, SFinished
  | SMetaHead, SMetaHead | SMetaBody, SMetaBody => true
  | _, _ => false
  end.
Definition opk_eqb (a b : opk) : bool :=
  match a, b with
  | OpProcess, OpProcess | OpFlush, OpFlush | OpFinish, OpFinish | OpMeta, OpMeta => true
  | _, _ => false
  end.
Definition nextout_eqb (a b : nextout) : bool :=
  match a, b with
  | NoNone, NoNone => true
  | NoDyn x, NoDyn y => x =? y
  | NoTiny x, NoTiny y => x =? y
  | _, _ => false
  end.

(* one recorded invocation of a compression back end (hook verif_trace::Rec) *)
Record answer := {
  a_fast : bool; a_is_last : bool; a_force_flush : bool; a_result : bool; a_inplace : bool;
  a_block : N; a_out : list N; a_lb : N; a_lbb : N;
  a_ipos : N; a_lfp : N; a_lpp : N; a_hint : N; a_no : nextout }.

Definition U32MAX : N := 4294967295.

Record st := {
  quality : Z; lgwin : Z; lgblock : Z;
  large_window : bool; catable : bool; appendable : bool; magic : bool; size_hint : N;
  initialized : bool;
  sstate_ : sstate;
  rem_meta : N;
  input_pos : N; last_flush_pos : N; last_processed_pos : N;
  last_bytes : N; last_bytes_bits : N;
  next_out : nextout; storage : list N; storage_size : N; tiny : list N;
  avail_out_ : N; total_out_ : N;
  last_emitted : bool;
  first_pending : bool;   (* IsFirst::NothingWritten: no block has gone through encode_data yet *)
  oracle : list answer }.

Definition init_st : st :=
  {| quality := 11; lgwin := 22; lgblock := 0; large_window := false; catable := false;
     appendable := false; magic := false; size_hint := 0; initialized := false; sstate_ := SProcessing;
     rem_meta := 0; input_pos := 0; last_flush_pos := 0; last_processed_pos := 0;
     last_bytes := 0; last_bytes_bits := 0; next_out := NoNone; storage := []; storage_size := 0;
     tiny := repeat 0 16; avail_out_ := 0; total_out_ := 0; last_emitted := false; first_pending := true; oracle := [] |}.

(* functional record update helpers *)
Definition upd_params (s : st) q w b lw c a h : st :=
  {| quality := q; lgwin := w; lgblock := b; large_window := lw; catable := c; appendable := a;
     magic := magic s; size_hint := h; initialized := initialized s; sstate_ := sstate_ s; rem_meta := rem_meta s;
     input_pos := input_pos s; last_flush_pos := last_flush_pos s;
     last_processed_pos := last_processed_pos s; last_bytes := last_bytes s;
     last_bytes_bits := last_bytes_bits s; next_out := next_out s; storage := storage s;
     storage_size := storage_size s; tiny := tiny s; avail_out_ := avail_out_ s;
     total_out_ := total_out_ s; last_emitted := last_emitted s; first_pending := first_pending s; oracle := oracle s |}.
Definition upd_core (s : st) ini ss rm : st :=
  {| quality := quality s; lgwin := lgwin s; lgblock := lgblock s; large_window := large_window s;
     catable := catable s; appendable := appendable s; magic := magic s; size_hint := size_hint s;
     initialized := ini; sstate_ := ss; rem_meta := rm;
     input_pos := input_pos s; last_flush_pos := last_flush_pos s;
     last_processed_pos := last_processed_pos s; last_bytes := last_bytes s;
     last_bytes_bits := last_bytes_bits s; next_out := next_out s; storage := storage s;
     storage_size := storage_size s; tiny := tiny s; avail_out_ := avail_out_ s;
     total_out_ := total_out_ s; last_emitted := last_emitted s; first_pending := first_pending s; oracle := oracle s |}.
Definition upd_pos (s : st) ip lf lp : st :=
  {| quality := quality s; lgwin := lgwin s; lgblock := lgblock s; large_window := large_window s;
     catable := catable s; appendable := appendable s; magic := magic s; size_hint := size_hint s;
     initialized := initialized s; sstate_ := sstate_ s; rem_meta := rem_meta s;
     input_pos := ip; last_flush_pos := lf; last_processed_pos := lp;
     last_bytes := last_bytes s; last_bytes_bits := last_bytes_bits s; next_out := next_out s;
     storage := storage s; storage_size := storage_size s; tiny := tiny s;
     avail_out_ := avail_out_ s; total_out_ := total_out_ s; last_emitted := last_emitted s; first_pending := first_pending s;
     oracle := oracle s |}.
Definition upd_bits (s : st) lb lbb : st :=
  {| quality := quality s; lgwin := lgwin s; lgblock := lgblock s; large_window := large_window s;
     catable := catable s; appendable := appendable s; magic := magic s; size_hint := size_hint s;
     initialized := initialized s; sstate_ := sstate_ s; rem_meta := rem_meta s;
     input_pos := input_pos s; last_flush_pos := last_flush_pos s;
     last_processed_pos := last_processed_pos s; last_bytes := lb; last_bytes_bits := lbb;
     next_out := next_out s; storage := storage s; storage_size := storage_size s; tiny := tiny s;
     avail_out_ := avail_out_ s; total_out_ := total_out_ s; last_emitted := last_emitted s; first_pending := first_pending s;
     oracle := oracle s |}.
Definition upd_out (s : st) no sto ssz tn ao tot : st :=
  {| quality := quality s; lgwin := lgwin s; lgblock := lgblock s; large_window := large_window s;
     catable := catable s; appendable := appendable s; magic := magic s; size_hint := size_hint s;
     initialized := initialized s; sstate_ := sstate_ s; rem_meta := rem_meta s;
     input_pos := input_pos s; last_flush_pos := last_flush_pos s;
     last_processed_pos := last_processed_pos s; last_bytes := last_bytes s;
     last_bytes_bits := last_bytes_bits s; next_out := no; storage := sto; storage_size := ssz;
     tiny := tn; avail_out_ := ao; total_out_ := tot; last_emitted := last_emitted s; first_pending := first_pending s;
     oracle := oracle s |}.
Definition upd_misc (s : st) le orc : st :=
  {| quality := quality s; lgwin := lgwin s; lgblock := lgblock s; large_window := large_window s;
     catable := catable s; appendable := appendable s; magic := magic s; size_hint := size_hint s;
     initialized := initialized s; sstate_ := sstate_ s; rem_meta := rem_meta s;
     input_pos := input_pos s; last_flush_pos := last_flush_pos s;
     last_processed_pos := last_processed_pos s; last_bytes := last_bytes s;
     last_bytes_bits := last_bytes_bits s; next_out := next_out s; storage := storage s;
     storage_size := storage_size s; tiny := tiny s; avail_out_ := avail_out_ s;
     total_out_ := total_out_ s; last_emitted := le; first_pending := first_pending s; oracle := orc |}.
Definition set_first_pending (s : st) (b : bool) : st :=
  {| quality := quality s; lgwin := lgwin s; lgblock := lgblock s; large_window := large_window s;
     catable := catable s; appendable := appendable s; magic := magic s; size_hint := size_hint s;
     initialized := initialized s; sstate_ := sstate_ s; rem_meta := rem_meta s;
     input_pos := input_pos s; last_flush_pos := last_flush_pos s;
     last_processed_pos := last_processed_pos s; last_bytes := last_bytes s;
     last_bytes_bits := last_bytes_bits s; next_out := next_out s; storage := storage s;
     storage_size := storage_size s; tiny := tiny s; avail_out_ := avail_out_ s;
     total_out_ := total_out_ s; last_emitted := last_emitted s; first_pending := b; oracle := oracle s |}.
Definition set_sstate (s : st) ss := upd_core s (initialized s) ss (rem_meta s).
Definition set_hint (s : st) h :=
  upd_params s (quality s) (lgwin s) (lgblock s) (large_window s) (catable s) (appendable s) h.

Definition set_magic (s : st) (m : bool) : st :=
  {| quality := quality s; lgwin := lgwin s; lgblock := lgblock s; large_window := large_window s;
     catable := catable s; appendable := appendable s; magic := m; size_hint := size_hint s;
     initialized := initialized s; sstate_ := sstate_ s; rem_meta := rem_meta s;
     input_pos := input_pos s; last_flush_pos := last_flush_pos s;
     last_processed_pos := last_processed_pos s; last_bytes := last_bytes s;
     last_bytes_bits := last_bytes_bits s; next_out := next_out s; storage := storage s;
     storage_size := storage_size s; tiny := tiny s; avail_out_ := avail_out_ s;
     total_out_ := total_out_ s; last_emitted := last_emitted s; first_pending := first_pending s; oracle := oracle s |}.

(* ---- set_parameter ---- *)
Definition i32_of_u32 (v : N) : Z := if v <? 2147483648 then Z.of_N v else (Z.of_N v - 4294967296)%Z.

(* parameter ids accepted by enc::encode::set_parameter (everything else returns false);
   only those that influence the state machine change the model state *)
Definition known_param (id : N) : bool :=
  existsb (N.eqb id) [0;1;2;3;5;6;150;151;152;153;154;155;156;157;158;159;160;161;162;164;165;166;167;168;169;171].

Definition set_parameter (s : st) (id v : N) : bool * st :=
  if initialized s then (false, s)
  else if id =? 4 then
    (if (v =? 0) || (v =? 1) then (true, s) else (false, s))
  else if negb (known_param id) then (false, s)
  else
    let s' :=
      if id =? 1 then upd_params s (i32_of_u32 v) (lgwin s) (lgblock s) (large_window s) (catable s) (appendable s) (size_hint s)
      else if id =? 2 then upd_params s (quality s) (i32_of_u32 v) (lgblock s) (large_window s) (catable s) (appendable s) (size_hint s)
      else if id =? 3 then upd_params s (quality s) (lgwin s) (i32_of_u32 v) (large_window s) (catable s) (appendable s) (size_hint s)
      else if id =? 5 then upd_params s (quality s) (lgwin s) (lgblock s) (large_window s) (catable s) (appendable s) v
      else if id =? 6 then upd_params s (quality s) (lgwin s) (lgblock s) (negb (v =? 0)) (catable s) (appendable s) (size_hint s)
      else if id =? 167 then
        upd_params s (quality s) (lgwin s) (lgblock s) (large_window s) (negb (v =? 0))
                   (if appendable s then true else negb (v =? 0)) (size_hint s)
      else if id =? 168 then upd_params s (quality s) (lgwin s) (lgblock s) (large_window s) (catable s) (negb (v =? 0)) (size_hint s)
      else if id =? 169 then set_magic s (negb (v =? 0))
      else s in
    (true, s').

(* ---- ensure_initialized ---- *)
Definition sanitize_quality (q : Z) : Z := Z.min 11 (Z.max 0 q).
Definition sanitize_lgwin (w : Z) (lw : bool) : Z :=
  if (w <? 10)%Z then 10%Z
  else if (24 <? w)%Z then (if lw then (if (30 <? w)%Z then 30%Z else w) else 24%Z)
  else w.
Definition compute_lgblock (q w b : Z) : Z :=
  if ((q =? 0) || (q =? 1))%Z then w
  else if (q <? 4)%Z then 14%Z
  else if (b =? 0)%Z then (if ((9 <=? q) && (16 <? w))%Z then Z.min 18 w else 16%Z)
  else Z.min 24 (Z.max 16 b).
(* EncodeWindowBits: (last_bytes, last_bytes_bits) *)
Definition encode_window_bits (w : Z) (lw : bool) : N * N :=
  if lw then (Z.to_N (Z.lor (Z.shiftl (Z.land w 63) 8) 17), 14)
  else if (w =? 16)%Z then (0, 1)
  else if (w =? 17)%Z then (1, 7)
  else if (17 <? w)%Z then (Z.to_N (Z.lor (Z.shiftl (w - 17) 1) 1), 4)
  else (Z.to_N (Z.lor (Z.shiftl (w - 8) 4) 1), 7).

Definition ensure_initialized (s : st) : st :=
  if initialized s then s
  else
    let q := sanitize_quality (quality s) in
    let w := sanitize_lgwin (lgwin s) (large_window s) in
    let ap := if catable s then true else appendable s in
    let b := compute_lgblock q w (lgblock s) in
    let wb := if ((q =? 0) || (q =? 1))%Z then Z.max w 18 else w in
    let '(lb, lbb) := encode_window_bits wb (large_window s) in
    let s1 := upd_params s q w b (large_window s) (catable s) ap (size_hint s) in
    let s2 := upd_core s1 true (sstate_ s1) U32MAX in
    upd_bits s2 lb lbb.

Definition input_block_size (s : st) : N := 2 ^ Z.to_N (lgblock s).
Definition unprocessed (s : st) : N := wsub64 (input_pos s) (last_processed_pos s).
Definition remaining_input_block_size (s : st) : N :=
  let d := unprocessed s in let b := input_block_size s in
  if b <=? d then 0 else b - d.

Definition update_size_hint (s : st) (avail : N) : st :=
  if size_hint s =? 0 then
    let d := unprocessed s in
    let limit := 2 ^ 30 in
    let total := if (limit <=? d) || (limit <=? avail) || (limit <=? wadd64 d avail) then limit else w32 (wadd64 d avail) in
    set_hint s total
  else s.

(* ---- output cursor ---- *)
Definition nth0 (l : list N) (i : N) : N := nth (N.to_nat i) l 0.
Fixpoint set_at (l : list N) (i : nat) (v : N) : list N :=
  match i, l with
  | O, [] => [v]
  | O, _ :: t => v :: t
  | S k, [] => 0 :: set_at [] k v
  | S k, x :: t => x :: set_at t k v
  end.
Definition skipN (n : N) (l : list N) : list N := skipn (N.to_nat n) l.
Definition takeN (n : N) (l : list N) : list N := firstn (N.to_nat n) l.
Definition lenN (l : list N) : N := N.of_nat (length l).
(* pad to n elements with zeros *)
Definition take_pad (n : N) (l : list N) : list N :=
  let t := takeN n l in t ++ repeat 0 (N.to_nat n - length t).

Definition view (s : st) : list N :=
  match next_out s with
  | NoNone => []
  | NoDyn off => skipN off (storage s)
  | NoTiny off => skipN off (tiny s)
  end.
Definition no_incr (no : nextout) (k : N) : nextout :=
  match no with NoNone => NoNone | NoDyn o => NoDyn (w32 (o + k)) | NoTiny o => NoTiny (w32 (o + k)) end.

Inductive outcome (A : Type) := Done (a : A) | Panic (why : N) | Mismatch (why : N) | OutOfFuel.
Arguments Done {A}. Arguments Panic {A}. Arguments Mismatch {A}. Arguments OutOfFuel {A}.

(* write bytes [bs] at view offset [at] of the current output cursor *)
Fixpoint write_list (l : list N) (i : nat) (bs : list N) : list N :=
  match bs with [] => l | b :: t => write_list (set_at l i b) (S i) t end.

Definition write_at_cursor (s : st) (at_ : N) (bs : list N) : outcome st :=
  match next_out s with
  | NoNone => Panic 1
  | NoDyn off =>
      if storage_size s <? off + at_ + lenN bs then Panic 2
      else Done (upd_out s (next_out s) (write_list (storage s) (N.to_nat (off + at_)) bs) (storage_size s)
                         (tiny s) (avail_out_ s) (total_out_ s))
  | NoTiny off =>
      if 16 <? off + at_ + lenN bs then Panic 3
      else Done (upd_out s (next_out s) (storage s) (storage_size s)
                         (write_list (tiny s) (N.to_nat (off + at_)) bs) (avail_out_ s) (total_out_ s))
  end.

(* ---- inject_byte_padding_block ---- *)
Definition inject_byte_padding_block (s : st) : outcome st :=
  let seal := w32 (N.lor (last_bytes s) (N.shiftl 6 (last_bytes_bits s))) in
  let seal_bits := last_bytes_bits s + 6 in
  let s0 := upd_bits s 0 0 in
  (* fix in /repo: with nothing pending the (stale) cursor is dropped first *)
  let s1 := if avail_out_ s0 =? 0
            then upd_out s0 NoNone (storage s0) (storage_size s0) (tiny s0) (avail_out_ s0) (total_out_ s0) else s0 in
  let bytes :=
    [seal mod 256] ++ (if 8 <? seal_bits then [(seal / 256) mod 256] else [])
                   ++ (if 16 <? seal_bits then [(seal / 65536) mod 256] else []) in
  let s2 := match next_out s1 with
            | NoNone => upd_out s1 (NoTiny 0) (storage s1) (storage_size s1) (tiny s1) (avail_out_ s1) (total_out_ s1)
            | _ => s1 end in
  let at_ := match next_out s1 with NoNone => 0 | _ => avail_out_ s1 end in
  match write_at_cursor s2 at_ bytes with
  | Done s3 => Done (upd_out s3 (next_out s3) (storage s3) (storage_size s3) (tiny s3)
                             (avail_out_ s3 + (seal_bits + 7) / 8) (total_out_ s3))
  | o => o
  end.

(* as found (before the fix): the stale cursor was used even when nothing was pending *)
Definition inject_byte_padding_block_asfound (s : st) : outcome st :=
  let seal := w32 (N.lor (last_bytes s) (N.shiftl 6 (last_bytes_bits s))) in
  let seal_bits := last_bytes_bits s + 6 in
  let s1 := upd_bits s 0 0 in
  let bytes :=
    [seal mod 256] ++ (if 8 <? seal_bits then [(seal / 256) mod 256] else [])
                   ++ (if 16 <? seal_bits then [(seal / 65536) mod 256] else []) in
  let s2 := match next_out s1 with
            | NoNone => upd_out s1 (NoTiny 0) (storage s1) (storage_size s1) (tiny s1) (avail_out_ s1) (total_out_ s1)
            | _ => s1 end in
  let at_ := match next_out s1 with NoNone => 0 | _ => avail_out_ s1 end in
  match write_at_cursor s2 at_ bytes with
  | Done s3 => Done (upd_out s3 (next_out s3) (storage s3) (storage_size s3) (tiny s3)
                             (avail_out_ s3 + (seal_bits + 7) / 8) (total_out_ s3))
  | o => o
  end.

(* caller-side cursors of one stream call *)
Record io := { avail_in : N; in_off : N; cap : N; produced : list N; total_arg : N }.
Definition io_push (x : io) (bs : list N) (tot : N) : io :=
  {| avail_in := avail_in x; in_off := in_off x; cap := cap x - lenN bs; produced := produced x ++ bs; total_arg := tot |}.
Definition io_consume (x : io) (k : N) : io :=
  {| avail_in := avail_in x - k; in_off := in_off x + k; cap := cap x; produced := produced x; total_arg := total_arg x |}.

(* inject_flush_or_push_output: Some = "true, continue" *)
Definition inject_flush_or_push_output (s : st) (x : io) : outcome (option (st * io)) :=
  if sstate_eqb (sstate_ s) SFlushRequested && negb (last_bytes_bits s =? 0) then
    match inject_byte_padding_block s with
    | Done s' => Done (Some (s', x))
    | Panic w => Panic w | Mismatch w => Mismatch w | OutOfFuel => OutOfFuel
    end
  else if negb (avail_out_ s =? 0) && negb (cap x =? 0) then
    let n := N.min (avail_out_ s) (cap x) in
    let v := view s in
    if lenN v <? n then Panic 4
    else
      let bs := takeN n v in
      let tot := wadd64 (total_out_ s) n in
      Done (Some (upd_out s (no_incr (next_out s) n) (storage s) (storage_size s) (tiny s) (avail_out_ s - n) tot,
                  io_push x bs tot))
  else Done None.

Definition check_flush_complete (s : st) : st :=
  if sstate_eqb (sstate_ s) SFlushRequested && (avail_out_ s =? 0) then
    let s1 := set_sstate s SProcessing in
    upd_out s1 NoNone (storage s1) (storage_size s1) (tiny s1) (avail_out_ s1) (total_out_ s1)
  else s.

(* ---- encode_data through the oracle ---- *)
(* returns (result, state) *)
Definition encode_data (s : st) (is_last force_flush : bool) : outcome (bool * st) :=
  match oracle s with
  | [] => Mismatch 10
  | a :: rest =>
    let s0 := upd_misc s (last_emitted s) rest in
    if a_fast a then Mismatch 11
    else if negb (Bool.eqb (a_is_last a) is_last) then Mismatch 12
    else if negb (Bool.eqb (a_force_flush a) force_flush) then Mismatch 13
    else if negb (a_ipos a =? input_pos s) then Mismatch 14
    else if negb (a_hint a =? size_hint s) then Mismatch 15
    else
      let delta := unprocessed s in
      if last_emitted s then (if a_result a then Mismatch 16 else Done (false, s0))
      else
        let s1 := upd_misc s0 (is_last || last_emitted s) rest in
        if input_block_size s <? delta then (if a_result a then Mismatch 17 else Done (false, s1))
        else if negb (a_result a) then Mismatch 18
        else
          let meta_size := N.max (w32 delta) (wsub64 (input_pos s) (last_flush_pos s)) in
          let need := 2 * meta_size + 527 in
          let ssz := N.max (storage_size s1) need in
          let sto := match a_out a with [] => storage s1 | o => o end in
          (* the back end either leaves the output cursor alone (nothing emitted) or resets it to
             the start of the storage it filled; its output fits the storage it asked for *)
          if negb (nextout_eqb (a_no a) (NoDyn 0)) && negb (match a_out a with [] => nextout_eqb (a_no a) (next_out s) | _ => false end)
          then Mismatch 19
          else if ssz <? lenN (a_out a) + 3 then Mismatch 28
          else
          let s2 := upd_out s1 (a_no a) sto ssz (tiny s1) (lenN (a_out a)) (total_out_ s1) in
          let s3 := upd_bits s2 (a_lb a) (a_lbb a) in
          Done (true, set_first_pending (upd_pos s3 (input_pos s3) (a_lfp a) (a_lpp a)) false)
  end.

(* ---- compress_stream main loop (quality >= 2, or catable) ---- *)
Fixpoint stream_loop (fuel : nat) (op : opk) (s : st) (x : io) : outcome (bool * st * io) :=
  match fuel with
  | O => OutOfFuel
  | S f =>
    let rem := remaining_input_block_size s in
    if negb (rem =? 0) && negb (avail_in x =? 0) then
      let c := N.min rem (avail_in x) in
      stream_loop f op (upd_pos s (wadd64 (input_pos s) c) (last_flush_pos s) (last_processed_pos s)) (io_consume x c)
    else
      match inject_flush_or_push_output s x with
      | Panic w => Panic w | Mismatch w => Mismatch w | OutOfFuel => OutOfFuel
      | Done (Some (s', x')) => stream_loop f op s' x'
      | Done None =>
        if (avail_out_ s =? 0) && sstate_eqb (sstate_ s) SProcessing && ((rem =? 0) || negb (opk_eqb op OpProcess)) then
          let is_last := (avail_in x =? 0) && opk_eqb op OpFinish in
          let force_flush := (avail_in x =? 0) && opk_eqb op OpFlush in
          let s1 := update_size_hint s (avail_in x) in
          match encode_data s1 is_last force_flush with
          | Panic w => Panic w | Mismatch w => Mismatch w | OutOfFuel => OutOfFuel
          | Done (false, s2) => Done (false, s2, x)
          | Done (true, s2) =>
            let s3 := if force_flush then set_sstate s2 SFlushRequested else s2 in
            let s4 := if is_last then set_sstate s3 SFinished else s3 in
            stream_loop f op s4 x
          end
        else Done (true, check_flush_complete s, x)
      end
  end.

(* ---- compress_stream_fast (quality 0/1, not catable) ---- *)
Definition fast_answer (s : st) (is_last force_flush inplace : bool) (block : N) : outcome (answer * st) :=
  match oracle s with
  | [] => Mismatch 20
  | a :: rest =>
    if negb (a_fast a) then Mismatch 21
    else if negb (Bool.eqb (a_is_last a) is_last) then Mismatch 22
    else if negb (Bool.eqb (a_force_flush a) force_flush) then Mismatch 23
    else if negb (a_block a =? block) then Mismatch 24
    else if negb (Bool.eqb (a_inplace a) inplace) then Mismatch 25
    else if negb (a_result a) then Mismatch 26
    else if 2 * block + 503 <? lenN (a_out a) + 3 then Mismatch 27   (* output fits the buffer the code provides *)
    else Done (a, upd_misc s (last_emitted s) rest)
  end.

Fixpoint fast_loop (fuel : nat) (op : opk) (s : st) (x : io) : outcome (bool * st * io) :=
  match fuel with
  | O => OutOfFuel
  | S f =>
    match inject_flush_or_push_output s x with
    | Panic w => Panic w | Mismatch w => Mismatch w | OutOfFuel => OutOfFuel
    | Done (Some (s', x')) => fast_loop f op s' x'
    | Done None =>
      if (avail_out_ s =? 0) && sstate_eqb (sstate_ s) SProcessing
         && (negb (avail_in x =? 0) || negb (opk_eqb op OpProcess)) then
        let limit := 2 ^ Z.to_N (lgwin s) in
        let block := N.min limit (avail_in x) in
        let is_last := (avail_in x =? block) && opk_eqb op OpFinish in
        let force_flush := (avail_in x =? block) && opk_eqb op OpFlush in
        let max_out := 2 * block + 503 in
        if force_flush && (block =? 0) then fast_loop f op (set_sstate s SFlushRequested) x
        else
          let inplace := max_out <=? cap x in
          match fast_answer s is_last force_flush inplace block with
          | Panic w => Panic w | Mismatch w => Mismatch w | OutOfFuel => OutOfFuel
          | Done (a, s1) =>
            let x1 := io_consume x block in
            let n := lenN (a_out a) in
            let '(s2, x2) :=
              if inplace then
                let tot := wadd64 (total_out_ s1) n in
                (upd_out s1 (next_out s1) (storage s1) (storage_size s1) (tiny s1) (avail_out_ s1) tot, io_push x1 (a_out a) tot)
              else
                (upd_out s1 (NoDyn 0) (a_out a) (N.max (storage_size s1) max_out) (tiny s1) n (total_out_ s1), x1) in
            let s3 := upd_bits s2 (a_lb a) (a_lbb a) in
            let s4 := if force_flush then set_sstate s3 SFlushRequested else s3 in
            let s5 := if is_last then set_sstate s4 SFinished else s4 in
            fast_loop f op s5 x2
          end
      else Done (true, check_flush_complete s, x)
    end
  end.

(* ---- write_metadata_header: bytes placed in tiny_buf at offset 0; returns the length ---- *)
Fixpoint le_bytes (n : nat) (v : N) : list N :=
  match n with O => [] | S k => (v mod 256) :: le_bytes k (v / 256) end.

Definition metadata_header_bits (lb lbb block_size : N) : N * N :=   (* (value, number of bits) *)
  let v0 := lb mod 2 ^ (8 * (lbb / 8 + 1)) in
  let p := lbb in
  (* ISLAST=0 (1 bit), MNIBBLES code 3 (2 bits), reserved 0 (1 bit) *)
  let v1 := v0 + N.shiftl 3 (p + 1) in
  let p1 := p + 4 in
  if block_size =? 0 then (v1, p1 + 2)
  else
    let nbits := if block_size =? 1 then 1 else log2_floor_nonzero (w32 (block_size - 1)) + 1 in
    let nbytes := (nbits + 7) / 8 in
    let v2 := v1 + N.shiftl nbytes p1 in
    let p2 := p1 + 2 in
    let v3 := v2 + N.shiftl (block_size - 1) p2 in
    (v3, p2 + 8 * nbytes).

(* the header as the code computed it before fix 1446edb (nbits = 0 for a 1-byte block); kept
   only so that the refutation of the as-found behaviour stays machine-checked *)
Definition metadata_header_bits_asfound (lb lbb block_size : N) : N * N :=
  let v1 := lb + N.shiftl 3 (lbb + 1) in
  let p1 := lbb + 4 in
  if block_size =? 0 then (v1, p1 + 2)
  else
    let nbits := if block_size =? 1 then 0 else log2_floor_nonzero (w32 (block_size - 1)) + 1 in
    let nbytes := (nbits + 7) / 8 in
    let v2 := v1 + N.shiftl nbytes p1 in
    let p2 := p1 + 2 in
    (v2 + N.shiftl (block_size - 1) p2, p2 + 8 * nbytes).

Definition write_metadata_header (s : st) : st :=
  let '(v, nb) := metadata_header_bits (last_bytes s) (last_bytes_bits s) (rem_meta s) in
  let s1 := upd_bits s 0 0 in
  upd_out s1 (NoTiny 0) (storage s1) (storage_size s1) (le_bytes 16 v) ((nb + 7) / 8) (total_out_ s1).

(* ---- process_metadata ---- *)
Fixpoint meta_loop (fuel : nat) (payload : list N) (s : st) (x : io) : outcome (bool * st * io) :=
  match fuel with
  | O => OutOfFuel
  | S f =>
    match inject_flush_or_push_output s x with
    | Panic w => Panic w | Mismatch w => Mismatch w | OutOfFuel => OutOfFuel
    | Done (Some (s', x')) => meta_loop f payload s' x'
    | Done None =>
      if negb (avail_out_ s =? 0) then Done (true, s, x)
      (* fix 696be73: a pending magic-number header goes out before the caller's metadata *)
      else if negb (input_pos s =? last_flush_pos s) || (magic s && first_pending s) then
        match encode_data s false true with
        | Panic w => Panic w | Mismatch w => Mismatch w | OutOfFuel => OutOfFuel
        | Done (false, s2) => Done (false, s2, x)
        | Done (true, s2) => meta_loop f payload s2 x
        end
      else if sstate_eqb (sstate_ s) SMetaHead then
        meta_loop f payload (set_sstate (write_metadata_header s) SMetaBody) x
      else if rem_meta s =? 0 then
        Done (true, upd_core s (initialized s) SProcessing U32MAX, x)
      else if negb (cap x =? 0) then
        let c := N.min (rem_meta s) (cap x) in
        let src := skipN (in_off x) payload in
        if lenN src <? c then Panic 5
        else
          let bs := takeN c src in
          let x1 := io_consume x c in
          let tot := wadd64 (total_out_ s) c in
          let x2 := {| avail_in := avail_in x1; in_off := in_off x1; cap := cap x1 - c;
                       produced := produced x1 ++ bs; total_arg := tot |} in
          let s1 := upd_out s (next_out s) (storage s) (storage_size s) (tiny s) (avail_out_ s) tot in
          meta_loop f payload (upd_core s1 (initialized s1) (sstate_ s1) (wsub32 (rem_meta s1) c)) x2
      else
        let c := N.min (rem_meta s) 16 in
        let src := skipN (in_off x) payload in
        if lenN src <? c then Panic 6
        else
          let bs := takeN c src in
          let s1 := upd_out s (NoTiny 0) (storage s) (storage_size s) (write_list (tiny s) 0 bs) c (total_out_ s) in
          meta_loop f payload (upd_core s1 (initialized s1) (sstate_ s1) (wsub32 (rem_meta s1) c)) (io_consume x c)
    end
  end.

Definition process_metadata (s : st) (payload : list N) (x : io) : outcome (bool * st * io) :=
  if 2 ^ 24 <? avail_in x then Done (false, s, x)
  else
    let s1 := if sstate_eqb (sstate_ s) SProcessing
              then upd_core s (initialized s) SMetaHead (w32 (avail_in x)) else s in
    if negb (sstate_eqb (sstate_ s1) SMetaHead) && negb (sstate_eqb (sstate_ s1) SMetaBody)
    then Done (false, s1, x)
    else meta_loop 64 payload s1 x.

(* ---- compress_stream ---- *)
Definition loop_fuel (n : N) : nat := N.to_nat (n / 256 + 64).

(* [tot0] is the value of the caller's total_out cell before the call: the Rust API takes an
   in/out Option that the caller keeps across calls; the C ABI seeds it with the encoder's
   running total (as found it seeded 0 - see compress_stream_c_asfound) *)
Definition compress_stream_from (tot0 : N) (s0 : st) (op : opk) (payload : list N) (offered capn : N)
  : outcome (bool * st * io) :=
  let s := ensure_initialized s0 in
  let x := {| avail_in := offered; in_off := 0; cap := capn; produced := []; total_arg := tot0 |} in
  if negb (rem_meta s =? U32MAX) && (negb (offered =? rem_meta s) || negb (opk_eqb op OpMeta))
  then Done (false, s, x)
  else if opk_eqb op OpMeta then process_metadata (update_size_hint s 0) payload x
  else if sstate_eqb (sstate_ s) SMetaHead || sstate_eqb (sstate_ s) SMetaBody then Done (false, s, x)
  else if negb (sstate_eqb (sstate_ s) SProcessing) && negb (offered =? 0) then Done (false, s, x)
  else if ((quality s =? 0) || (quality s =? 1))%Z && negb (catable s) && negb (magic s) then fast_loop (loop_fuel offered) op s x
  else stream_loop (loop_fuel offered) op s x.

Definition compress_stream := compress_stream_from 0.
(* BrotliEncoderCompressStream of the C ABI: *total_out after the call *)
Definition c_reported_total (s0 : st) (op : opk) (payload : list N) (offered capn : N) : option N :=
  match compress_stream_from (total_out_ s0) s0 op payload offered capn with
  | Done (_, _, x) => Some (total_arg x) | _ => None end.
Definition c_reported_total_asfound (s0 : st) (op : opk) (payload : list N) (offered capn : N) : option N :=
  match compress_stream_from 0 s0 op payload offered capn with
  | Done (_, _, x) => Some (total_arg x) | _ => None end.

(* ---- take_output / queries ---- *)
Definition has_more_output (s : st) : bool := negb (avail_out_ s =? 0).
Definition is_finished (s : st) : bool := sstate_eqb (sstate_ s) SFinished && negb (has_more_output s).

Definition take_output (s : st) (size : N) : outcome (list N * st) :=
  let consumed := if size =? 0 then avail_out_ s else N.min size (avail_out_ s) in
  if consumed =? 0 then Done ([], s)
  else
    let v := view s in
    if lenN v <? consumed then Panic 7
    else
      let s1 := upd_out s (no_incr (next_out s) consumed) (storage s) (storage_size s) (tiny s)
                        (avail_out_ s - consumed) (wadd64 (total_out_ s) consumed) in
      Done (takeN consumed v, check_flush_complete s1).

(* ---- well-formedness of a recorded answer (hypotheses of the theorems; validated on every
        recorded answer by the correspondence driver) ---- *)
Definition answer_ok (a : answer) : bool :=
  (a_lbb a <? 16) && (a_lb a <? 2 ^ 16) && (a_lfp a <=? a_ipos a) && (a_lpp a <=? a_ipos a)
  && (if a_fast a then lenN (a_out a) <=? 2 * a_block a + 503
      else (if a_is_last a || a_force_flush a then (a_lfp a =? a_ipos a) && (a_lpp a =? a_ipos a) else true)
           && (match a_out a with [] => true | _ => nextout_eqb (a_no a) (NoDyn 0) end)).
