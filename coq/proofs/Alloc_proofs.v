(* C09 proofs: the ownership protocol of model/Alloc.v keeps the ledger of spec/Ledger.v equal to
   "blocks held in the fields + what the environment holds", so destroying the instance
   returns everything. *)
From Coq Require Import NArith Arith PeanoNat List Bool Permutation Lia.
From V Require Import spec.Ledger gen.GenAlloc model.Alloc.
Import ListNotations.
Open Scope N_scope.

(* ====================================================================== ledger lemmas *)

Definition wf_ledger (l : ledger) : Prop :=
  NoDup (map bid (live l)) /\ Forall (fun b => bid b < next l) (live l).

(* the ledger holds exactly the multiset M, nothing went wrong so far *)
Definition LInv (l : ledger) (M : list blk) : Prop :=
  wf_ledger l /\ faults l = [] /\ Permutation (live l) M.

Lemma LInv_perm l M M' : LInv l M -> Permutation M M' -> LInv l M'.
Proof. intros (Hw & Hf & Hp) H. repeat split; try apply Hw; auto. eapply perm_trans; eauto. Qed.

Lemma LInv_empty : LInv empty_ledger [].
Proof. repeat split; cbn; constructor. Qed.

Lemma LInv_returned l : LInv l [] -> returned l.
Proof. intros (_ & Hf & Hp). split; auto. apply Permutation_nil. apply Permutation_sym; auto. Qed.

Lemma find_id_fresh n bs : Forall (fun b => bid b < n) bs -> find_id n bs = None.
Proof.
  induction 1 as [|b bs Hb _ IH]; cbn; auto.
  unfold has_id. destruct (N.eqb_spec (bid b) n); [lia|]. exact IH.
Qed.

Lemma find_id_in b bs : NoDup (map bid bs) -> In b bs -> find_id (bid b) bs = Some b.
Proof.
  induction bs as [|a bs IH]; cbn; intros Hnd Hin; [tauto|].
  inversion Hnd as [|? ? Hn Hnd']; subst. unfold has_id.
  destruct Hin as [->|Hin].
  - rewrite N.eqb_refl. reflexivity.
  - destruct (N.eqb_spec (bid a) (bid b)) as [E|E].
    + exfalso. apply Hn. rewrite E. apply in_map. exact Hin.
    + apply IH; auto.
Qed.

Lemma remove_id_notin id bs : ~ In id (map bid bs) -> remove_id id bs = bs.
Proof.
  induction bs as [|a bs IH]; cbn; intros H; auto. unfold has_id.
  destruct (N.eqb_spec (bid a) id) as [E|E]; cbn.
  - exfalso. apply H. left. exact E.
  - f_equal. apply IH. intros Hin. apply H. right. exact Hin.
Qed.

Lemma Permutation_filter' {A} (p : A -> bool) l l' :
  Permutation l l' -> Permutation (filter p l) (filter p l').
Proof.
  induction 1; cbn; auto.
  - destruct (p x); auto.
  - destruct (p x), (p y); auto. apply perm_swap.
  - eapply perm_trans; eauto.
Qed.

Lemma NoDup_filter_map id bs : NoDup (map bid bs) -> NoDup (map bid (remove_id id bs)).
Proof.
  induction bs as [|a bs IH]; cbn; intros H; auto.
  inversion H as [|? ? Hn Hnd]; subst.
  destruct (negb (has_id id a)); cbn; [|apply IH; exact Hnd].
  constructor; [|apply IH; exact Hnd]. intros Hin. apply Hn.
  apply in_map_iff in Hin. destruct Hin as (x & Hx & Hin). apply in_map_iff. exists x. split; auto.
  apply filter_In in Hin. tauto.
Qed.

Lemma LInv_alloc l M inst ty len bs l' :
  LInv l M -> l_alloc inst ty len l = (bs, l') ->
  LInv l' (bs ++ M) /\ Forall (fun b => binst b = inst) bs /\ (len <> 0 -> bs <> []) /\
  total_len bs = len.
Proof.
  intros ((Hnd & Hlt) & Hf & Hp) H. unfold l_alloc in H.
  destruct (N.eqb_spec len 0) as [E|E].
  - inversion H; subst. cbn. repeat split; auto; try congruence.
  - inversion H; subst; clear H. unfold l_alloc_id. rewrite (find_id_fresh _ _ Hlt).
    split; [|split; [|split]].
    + split; [split|split]; cbn [live faults next app].
      * cbn [map bid]. constructor; auto. intros Hin. apply in_map_iff in Hin.
        destruct Hin as (x & Hx & Hin).
        rewrite Forall_forall in Hlt. specialize (Hlt x Hin). cbn in Hlt. lia.
      * constructor; [cbn [bid]; lia|]. eapply Forall_impl; [|exact Hlt]. cbn beta. intros; lia.
      * exact Hf.
      * apply perm_skip. exact Hp.
    + constructor; auto.
    + discriminate.
    + cbn [total_len fold_right blen]. lia.
Qed.

Lemma LInv_free1 l M b by_inst :
  LInv l (b :: M) -> binst b = by_inst -> LInv (l_free_id (bid b) by_inst l) M.
Proof.
  intros ((Hnd & Hlt) & Hf & Hp) Hb.
  assert (Hin : In b (live l)).
  { eapply Permutation_in; [apply Permutation_sym; exact Hp|]. left. reflexivity. }
  unfold l_free_id. rewrite (find_id_in _ _ Hnd Hin). rewrite Hb, N.eqb_refl.
  assert (Hnd2 : NoDup (map bid (b :: M))).
  { eapply Permutation_NoDup; [|exact Hnd]. apply Permutation_map. exact Hp. }
  repeat split; cbn; auto.
  - apply NoDup_filter_map. exact Hnd.
  - unfold remove_id. rewrite Forall_forall in *. intros x Hx. apply filter_In in Hx. apply Hlt. tauto.
  - eapply perm_trans; [apply (Permutation_filter' _ _ _ Hp)|].
    cbn. unfold has_id at 1. rewrite N.eqb_refl. cbn.
    inversion Hnd2; subst. fold (remove_id (bid b) M). rewrite remove_id_notin; auto.
Qed.

Lemma LInv_free l bs M by_inst :
  LInv l (bs ++ M) -> Forall (fun b => binst b = by_inst) bs -> LInv (l_free by_inst bs l) M.
Proof.
  revert l. induction bs as [|b bs IH]; intros l H Hall; cbn in *; auto.
  inversion Hall; subst. apply IH; auto. apply LInv_free1; auto.
Qed.

Lemma l_drop_nil l : l_drop [] l = l.
Proof. reflexivity. Qed.

(* ====================================================================== slots *)

Lemma fld_eqb_spec a b : reflect (a = b) (fld_eqb a b).
Proof. destruct a, b; cbn; constructor; congruence. Qed.

Lemma NoDup_all_flds : NoDup all_flds.
Proof.
  unfold all_flds. repeat (constructor; [cbn; intuition discriminate|]). constructor.
Qed.
Lemma In_all_flds f : In f all_flds.
Proof. destruct f; cbn; tauto. Qed.

Definition mask (s : fld -> list blk) (f : fld) : fld -> list blk :=
  fun g => if fld_eqb g f then [] else s g.

Lemma flat_map_mask_notin s f fs : ~ In f fs -> flat_map (mask s f) fs = flat_map s fs.
Proof.
  induction fs as [|g fs IH]; cbn; intros H; auto.
  rewrite IH by tauto. unfold mask.
  destruct (fld_eqb_spec g f); [subst; tauto|reflexivity].
Qed.

Lemma flat_map_extract s f fs : NoDup fs -> In f fs ->
  Permutation (flat_map s fs) (s f ++ flat_map (mask s f) fs).
Proof.
  induction fs as [|g fs IH]; intros Hnd Hin; [destruct Hin|].
  inversion Hnd as [|? ? Hn Hnd']; subst. cbn.
  destruct (fld_eqb_spec g f) as [->|Hne].
  - unfold mask at 1. destruct (fld_eqb_spec f f); [|congruence]. cbn.
    rewrite flat_map_mask_notin; auto.
  - destruct Hin as [E|Hin]; [congruence|].
    unfold mask at 1. destruct (fld_eqb_spec g f); [congruence|].
    eapply perm_trans; [apply Permutation_app_head; apply IH; auto|].
    apply Permutation_app_swap_app.
Qed.

Definition rest (e : enc) (f : fld) : list blk := flat_map (mask (slot e) f) all_flds.

Lemma owned_split e f : Permutation (owned e) (slot e f ++ rest e f).
Proof. apply flat_map_extract; [apply NoDup_all_flds|apply In_all_flds]. Qed.

Lemma rest_upd e f v : rest (upd e f v) f = rest e f.
Proof.
  unfold rest. apply flat_map_ext. intros g. unfold mask, upd. cbn.
  destruct (fld_eqb g f); reflexivity.
Qed.

Lemma owned_upd e f v : Permutation (owned (upd e f v)) (v ++ rest e f).
Proof.
  eapply perm_trans; [apply (owned_split _ f)|]. rewrite rest_upd.
  unfold upd at 1. cbn. destruct (fld_eqb_spec f f); [|congruence]. apply Permutation_refl.
Qed.

Lemma slot_upd_same e f v : slot (upd e f v) f = v.
Proof. cbn. destruct (fld_eqb_spec f f); congruence. Qed.
Lemma slot_upd_other e f g v : g <> f -> slot (upd e f v) g = slot e g.
Proof. intros H. cbn. destruct (fld_eqb_spec g f); congruence. Qed.

(* ====================================================================== the state invariant *)

(* what every statement maintains: the ledger is exactly the fields plus the frame X
   (blocks the environment holds), and the fields hold blocks of the state's own instance *)
Definition Inv0 (e : enc) (l : ledger) (X : list blk) : Prop :=
  LInv l (owned e ++ X) /\ Forall (fun b => binst b = m8 e) (owned e).

Lemma Forall_perm {A} (P : A -> Prop) l l' : Permutation l l' -> Forall P l -> Forall P l'.
Proof. intros Hp H. rewrite Forall_forall in *. intros x Hx. apply H. eapply Permutation_in; [apply Permutation_sym|]; eauto. Qed.

Lemma own_slot e f : Forall (fun b => binst b = m8 e) (owned e) -> Forall (fun b => binst b = m8 e) (slot e f).
Proof.
  intros H. apply (Forall_perm _ _ _ (owned_split e f)) in H. apply Forall_app in H. tauto.
Qed.
Lemma own_rest e f : Forall (fun b => binst b = m8 e) (owned e) -> Forall (fun b => binst b = m8 e) (rest e f).
Proof.
  intros H. apply (Forall_perm _ _ _ (owned_split e f)) in H. apply Forall_app in H. tauto.
Qed.

(* replacing the content of slot f (old content `slot e f`) by v, given the ledger moved
   from (old ++ R ++ X) to (v ++ R ++ X) *)
Lemma Inv0_upd e l l' X f v :
  Inv0 e l X -> LInv l' (v ++ rest e f ++ X) -> Forall (fun b => binst b = m8 e) v ->
  Inv0 (upd e f v) l' X.
Proof.
  intros (Hl & Ho) Hl' Hv. split.
  - eapply LInv_perm; [exact Hl'|]. rewrite app_assoc. apply Permutation_app_tail.
    apply Permutation_sym. apply owned_upd.
  - change (m8 (upd e f v)) with (m8 e).
    eapply Forall_perm; [apply Permutation_sym; apply owned_upd|].
    apply Forall_app. split; auto. apply own_rest; auto.
Qed.

Lemma Inv0_ledger_split e l X f : Inv0 e l X -> LInv l (slot e f ++ rest e f ++ X).
Proof.
  intros (Hl & _). eapply LInv_perm; [exact Hl|]. rewrite app_assoc. apply Permutation_app_tail.
  apply owned_split.
Qed.

Lemma alloc_to_ok e l X f ty len :
  Inv0 e l X -> slot e f = [] ->
  exists bs l', alloc_to f ty len (e, l) = (upd e f bs, l') /\ Inv0 (upd e f bs) l' X /\
                (len <> 0 -> bs <> []) /\ total_len bs = len.
Proof.
  intros H Hs. unfold alloc_to, alloc_from. cbn [fst].
  destruct (l_alloc (m8 e) ty len l) as [bs l1] eqn:E.
  exists bs, l1. rewrite Hs, l_drop_nil. split; [reflexivity|].
  pose proof (Inv0_ledger_split _ _ _ f H) as Hl. rewrite Hs in Hl. cbn [app] in Hl.
  destruct (LInv_alloc _ _ _ _ _ _ _ Hl E) as (Hl1 & Hown & Hne & Hlen).
  split; [eapply Inv0_upd; eauto|split; auto].
Qed.

Lemma alloc_many_ok inst shapes : forall l M bs l',
  LInv l M -> alloc_many inst shapes l = (bs, l') ->
  LInv l' (bs ++ M) /\ Forall (fun b => binst b = inst) bs.
Proof.
  induction shapes as [|[ty len] r IH]; intros l M bs l' Hl H; cbn in H.
  - inversion H; subst. split; auto.
  - destruct (l_alloc inst ty len l) as [b l1] eqn:E1.
    destruct (alloc_many inst r l1) as [bs2 l2] eqn:E2. inversion H; subst; clear H.
    destruct (LInv_alloc _ _ _ _ _ _ _ Hl E1) as (Hl1 & Hown & _ & _).
    destruct (IH _ _ _ _ Hl1 E2) as (Hl2 & Hown2). split.
    + eapply LInv_perm; [exact Hl2|]. rewrite <- app_assoc.
      rewrite app_assoc. rewrite app_assoc. apply Permutation_app_tail. apply Permutation_app_comm.
    + apply Forall_app; auto.
Qed.

Lemma alloc_blocks_from_ok e l X f shapes :
  Inv0 e l X -> slot e f = [] ->
  exists bs l', alloc_blocks_from (m8 e) f shapes (e, l) = (upd e f bs, l') /\ Inv0 (upd e f bs) l' X.
Proof.
  intros H Hs. unfold alloc_blocks_from.
  destruct (alloc_many (m8 e) shapes l) as [bs l1] eqn:E.
  exists bs, l1. rewrite Hs, l_drop_nil. split; [reflexivity|].
  pose proof (Inv0_ledger_split _ _ _ f H) as Hl. rewrite Hs in Hl. cbn [app] in Hl.
  destruct (alloc_many_ok _ _ _ _ _ _ Hl E) as (Hl1 & Hown).
  eapply Inv0_upd; eauto.
Qed.

Lemma free_slot_ok e l X f :
  Inv0 e l X -> exists l', free_slot f (e, l) = (upd e f [], l') /\ Inv0 (upd e f []) l' X.
Proof.
  intros H. unfold free_slot. eexists. split; [reflexivity|].
  eapply Inv0_upd; eauto. cbn [app].
  apply LInv_free; [apply Inv0_ledger_split; auto|]. apply own_slot. apply H.
Qed.

Lemma Inv0_perm e e' l X :
  Inv0 e l X -> m8 e' = m8 e -> Permutation (owned e) (owned e') -> Inv0 e' l X.
Proof.
  intros (Hl & Ho) Hm Hp. split.
  - eapply LInv_perm; [exact Hl|]. apply Permutation_app_tail. exact Hp.
  - rewrite Hm. eapply Forall_perm; eauto.
Qed.

Lemma move_ok e l X f g :
  Inv0 e l X -> f <> g -> slot e g = [] ->
  move f g (e, l) = (upd (upd e f []) g (slot e f), l) /\ Inv0 (upd (upd e f []) g (slot e f)) l X.
Proof.
  intros H Hne Hg. unfold move. rewrite Hg, l_drop_nil. split; [reflexivity|].
  eapply Inv0_perm; [exact H|reflexivity|].
  set (e1 := upd e f []).
  assert (H1 : Permutation (owned e1) (rest e f)) by (apply (owned_upd e f [])).
  assert (H2 : Permutation (owned e1) (rest e1 g)).
  { eapply perm_trans; [apply (owned_split e1 g)|]. unfold e1. rewrite slot_upd_other by congruence.
    rewrite Hg. apply Permutation_refl. }
  eapply perm_trans; [apply (owned_split e f)|].
  eapply perm_trans; [|apply Permutation_sym; apply owned_upd].
  apply Permutation_app_head.
  eapply perm_trans; [apply Permutation_sym; exact H1|exact H2].
Qed.

(* ====================================================================== phases *)

Definition loc_empty (e : enc) : Prop := slot e LNew = [] /\ slot e LCmd = [] /\ slot e LLit = [].
Definition sync (e : enc) : Prop := slot e FCommandBuf = [] -> slot e FLiteralBuf = [].
(* between two operations *)
Definition Inv (e : enc) (l : ledger) (X : list blk) : Prop := Inv0 e l X /\ loc_empty e /\ sync e.

Lemma isnil_true {A} (l : list A) : isnil l = true -> l = [].
Proof. destruct l; cbn; congruence. Qed.
Lemma isnil_false {A} (l : list A) : isnil l = false -> l <> [].
Proof. destruct l; cbn; congruence. Qed.

Lemma Inv0_scalars e e' l X : Inv0 e l X -> m8 e' = m8 e -> slot e' = slot e -> Inv0 e' l X.
Proof.
  intros H Hm Hs. eapply Inv0_perm; eauto. unfold owned. rewrite Hs. apply Permutation_refl.
Qed.

Ltac slots := cbn [slot upd fld_eqb m8 fst snd with_params with_hp with_sizes].

Section Phases.
Variable temps : callee -> N -> list tstep.
Hypothesis temporaries_balanced : forall c k, bal 0 (temps c k) = true.

Lemma remove_nth_perm {A} (l : list A) : forall k b, nth_error l k = Some b -> Permutation l (b :: remove_nth k l).
Proof.
  induction l as [|a l IH]; intros [|k] b H; cbn in *; try discriminate.
  - inversion H; subst. apply Permutation_refl.
  - eapply perm_trans; [apply perm_skip; apply IH; exact H|]. apply perm_swap.
Qed.
Lemma remove_nth_length {A} (l : list A) : forall k, (k < length l)%nat -> length (remove_nth k l) = pred (length l).
Proof.
  induction l as [|a l IH]; intros [|k] H; cbn in *; try lia.
  rewrite IH by lia. destruct l; cbn in *; lia.
Qed.

Lemma run_temps_ok inst tr : forall open l M,
  LInv l (open ++ M) -> Forall (fun b => binst b = inst) open -> bal (length open) tr = true ->
  exists l', run_temps inst tr open l = ([], l') /\ LInv l' M.
Proof.
  induction tr as [|[ty len|k] tr IH]; intros open l M Hl Hown Hb; cbn in *.
  - apply Nat.eqb_eq in Hb. destruct open; [|discriminate]. exists l. split; auto.
  - destruct (l_alloc inst ty len l) as [b l1] eqn:E.
    destruct (LInv_alloc _ _ _ _ _ _ _ Hl E) as (Hl1 & Hown1 & Hne & Hlen).
    apply (IH (b ++ open) l1 M).
    + rewrite <- app_assoc. exact Hl1.
    + apply Forall_app; auto.
    + rewrite app_length. unfold l_alloc in E. destruct (len =? 0); inversion E; subst; cbn; exact Hb.
  - apply andb_prop in Hb. destruct Hb as (Hk & Hb). apply Nat.ltb_lt in Hk.
    destruct (nth_error open k) as [b|] eqn:En; [|apply nth_error_None in En; lia].
    pose proof (remove_nth_perm _ _ _ En) as Hp.
    apply (IH (remove_nth k open) _ M).
    + cbn. apply LInv_free1.
      * eapply LInv_perm; [exact Hl|]. apply (Permutation_app_tail M) in Hp. exact Hp.
      * rewrite Forall_forall in Hown. apply Hown. eapply nth_error_In; eauto.
    + eapply Forall_perm in Hown; [|exact Hp]. inversion Hown; auto.
    + rewrite remove_nth_length by auto. exact Hb.
Qed.

Definition slots_same_except (e e' : enc) (fs : list fld) : Prop :=
  forall g, ~ In g fs -> slot e' g = slot e g.

(* the phases that may also run inside compress_stream_fast: they touch at most storage_ and
   large_table_ and need nothing about the locals *)
Lemma simple_phase_ok ph e l X :
  Inv0 e l X ->
  match ph with PhSizeHint _ | PhStorage _ | PhTable _ | PhTemp _ _ => True | _ => False end ->
  let s' := do_phase temps ph (e, l) in
  Inv0 (fst s') (snd s') X /\ m8 (fst s') = m8 e /\ quality (fst s') = quality e /\
  slots_same_except e (fst s') [FStorage; FLargeTable].
Proof.
  intros H Hph.
  assert (Hid : Inv0 e l X /\ m8 e = m8 e /\ quality e = quality e /\
                slots_same_except e e [FStorage; FLargeTable]).
  { split; [exact H|split; [reflexivity|split; [reflexivity|intros g _; reflexivity]]]. }
  destruct ph; try (exfalso; exact Hph); cbn [do_phase fst snd].
  - (* size hint *)
    destruct (size_hint e =? 0); cbn [fst snd]; [|exact Hid].
    split; [eapply Inv0_scalars; [exact H|reflexivity|reflexivity]|].
    split; [reflexivity|split; [reflexivity|intros g _; reflexivity]].
  - (* storage *)
    destruct (storage_size e <? size); [|exact Hid].
    destruct (free_slot_ok _ _ _ FStorage H) as (l1 & E1 & H1). rewrite E1.
    destruct (alloc_to_ok _ _ _ FStorage U8 size H1 (slot_upd_same _ _ _)) as (bs & l2 & E2 & H2 & _).
    rewrite E2. cbn [fst snd].
    split; [eapply Inv0_scalars; [exact H2|reflexivity|reflexivity]|].
    split; [reflexivity|split; [reflexivity|]].
    intros g Hg. slots. cbn in Hg. destruct g; cbn; auto; tauto.
  - (* hash table *)
    destruct (htsize <=? 1024); [exact Hid|].
    destruct (total_len (slot e FLargeTable) <? htsize); [|exact Hid].
    destruct (free_slot_ok _ _ _ FLargeTable H) as (l1 & E1 & H1). rewrite E1.
    destruct (alloc_to_ok _ _ _ FLargeTable I32 htsize H1 (slot_upd_same _ _ _)) as (bs & l2 & E2 & H2 & _).
    rewrite E2. cbn [fst snd].
    split; [exact H2|split; [reflexivity|split; [reflexivity|]]].
    intros g Hg. slots. cbn in Hg. destruct g; cbn; auto; tauto.
  - (* back end temporaries *)
    destruct H as (Hl & Ho).
    destruct (run_temps_ok (m8 e) (temps c k) [] l (owned e ++ X) Hl (Forall_nil _)
                (temporaries_balanced c k)) as (l' & E & Hl').
    rewrite E. cbn [fst snd]. rewrite l_drop_nil.
    split; [split; assumption|split; [reflexivity|split; [reflexivity|intros g _; reflexivity]]].
Qed.

Lemma mkInv e e' l' X :
  Inv0 e' l' X -> slot e' LNew = [] -> slot e' LCmd = [] -> slot e' LLit = [] -> sync e' ->
  m8 e' = m8 e -> Inv e' l' X /\ m8 e' = m8 e.
Proof. intros. split; [split; [assumption|split; [split; [|split]|]]|]; assumption. Qed.

Lemma phase_ok ph e l X :
  Inv e l X ->
  let s' := do_phase temps ph (e, l) in
  Inv (fst s') (snd s') X /\ m8 (fst s') = m8 e.
Proof.
  intros (H & (HN & HC & HL) & Hsync).
  assert (Hid : Inv e l X /\ m8 e = m8 e).
  { apply mkInv; auto. }
  assert (Hsimple : match ph with PhSizeHint _ | PhStorage _ | PhTable _ | PhTemp _ _ => True | _ => False end ->
                    let s' := do_phase temps ph (e, l) in Inv (fst s') (snd s') X /\ m8 (fst s') = m8 e).
  { intros Hph. destruct (simple_phase_ok ph e l X H Hph) as (H' & Hm & _ & Hsame).
    cbv zeta. apply mkInv; auto.
    - rewrite Hsame; auto; cbn; intuition discriminate.
    - rewrite Hsame; auto; cbn; intuition discriminate.
    - rewrite Hsame; auto; cbn; intuition discriminate.
    - intros Hc. rewrite Hsame in Hc by (cbn; intuition discriminate).
      rewrite Hsame by (cbn; intuition discriminate). auto. }
  destruct ph; try (apply Hsimple; exact I); clear Hsimple; cbn [do_phase fst snd].
  - (* ring buffer *)
    destruct (alloc_to_ok _ _ _ LNew U8 (2 + buflen + 7) H HN) as (bs & l1 & E1 & H1 & _).
    rewrite E1.
    destruct (isnil (slot e FRing)) eqn:Er.
    + apply isnil_true in Er.
      destruct (move_ok _ _ X LNew FRing H1) as (E2 & H2); [discriminate|slots; exact Er|].
      rewrite E2. cbn [fst snd]. apply mkInv; [exact H2|slots; auto ..|reflexivity];
        try (unfold sync; slots; exact Hsync).
    + destruct (free_slot_ok _ _ _ FRing H1) as (l2 & E2 & H2). rewrite E2.
      destruct (move_ok _ _ X LNew FRing H2) as (E3 & H3); [discriminate|slots; reflexivity|].
      rewrite E3. cbn [fst snd]. apply mkInv; [exact H3|slots; auto ..|reflexivity];
        try (unfold sync; slots; exact Hsync).
  - (* command buffer *)
    destruct (cmd_alloc_size e <? newsize); [|exact Hid].
    destruct (alloc_to_ok _ _ _ LNew ECmd (newsize + extra) H HN) as (bs & l1 & E1 & H1 & _).
    rewrite E1.
    destruct (isnil (slot e FCommands)) eqn:Er.
    + apply isnil_true in Er.
      destruct (move_ok _ _ X LNew FCommands H1) as (E2 & H2); [discriminate|slots; exact Er|].
      rewrite E2. cbn [fst snd].
      apply mkInv; [eapply Inv0_scalars; [exact H2|reflexivity|reflexivity]|slots; auto ..|reflexivity];
        try (unfold sync; slots; exact Hsync).
    + destruct (free_slot_ok _ _ _ FCommands H1) as (l2 & E2 & H2). rewrite E2.
      destruct (move_ok _ _ X LNew FCommands H2) as (E3 & H3); [discriminate|slots; reflexivity|].
      rewrite E3. cbn [fst snd].
      apply mkInv; [eapply Inv0_scalars; [exact H3|reflexivity|reflexivity]|slots; auto ..|reflexivity];
        try (unfold sync; slots; exact Hsync).
  - (* hasher *)
    destruct (isnil (slot e FHasher)) eqn:Eh; [|exact Hid].
    apply isnil_true in Eh.
    destruct (alloc_blocks_from_ok _ _ X FHasher
                (hasher_blocks (choose_hasher (quality e) (q9_5 e) (size_hint e) (lgwin e) (hp e)) (lgwin e)) H Eh)
      as (bs & l1 & E1 & H1).
    rewrite E1. cbn [fst snd].
    apply mkInv; [eapply Inv0_scalars; [exact H1|reflexivity|reflexivity]|slots; auto ..|reflexivity];
      try (unfold sync; slots; exact Hsync).
  - (* quality 1 buffers *)
    destruct ((quality e =? 1) && isnil (slot e FCommandBuf)) eqn:Eg; [|exact Hid].
    apply andb_prop in Eg. destruct Eg as (_ & Ec). apply isnil_true in Ec.
    destruct (alloc_to_ok _ _ _ FCommandBuf U32 two17 H Ec) as (bs & l1 & E1 & H1 & Hne & _).
    rewrite E1.
    destruct (alloc_to_ok _ _ X FLiteralBuf U8 two17 H1) as (bs2 & l2 & E2 & H2 & _).
    { slots. apply Hsync. exact Ec. }
    rewrite E2. cbn [fst snd].
    apply mkInv; [exact H2|slots; auto ..|reflexivity].
    unfold sync. slots. intros Hc. exfalso.
    apply Hne; [vm_compute; discriminate|exact Hc].
Qed.

Lemma do_phases_ok phs : forall e l X,
  Inv e l X -> let s' := do_phases temps phs (e, l) in Inv (fst s') (snd s') X /\ m8 (fst s') = m8 e.
Proof.
  induction phs as [|ph phs IH]; intros e l X H; cbn.
  - split; auto.
  - destruct (phase_ok ph e l X H) as (H1 & Hm).
    destruct (do_phase temps ph (e, l)) as [e1 l1]. cbn [fst snd] in *.
    destruct (IH e1 l1 X H1) as (H2 & Hm2). unfold do_phases in H2, Hm2.
    split; [exact H2|]. rewrite Hm2. exact Hm.
Qed.

(* ---------------------------------------------------------------- compress_stream_fast *)

(* inside compress_stream_fast the locals LCmd / LLit hold the two-pass buffers *)
Definition InvF (e : enc) (l : ledger) (X : list blk) : Prop :=
  Inv0 e l X /\ slot e LNew = [] /\ sync e.

Lemma total_len_two17 bs : total_len bs = two17 -> bs <> [].
Proof. intros H E. subst. vm_compute in H. discriminate. Qed.

Lemma fast_prologue_ok n e l X :
  Inv e l X -> let s' := fast_prologue n (e, l) in InvF (fst s') (snd s') X /\ m8 (fst s') = m8 e.
Proof.
  intros (H & (HN & HC & HL) & Hsync). unfold fast_prologue. cbn [fst snd].
  destruct (quality e =? 1); [|cbn [fst snd]; split; [split; [exact H|split; assumption]|reflexivity]].
  assert (Hmoves : forall e1 l1, Inv0 e1 l1 X -> slot e1 LNew = [] -> slot e1 LCmd = [] -> slot e1 LLit = [] ->
            m8 e1 = m8 e ->
            let s' := move FLiteralBuf LLit (move FCommandBuf LCmd (e1, l1)) in
            InvF (fst s') (snd s') X /\ m8 (fst s') = m8 e).
  { intros e1 l1 H1 HN1 HC1 HL1 Hm1.
    destruct (move_ok _ _ X FCommandBuf LCmd H1) as (E2 & H2); [discriminate|exact HC1|].
    rewrite E2.
    destruct (move_ok _ _ X FLiteralBuf LLit H2) as (E3 & H3); [discriminate|slots; exact HL1|].
    rewrite E3. cbn [fst snd]. split; [|exact Hm1].
    split; [exact H3|split; [slots; exact HN1|]]. unfold sync. slots. reflexivity. }
  destruct (isnil (slot e FCommandBuf) && (n =? two17)) eqn:Eg.
  - apply andb_prop in Eg. destruct Eg as (Ec & _). apply isnil_true in Ec.
    destruct (alloc_to_ok _ _ _ FCommandBuf U32 two17 H Ec) as (bs & l1 & E1 & H1 & Hne & _).
    rewrite E1.
    destruct (alloc_to_ok _ _ X FLiteralBuf U8 two17 H1) as (bs2 & l2 & E2 & H2 & _).
    { slots. apply Hsync. exact Ec. }
    rewrite E2. cbn [fst snd].
    assert (Enn : isnil (slot (upd (upd e FCommandBuf bs) FLiteralBuf bs2) FCommandBuf) = false).
    { slots. destruct bs; [exfalso; apply Hne; [vm_compute; discriminate|reflexivity]|reflexivity]. }
    rewrite Enn. apply Hmoves; auto.
  - cbn [fst snd]. destruct (isnil (slot e FCommandBuf)) eqn:Ec.
    + apply isnil_true in Ec.
      destruct (alloc_to_ok _ _ _ LCmd U32 n H HC) as (bs & l1 & E1 & H1 & _). rewrite E1.
      destruct (alloc_to_ok _ _ X LLit U8 n H1) as (bs2 & l2 & E2 & H2 & _); [slots; exact HL|].
      rewrite E2. cbn [fst snd]. split; [|reflexivity].
      split; [exact H2|split; [slots; exact HN|]]. unfold sync. slots. exact Hsync.
    + apply Hmoves; auto.
Qed.

Lemma fphases_ok phs : forall e l X,
  InvF e l X ->
  let s' := do_phases temps (map of_fphase phs) (e, l) in
  InvF (fst s') (snd s') X /\ m8 (fst s') = m8 e.
Proof.
  induction phs as [|p phs IH]; intros e l X H; cbn [map do_phases fold_left].
  - split; auto.
  - destruct H as (H0 & HN & Hsync).
    assert (Hp : match of_fphase p with PhSizeHint _ | PhStorage _ | PhTable _ | PhTemp _ _ => True | _ => False end)
      by (destruct p; exact I).
    destruct (simple_phase_ok (of_fphase p) e l X H0 Hp) as (H1 & Hm & _ & Hsame).
    destruct (do_phase temps (of_fphase p) (e, l)) as [e1 l1]. cbn [fst snd] in *.
    assert (HF : InvF e1 l1 X).
    { split; [exact H1|split].
      - rewrite Hsame; auto; cbn; intuition discriminate.
      - intros Hc. rewrite Hsame in Hc by (cbn; intuition discriminate).
        rewrite Hsame by (cbn; intuition discriminate). auto. }
    destruct (IH e1 l1 X HF) as (H2 & Hm2). unfold do_phases in H2, Hm2.
    split; [exact H2|]. rewrite Hm2. exact Hm.
Qed.

Lemma fast_epilogue_ok e l X :
  InvF e l X -> let s' := fast_epilogue (e, l) in Inv (fst s') (snd s') X /\ m8 (fst s') = m8 e.
Proof.
  intros (H & HN & Hsync). unfold fast_epilogue. cbn [fst snd].
  destruct ((total_len (slot e LCmd) =? two17) && isnil (slot e FCommandBuf)) eqn:Eg.
  - apply andb_prop in Eg. destruct Eg as (Elen & Ec). apply isnil_true in Ec. apply N.eqb_eq in Elen.
    destruct (move_ok _ _ X LCmd FCommandBuf H) as (E1 & H1); [discriminate|exact Ec|]. rewrite E1.
    destruct (move_ok _ _ X LLit FLiteralBuf H1) as (E2 & H2); [discriminate|slots; apply Hsync; exact Ec|].
    rewrite E2. cbn [fst snd]. apply mkInv; [exact H2|slots; auto ..|reflexivity].
    unfold sync. slots. intros Hc. exfalso. exact (total_len_two17 _ Elen Hc).
  - destruct (free_slot_ok _ _ X LCmd H) as (l1 & E1 & H1). rewrite E1.
    destruct (free_slot_ok _ _ X LLit H1) as (l2 & E2 & H2). rewrite E2. cbn [fst snd].
    apply mkInv; [exact H2|slots; auto ..|reflexivity]; try (unfold sync; slots; exact Hsync).
Qed.

Lemma stream_fast_ok n phs e l X :
  Inv e l X -> let s' := stream_fast temps n phs (e, l) in Inv (fst s') (snd s') X /\ m8 (fst s') = m8 e.
Proof.
  intros H. unfold stream_fast. cbn [fst].
  destruct ((quality e =? 0) || (quality e =? 1)); [|cbn [fst snd]; split; auto].
  destruct (fast_prologue_ok n e l X H) as (H1 & Hm1).
  destruct (fast_prologue n (e, l)) as [e1 l1]. cbn [fst snd] in *.
  destruct (fphases_ok phs e1 l1 X H1) as (H2 & Hm2).
  destruct (do_phases temps (map of_fphase phs) (e1, l1)) as [e2 l2]. cbn [fst snd] in *.
  destruct (fast_epilogue_ok e2 l2 X H2) as (H3 & Hm3). split; [exact H3|]. congruence.
Qed.

(* ---------------------------------------------------------------- the operations *)

Lemma ensure_init_slots s : slot (fst (ensure_init s)) = slot (fst s) /\ m8 (fst (ensure_init s)) = m8 (fst s)
  /\ snd (ensure_init s) = snd s.
Proof. destruct s as [e l]. unfold ensure_init. destruct (initialized e); cbn; auto. Qed.

Lemma Inv_scalars e e' l X : Inv e l X -> m8 e' = m8 e -> slot e' = slot e -> Inv e' l X.
Proof.
  intros (H & (HN & HC & HL) & Hs) Hm Hsl. split; [eapply Inv0_scalars; eauto|].
  unfold loc_empty, sync. rewrite Hsl. auto.
Qed.

Lemma ensure_init_ok e l X :
  Inv e l X -> let s' := ensure_init (e, l) in Inv (fst s') (snd s') X /\ m8 (fst s') = m8 e.
Proof.
  intros H. destruct (ensure_init_slots (e, l)) as (Hs & Hm & Hl). cbv zeta. rewrite Hl.
  split; [eapply Inv_scalars; eauto|exact Hm].
Qed.

Lemma hasher_setup_ok0 e l X :
  Inv0 e l X -> let s' := do_phase temps PhHasherSetup (e, l) in
  Inv0 (fst s') (snd s') X /\ m8 (fst s') = m8 e /\ slots_same_except e (fst s') [FHasher].
Proof.
  intros H. cbn [do_phase fst snd].
  destruct (isnil (slot e FHasher)) eqn:Eh.
  - apply isnil_true in Eh.
    destruct (alloc_blocks_from_ok _ _ X FHasher
                (hasher_blocks (choose_hasher (quality e) (q9_5 e) (size_hint e) (lgwin e) (hp e)) (lgwin e)) H Eh)
      as (bs & l1 & E1 & H1).
    rewrite E1. cbn [fst snd].
    split; [eapply Inv0_scalars; [exact H1|reflexivity|reflexivity]|split; [reflexivity|]].
    intros g Hg. slots. cbn in Hg. destruct g; cbn; auto; tauto.
  - cbn [fst snd]. split; [exact H|split; [reflexivity|intros g _; reflexivity]].
Qed.

Lemma drop_slot_nil_ok e l X f :
  Inv0 e l X -> slot e f = [] -> drop_slot f (e, l) = (upd e f [], l) /\ Inv0 (upd e f []) l X.
Proof.
  intros H Hs. unfold drop_slot. rewrite Hs, l_drop_nil. split; [reflexivity|].
  eapply Inv0_perm; [exact H|reflexivity|].
  eapply perm_trans; [apply (owned_split e f)|]. rewrite Hs.
  apply Permutation_sym. apply (owned_upd e f []).
Qed.

Lemma set_dict_ok dbg size oshapes rings e l X :
  Inv e l X ->
  let s' := set_dict temps (current dbg) size (m8 e) oshapes rings (e, l) in
  Inv (fst s') (snd s') X /\ m8 (fst s') = m8 e.
Proof.
  intros (H & (HN & HC & HL) & Hsync). unfold set_dict.
  destruct (alloc_blocks_from_ok _ _ X LNew oshapes H HN) as (bs & l0 & E0 & H0). rewrite E0.
  change (v_dict_frees_old (current dbg)) with true. change (v_debug (current dbg)) with dbg.
  change (v_dict_destroys_orig (current dbg)) with true.
  change (v_dict_installs_first (current dbg)) with true.
  change (v_dict_ignores_one_byte (current dbg)) with false.
  change (v_dict_cut_discards (current dbg)) with true.
  change (v_dict_cut_frees (current dbg)) with true.
  cbn [fst snd andb]. rewrite slot_upd_same.
  destruct (free_slot_ok _ _ X FHasher H0) as (l1 & E1 & H1). rewrite E1.
  destruct (move_ok _ _ X LNew FHasher H1) as (E2 & H2); [discriminate|slots; reflexivity|]. rewrite E2.
  revert H2. slots. set (e2 := upd (upd (upd (upd e LNew bs) FHasher []) LNew []) FHasher bs). intros H2.
  assert (I2 : Inv e2 l1 X).
  { split; [exact H2|split; [repeat split; unfold e2; slots; auto|]]. unfold sync, e2. slots. exact Hsync. }
  destruct (ensure_init_ok e2 l1 X I2) as (I3 & Hm3).
  destruct (ensure_init (e2, l1)) as [e3 l3]. cbn [fst snd] in *.
  assert (Hm3' : m8 e3 = m8 e) by (rewrite Hm3; reflexivity).
  rewrite orb_false_r.
  destruct ((size =? 0) || (quality e3 =? 0) || (quality e3 =? 1)).
  { (* the dictionary is ignored; the supplied hasher already belongs to the state *)
    destruct I3 as (H3 & (HN3 & HC3 & HL3) & Hs3).
    destruct (drop_slot_nil_ok e3 l3 X LNew H3 HN3) as (Ed & Hd). rewrite Ed. cbn [fst snd].
    apply mkInv; [eapply Inv0_scalars; [exact Hd|reflexivity|reflexivity]|slots; auto ..|exact Hm3'];
      try (unfold sync; slots; exact Hs3). }
  (* the state after a possible cut of the dictionary to the window *)
  assert (Hcut : forall c : bool,
            let s3c := if c then free_slot FHasher (e3, l3) else (e3, l3) in
            Inv (fst s3c) (snd s3c) X /\ m8 (fst s3c) = m8 e).
  { intros [|]; cbv zeta; [|split; [exact I3|exact Hm3']].
    destruct I3 as (H3 & (HN3 & HC3 & HL3) & Hs3).
    destruct (free_slot_ok _ _ X FHasher H3) as (l3' & E3' & H3'). rewrite E3'. cbn [fst snd].
    apply mkInv; [exact H3'|slots; auto ..|exact Hm3']; try (unfold sync; slots; exact Hs3). }
  rewrite !andb_true_r.
  set (cut := (2 ^ lgwin e3 - 16 <? size) && negb (isnil bs)).
  specialize (Hcut cut). cbv zeta in Hcut.
  destruct (if cut then free_slot FHasher (e3, l3) else (e3, l3)) as [e3c l3c] eqn:E3c.
  cbn [fst snd] in Hcut. destruct Hcut as (I3c & Hm3c).
  destruct (do_phases_ok (map PhRingInit rings) e3c l3c X I3c) as (I4 & Hm4).
  destruct (do_phases temps (map PhRingInit rings) (e3c, l3c)) as [e4 l4]. cbn [fst snd] in *.
  assert (Hm4' : m8 e4 = m8 e) by congruence.
  destruct (dbg || negb (negb (isnil bs) && negb cut)) eqn:Ed; [|split; [exact I4|exact Hm4']].
  destruct I4 as (H4 & (HN4 & HC4 & HL4) & Hs4).
  destruct (negb (isnil bs) && negb cut) eqn:Eb.
  - (* a precomputed hasher was supplied and kept: rebuild, compare, destroy the original *)
    destruct (move_ok _ _ X FHasher LNew H4) as (E5 & H5); [discriminate|exact HN4|]. rewrite E5.
    destruct (hasher_setup_ok0 _ _ X H5) as (H6 & Hm6 & Hsame6).
    destruct (do_phase temps PhHasherSetup (upd (upd e4 FHasher []) LNew (slot e4 FHasher), l4)) as [e6 l6].
    cbn [fst snd] in *.
    destruct (free_slot_ok _ _ X LNew H6) as (l7 & E7 & H7). rewrite E7. cbn [fst snd].
    apply mkInv; [exact H7|slots; try reflexivity ..|].
    + rewrite Hsame6 by (cbn; intuition discriminate). slots. exact HC4.
    + rewrite Hsame6 by (cbn; intuition discriminate). slots. exact HL4.
    + unfold sync. slots. rewrite !Hsame6 by (cbn; intuition discriminate). slots. exact Hs4.
    + slots. rewrite Hm6. slots. exact Hm4'.
  - destruct (phase_ok PhHasherSetup e4 l4 X) as (I6 & Hm6).
    { split; [exact H4|split; [repeat split; assumption|exact Hs4]]. }
    split; [exact I6|]. rewrite Hm6. exact Hm4'.
Qed.

(* the model's long-lived fields are exactly the allocator-backed fields of the struct *)
Lemma model_covers_state_fields : alloc_state_fields = [0; 1; 2; 3; 4; 5; 6].
Proof. reflexivity. Qed.

Lemma cleanup_ok dbg e l X :
  Inv e l X -> let s' := cleanup (current dbg) (e, l) in
  Inv (fst s') (snd s') X /\ m8 (fst s') = m8 e /\ owned (fst s') = [].
Proof.
  intros (H & (HN & HC & HL) & Hsync). unfold cleanup.
  change (v_destroy_cleans (current dbg)) with true.
  change (v_cleanup_fields (current dbg))
    with [FStorage; FCommands; FRing; FHasher; FLargeTable; FCommandBuf; FLiteralBuf].
  cbn [fold_left].
  destruct (free_slot_ok _ _ X FStorage H) as (l1 & E1 & H1). rewrite E1.
  destruct (free_slot_ok _ _ X FCommands H1) as (l2 & E2 & H2). rewrite E2.
  destruct (free_slot_ok _ _ X FRing H2) as (l3 & E3 & H3). rewrite E3.
  destruct (free_slot_ok _ _ X FHasher H3) as (l4 & E4 & H4). rewrite E4.
  destruct (free_slot_ok _ _ X FLargeTable H4) as (l5 & E5 & H5). rewrite E5.
  destruct (free_slot_ok _ _ X FCommandBuf H5) as (l6 & E6 & H6). rewrite E6.
  destruct (free_slot_ok _ _ X FLiteralBuf H6) as (l7 & E7 & H7). rewrite E7.
  cbn [fst snd]. split; [|split; [reflexivity|]].
  - split; [exact H7|split; [repeat split; slots; assumption|]]. unfold sync. slots. reflexivity.
  - unfold owned. cbn [flat_map all_flds]. slots. rewrite HN, HC, HL. reflexivity.
Qed.

(* what a history may contain for the theorem about the current code: a precomputed hasher
   (OSetDict) must have been built through the allocator the state owns - which is what
   CompressMulti does with clone_with_alloc - and OInstallHasher only occurs as the first
   step of the one-shot entry point, treated separately *)
Definition good_op (m : N) (o : op) : Prop :=
  match o with
  | OSetDict _ oinst _ _ => oinst = m
  | OInstallHasher _ _ => False
  | _ => True
  end.

Lemma run_op_ok dbg o e l X :
  Inv e l X -> good_op (m8 e) o ->
  let s' := run_op temps (current dbg) o (e, l) in Inv (fst s') (snd s') X /\ m8 (fst s') = m8 e.
Proof.
  intros H Hg. destruct o; cbn [run_op fst snd].
  - split; [|unfold set_param; destruct (initialized e); [reflexivity|destruct p; reflexivity]].
    eapply Inv_scalars; [exact H| |]; unfold set_param; destruct (initialized e); try reflexivity;
      destruct p; reflexivity.
  - cbn in Hg. subst oinst. apply set_dict_ok. exact H.
  - destruct Hg.
  - destruct (ensure_init_ok e l X H) as (H1 & Hm1).
    destruct (ensure_init (e, l)) as [e1 l1]. cbn [fst snd] in *.
    destruct (do_phases_ok phs e1 l1 X H1) as (H2 & Hm2). split; [exact H2|congruence].
  - destruct (ensure_init_ok e l X H) as (H1 & Hm1).
    destruct (ensure_init (e, l)) as [e1 l1]. cbn [fst snd] in *.
    destruct (stream_fast_ok buf_size phs e1 l1 X H1) as (H2 & Hm2). split; [exact H2|congruence].
  - split; [exact H|reflexivity].
  - destruct (cleanup_ok dbg e l X H) as (H1 & Hm1 & _). split; assumption.
Qed.

Lemma run_ok dbg h : forall e l X,
  Inv e l X -> Forall (good_op (m8 e)) h ->
  let s' := run temps (current dbg) h (e, l) in Inv (fst s') (snd s') X /\ m8 (fst s') = m8 e.
Proof.
  induction h as [|o h IH]; intros e l X H Hg; cbn [run fold_left].
  - split; [exact H|reflexivity].
  - inversion Hg as [|? ? Ho Hh]; subst.
    destruct (run_op_ok dbg o e l X H Ho) as (H1 & Hm1).
    destruct (run_op temps (current dbg) o (e, l)) as [e1 l1]. cbn [fst snd] in *.
    rewrite <- Hm1 in Hh. destruct (IH e1 l1 X H1 Hh) as (H2 & Hm2). unfold run in H2, Hm2.
    split; [exact H2|congruence].
Qed.

Lemma Inv_new inst l X : LInv l X -> Inv (new_enc inst) l X.
Proof.
  intros H. split; [split; [exact H|constructor]|split; [repeat split|intros _; reflexivity]].
Qed.

(* the life of one encoder state whose owner destroys it: the ledger is back to the frame *)
Lemma instance_life_ok dbg inst h l X :
  LInv l X -> Forall (good_op inst) h ->
  LInv (instance_life temps (current dbg) inst h true l) X.
Proof.
  intros Hl Hg. unfold instance_life.
  destruct (run_ok dbg h (new_enc inst) l X (Inv_new inst l X Hl) Hg) as (H1 & _).
  destruct (run temps (current dbg) h (new_enc inst, l)) as [e1 l1]. cbn [fst snd] in *.
  destruct (cleanup_ok dbg e1 l1 X H1) as (H2 & _ & Ho).
  destruct (cleanup (current dbg) (e1, l1)) as [e2 l2]. cbn [fst snd] in *.
  unfold drop_enc. cbn [fst snd]. rewrite Ho, l_drop_nil.
  destruct H2 as ((Hl2 & _) & _). rewrite Ho in Hl2. exact Hl2.
Qed.

End Phases.

(* ====================================================================== entry points *)

Section EntryPoints.
Variable temps : callee -> N -> list tstep.
Hypothesis temporaries_balanced : forall c k, bal 0 (temps c k) = true.

Lemma run_app ver a b s : run temps ver (a ++ b) s = run temps ver b (run temps ver a s).
Proof. unfold run. apply fold_left_app. Qed.

Theorem instance_returns dbg inst h :
  Forall (good_op inst) h ->
  returned (instance_life temps (current dbg) inst h true empty_ledger).
Proof.
  intros Hg. apply LInv_returned.
  apply (instance_life_ok temps temporaries_balanced dbg inst h empty_ledger [] LInv_empty Hg).
Qed.

Theorem writer_returns dbg q w calls :
  Forall (good_op 0) calls -> returned (writer_life temps (current dbg) q w calls).
Proof.
  intros Hg. unfold writer_life. change (v_writer_drop_destroys (current dbg)) with true.
  apply instance_returns. repeat (constructor; [exact I|]). exact Hg.
Qed.

Theorem reader_returns dbg q w calls :
  Forall (good_op 0) calls -> returned (reader_life temps (current dbg) q w calls).
Proof.
  intros Hg. unfold reader_life. change (v_reader_drop_destroys (current dbg)) with true.
  apply instance_returns. repeat (constructor; [exact I|]). exact Hg.
Qed.

Theorem copy_returns dbg params dict calls x :
  Forall (good_op 0) (params ++ dict ++ calls) ->
  returned (copy_life temps (current dbg) params dict calls x).
Proof.
  intros Hg. unfold copy_life.
  assert (E : copy_exit_destroys (current dbg) x = true) by (destruct x; reflexivity).
  rewrite E. apply instance_returns; exact Hg.
Qed.

(* the one-shot entry point: its first step installs the quality-10 hasher *)
Lemma install_hasher_ok dbg shapes e l X :
  Inv e l X -> slot e FHasher = [] ->
  let s' := run_op temps (current dbg) (OInstallHasher (m8 e) shapes) (e, l) in
  Inv (fst s') (snd s') X /\ m8 (fst s') = m8 e.
Proof.
  intros (H & (HN & HC & HL) & Hs) Hh. cbn [run_op].
  destruct (alloc_blocks_from_ok _ _ X FHasher shapes H Hh) as (bs & l1 & E & H1). rewrite E.
  cbn [fst snd]. apply mkInv; [exact H1|slots; auto ..|reflexivity]; try (unfold sync; slots; exact Hs).
Qed.

Theorem oneshot_returns dbg q w trivial calls :
  Forall (good_op 0) calls ->
  returned (oneshot_life temps (current dbg) q w trivial calls).
Proof.
  intros Hg. unfold oneshot_life. destruct trivial; [split; reflexivity|].
  change (v_oneshot_own_alloc (current dbg)) with true.
  change (v_oneshot_destroys (current dbg)) with true. cbv iota.
  destruct (q =? 10).
  - apply LInv_returned. unfold instance_life. rewrite run_app.
    set (sh := hasher_blocks (choose_hasher 10 true 0 22 default_hp) 22).
    change (run temps (current dbg) [OInstallHasher 0 sh] (new_enc 0, empty_ledger))
      with (run_op temps (current dbg) (OInstallHasher (m8 (new_enc 0)) sh) (new_enc 0, empty_ledger)).
    destruct (install_hasher_ok dbg sh (new_enc 0) empty_ledger [] (Inv_new 0 _ _ LInv_empty) eq_refl)
      as (H1 & Hm1).
    destruct (run_op temps (current dbg) (OInstallHasher (m8 (new_enc 0)) sh) (new_enc 0, empty_ledger))
      as [e1 l1].
    cbn [fst snd m8 new_enc] in *.
    assert (Hg' : Forall (good_op (m8 e1)) (OSetParam PQuality 9 :: OSetParam PLgwin w :: calls)).
    { rewrite Hm1. repeat (constructor; [exact I|]). exact Hg. }
    destruct (run_ok temps temporaries_balanced dbg _ e1 l1 [] H1 Hg') as (H2 & _).
    destruct (run temps (current dbg) (OSetParam PQuality 9 :: OSetParam PLgwin w :: calls) (e1, l1))
      as [e2 l2]. cbn [fst snd] in *.
    destruct (cleanup_ok dbg e2 l2 [] H2) as (H3 & _ & Ho).
    destruct (cleanup (current dbg) (e2, l2)) as [e3 l3]. cbn [fst snd] in *.
    unfold drop_enc. cbn [fst snd]. rewrite Ho, l_drop_nil.
    destruct H3 as ((Hl3 & _) & _). rewrite Ho in Hl3. exact Hl3.
  - cbn [app]. apply instance_returns. repeat (constructor; [exact I|]). exact Hg.
Qed.

(* ---------------------------------------------------------------- multi-threaded *)

Fixpoint good_threads (i : N) (ts : list thread_spec) : Prop :=
  match ts with
  | [] => True
  | t :: r => Forall (good_op i) (t_params t ++ t_calls t) /\ good_threads (i + 1) r
  end.

Lemma compress_part_ok dbg i sh t l X :
  LInv l X -> Forall (good_op i) (t_params t ++ t_calls t) ->
  let r := compress_part temps (current dbg) i sh t l in
  LInv (snd r) (fst r ++ X) /\ Forall (fun b => binst b = i) (fst r).
Proof.
  intros Hl Hg. unfold compress_part.
  change (v_clone_same_alloc (current dbg)) with true. change (v_part_destroys (current dbg)) with true.
  change (v_part_error_frees_chunk (current dbg)) with true. cbv iota.
  destruct (l_alloc i U8 (t_max t) l) as [chunk l1] eqn:E.
  destruct (LInv_alloc _ _ _ _ _ _ _ Hl E) as (Hl1 & Hown & _ & _).
  assert (Hg' : Forall (good_op i)
                  (t_params t ++ (if i =? 0 then [] else [OSetDict (t_dict t) i sh (t_rings t)]) ++ t_calls t)).
  { apply Forall_app in Hg. destruct Hg as (Hp & Hc). apply Forall_app. split; auto.
    apply Forall_app. split; auto. destruct (i =? 0); constructor; [reflexivity|constructor]. }
  pose proof (instance_life_ok temps temporaries_balanced dbg i _ l1 (chunk ++ X) Hl1 Hg') as Hl2.
  destruct (t_ok t); cbn [fst snd].
  - split; assumption.
  - split; [|constructor]. cbn [app]. apply LInv_free; assumption.
Qed.

Lemma run_threads_ok dbg sh ts : forall i l X,
  LInv l X -> good_threads i ts ->
  let r := run_threads temps (current dbg) sh i ts l in
  LInv (snd r) (flat_map snd (fst r) ++ X) /\
  Forall (fun c => Forall (fun b => binst b = fst c) (snd c)) (fst r).
Proof.
  induction ts as [|t ts IH]; intros i l X Hl Hg; cbn [run_threads].
  - cbn. split; [exact Hl|constructor].
  - destruct Hg as (Hg1 & Hg2).
    destruct (compress_part_ok dbg i sh t l X Hl Hg1) as (Hl1 & Hown1).
    destruct (compress_part temps (current dbg) i sh t l) as [c l1]. cbn [fst snd] in *.
    destruct (IH (i + 1) l1 (c ++ X) Hl1 Hg2) as (Hl2 & Hown2).
    destruct (run_threads temps (current dbg) sh (i + 1) ts l1) as [cs l2]. cbn [fst snd flat_map] in *.
    split.
    + eapply LInv_perm; [exact Hl2|]. rewrite !app_assoc. apply Permutation_app_tail.
      apply Permutation_app_comm.
    + constructor; assumption.
Qed.

Lemma stitch_ok cs : forall l X,
  LInv l (flat_map snd cs ++ X) ->
  Forall (fun c => Forall (fun b => binst b = fst c) (snd c)) cs ->
  LInv (stitch (fun i => i) cs l) X.
Proof.
  induction cs as [|c cs IH]; intros l X Hl Hown; cbn [stitch fold_left flat_map] in *.
  - exact Hl.
  - inversion Hown as [|? ? Hc Hcs]; subst. apply IH; [|exact Hcs].
    apply LInv_free; [|exact Hc]. rewrite <- app_assoc in Hl. exact Hl.
Qed.

Lemma multi_life_ok dbg sh ts l X :
  LInv l X -> good_threads 0 ts -> LInv (multi_life temps (current dbg) sh ts l) X.
Proof.
  intros Hl Hg. unfold multi_life.
  destruct (run_threads_ok dbg sh ts 0 l X Hl Hg) as (Hl1 & Hown).
  destruct (run_threads temps (current dbg) sh 0 ts l) as [cs l1]. cbn [fst snd] in *.
  change (v_stitch_same_alloc (current dbg)) with true. cbv iota.
  apply stitch_ok; assumption.
Qed.

Theorem multi_returns dbg sh ts :
  good_threads 0 ts -> returned (multi_life temps (current dbg) sh ts empty_ledger).
Proof. intros Hg. apply LInv_returned. apply multi_life_ok; [apply LInv_empty|exact Hg]. Qed.

Theorem multi_slice_returns dbg sh n ts :
  good_threads 0 ts -> returned (multi_slice_life temps (current dbg) sh n ts).
Proof.
  intros Hg. unfold multi_slice_life.
  destruct (l_alloc 0 U8 n empty_ledger) as [inp l0] eqn:E.
  destruct (LInv_alloc _ _ _ _ _ _ _ LInv_empty E) as (Hl0 & Hown & _ & _).
  change (v_slice_frees_input (current dbg)) with true. change (v_multi_restores_input (current dbg)) with true.
  cbn [negb]. rewrite andb_false_r. cbv iota.
  apply LInv_returned. apply LInv_free; [|exact Hown].
  apply multi_life_ok; [|exact Hg]. exact Hl0.
Qed.

(* a job that cannot be joined: everything except that job's own chunk is returned *)
Lemma remove_nth_none {A} (l : list A) : forall k, nth_error l k = None -> remove_nth k l = l.
Proof.
  induction l as [|a l IH]; intros [|k] H; cbn in *; try reflexivity; try discriminate.
  f_equal. apply IH. exact H.
Qed.

Theorem join_failure_loses_only_own_chunk dbg sh ts k :
  good_threads 0 ts ->
  let l := multi_life_joinfail temps (current dbg) sh ts k in
  faults l = [] /\ Permutation (live l) (lost_chunk temps (current dbg) sh ts k).
Proof.
  intros Hg. unfold multi_life_joinfail, lost_chunk.
  change (v_join_failure_continues (current dbg)) with true.
  change (v_stitch_same_alloc (current dbg)) with true. cbv iota.
  destruct (run_threads_ok dbg sh ts 0 empty_ledger [] LInv_empty Hg) as (Hl1 & Hown).
  destruct (run_threads temps (current dbg) sh 0 ts empty_ledger) as [cs l1]. cbn [fst snd] in *.
  rewrite app_nil_r in Hl1.
  destruct (nth_error cs k) as [c|] eqn:En.
  - pose proof (remove_nth_perm _ _ _ En) as Hp.
    assert (Hl2 : LInv l1 (flat_map snd (remove_nth k cs) ++ snd c)).
    { eapply LInv_perm; [exact Hl1|].
      eapply perm_trans; [apply (Permutation_flat_map snd Hp)|]. cbn [flat_map].
      apply Permutation_app_comm. }
    assert (Hown2 : Forall (fun c => Forall (fun b => binst b = fst c) (snd c)) (remove_nth k cs)).
    { eapply Forall_perm in Hown; [|exact Hp]. inversion Hown; assumption. }
    destruct (stitch_ok _ _ _ Hl2 Hown2) as (_ & Hf & Hpm). split; assumption.
  - rewrite (remove_nth_none _ _ En).
    assert (Hl2 : LInv l1 (flat_map snd cs ++ [])) by (rewrite app_nil_r; exact Hl1).
    destruct (stitch_ok _ _ _ Hl2 Hown) as (_ & Hf & Hpm). split; assumption.
Qed.

(* ---------------------------------------------------------------- C ABI *)

Theorem ffi_returns dbg custom state_size h :
  Forall (good_op 0) h -> returned (ffi_life temps (current dbg) custom state_size h).
Proof.
  intros Hg. unfold ffi_life. change (v_ffi_destroy_cleans (current dbg)) with true.
  destruct custom.
  - destruct (l_alloc 0 EState state_size empty_ledger) as [sb l0] eqn:E.
    destruct (LInv_alloc _ _ _ _ _ _ _ LInv_empty E) as (Hl0 & Hown & _ & _).
    apply LInv_returned. apply LInv_free; [|exact Hown].
    apply (instance_life_ok temps temporaries_balanced dbg 0 h l0 (sb ++ []) Hl0 Hg).
  - apply LInv_returned. cbn [l_free fold_left].
    apply (instance_life_ok temps temporaries_balanced dbg 0 h empty_ledger [] LInv_empty Hg).
Qed.

Theorem ffi_single_returns dbg params call :
  Forall (good_op 0) (params ++ [call]) -> returned (ffi_single_life temps (current dbg) params call).
Proof. intros Hg. unfold ffi_single_life. change (v_single_cleans (current dbg)) with true. apply instance_returns. exact Hg. Qed.

End EntryPoints.

(* all wrappers / entry points at once *)
Definition wrappers_stmt : Prop :=
  forall temps : callee -> N -> list tstep, (forall c k, bal 0 (temps c k) = true) ->
  forall dbg : bool,
    (forall q w calls, Forall (good_op 0) calls -> returned (writer_life temps (current dbg) q w calls)) /\
    (forall q w calls, Forall (good_op 0) calls -> returned (reader_life temps (current dbg) q w calls)) /\
    (forall params dict calls x, Forall (good_op 0) (params ++ dict ++ calls) ->
        returned (copy_life temps (current dbg) params dict calls x)) /\
    (forall q w trivial calls, Forall (good_op 0) calls -> returned (oneshot_life temps (current dbg) q w trivial calls)) /\
    (forall sh ts, good_threads 0 ts -> returned (multi_life temps (current dbg) sh ts empty_ledger)) /\
    (forall sh n ts, good_threads 0 ts -> returned (multi_slice_life temps (current dbg) sh n ts)) /\
    (forall custom state_size h, Forall (good_op 0) h -> returned (ffi_life temps (current dbg) custom state_size h)) /\
    (forall params call, Forall (good_op 0) (params ++ [call]) -> returned (ffi_single_life temps (current dbg) params call)).

Lemma wrappers_return : wrappers_stmt.
Proof.
  intros temps Hb dbg.
  split; [intros; apply writer_returns; assumption|].
  split; [intros; apply reader_returns; assumption|].
  split; [intros; apply copy_returns; assumption|].
  split; [intros; apply oneshot_returns; assumption|].
  split; [intros; apply multi_returns; assumption|].
  split; [intros; apply multi_slice_returns; assumption|].
  split; [intros; apply ffi_returns; assumption|].
  intros; apply ffi_single_returns; assumption.
Qed.

(* ====================================================================== witnesses *)

Definition no_temps : callee -> N -> list tstep := fun _ _ => [].
Lemma no_temps_balanced : forall c k, bal 0 (no_temps c k) = true.
Proof. reflexivity. Qed.

Lemma not_returned l : returnedb l = false -> ~ returned l.
Proof. intros H R. apply returnedb_spec in R. congruence. Qed.

(* one small stream: 35 bytes arrive, one meta-block is written (quality 5, lgwin 18) *)
Definition small_stream : list op :=
  [OSetParam PQuality 5; OSetParam PLgwin 18;
   OStream [PhSizeHint 35; PhRingInit 35; PhStorage 597; PhCommands 18 24; PhHasherSetup]].

(* the code before fix b261039: BrotliEncoderDestroyInstance (C ABI) dropped the state *)
Lemma legacy_ffi_destroy_refuted :
  ~ returned (ffi_life no_temps (legacy true) true 5624 small_stream) /\
  length (live (ffi_life no_temps (legacy true) true 5624 small_stream)) = 5%nat.
Proof. split; [apply not_returned|]; vm_compute; reflexivity. Qed.

(* before fix 4992104: the single-thread branch of BrotliEncoderCompressMulti never cleaned up *)
Lemma legacy_single_refuted :
  ~ returned (ffi_single_life no_temps (legacy true)
                [OSetParam PQuality 5; OSetParam PLgwin 18]
                (OStream [PhSizeHint 35; PhRingInit 35; PhStorage 597; PhCommands 18 24; PhHasherSetup])).
Proof. apply not_returned. vm_compute. reflexivity. Qed.

(* before fix 29febca: one-shot quality 10 allocated its hasher from the placeholder allocator
   (instance 1) and freed it through the real one (instance 0) *)
Lemma legacy_oneshot_refuted :
  let l := oneshot_life no_temps (legacy true) 10 18 false
             [OStream [PhSizeHint 3000; PhRingInit 3000; PhStorage 6527; PhCommands 1501 766; PhHasherSetup]] in
  live l = [] /\ count_faults is_foreign l = 2 /\ ~ returned l.
Proof. cbv zeta. split; [|split; [|apply not_returned]]; vm_compute; reflexivity. Qed.

(* before fix 58cb8c9: a second set_custom_dictionary overwrote the first one's hasher *)
Lemma legacy_dict_refuted :
  let l := instance_life no_temps (legacy true) 0
             [OSetParam PQuality 5; OSetParam PLgwin 18; OSetDict 100 0 [] [100]; OSetDict 100 0 [] [262144 + 65536]]
             true empty_ledger in
  length (live l) = 2%nat /\ count_faults is_dropped l = 2 /\ ~ returned l.
Proof. cbv zeta. split; [|split; [|apply not_returned]]; vm_compute; reflexivity. Qed.

(* why good_op asks for the state's own instance: a precomputed hasher built through another
   allocator is released through the wrong one, also on the current code *)
Lemma foreign_precomputed_hasher_refuted :
  let l := instance_life no_temps (current false) 0
             [OSetParam PQuality 5; OSetParam PLgwin 18; OSetDict 100 7 [(U32, 262144); (U16, 16384)] [100]]
             true empty_ledger in
  live l = [] /\ count_faults is_foreign l = 2.
Proof. cbv zeta. split; vm_compute; reflexivity. Qed.

(* before fix 2822ce4: CompressMultiSlice with an output buffer that is too small *)
Definition failing_thread : thread_spec :=
  mkthread 1000 [OSetParam PQuality 5; OSetParam PLgwin 18] 900 [900]
           [OStream [PhSizeHint 900; PhRingInit (262144 + 65536); PhStorage 2327; PhCommands 451 241; PhHasherSetup]] false.
Lemma legacy_slice_refuted :
  let l := multi_slice_life no_temps (legacy true) [] 1800 [failing_thread; failing_thread] in
  length (live l) = 1%nat /\ count_faults is_dropped l = 1 /\ ~ returned l.
Proof. cbv zeta. split; [|split; [|apply not_returned]]; vm_compute; reflexivity. Qed.

(* why the two newer release-site anchors are part of `version`: if the by-value hasher were
   stored in the state only after the `dictionary ignored` return, or if a `?` inside the copy
   loop came before the destroy call, the model leaks *)
Definition late_install (v : version) : version :=
  mkver (v_debug v) (v_cleanup_fields v) (v_destroy_cleans v) (v_dict_frees_old v) (v_dict_destroys_orig v)
        (v_ffi_destroy_cleans v) (v_single_cleans v) (v_oneshot_own_alloc v) (v_oneshot_destroys v)
        (v_writer_drop_destroys v) (v_reader_drop_destroys v) (v_copy_returns_destroy v) (v_copy_tail_destroys v)
        (v_part_destroys v) (v_part_error_frees_chunk v) (v_stitch_same_alloc v) (v_clone_same_alloc v)
        (v_slice_frees_input v) (v_multi_restores_input v) false (v_dict_ignores_one_byte v)
        (v_dict_cut_discards v) (v_dict_cut_frees v) (v_copy_err_try_destroys v) (v_copy_zero_try_destroys v)
        (v_join_failure_continues v).
Definition try_before_destroy (v : version) : version :=
  mkver (v_debug v) (v_cleanup_fields v) (v_destroy_cleans v) (v_dict_frees_old v) (v_dict_destroys_orig v)
        (v_ffi_destroy_cleans v) (v_single_cleans v) (v_oneshot_own_alloc v) (v_oneshot_destroys v)
        (v_writer_drop_destroys v) (v_reader_drop_destroys v) (v_copy_returns_destroy v) (v_copy_tail_destroys v)
        (v_part_destroys v) (v_part_error_frees_chunk v) (v_stitch_same_alloc v) (v_clone_same_alloc v)
        (v_slice_frees_input v) (v_multi_restores_input v) (v_dict_installs_first v) (v_dict_ignores_one_byte v)
        (v_dict_cut_discards v) (v_dict_cut_frees v) false (v_copy_zero_try_destroys v) (v_join_failure_continues v).

(* two jobs at quality 1 sharing a precomputed hasher: the second job ignores its dictionary *)
Definition q1_thread : thread_spec :=
  mkthread 1000 [OSetParam PQuality 1; OSetParam PLgwin 18] 2 []
           [OStreamFast 2 [FpStorage 507]] true.
Lemma late_install_refuted :
  let sh := [(U32, 8388608); (U16, 32768)] in
  returned (multi_life no_temps (current true) sh [q1_thread; q1_thread] empty_ledger) /\
  let l := multi_life no_temps (late_install (current true)) sh [q1_thread; q1_thread] empty_ledger in
  length (live l) = 2%nat /\ count_faults is_dropped l = 2.
Proof. cbv zeta. split; [apply returnedb_spec|split]; vm_compute; reflexivity. Qed.

Lemma try_before_destroy_refuted :
  returned (copy_life no_temps (current true) [] [] small_stream XWriteErrorReadPending) /\
  ~ returned (copy_life no_temps (try_before_destroy (current true)) [] [] small_stream XWriteErrorReadPending) /\
  returned (copy_life no_temps (try_before_destroy (current true)) [] [] small_stream XWriteError) /\
  returned (copy_life no_temps (try_before_destroy (current true)) [] [] small_stream XZeroWriteReadPending).
Proof.
  split; [apply returnedb_spec; vm_compute; reflexivity|split; [|split]].
  - apply not_returned. vm_compute. reflexivity.
  - apply returnedb_spec. vm_compute. reflexivity.
  - apply returnedb_spec. vm_compute. reflexivity.
Qed.

(* KNOWN CLASS (not repaired): BrotliEncoderStateStruct has no Drop impl; an owner that lets a
   raw state go without BrotliEncoderDestroyInstance leaks every buffer it holds *)
Definition KnownClass (destroyed_by_owner : bool) : Prop := destroyed_by_owner = false.

Lemma raw_drop_known_witness :
  KnownClass false /\
  ~ returned (instance_life no_temps (current true) 0 small_stream false empty_ledger).
Proof. split; [reflexivity|apply not_returned; vm_compute; reflexivity]. Qed.

(* a worker whose join fails takes its own chunk with it (the code before 176a6ae also left the
   later workers unjoined); see join_failure_loses_only_own_chunk for what is returned *)
Definition tiny_thread : thread_spec :=
  mkthread 1000 [OSetParam PQuality 5; OSetParam PLgwin 18] 900 [900]
           [OStream [PhSizeHint 900; PhRingInit (262144 + 65536); PhStorage 2327; PhCommands 451 241; PhHasherSetup]] true.
Lemma join_failure_refuted :
  ~ returned (multi_life_joinfail no_temps (current true) [] [tiny_thread; tiny_thread; tiny_thread] 1) /\
  returned (multi_life no_temps (current true) [] [tiny_thread; tiny_thread; tiny_thread] empty_ledger).
Proof. split; [apply not_returned; vm_compute; reflexivity|apply returnedb_spec; vm_compute; reflexivity]. Qed.

(* hypotheses are satisfiable by non-trivial states: a history touching every field *)
Definition busy_history : list op :=
  [OSetParam PQuality 1; OSetParam PLgwin 18; OSetParam PCatable 1;
   OStream [PhRingInit 200000];
   OStream [PhSizeHint 250000; PhRingInit (524288 + 262144); PhStorage 500527; PhQ1Bufs; PhTable 131072;
            PhTemp CFragmentTwoPass 0];
   OStream [PhStorage 600523; PhTemp CFragmentTwoPass 1]].
Definition busy_temps (c : callee) (k : N) : list tstep :=
  [TAlloc EHT 245; TAlloc U8 7; TFree 1%nat; TFree 0%nat].
Lemma busy_temps_balanced : forall c k, bal 0 (busy_temps c k) = true.
Proof. reflexivity. Qed.
Lemma busy_history_good : Forall (good_op 0) busy_history.
Proof. repeat constructor. Qed.
Lemma busy_history_nontrivial :
  let s := run busy_temps (current true) busy_history (new_enc 0, empty_ledger) in
  length (live (snd s)) = 5%nat /\ next (snd s) = 12 /\
  returnedb (drop_enc (cleanup (current true) s)) = true.
Proof. cbv zeta. repeat split; vm_compute; reflexivity. Qed.
