(* C09 proofs: the ownership protocol of model/Alloc.v keeps the ledger of spec/Ledger.v equal to
   "blocks held in the fields + what the environment holds", so destroying the instance
   returns everything. *)
From Coq Require Import NArith List Bool Permutation Lia.
From V Require Import spec.Ledger model.Alloc.
Import ListNotations.
Open Scope N_scope.

(* ====================================================================== ledger lemmas *)

Definition wf_ledger (l : ledger) : Prop :=
  NoDup (map bid (live l)) /\ Forall (fun b => bid b < next l) (live l).

(* the ledger holds exactly the multiset M, nothing went wrong so far *)
Definition LInv (l : ledger) (M : list blk) : Prop :=
  wf_ledger l /\ faults l = [] /\ Permutation (live l) M.

Lemma LInv_perm l M M' : LInv l M -> Permutation M M' -> LInv l M'.
Proof. intros (Hw & Hf & Hp) H. repeat split; try apply Hw; auto. eapply perm_trans; eauto. Qed.

Lemma LInv_empty : LInv empty_ledger [].
Proof. repeat split; cbn; constructor. Qed.

Lemma LInv_returned l : LInv l [] -> returned l.
Proof. intros (_ & Hf & Hp). split; auto. apply Permutation_nil. apply Permutation_sym; auto. Qed.

Lemma find_id_fresh n bs : Forall (fun b => bid b < n) bs -> find_id n bs = None.
Proof.
  induction 1 as [|b bs Hb _ IH]; cbn; auto.
  unfold has_id. destruct (N.eqb_spec (bid b) n); [lia|]. exact IH.
Qed.

Lemma find_id_in b bs : NoDup (map bid bs) -> In b bs -> find_id (bid b) bs = Some b.
Proof.
  induction bs as [|a bs IH]; cbn; intros Hnd Hin; [tauto|].
  inversion Hnd as [|? ? Hn Hnd']; subst. unfold has_id.
  destruct Hin as [->|Hin].
  - rewrite N.eqb_refl. reflexivity.
  - destruct (N.eqb_spec (bid a) (bid b)) as [E|E].
    + exfalso. apply Hn. rewrite E. apply in_map. exact Hin.
    + apply IH; auto.
Qed.

Lemma remove_id_notin id bs : ~ In id (map bid bs) -> remove_id id bs = bs.
Proof.
  induction bs as [|a bs IH]; cbn; intros H; auto. unfold has_id.
  destruct (N.eqb_spec (bid a) id) as [E|E]; cbn.
  - exfalso. apply H. left. exact E.
  - f_equal. apply IH. intros Hin. apply H. right. exact Hin.
Qed.

Lemma Permutation_filter' {A} (p : A -> bool) l l' :
  Permutation l l' -> Permutation (filter p l) (filter p l').
Proof.
  induction 1; cbn; auto.
  - destruct (p x); auto.
  - destruct (p x), (p y); auto. apply perm_swap.
  - eapply perm_trans; eauto.
Qed.

Lemma NoDup_filter_map id bs : NoDup (map bid bs) -> NoDup (map bid (remove_id id bs)).
Proof.
  induction bs as [|a bs IH]; cbn; intros H; auto.
  inversion H as [|? ? Hn Hnd]; subst.
  destruct (negb (has_id id a)); cbn; [|apply IH; exact Hnd].
  constructor; [|apply IH; exact Hnd]. intros Hin. apply Hn.
  apply in_map_iff in Hin. destruct Hin as (x & Hx & Hin). apply in_map_iff. exists x. split; auto.
  apply filter_In in Hin. tauto.
Qed.

Lemma LInv_alloc l M inst ty len bs l' :
  LInv l M -> l_alloc inst ty len l = (bs, l') ->
  LInv l' (bs ++ M) /\ Forall (fun b => binst b = inst) bs /\ (len <> 0 -> bs <> []) /\
  total_len bs = len.
Proof.
  intros ((Hnd & Hlt) & Hf & Hp) H. unfold l_alloc in H.
  destruct (N.eqb_spec len 0) as [E|E].
  - inversion H; subst. cbn. repeat split; auto; try congruence.
  - inversion H; subst; clear H. unfold l_alloc_id. rewrite (find_id_fresh _ _ Hlt).
    split; [|split; [|split]].
    + split; [split|split]; cbn [live faults next app].
      * cbn [map bid]. constructor; auto. intros Hin. apply in_map_iff in Hin.
        destruct Hin as (x & Hx & Hin).
        rewrite Forall_forall in Hlt. specialize (Hlt x Hin). cbn in Hlt. lia.
      * constructor; [cbn [bid]; lia|]. eapply Forall_impl; [|exact Hlt]. cbn beta. intros; lia.
      * exact Hf.
      * apply perm_skip. exact Hp.
    + constructor; auto.
    + discriminate.
    + cbn [total_len fold_right blen]. lia.
Qed.

Lemma LInv_free1 l M b by_inst :
  LInv l (b :: M) -> binst b = by_inst -> LInv (l_free_id (bid b) by_inst l) M.
Proof.
  intros ((Hnd & Hlt) & Hf & Hp) Hb.
  assert (Hin : In b (live l)).
  { eapply Permutation_in; [apply Permutation_sym; exact Hp|]. left. reflexivity. }
  unfold l_free_id. rewrite (find_id_in _ _ Hnd Hin). rewrite Hb, N.eqb_refl.
  assert (Hnd2 : NoDup (map bid (b :: M))).
  { eapply Permutation_NoDup; [|exact Hnd]. apply Permutation_map. exact Hp. }
  repeat split; cbn; auto.
  - apply NoDup_filter_map. exact Hnd.
  - unfold remove_id. rewrite Forall_forall in *. intros x Hx. apply filter_In in Hx. apply Hlt. tauto.
  - eapply perm_trans; [apply (Permutation_filter' _ _ _ Hp)|].
    cbn. unfold has_id at 1. rewrite N.eqb_refl. cbn.
    inversion Hnd2; subst. fold (remove_id (bid b) M). rewrite remove_id_notin; auto.
Qed.

Lemma LInv_free l bs M by_inst :
  LInv l (bs ++ M) -> Forall (fun b => binst b = by_inst) bs -> LInv (l_free by_inst bs l) M.
Proof.
  revert l. induction bs as [|b bs IH]; intros l H Hall; cbn in *; auto.
  inversion Hall; subst. apply IH; auto. apply LInv_free1; auto.
Qed.

Lemma l_drop_nil l : l_drop [] l = l.
Proof. reflexivity. Qed.

(* ====================================================================== slots *)

Lemma fld_eqb_spec a b : reflect (a = b) (fld_eqb a b).
Proof. destruct a, b; cbn; constructor; congruence. Qed.

Lemma NoDup_all_flds : NoDup all_flds.
Proof.
  unfold all_flds. repeat (constructor; [cbn; intuition discriminate|]). constructor.
Qed.
Lemma In_all_flds f : In f all_flds.
Proof. destruct f; cbn; tauto. Qed.

Definition mask (s : fld -> list blk) (f : fld) : fld -> list blk :=
  fun g => if fld_eqb g f then [] else s g.

Lemma flat_map_mask_notin s f fs : ~ In f fs -> flat_map (mask s f) fs = flat_map s fs.
Proof.
  induction fs as [|g fs IH]; cbn; intros H; auto.
  rewrite IH by tauto. unfold mask.
  destruct (fld_eqb_spec g f); [subst; tauto|reflexivity].
Qed.

Lemma flat_map_extract s f fs : NoDup fs -> In f fs ->
  Permutation (flat_map s fs) (s f ++ flat_map (mask s f) fs).
Proof.
  induction fs as [|g fs IH]; intros Hnd Hin; [destruct Hin|].
  inversion Hnd as [|? ? Hn Hnd']; subst. cbn.
  destruct (fld_eqb_spec g f) as [->|Hne].
  - unfold mask at 1. destruct (fld_eqb_spec f f); [|congruence]. cbn.
    rewrite flat_map_mask_notin; auto.
  - destruct Hin as [E|Hin]; [congruence|].
    unfold mask at 1. destruct (fld_eqb_spec g f); [congruence|].
    eapply perm_trans; [apply Permutation_app_head; apply IH; auto|].
    apply Permutation_app_swap_app.
Qed.

Definition rest (e : enc) (f : fld) : list blk := flat_map (mask (slot e) f) all_flds.

Lemma owned_split e f : Permutation (owned e) (slot e f ++ rest e f).
Proof. apply flat_map_extract; [apply NoDup_all_flds|apply In_all_flds]. Qed.

Lemma rest_upd e f v : rest (upd e f v) f = rest e f.
Proof.
  unfold rest. apply flat_map_ext. intros g. unfold mask, upd. cbn.
  destruct (fld_eqb g f); reflexivity.
Qed.

Lemma owned_upd e f v : Permutation (owned (upd e f v)) (v ++ rest e f).
Proof.
  eapply perm_trans; [apply (owned_split _ f)|]. rewrite rest_upd.
  unfold upd at 1. cbn. destruct (fld_eqb_spec f f); [|congruence]. apply Permutation_refl.
Qed.

Lemma slot_upd_same e f v : slot (upd e f v) f = v.
Proof. cbn. destruct (fld_eqb_spec f f); congruence. Qed.
Lemma slot_upd_other e f g v : g <> f -> slot (upd e f v) g = slot e g.
Proof. intros H. cbn. destruct (fld_eqb_spec g f); congruence. Qed.

(* ====================================================================== the state invariant *)

(* what every statement maintains: the ledger is exactly the fields plus the frame X
   (blocks the environment holds), and the fields hold blocks of the state's own instance *)
Definition Inv0 (e : enc) (l : ledger) (X : list blk) : Prop :=
  LInv l (owned e ++ X) /\ Forall (fun b => binst b = m8 e) (owned e).

Lemma Forall_perm {A} (P : A -> Prop) l l' : Permutation l l' -> Forall P l -> Forall P l'.
Proof. intros Hp H. rewrite Forall_forall in *. intros x Hx. apply H. eapply Permutation_in; [apply Permutation_sym|]; eauto. Qed.

Lemma own_slot e f : Forall (fun b => binst b = m8 e) (owned e) -> Forall (fun b => binst b = m8 e) (slot e f).
Proof.
  intros H. apply (Forall_perm _ _ _ (owned_split e f)) in H. apply Forall_app in H. tauto.
Qed.
Lemma own_rest e f : Forall (fun b => binst b = m8 e) (owned e) -> Forall (fun b => binst b = m8 e) (rest e f).
Proof.
  intros H. apply (Forall_perm _ _ _ (owned_split e f)) in H. apply Forall_app in H. tauto.
Qed.

(* replacing the content of slot f (old content `slot e f`) by v, given the ledger moved
   from (old ++ R ++ X) to (v ++ R ++ X) *)
Lemma Inv0_upd e l l' X f v :
  Inv0 e l X -> LInv l' (v ++ rest e f ++ X) -> Forall (fun b => binst b = m8 e) v ->
  Inv0 (upd e f v) l' X.
Proof.
  intros (Hl & Ho) Hl' Hv. split.
  - eapply LInv_perm; [exact Hl'|]. rewrite app_assoc. apply Permutation_app_tail.
    apply Permutation_sym. apply owned_upd.
  - change (m8 (upd e f v)) with (m8 e).
    eapply Forall_perm; [apply Permutation_sym; apply owned_upd|].
    apply Forall_app. split; auto. apply own_rest; auto.
Qed.

Lemma Inv0_ledger_split e l X f : Inv0 e l X -> LInv l (slot e f ++ rest e f ++ X).
Proof.
  intros (Hl & _). eapply LInv_perm; [exact Hl|]. rewrite app_assoc. apply Permutation_app_tail.
  apply owned_split.
Qed.

Lemma alloc_to_ok e l X f ty len :
  Inv0 e l X -> slot e f = [] ->
  exists bs l', alloc_to f ty len (e, l) = (upd e f bs, l') /\ Inv0 (upd e f bs) l' X /\
                (len <> 0 -> bs <> []) /\ total_len bs = len.
Proof.
  intros H Hs. unfold alloc_to, alloc_from. cbn [fst].
  destruct (l_alloc (m8 e) ty len l) as [bs l1] eqn:E.
  exists bs, l1. rewrite Hs, l_drop_nil. split; [reflexivity|].
  pose proof (Inv0_ledger_split _ _ _ f H) as Hl. rewrite Hs in Hl. cbn [app] in Hl.
  destruct (LInv_alloc _ _ _ _ _ _ _ Hl E) as (Hl1 & Hown & Hne & Hlen).
  split; [eapply Inv0_upd; eauto|split; auto].
Qed.

Lemma alloc_many_ok inst shapes : forall l M bs l',
  LInv l M -> alloc_many inst shapes l = (bs, l') ->
  LInv l' (bs ++ M) /\ Forall (fun b => binst b = inst) bs.
Proof.
  induction shapes as [|[ty len] r IH]; intros l M bs l' Hl H; cbn in H.
  - inversion H; subst. split; auto.
  - destruct (l_alloc inst ty len l) as [b l1] eqn:E1.
    destruct (alloc_many inst r l1) as [bs2 l2] eqn:E2. inversion H; subst; clear H.
    destruct (LInv_alloc _ _ _ _ _ _ _ Hl E1) as (Hl1 & Hown & _ & _).
    destruct (IH _ _ _ _ Hl1 E2) as (Hl2 & Hown2). split.
    + eapply LInv_perm; [exact Hl2|]. rewrite <- app_assoc.
      rewrite app_assoc. rewrite app_assoc. apply Permutation_app_tail. apply Permutation_app_comm.
    + apply Forall_app; auto.
Qed.

Lemma alloc_blocks_from_ok e l X f shapes :
  Inv0 e l X -> slot e f = [] ->
  exists bs l', alloc_blocks_from (m8 e) f shapes (e, l) = (upd e f bs, l') /\ Inv0 (upd e f bs) l' X.
Proof.
  intros H Hs. unfold alloc_blocks_from.
  destruct (alloc_many (m8 e) shapes l) as [bs l1] eqn:E.
  exists bs, l1. rewrite Hs, l_drop_nil. split; [reflexivity|].
  pose proof (Inv0_ledger_split _ _ _ f H) as Hl. rewrite Hs in Hl. cbn [app] in Hl.
  destruct (alloc_many_ok _ _ _ _ _ _ Hl E) as (Hl1 & Hown).
  eapply Inv0_upd; eauto.
Qed.

Lemma free_slot_ok e l X f :
  Inv0 e l X -> exists l', free_slot f (e, l) = (upd e f [], l') /\ Inv0 (upd e f []) l' X.
Proof.
  intros H. unfold free_slot. eexists. split; [reflexivity|].
  eapply Inv0_upd; eauto. cbn [app].
  apply LInv_free; [apply Inv0_ledger_split; auto|]. apply own_slot. apply H.
Qed.

Lemma Inv0_perm e e' l X :
  Inv0 e l X -> m8 e' = m8 e -> Permutation (owned e) (owned e') -> Inv0 e' l X.
Proof.
  intros (Hl & Ho) Hm Hp. split.
  - eapply LInv_perm; [exact Hl|]. apply Permutation_app_tail. exact Hp.
  - rewrite Hm. eapply Forall_perm; eauto.
Qed.

Lemma move_ok e l X f g :
  Inv0 e l X -> f <> g -> slot e g = [] ->
  move f g (e, l) = (upd (upd e f []) g (slot e f), l) /\ Inv0 (upd (upd e f []) g (slot e f)) l X.
Proof.
  intros H Hne Hg. unfold move. rewrite Hg, l_drop_nil. split; [reflexivity|].
  eapply Inv0_perm; [exact H|reflexivity|].
  set (e1 := upd e f []).
  assert (H1 : Permutation (owned e1) (rest e f)) by (apply (owned_upd e f [])).
  assert (H2 : Permutation (owned e1) (rest e1 g)).
  { eapply perm_trans; [apply (owned_split e1 g)|]. unfold e1. rewrite slot_upd_other by congruence.
    rewrite Hg. apply Permutation_refl. }
  eapply perm_trans; [apply (owned_split e f)|].
  eapply perm_trans; [|apply Permutation_sym; apply owned_upd].
  apply Permutation_app_head.
  eapply perm_trans; [apply Permutation_sym; exact H1|exact H2].
Qed.
