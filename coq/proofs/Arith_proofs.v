From Coq Require Import NArith ZArith List Lia Bool.
From V Require Import lib.Words lib.Finite gen.GenArith spec.RfcTables model.Arith proofs.Bitops.
Import ListNotations.
Open Scope N_scope.

(* ------------------------------------------------------------------ insert lengths *)
Definition ins_ok (n : N) : bool :=
  let c := get_insert_length_code n in
  (c <? 24) && (rfc_ins_base c <=? n) && (n <? rfc_ins_base c + 2 ^ rfc_ins_extra c)
  && (nthN kInsBase c =? rfc_ins_base c) && (nthN kInsExtra c =? rfc_ins_extra c).

Lemma ins_prefix : all_below ins_ok 22594 = true.
Proof. vm_compute. reflexivity. Qed.

Lemma ins_tail n : 22594 <= n -> n < 22594 + 2 ^ 24 -> ins_ok n = true.
Proof.
  intros H1 H2. unfold ins_ok, get_insert_length_code.
  change (nthN ins_thresholds 0) with 6. change (nthN ins_thresholds 1) with 130.
  change (nthN ins_thresholds 2) with 2114. change (nthN ins_thresholds 3) with 6210.
  change (nthN ins_thresholds 4) with 22594.
  destruct (N.ltb_spec n 6); [lia|]. destruct (N.ltb_spec n 130); [lia|].
  destruct (N.ltb_spec n 2114); [lia|]. destruct (N.ltb_spec n 6210); [lia|].
  destruct (N.ltb_spec n 22594); [lia|].
  change (nthN ins_tailcodes 2) with 23.
  change (rfc_ins_base 23) with 22594. change (rfc_ins_extra 23) with 24.
  change (nthN kInsBase 23) with 22594. change (nthN kInsExtra 23) with 24.
  change (23 <? 24) with true. change (22594 =? 22594) with true. change (24 =? 24) with true.
  rewrite !andb_true_r. cbn [andb].
  apply andb_true_iff; split; [apply N.leb_le; lia|apply N.ltb_lt; exact H2].
Qed.

Lemma ins_all n : n < 22594 + 2 ^ 24 -> ins_ok n = true.
Proof.
  intros H. destruct (N.lt_ge_cases n 22594) as [Hl|Hg].
  - exact (all_below_spec _ _ ins_prefix n Hl).
  - apply ins_tail; assumption.
Qed.

Lemma insert_code_correct n : n < 22594 + 2 ^ 24 ->
  let c := get_insert_length_code n in
  c < 24 /\ rfc_ins_base c <= n /\ n < rfc_ins_base c + 2 ^ rfc_ins_extra c
  /\ nthN kInsBase c = rfc_ins_base c /\ nthN kInsExtra c = rfc_ins_extra c.
Proof.
  intros H c. pose proof (ins_all n H) as E. unfold ins_ok in E. fold c in E.
  repeat (apply andb_true_iff in E; destruct E as [E ?]).
  repeat split; try (apply N.ltb_lt; assumption); try (apply N.leb_le; assumption); try (apply N.eqb_eq; assumption).
Qed.

(* ------------------------------------------------------------------ copy lengths *)
Definition copy_ok (n : N) : bool :=
  let c := get_copy_length_code n in
  (c <? 24) && (rfc_copy_base c <=? n) && (n <? rfc_copy_base c + 2 ^ rfc_copy_extra c)
  && (nthN kCopyBase c =? rfc_copy_base c) && (nthN kCopyExtra c =? rfc_copy_extra c).

Lemma copy_prefix : all_between copy_ok 2 2116 = true.
Proof. vm_compute. reflexivity. Qed.

Lemma copy_tail n : 2118 <= n -> n < 2118 + 2 ^ 24 -> copy_ok n = true.
Proof.
  intros H1 H2. unfold copy_ok, get_copy_length_code.
  change (nthN copy_thresholds 0) with 10. change (nthN copy_thresholds 1) with 134.
  change (nthN copy_thresholds 2) with 2118.
  destruct (N.ltb_spec n 10); [lia|]. destruct (N.ltb_spec n 134); [lia|].
  destruct (N.ltb_spec n 2118); [lia|].
  change (nthN copy_tailcodes 0) with 23.
  change (rfc_copy_base 23) with 2118. change (rfc_copy_extra 23) with 24.
  change (nthN kCopyBase 23) with 2118. change (nthN kCopyExtra 23) with 24.
  change (23 <? 24) with true. change (2118 =? 2118) with true. change (24 =? 24) with true.
  rewrite !andb_true_r. cbn [andb].
  apply andb_true_iff; split; [apply N.leb_le; lia|apply N.ltb_lt; exact H2].
Qed.

Lemma copy_code_correct n : 2 <= n -> n < 2118 + 2 ^ 24 ->
  let c := get_copy_length_code n in
  c < 24 /\ rfc_copy_base c <= n /\ n < rfc_copy_base c + 2 ^ rfc_copy_extra c
  /\ nthN kCopyBase c = rfc_copy_base c /\ nthN kCopyExtra c = rfc_copy_extra c.
Proof.
  intros H0 H c.
  assert (E : copy_ok n = true).
  { destruct (N.lt_ge_cases n 2118) as [Hl|Hg].
    - apply (all_between_spec _ _ _ copy_prefix); lia.
    - apply copy_tail; assumption. }
  unfold copy_ok in E. fold c in E.
  repeat (apply andb_true_iff in E; destruct E as [E ?]).
  repeat split; try (apply N.ltb_lt; assumption); try (apply N.leb_le; assumption); try (apply N.eqb_eq; assumption).
Qed.

(* ------------------------------------------------------------------ command cells *)
Definition cell_ok (ic cc : N) (b : bool) : bool :=
  let s := combine_length_codes ic cc b in
  (s <? 704) &&
  (let '(i', c', impl) := rfc_cell s in (i' =? ic) && (c' =? cc) && Bool.eqb impl (b && (ic <? 8) && (cc <? 16))).

Lemma cells_all : forallb (fun ic => forallb (fun cc => cell_ok ic cc true && cell_ok ic cc false) (range_nat 0 24)) (range_nat 0 24) = true.
Proof. vm_compute. reflexivity. Qed.

Lemma cell_correct ic cc b : ic < 24 -> cc < 24 ->
  let s := combine_length_codes ic cc b in
  s < 704 /\ rfc_cell s = (ic, cc, (b && (ic <? 8) && (cc <? 16))%bool).
Proof.
  intros Hi Hc s.
  pose proof cells_all as A. rewrite forallb_forall in A.
  specialize (A ic (range_nat_In 0 24 ic ltac:(lia) ltac:(cbn; lia))). rewrite forallb_forall in A.
  specialize (A cc (range_nat_In 0 24 cc ltac:(lia) ltac:(cbn; lia))).
  apply andb_true_iff in A. destruct A as [A1 A2].
  assert (E : cell_ok ic cc b = true) by (destruct b; assumption).
  unfold cell_ok in E. fold s in E. apply andb_true_iff in E. destruct E as [E1 E2].
  split; [apply N.ltb_lt; exact E1|].
  destruct (rfc_cell s) as [[i' c'] impl].
  apply andb_true_iff in E2. destruct E2 as [E2 E3]. apply andb_true_iff in E2. destruct E2 as [E2 E4].
  apply N.eqb_eq in E2. apply N.eqb_eq in E4. apply Bool.eqb_prop in E3. subst. reflexivity.
Qed.

(* ------------------------------------------------------------------ block lengths *)
Definition blen_ok (n : N) : bool :=
  let '(c, nb, e) := get_block_length_prefix_code n in
  (c <? 26) && (nb =? rfc_blen_extra c) && (e <? 2 ^ nb) && (rfc_blen_base c + e =? n).

Lemma blen_prefix : all_between blen_ok 1 16624 = true.
Proof. vm_compute. reflexivity. Qed.

Lemma blen_tail n : 16625 <= n -> n < 16625 + 2 ^ 24 -> blen_ok n = true.
Proof.
  intros H1 H2. unfold blen_ok, get_block_length_prefix_code, block_length_prefix_code.
  change (nthN blen_thresholds 0) with 177. change (nthN blen_thresholds 1) with 753.
  destruct (N.leb_spec 177 n); [|lia]. destruct (N.leb_spec 753 n); [|lia].
  change (nthN blen_starts 0) with 20.
  assert (L : blen_loop 26 n 20 = 25).
  { cbn [blen_loop].
    repeat match goal with
    | |- context [?a <? 26 - 1] => let v := eval vm_compute in (a <? 26 - 1) in change (a <? 26 - 1) with v
    | |- context [nthN kBlockLengthPrefixCode_offset ?a] =>
        let v := eval vm_compute in (nthN kBlockLengthPrefixCode_offset a) in change (nthN kBlockLengthPrefixCode_offset a) with v
    | |- context [?a + 1] => let v := eval vm_compute in (a + 1) in change (a + 1) with v
    | |- context [N.leb ?a n] => destruct (N.leb_spec a n); [|lia]
    | |- context [true && true] => cbn [andb]
    | |- context [false && _] => cbn [andb]
    end. reflexivity. }
  rewrite L.
  change (nthN kBlockLengthPrefixCode_nbits 25) with 24. change (nthN kBlockLengthPrefixCode_offset 25) with 16625.
  change (rfc_blen_extra 25) with 24. change (rfc_blen_base 25) with 16625.
  assert (W : wsub32 n 16625 = n - 16625).
  { unfold wsub32, w32. change (16625 mod 2 ^ 32) with 16625.
    replace (n + 2 ^ 32 - 16625) with ((n - 16625) + 1 * 2 ^ 32) by lia.
    rewrite N.mod_add by lia. apply N.mod_small. lia. }
  rewrite W. change (25 <? 26) with true. change (24 =? 24) with true. cbn [andb].
  apply andb_true_iff; split; [apply N.ltb_lt; lia|apply N.eqb_eq; lia].
Qed.

Lemma block_length_correct n : 1 <= n -> n < 16625 + 2 ^ 24 ->
  let '(c, nb, e) := get_block_length_prefix_code n in
  c < 26 /\ nb = rfc_blen_extra c /\ e < 2 ^ nb /\ rfc_blen_base c + e = n.
Proof.
  intros H0 H.
  assert (E : blen_ok n = true).
  { destruct (N.lt_ge_cases n 16625) as [Hl|Hg].
    - apply (all_between_spec _ _ _ blen_prefix); lia.
    - apply blen_tail; assumption. }
  unfold blen_ok in E. destruct (get_block_length_prefix_code n) as [[c nb] e].
  repeat (apply andb_true_iff in E; destruct E as [E ?]).
  repeat split; try (apply N.ltb_lt; assumption); try (apply N.eqb_eq; assumption).
Qed.
