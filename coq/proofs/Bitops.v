(* Shifts and masks on N as division, multiplication and remainder. *)
From Coq Require Import NArith Lia.
Open Scope N_scope.

Lemma land_ones_mod a k : N.land a (2 ^ k - 1) = a mod 2 ^ k.
Proof. replace (2 ^ k - 1) with (N.ones k) by (rewrite N.ones_equiv; lia). apply N.land_ones. Qed.

Lemma testbit_small b n : b < 2 ^ n -> N.testbit b n = false.
Proof.
  intros H. destruct (N.eq_dec b 0) as [->|Hb]; [apply N.bits_0|].
  apply N.bits_above_log2. apply N.log2_lt_pow2; lia.
Qed.

Lemma lor_shiftl_small a k b : b < 2 ^ k -> N.lor (N.shiftl a k) b = a * 2 ^ k + b.
Proof.
  intros Hb. rewrite <- N.shiftl_mul_pow2.
  assert (Z0 : N.land (N.shiftl a k) b = 0); [|rewrite N.add_nocarry_lxor, N.lxor_lor by exact Z0; reflexivity].
  apply N.bits_inj_0. intros n. rewrite N.land_spec.
  destruct (N.lt_ge_cases n k) as [Hlt|Hge].
  - rewrite N.shiftl_spec_low by exact Hlt. reflexivity.
  - rewrite (testbit_small b n). apply Bool.andb_false_r.
    eapply N.lt_le_trans; [exact Hb|]. apply N.pow_le_mono_r; lia.
Qed.

Lemma lor_small_shiftl a k b : b < 2 ^ k -> N.lor b (N.shiftl a k) = a * 2 ^ k + b.
Proof. intros H. rewrite N.lor_comm. apply lor_shiftl_small; exact H. Qed.
